//go:build verif

package dedup

import (
	"errors"
	"fmt"
	"runtime"
	"sort"
	"strconv"
	"strings"
	"sync"
	"sync/atomic"
	"testing"
	"time"

	"github.com/andres-erbsen/clock"
	"github.com/uber-go/tally"
	"github.com/uber/kraken/utils/verifh"
)

// C29 harness: RequestCache, IntervalTrap and Limiter of utils/dedup with clock.Mock. Every request,
// task and runner is a function that blocks until the harness releases it, so each record of a
// transcript is one deterministic step: the harness waits until the goroutine it started has
// returned, has entered the blocking function, or is parked in the state the step predicts (the
// state of a goroutine is read from its stack header). Limiter.Run is additionally parked at the
// `verif` scheduling point between the task lookup and getOutput (hook commit in /repo).

const c29Wait = 5 * time.Second

func c29GID() int64 {
	var buf [64]byte
	n := runtime.Stack(buf[:], false)
	f := strings.Fields(string(buf[:n]))
	if len(f) < 2 {
		return -1
	}
	id, _ := strconv.ParseInt(f[1], 10, 64)
	return id
}

// c29State returns the wait reason of goroutine gid ("" if it does not exist).
func c29State(gid int64) string {
	buf := make([]byte, 1<<18)
	n := runtime.Stack(buf, true)
	dump := string(buf[:n])
	hdr := fmt.Sprintf("goroutine %d [", gid)
	i := strings.Index(dump, hdr)
	if i < 0 {
		return ""
	}
	rest := dump[i+len(hdr):]
	j := strings.IndexAny(rest, "],")
	if j < 0 {
		return ""
	}
	return rest[:j]
}

// c29Clock is a settable clock for the components that only read the time (clock.Mock sleeps a
// millisecond on every Add); RequestCache needs timers and keeps clock.Mock.
type c29Clock struct {
	clock.Clock
	mu   sync.Mutex
	now  time.Time
	post func() // called after the time was read, before Now returns (nil: nothing)
}

func newC29Clock() *c29Clock { return &c29Clock{Clock: clock.New(), now: time.Unix(0, 0)} }

func (c *c29Clock) Now() time.Time {
	c.mu.Lock()
	t, post := c.now, c.post
	c.mu.Unlock()
	if post != nil {
		post()
	}
	return t
}

func (c *c29Clock) Add(d time.Duration) {
	c.mu.Lock()
	c.now = c.now.Add(d)
	c.mu.Unlock()
}

type c29Stuck struct{ what string }

// c29Hung is set once a wait timed out: goroutines of that case are still parked, the bookkeeping of
// the harness can no longer be trusted, so the rest of the run is skipped (the failure is reported).
var c29Hung int32

func c29Fail(tr *verifh.T, what string) {
	atomic.StoreInt32(&c29Hung, 1)
	tr.PropFail("deadlock", verifh.Str(what))
	tr.Flush()
	panic(c29Stuck{what})
}

func c29Idx(tok, pfx string, n int) (int, bool) {
	if !strings.HasPrefix(tok, pfx) {
		return 0, false
	}
	i, err := strconv.Atoi(tok[len(pfx):])
	if err != nil || i < 0 || i >= n || tok != pfx+strconv.Itoa(i) {
		return 0, false
	}
	return i, true
}

func c29Nat(tok string, max int) (int, bool) {
	i, err := strconv.Atoi(tok)
	if err != nil || i < 0 || i > max || tok != strconv.Itoa(i) {
		return 0, false
	}
	return i, true
}

// ================================================================ Limiter

type c29LimCaller struct {
	gid     int64
	key     int
	state   string // "", "hook", "running", "waiting"
	atHook  chan struct{}
	resume  chan struct{}
	started chan struct{}
	finish  chan [2]int
	ret     chan interface{}
}

type c29LimEnv struct {
	tr      *verifh.T
	clk     *c29Clock
	l       *Limiter
	mu      sync.Mutex
	byGID   map[int64]*c29LimCaller
	callers [c29NC]*c29LimCaller
}

const (
	c29NC = 4
	c29NK = 3
)

var c29Lim struct {
	mu  sync.Mutex
	env *c29LimEnv
}

func c29LimHook(point string, input interface{}) {
	c29Lim.mu.Lock()
	e := c29Lim.env
	c29Lim.mu.Unlock()
	if e == nil || point != "looked-up" {
		return
	}
	e.mu.Lock()
	c := e.byGID[c29GID()]
	e.mu.Unlock()
	if c == nil {
		return
	}
	c.atHook <- struct{}{}
	<-c.resume
}

type c29Runner struct{ e *c29LimEnv }

func (r c29Runner) Run(input interface{}) (interface{}, time.Duration) {
	r.e.mu.Lock()
	c := r.e.byGID[c29GID()]
	r.e.mu.Unlock()
	if c == nil {
		return -1, 0
	}
	c.started <- struct{}{}
	res := <-c.finish
	return res[0], time.Duration(res[1]) * time.Second
}

func (e *c29LimEnv) outTok(v interface{}) string {
	if v == nil {
		return "nil"
	}
	return fmt.Sprint(v)
}

// settle waits until caller c has reached its next observable state after being released.
func (e *c29LimEnv) settle(c *c29LimCaller, ci int) string {
	deadline := time.Now().Add(c29Wait)
	for {
		select {
		case <-c.atHook:
			c.state = "hook"
			return "looked-up"
		case <-c.started:
			c.state = "running"
			return "running"
		case v := <-c.ret:
			e.retire(c, ci)
			return "cached:" + e.outTok(v)
		default:
		}
		if c29State(c.gid) == "sync.Cond.Wait" {
			c.state = "waiting"
			return "waiting"
		}
		runtime.Gosched()
		if time.Now().After(deadline) {
			c29Fail(e.tr, fmt.Sprintf("limiter caller c%d", ci))
		}
	}
}

func (e *c29LimEnv) retire(c *c29LimCaller, ci int) {
	e.mu.Lock()
	delete(e.byGID, c.gid)
	e.mu.Unlock()
	e.callers[ci] = nil
}

func (e *c29LimEnv) do(op []string) bool {
	if len(op) < 2 || op[0] != "op" {
		return false
	}
	switch op[1] {
	case "adv":
		if len(op) != 3 {
			return false
		}
		d, ok := c29Nat(op[2], 100000)
		if !ok {
			return false
		}
		e.clk.Add(time.Duration(d) * time.Second)
		e.tr.Op(op[1:], "ok")
		return true
	case "call":
		if len(op) != 4 {
			return false
		}
		ci, ok1 := c29Idx(op[2], "c", c29NC)
		k, ok2 := c29Idx(op[3], "k", c29NK)
		if !ok1 || !ok2 || e.callers[ci] != nil {
			return false
		}
		c := &c29LimCaller{key: k, atHook: make(chan struct{}), resume: make(chan struct{}),
			started: make(chan struct{}), finish: make(chan [2]int), ret: make(chan interface{}, 1)}
		e.callers[ci] = c
		reg := make(chan struct{})
		go func() {
			c.gid = c29GID()
			e.mu.Lock()
			e.byGID[c.gid] = c
			e.mu.Unlock()
			close(reg)
			c.ret <- e.l.Run(fmt.Sprintf("k%d", k))
		}()
		<-reg
		e.tr.Op(op[1:], e.settle(c, ci))
		return true
	case "enter":
		if len(op) != 3 {
			return false
		}
		ci, ok := c29Idx(op[2], "c", c29NC)
		if !ok || e.callers[ci] == nil || e.callers[ci].state != "hook" {
			return false
		}
		c := e.callers[ci]
		c.state = ""
		c.resume <- struct{}{}
		e.tr.Op(op[1:], e.settle(c, ci))
		return true
	case "finish":
		if len(op) != 5 {
			return false
		}
		ci, ok := c29Idx(op[2], "c", c29NC)
		out, ok2 := c29Nat(op[3], 1000)
		ttl, ok3 := c29Nat(op[4], 100000)
		if !ok || !ok2 || !ok3 || e.callers[ci] == nil || e.callers[ci].state != "running" {
			return false
		}
		c := e.callers[ci]
		key := c.key
		c.finish <- [2]int{out, ttl}
		var rets []string
		select {
		case v := <-c.ret:
			rets = append(rets, fmt.Sprintf("c%d=%s", ci, e.outTok(v)))
			e.retire(c, ci)
		case <-time.After(c29Wait):
			c29Fail(e.tr, fmt.Sprintf("limiter caller c%d to return after its run", ci))
		}
		// callers waiting for this key's run are woken by the broadcast
		for wi, w := range e.callers {
			if w == nil || w.state != "waiting" || w.key != key {
				continue
			}
			// the Broadcast precedes the finisher's return: a woken waiter is runnable by now, one that
			// still sits in Cond.Wait waits on another task object of this key
			deadline := time.Now().Add(c29Wait)
		waiter:
			for {
				select {
				case v := <-w.ret:
					rets = append(rets, fmt.Sprintf("c%d=%s", wi, e.outTok(v)))
					e.retire(w, wi)
					break waiter
				default:
				}
				if c29State(w.gid) == "sync.Cond.Wait" {
					break
				}
				runtime.Gosched()
				if time.Now().After(deadline) {
					c29Fail(e.tr, fmt.Sprintf("waiting caller c%d", wi))
				}
			}
		}
		sort.Strings(rets)
		e.tr.Op(op[1:], verifh.List(rets))
		return true
	}
	return false
}

func c29LimExec(tr *verifh.T, c verifh.Case) {
	if atomic.LoadInt32(&c29Hung) == 1 {
		return
	}
	clk := newC29Clock()
	e := &c29LimEnv{tr: tr, clk: clk, byGID: map[int64]*c29LimCaller{}}
	e.l = NewLimiter(clk, c29Runner{e})
	c29Lim.mu.Lock()
	c29Lim.env = e
	c29Lim.mu.Unlock()
	tr.Cfg()
	broken := false
	run := func(op []string) {
		if broken {
			return
		}
		defer func() {
			if r := recover(); r != nil {
				if _, ok := r.(c29Stuck); ok {
					broken = true
					return
				}
				tr.PropFail("panic", verifh.Str(fmt.Sprint(r)))
				broken = true
			}
		}()
		e.do(op)
	}
	for _, op := range c.Ops {
		run(op)
	}
	// drain: drive every caller to completion through the same steps
	for round := 0; round < 40 && !broken; round++ {
		active := false
		for ci, cl := range e.callers {
			if cl == nil {
				continue
			}
			active = true
			switch cl.state {
			case "hook":
				run([]string{"op", "enter", fmt.Sprintf("c%d", ci)})
			case "running":
				run([]string{"op", "finish", fmt.Sprintf("c%d", ci), "0", "1"})
			}
		}
		if !active {
			break
		}
	}
	tr.End()
}

// c29LimEnabled lists the ops that do something in the harness's view of the callers.
type c29LimView struct{ st [c29NC]string }

func (v c29LimView) apply(op []string) (c29LimView, bool) {
	switch op[1] {
	case "adv":
		return v, true
	case "call":
		ci, _ := c29Idx(op[2], "c", c29NC)
		if v.st[ci] != "" {
			return v, false
		}
		v.st[ci] = "hook"
		return v, true
	case "enter":
		ci, _ := c29Idx(op[2], "c", c29NC)
		if v.st[ci] != "hook" {
			return v, false
		}
		v.st[ci] = "?" // running, waiting, returned or hook again: not predicted here
		return v, true
	}
	return v, true
}

func c29LimRandom(r *verifh.Rand, tr *verifh.T) verifh.Case {
	nc, nk := 2+r.Intn(c29NC-1), 1+r.Intn(c29NK)
	var ops [][]string
	for j := 2 + r.Intn(30); j > 0; j-- {
		c := fmt.Sprintf("c%d", r.Intn(nc))
		switch k := r.Intn(100); {
		case k < 30:
			ops = append(ops, []string{"op", "call", c, fmt.Sprintf("k%d", r.Intn(nk))})
		case k < 60:
			ops = append(ops, []string{"op", "enter", c})
		case k < 82:
			ops = append(ops, []string{"op", "finish", c, strconv.Itoa(r.Intn(10)), r.Pick("0", "1", "2", "30", "100")})
		default:
			ops = append(ops, []string{"op", "adv", r.Pick("0", "1", "2", "3", "31", "61", "61", "200")})
		}
	}
	return verifh.Case{Ops: ops}
}

func TestVerif_C29_Limiter(t *testing.T) {
	tr := verifh.Open("lim")
	defer tr.Close()
	verifHook = c29LimHook
	defer func() { verifHook = nil }()
	cases, replayOnly := verifh.InputCases("lim")
	for _, c := range cases {
		c29LimExec(tr, c)
		tr.Count("corpus_or_replay_cases", 1)
	}
	if replayOnly {
		return
	}
	// (a) exhaustive over 2 callers + a third one on the same key, 2 keys
	alpha := [][]string{
		{"op", "call", "c0", "k0"}, {"op", "call", "c1", "k0"}, {"op", "call", "c2", "k1"},
		{"op", "enter", "c0"}, {"op", "enter", "c1"}, {"op", "enter", "c2"},
		{"op", "finish", "c0", "5", "1"}, {"op", "finish", "c1", "6", "100"}, {"op", "finish", "c2", "7", "1"},
		{"op", "adv", "2"}, {"op", "adv", "61"},
	}
	depth := verifh.Scale(4, 5)
	var rec func(prefix [][]string, d int)
	rec = func(prefix [][]string, d int) {
		c29LimExec(tr, verifh.Case{Ops: prefix})
		tr.Count("exhaustive_cases", 1)
		if d == 0 {
			return
		}
		for _, o := range alpha {
			rec(append(prefix[:len(prefix):len(prefix)], o), d-1)
		}
	}
	rec(nil, depth)
	// (b) random
	r := verifh.NewRand(verifh.Seed(), "c29lim")
	for i := 0; i < verifh.Scale(1200, 15000); i++ {
		c := c29LimRandom(r, tr)
		if i < 2 {
			tr.Sample(fmt.Sprint(c.Ops))
		}
		c29LimExec(tr, c)
		tr.Count("random_cases", 1)
	}
}

// ================================================================ RequestCache

const c29NR = 3

var c29Errs = func() map[string]error {
	m := map[string]error{}
	for i := 0; i < 3; i++ {
		m[fmt.Sprintf("e%d", i)] = fmt.Errorf("c29 error %d", i)
		m[fmt.Sprintf("nf%d", i)] = fmt.Errorf("c29 not found %d", i)
	}
	return m
}()

func c29ErrTok(err error) string {
	for k, v := range c29Errs {
		if v == err {
			return k
		}
	}
	return "other:" + verifh.Str(err.Error())
}

type c29RCEnv struct {
	tr       *verifh.T
	clk      *clock.Mock
	c        *RequestCache
	busy     int
	now      int
	started  chan int
	results  [c29NR]chan error
	running  [c29NR]bool
	blocked  []*c29RCBlocked // Starts waiting in reserveWorker, in arrival order
	nworkers int
}

type c29RCBlocked struct {
	id       int
	deadline int
	gid      int64
	ret      chan error
}

func (e *c29RCEnv) request(id int) Request {
	return func() error {
		e.started <- id
		return <-e.results[id]
	}
}

func (e *c29RCEnv) awaitStarted(id int) {
	select {
	case got := <-e.started:
		if got != id {
			e.tr.PropFail("wrong-request-started", fmt.Sprintf("r%d", got))
		}
		e.running[id] = true
	case <-time.After(c29Wait):
		c29Fail(e.tr, fmt.Sprintf("request r%d to start", id))
	}
}

func (e *c29RCEnv) awaitWorkers(n int) {
	deadline := time.Now().Add(c29Wait)
	for len(e.c.numWorkers) != n {
		runtime.Gosched()
		if time.Now().After(deadline) {
			c29Fail(e.tr, fmt.Sprintf("worker slots to become %d (are %d)", n, len(e.c.numWorkers)))
		}
	}
}

func (e *c29RCEnv) nrunning() int {
	n := 0
	for _, r := range e.running {
		if r {
			n++
		}
	}
	return n
}

func (e *c29RCEnv) do(op []string) bool {
	if len(op) < 2 || op[0] != "op" {
		return false
	}
	switch op[1] {
	case "start":
		if len(op) != 3 {
			return false
		}
		id, ok := c29Idx(op[2], "r", c29NR)
		if !ok {
			return false
		}
		ret := make(chan error, 1)
		gidc := make(chan int64, 1)
		go func() {
			gidc <- c29GID()
			ret <- e.c.Start(fmt.Sprintf("r%d", id), e.request(id))
		}()
		gid := <-gidc
		deadline := time.Now().Add(c29Wait)
		for {
			select {
			case err := <-ret:
				switch {
				case err == nil:
					e.awaitStarted(id)
					e.tr.Op(op[1:], "ok")
				case err == ErrRequestPending:
					e.tr.Op(op[1:], "pending")
				case err == ErrWorkersBusy:
					e.tr.Op(op[1:], "busy")
				default:
					e.tr.Op(op[1:], "cached:"+c29ErrTok(err))
				}
				return true
			default:
			}
			if c29State(gid) == "select" {
				e.blocked = append(e.blocked, &c29RCBlocked{id: id, deadline: e.now + e.busy, gid: gid, ret: ret})
				e.tr.Op(op[1:], "blocked")
				return true
			}
			runtime.Gosched()
			if time.Now().After(deadline) {
				c29Fail(e.tr, "Start to return or block")
			}
		}
	case "finish":
		if len(op) != 4 {
			return false
		}
		id, ok := c29Idx(op[2], "r", c29NR)
		if !ok || !e.running[id] {
			return false
		}
		var res error
		if op[3] != "ok" {
			if res, ok = c29Errs[op[3]]; !ok {
				return false
			}
		}
		e.results[id] <- res
		e.running[id] = false
		// the request goroutine clears pending, then frees its worker slot
		deadline := time.Now().Add(c29Wait)
		for {
			e.c.mu.Lock()
			p := e.c.pending[fmt.Sprintf("r%d", id)]
			e.c.mu.Unlock()
			if !p {
				break
			}
			runtime.Gosched()
			if time.Now().After(deadline) {
				c29Fail(e.tr, "pending to be cleared after the request returned")
			}
		}
		if len(e.blocked) > 0 {
			// exactly one of the waiting Starts gets the freed worker slot
			deadline := time.Now().Add(c29Wait)
			for {
				for i, b := range e.blocked {
					select {
					case err := <-b.ret:
						e.blocked = append(e.blocked[:i:i], e.blocked[i+1:]...)
						res := "ok"
						if err == nil {
							e.awaitStarted(b.id)
						} else {
							res = c29ErrTok(err)
						}
						e.awaitWorkers(e.nrunning())
						e.tr.Op(op[1:], "done", fmt.Sprintf("unblocked=r%d:%s", b.id, res))
						return true
					default:
					}
				}
				runtime.Gosched()
				if time.Now().After(deadline) {
					c29Fail(e.tr, "a blocked Start to get the freed worker")
				}
			}
		}
		e.awaitWorkers(e.nrunning())
		e.tr.Op(op[1:], "done")
		return true
	case "adv":
		if len(op) != 3 {
			return false
		}
		d, ok := c29Nat(op[2], 100000)
		if !ok {
			return false
		}
		e.clk.Add(time.Duration(d) * time.Second)
		e.now += d
		var outs []string
		var still []*c29RCBlocked
		for _, b := range e.blocked {
			if b.deadline > e.now {
				still = append(still, b)
				continue
			}
			select {
			case err := <-b.ret:
				switch {
				case err == ErrWorkersBusy:
					outs = append(outs, fmt.Sprintf("r%d:busy", b.id))
				case err == nil:
					e.awaitStarted(b.id)
					outs = append(outs, fmt.Sprintf("r%d:ok", b.id))
				default:
					outs = append(outs, fmt.Sprintf("r%d:%s", b.id, c29ErrTok(err)))
				}
			case <-time.After(c29Wait):
				c29Fail(e.tr, "a blocked Start to time out")
			}
		}
		e.blocked = still
		if len(outs) > 0 {
			sort.Strings(outs)
			e.tr.Op(op[1:], "ok", "unblocked="+verifh.List(outs))
			return true
		}
		e.tr.Op(op[1:], "ok")
		return true
	case "probe":
		if len(op) != 2 {
			return false
		}
		var ids []string
		e.c.mu.Lock()
		for k, v := range e.c.pending {
			if v {
				ids = append(ids, k)
			}
		}
		e.c.mu.Unlock()
		e.tr.Op(op[1:], "pending="+verifh.SortedList(ids), fmt.Sprintf("workers=%d", len(e.c.numWorkers)))
		return true
	}
	return false
}

func c29RCExec(tr *verifh.T, c verifh.Case) {
	if atomic.LoadInt32(&c29Hung) == 1 {
		return
	}
	cfg := map[string]int{"errttl": 15, "nfttl": 15, "clean": 5, "workers": 2, "busy": 5}
	for _, t := range c.Cfg {
		if i := strings.Index(t, "="); i > 0 {
			if _, known := cfg[t[:i]]; known {
				if n, ok := c29Nat(t[i+1:], 1000); ok && n > 0 {
					cfg[t[:i]] = n
				}
			}
		}
	}
	clk := clock.NewMock()
	e := &c29RCEnv{tr: tr, clk: clk, busy: cfg["busy"], started: make(chan int, c29NR)}
	for i := range e.results {
		e.results[i] = make(chan error)
	}
	sec := func(k string) time.Duration { return time.Duration(cfg[k]) * time.Second }
	e.c = NewRequestCache(RequestCacheConfig{NotFoundTTL: sec("nfttl"), ErrorTTL: sec("errttl"),
		CleanupInterval: sec("clean"), NumWorkers: cfg["workers"], BusyTimeout: sec("busy")}, clk, tally.NoopScope)
	e.c.SetNotFound(func(err error) bool { return strings.HasPrefix(c29ErrTok(err), "nf") })
	tr.Cfg(fmt.Sprintf("errttl=%d", cfg["errttl"]), fmt.Sprintf("nfttl=%d", cfg["nfttl"]), fmt.Sprintf("clean=%d", cfg["clean"]),
		fmt.Sprintf("workers=%d", cfg["workers"]), fmt.Sprintf("busy=%d", cfg["busy"]))
	broken := false
	run := func(op []string) {
		if broken {
			return
		}
		defer func() {
			if r := recover(); r != nil {
				broken = true
				if _, ok := r.(c29Stuck); !ok {
					tr.PropFail("panic", verifh.Str(fmt.Sprint(r)))
				}
			}
		}()
		e.do(op)
	}
	for _, op := range c.Ops {
		run(op)
	}
	run([]string{"op", "probe"})
	// drain
	if len(e.blocked) > 0 {
		run([]string{"op", "adv", strconv.Itoa(e.busy)})
	}
	for id := 0; id < c29NR; id++ {
		if e.running[id] {
			run([]string{"op", "finish", fmt.Sprintf("r%d", id), "ok"})
		}
	}
	run([]string{"op", "probe"})
	tr.End()
}

func c29RCRandom(r *verifh.Rand) verifh.Case {
	cfg := []string{"errttl=" + r.Pick("2", "3", "15"), "nfttl=" + r.Pick("1", "4", "15"), "clean=" + r.Pick("1", "5", "50"),
		"workers=" + r.Pick("1", "1", "2", "3"), "busy=" + r.Pick("1", "3", "5")}
	nr := 1 + r.Intn(c29NR)
	var ops [][]string
	for j := 2 + r.Intn(35); j > 0; j-- {
		id := fmt.Sprintf("r%d", r.Intn(nr))
		switch k := r.Intn(100); {
		case k < 40:
			ops = append(ops, []string{"op", "start", id})
		case k < 70:
			ops = append(ops, []string{"op", "finish", id, r.Pick("ok", "ok", "e0", "e1", "nf0", "nf1")})
		case k < 92:
			ops = append(ops, []string{"op", "adv", r.Pick("0", "1", "1", "2", "3", "4", "5", "6", "15", "16", "60")})
		default:
			ops = append(ops, []string{"op", "probe"})
		}
	}
	return verifh.Case{Cfg: cfg, Ops: ops}
}

func TestVerif_C29_RequestCache(t *testing.T) {
	tr := verifh.Open("rc")
	defer tr.Close()
	cases, replayOnly := verifh.InputCases("rc")
	for _, c := range cases {
		c29RCExec(tr, c)
		tr.Count("corpus_or_replay_cases", 1)
	}
	if replayOnly {
		return
	}
	alpha := [][]string{
		{"op", "start", "r0"}, {"op", "start", "r1"}, {"op", "finish", "r0", "ok"}, {"op", "finish", "r0", "e0"},
		{"op", "finish", "r0", "nf0"}, {"op", "finish", "r1", "e1"}, {"op", "adv", "1"}, {"op", "adv", "2"}, {"op", "adv", "3"},
	}
	depth := verifh.Scale(3, 4)
	for _, cfg := range [][]string{
		{"errttl=3", "nfttl=1", "clean=1", "workers=1", "busy=2"},
		{"errttl=2", "nfttl=4", "clean=50", "workers=2", "busy=3"},
	} {
		var rec func(prefix [][]string, d int)
		rec = func(prefix [][]string, d int) {
			if d == 0 {
				c29RCExec(tr, verifh.Case{Cfg: cfg, Ops: prefix})
				tr.Count("exhaustive_cases", 1)
				return
			}
			for _, o := range alpha {
				rec(append(prefix[:len(prefix):len(prefix)], o), d-1)
			}
		}
		for d := 1; d <= depth; d++ {
			rec(nil, d)
		}
	}
	r := verifh.NewRand(verifh.Seed(), "c29rc")
	for i := 0; i < verifh.Scale(500, 12000); i++ {
		c := c29RCRandom(r)
		if i < 2 {
			tr.Sample(fmt.Sprint(c.Cfg, c.Ops))
		}
		c29RCExec(tr, c)
		tr.Count("random_cases", 1)
	}
}

// ================================================================ IntervalTrap

const c29NG = 3

// A Trap call runs in its own goroutine g<i>. The task blocks until `tend`. A goroutine started by
// `tcheck` is parked inside its first clock read — the `ready` check under the read lock — until
// `tgo`; several can be parked at once, which is how two callers get past the check before either
// takes the write lock. To keep every step deterministic the executor refuses steps whose outcome
// would depend on lock-queue order: no new Trap while a goroutine waits for the write lock, no
// synchronous or blocking Trap while a goroutine is parked.
type c29ITEnv struct {
	tr      *verifh.T
	clk     *c29Clock
	it      *IntervalTrap
	runs    int
	release chan struct{}
	running int   // goroutine inside the task, -1 none
	waitW   []int // goroutines that want the lock (FIFO)
	gs      [c29NG]*c29ITG
	mu      sync.Mutex
	byGID   map[int64]*c29ITG
}

type c29ITG struct {
	gid     int64
	ret     chan struct{}
	started chan struct{}
	park    bool
	parked  bool
	atPark  chan struct{}
	resume  chan struct{}
}

func (e *c29ITEnv) me() *c29ITG {
	e.mu.Lock()
	defer e.mu.Unlock()
	return e.byGID[c29GID()]
}

// Run is the trapped task: goroutines of the harness block in it, the synchronous `trap` does not.
func (e *c29ITEnv) Run() {
	e.mu.Lock()
	e.runs++
	e.mu.Unlock()
	if g := e.me(); g != nil {
		g.started <- struct{}{}
		<-e.release
	}
}

func (e *c29ITEnv) onNow() {
	g := e.me()
	if g == nil || !g.park {
		return
	}
	g.park = false
	g.atPark <- struct{}{}
	<-g.resume
}

func (e *c29ITEnv) nparked() int {
	n := 0
	for _, g := range e.gs {
		if g != nil && g.parked {
			n++
		}
	}
	return n
}

// settle: "skip" (returned), "running" (inside the task), "checking" (parked in the ready check) or
// "blocked" (waits for a lock). mustMove: the goroutine cannot legitimately stay blocked.
func (e *c29ITEnv) settle(g *c29ITG, gi int, mustMove bool) string {
	deadline := time.Now().Add(c29Wait)
	for {
		select {
		case <-g.ret:
			e.mu.Lock()
			delete(e.byGID, g.gid)
			e.mu.Unlock()
			e.gs[gi] = nil
			return "skip"
		case <-g.started:
			e.running = gi
			return "running"
		case <-g.atPark:
			g.parked = true
			return "checking"
		default:
		}
		if st := c29State(g.gid); !mustMove && (st == "sync.RWMutex.RLock" || st == "sync.RWMutex.Lock" || st == "sync.Mutex.Lock") {
			return "blocked"
		}
		runtime.Gosched()
		if time.Now().After(deadline) {
			c29Fail(e.tr, fmt.Sprintf("Trap of g%d", gi))
		}
	}
}

func (e *c29ITEnv) spawn(gi int, park bool) *c29ITG {
	g := &c29ITG{ret: make(chan struct{}, 1), started: make(chan struct{}), park: park,
		atPark: make(chan struct{}), resume: make(chan struct{})}
	e.gs[gi] = g
	reg := make(chan struct{})
	go func() {
		g.gid = c29GID()
		e.mu.Lock()
		e.byGID[g.gid] = g
		e.mu.Unlock()
		close(reg)
		e.it.Trap()
		g.ret <- struct{}{}
	}()
	<-reg
	return g
}

// cascade: when nobody reads or writes, the goroutines waiting for the lock proceed one by one.
func (e *c29ITEnv) cascade(except int) []string {
	var out []string
	for len(e.waitW) > 0 && e.running < 0 && e.nparked() == 0 {
		wi := e.waitW[0]
		e.waitW = e.waitW[1:]
		st := e.settle(e.gs[wi], wi, true)
		if wi != except {
			out = append(out, fmt.Sprintf("g%d=%s", wi, st))
		} else {
			out = append([]string{st}, out...)
		}
	}
	return out
}

func (e *c29ITEnv) do(op []string) bool {
	if len(op) < 2 || op[0] != "op" {
		return false
	}
	switch op[1] {
	case "adv":
		if len(op) != 3 {
			return false
		}
		d, ok := c29Nat(op[2], 100000)
		if !ok {
			return false
		}
		e.clk.Add(time.Duration(d) * time.Second)
		e.tr.Op(op[1:], "ok")
		return true
	case "trap":
		if len(op) != 2 || e.running >= 0 || e.nparked() > 0 || len(e.waitW) > 0 {
			return false
		}
		before := e.runs
		e.it.Trap()
		if e.runs > before {
			e.tr.Op(op[1:], "ran")
		} else {
			e.tr.Op(op[1:], "skip")
		}
		return true
	case "tbegin", "tcheck":
		if len(op) != 3 {
			return false
		}
		gi, ok := c29Idx(op[2], "g", c29NG)
		if !ok || e.gs[gi] != nil || len(e.waitW) > 0 {
			return false
		}
		if op[1] == "tbegin" && e.nparked() > 0 {
			return false
		}
		if op[1] == "tcheck" && e.running >= 0 {
			return false
		}
		g := e.spawn(gi, op[1] == "tcheck")
		st := e.settle(g, gi, false)
		if st == "blocked" {
			e.waitW = append(e.waitW, gi)
		}
		e.tr.Op(op[1:], st)
		return true
	case "tgo":
		if len(op) != 3 {
			return false
		}
		gi, ok := c29Idx(op[2], "g", c29NG)
		if !ok || e.gs[gi] == nil || !e.gs[gi].parked {
			return false
		}
		g := e.gs[gi]
		g.parked = false
		g.resume <- struct{}{}
		var obs []string
		if e.nparked() > 0 {
			// other readers are still parked: a goroutine that saw `ready` now waits for the write lock
			st := e.settle(g, gi, false)
			if st == "blocked" {
				e.waitW = append(e.waitW, gi)
			}
			obs = []string{st}
		} else {
			// the last reader leaves: earlier waiters go first, then this goroutine
			earlier := e.cascade(-1)
			st := e.settle(g, gi, e.running < 0)
			if st == "blocked" {
				e.waitW = append(e.waitW, gi)
			}
			obs = append([]string{st}, earlier...)
		}
		e.tr.Op(op[1:], obs...)
		return true
	case "tend":
		if len(op) != 2 || e.running < 0 {
			return false
		}
		gi := e.running
		e.running = -1
		e.release <- struct{}{}
		select {
		case <-e.gs[gi].ret:
			e.mu.Lock()
			delete(e.byGID, e.gs[gi].gid)
			e.mu.Unlock()
			e.gs[gi] = nil
		case <-time.After(c29Wait):
			c29Fail(e.tr, "Trap to return after its task")
		}
		res := e.cascade(-1)
		sort.Strings(res)
		e.tr.Op(op[1:], append([]string{"ok"}, res...)...)
		return true
	}
	return false
}

func c29ITExec(tr *verifh.T, c verifh.Case) {
	if atomic.LoadInt32(&c29Hung) == 1 {
		return
	}
	interval := 60
	for _, t := range c.Cfg {
		if strings.HasPrefix(t, "interval=") {
			if n, ok := c29Nat(t[9:], 100000); ok && n > 0 {
				interval = n
			}
		}
	}
	clk := newC29Clock()
	e := &c29ITEnv{tr: tr, clk: clk, release: make(chan struct{}), running: -1, byGID: map[int64]*c29ITG{}}
	clk.post = e.onNow
	e.it = NewIntervalTrap(time.Duration(interval)*time.Second, clk, e)
	tr.Cfg(fmt.Sprintf("interval=%d", interval))
	broken := false
	run := func(op []string) {
		if broken {
			return
		}
		defer func() {
			if r := recover(); r != nil {
				broken = true
				if _, ok := r.(c29Stuck); !ok {
					tr.PropFail("panic", verifh.Str(fmt.Sprint(r)))
				}
			}
		}()
		e.do(op)
	}
	for _, op := range c.Ops {
		run(op)
	}
	for i := 0; i < 4*c29NG; i++ {
		for gi, g := range e.gs {
			if g != nil && g.parked {
				run([]string{"op", "tgo", fmt.Sprintf("g%d", gi)})
			}
		}
		if e.running >= 0 {
			run([]string{"op", "tend"})
		}
	}
	run([]string{"op", "trap"})
	tr.End()
}

func TestVerif_C29_IntervalTrap(t *testing.T) {
	tr := verifh.Open("it")
	defer tr.Close()
	cases, replayOnly := verifh.InputCases("it")
	for _, c := range cases {
		c29ITExec(tr, c)
		tr.Count("corpus_or_replay_cases", 1)
	}
	if replayOnly {
		return
	}
	alpha := [][]string{{"op", "trap"}, {"op", "tbegin", "g0"}, {"op", "tcheck", "g1"}, {"op", "tcheck", "g2"},
		{"op", "tgo", "g1"}, {"op", "tgo", "g2"}, {"op", "tend"}, {"op", "adv", "1"}, {"op", "adv", "3"}}
	depth := verifh.Scale(4, 5)
	var rec func(prefix [][]string, d int)
	rec = func(prefix [][]string, d int) {
		if d == 0 {
			c29ITExec(tr, verifh.Case{Cfg: []string{"interval=2"}, Ops: prefix})
			tr.Count("exhaustive_cases", 1)
			return
		}
		for _, o := range alpha {
			rec(append(prefix[:len(prefix):len(prefix)], o), d-1)
		}
	}
	for d := 1; d <= depth; d++ {
		rec(nil, d)
	}
	r := verifh.NewRand(verifh.Seed(), "c29it")
	for i := 0; i < verifh.Scale(500, 20000); i++ {
		iv := []int{1, 2, 5, 60}[r.Intn(4)]
		var ops [][]string
		for j := 1 + r.Intn(30); j > 0; j-- {
			switch k := r.Intn(10); {
			case k < 3:
				ops = append(ops, []string{"op", "trap"})
			case k < 4:
				ops = append(ops, []string{"op", "tbegin", fmt.Sprintf("g%d", r.Intn(c29NG))})
			case k < 5:
				ops = append(ops, []string{"op", "tcheck", fmt.Sprintf("g%d", r.Intn(c29NG))})
			case k < 6:
				ops = append(ops, []string{"op", "tgo", fmt.Sprintf("g%d", r.Intn(c29NG))})
			case k < 7:
				ops = append(ops, []string{"op", "tend"})
			default:
				ops = append(ops, []string{"op", "adv", strconv.Itoa(r.Intn(iv + 3))})
			}
		}
		c29ITExec(tr, verifh.Case{Cfg: []string{fmt.Sprintf("interval=%d", iv)}, Ops: ops})
		tr.Count("random_cases", 1)
	}
}

var _ = errors.New
