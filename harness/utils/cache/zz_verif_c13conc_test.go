//go:build verif

package cache_test

import (
	"fmt"
	"strconv"
	"sync"
	"sync/atomic"
	"testing"
	"time"

	"github.com/uber-go/tally"
	"github.com/uber/kraken/utils/cache"
	"github.com/uber/kraken/utils/verifh"
)

// C13 with concurrent callers (public API, run with -race in the thorough tier).
//
//	concmem  W goroutines reserve / add / release / remove on a small budget.  `held` is the exact sum of the
//	         reservations and entries the callers hold (an atomic ghost maintained around the calls): it must
//	         never exceed MaxSize, TotalBytes() must never exceed MaxSize, and at quiescence (everything
//	         released / removed) TotalBytes and NumEntries must be 0.
//	conclru  W goroutines add / query / delete keys; Size() never exceeds the configured size.

func c13cMem(t *verifh.T, toks []string) {
	w, _ := strconv.Atoi(c13KV(toks, "workers"))
	iters, _ := strconv.Atoi(c13KV(toks, "iters"))
	max, _ := strconv.ParseUint(c13KV(toks, "max"), 10, 64)
	if w <= 0 || w > 64 || iters <= 0 || iters > 1<<20 {
		return
	}
	m := cache.NewBlobMemoryCache(cache.BlobMemoryCacheConfig{MaxSize: max}, tally.NoopScope)
	var held, overHeld, overTotal int64
	var wg sync.WaitGroup
	for g := 0; g < w; g++ {
		wg.Add(1)
		go func(g int) {
			defer wg.Done()
			r := verifh.NewRand(verifh.Seed(), fmt.Sprintf("c13conc%d", g))
			for i := 0; i < iters; i++ {
				sz := uint64(1 + r.Intn(int(max/2)+1))
				if !m.TryReserve(sz) {
					continue
				}
				// the reservation is ours from here on
				if h := atomic.AddInt64(&held, int64(sz)); uint64(h) > max {
					atomic.AddInt64(&overHeld, 1)
				}
				if m.TotalBytes() > max {
					atomic.AddInt64(&overTotal, 1)
				}
				if r.Chance(1, 2) {
					name := fmt.Sprintf("w%d-%d", g, i%3)
					if m.Add(&cache.MemoryEntry{Name: name, Data: make([]byte, sz), CreatedAt: time.Unix(0, 0)}) {
						if r.Chance(1, 2) {
							_ = m.Get(name)
						}
						// subtract before the call that frees the bytes: `held` stays an under-estimate of
						// what the cache may legitimately account at any instant
						atomic.AddInt64(&held, -int64(sz))
						m.Remove(name)
						continue
					}
				}
				atomic.AddInt64(&held, -int64(sz))
				m.ReleaseReservation(sz)
			}
		}(g)
	}
	wg.Wait()
	t.One(append([]string{"concmem"}, toks...), "over="+strconv.FormatInt(overHeld+overTotal, 10),
		"final="+strconv.FormatUint(m.TotalBytes(), 10)+"/"+strconv.Itoa(m.NumEntries()))
}

func c13cLRU(t *verifh.T, toks []string) {
	w, _ := strconv.Atoi(c13KV(toks, "workers"))
	iters, _ := strconv.Atoi(c13KV(toks, "iters"))
	size, _ := strconv.Atoi(c13KV(toks, "size"))
	if w <= 0 || w > 64 || iters <= 0 || iters > 1<<20 || size <= 0 {
		return
	}
	l := cache.NewLRUCache(cache.LRUCacheConfig{Size: size, TTL: time.Hour})
	var over int64
	var wg sync.WaitGroup
	for g := 0; g < w; g++ {
		wg.Add(1)
		go func(g int) {
			defer wg.Done()
			r := verifh.NewRand(verifh.Seed(), fmt.Sprintf("c13lruconc%d", g))
			for i := 0; i < iters; i++ {
				k := "k" + strconv.Itoa(r.Intn(3*size))
				switch r.Intn(4) {
				case 0, 1:
					l.Add(k)
				case 2:
					_ = l.Has(k)
				default:
					l.Delete(k)
				}
				if l.Size() > size {
					atomic.AddInt64(&over, 1)
				}
			}
		}(g)
	}
	wg.Wait()
	t.One(append([]string{"conclru"}, toks...), "oversize="+strconv.FormatInt(over, 10), "final="+verifh.Bool(l.Size() <= size))
}

func TestVerif_C13Conc(t *testing.T) {
	tr := verifh.Open("cacheconc")
	defer tr.Close()
	run := func(op []string) {
		if len(op) < 2 || op[0] != "one" {
			return
		}
		if p := verifh.Protect(func() {
			switch op[1] {
			case "concmem":
				c13cMem(tr, op[2:])
			case "conclru":
				c13cLRU(tr, op[2:])
			}
		}); p != "" {
			tr.PropFail("panic", verifh.Str(p))
		}
	}
	cases, replayOnly := verifh.InputCases("cacheconc")
	for _, c := range cases {
		for _, op := range c.Ops {
			run(op)
			tr.Count("corpus_or_replay_cases", 1)
		}
	}
	if replayOnly {
		return
	}
	iters := strconv.Itoa(verifh.Scale(20000, 200000))
	for _, max := range []string{"8", "20", "64"} {
		for _, w := range []string{"2", "8"} {
			run([]string{"one", "concmem", "workers=" + w, "iters=" + iters, "max=" + max})
			tr.Count("concmem_cases", 1)
		}
	}
	for _, size := range []string{"1", "3", "16"} {
		run([]string{"one", "conclru", "workers=8", "iters=" + iters, "size=" + size})
		tr.Count("conclru_cases", 1)
	}
}
