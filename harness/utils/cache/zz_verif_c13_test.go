//go:build verif

package cache_test

import (
	"fmt"
	"sort"
	"strconv"
	"strings"
	"testing"
	"time"

	"github.com/uber-go/tally"
	"github.com/uber/kraken/utils/cache"
	"github.com/uber/kraken/utils/verifh"
)

// C13 harness for utils/cache (public API): BlobMemoryCache (machine "memcache") and LRUCache ("lru").

var c13Epoch = time.Unix(1700000000, 0)

func c13KV(toks []string, k string) string {
	for _, t := range toks {
		if strings.HasPrefix(t, k+"=") {
			return t[len(k)+1:]
		}
	}
	return ""
}

func c13MemExec(t *verifh.T, c verifh.Case) {
	if len(c.Cfg) == 0 {
		c.Cfg = []string{"max=0"}
	}
	max, _ := strconv.ParseUint(c13KV(c.Cfg, "max"), 10, 64)
	m := cache.NewBlobMemoryCache(cache.BlobMemoryCacheConfig{MaxSize: max}, tally.NoopScope)
	t.Cfg(c.Cfg...)
	total := func() {
		t.Op([]string{"total"}, strconv.FormatUint(m.TotalBytes(), 10), strconv.Itoa(m.NumEntries()))
	}
	do := func(op []string) {
		if len(op) < 2 || op[0] != "op" {
			return
		}
		a := op[1:]
		switch {
		case len(a) == 2 && a[0] == "reserve":
			size, err := strconv.ParseUint(a[1], 10, 64)
			if err != nil {
				return
			}
			t.Op(a, verifh.Bool(m.TryReserve(size)))
			total()
		case len(a) == 2 && a[0] == "release":
			size, err := strconv.ParseUint(a[1], 10, 64)
			if err != nil {
				return
			}
			m.ReleaseReservation(size)
			t.Op(a, "ok")
			total()
		case len(a) == 5 && a[0] == "add":
			n, err1 := strconv.Atoi(a[2])
			created, err2 := strconv.ParseInt(a[3], 10, 64)
			if err1 != nil || err2 != nil || n < 0 || n > 1<<16 || created < 0 {
				return
			}
			ok := m.Add(&cache.MemoryEntry{Name: a[1], Data: make([]byte, n), CreatedAt: c13Epoch.Add(time.Duration(created))})
			t.Op(a, verifh.Bool(ok))
			total()
		case len(a) == 2 && a[0] == "remove":
			m.Remove(a[1])
			t.Op(a, "ok")
			total()
		case len(a) == 2 && a[0] == "removeBatch":
			m.RemoveBatch(verifh.Unlist(a[1]))
			t.Op(a, "ok")
			total()
		case len(a) == 3 && a[0] == "expired":
			now, err1 := strconv.ParseInt(a[1], 10, 64)
			ttl, err2 := strconv.ParseInt(a[2], 10, 64)
			if err1 != nil || err2 != nil || now < 0 || ttl < 0 {
				return
			}
			names := m.GetExpiredEntries(c13Epoch.Add(time.Duration(now)), time.Duration(ttl))
			t.Op(a, verifh.SortedList(names))
		case len(a) == 2 && a[0] == "get":
			if e := m.Get(a[1]); e != nil {
				t.Op(a, strconv.FormatUint(e.Size(), 10))
			} else {
				t.Op(a, "none")
			}
		case len(a) == 1 && a[0] == "list":
			t.Op(a, verifh.SortedList(m.ListNames()))
		}
	}
	for _, op := range c.Ops {
		op := op
		if p := verifh.Protect(func() { do(op) }); p != "" {
			t.PropFail("panic", verifh.Str(strings.Join(op, " ")), verifh.Str(p))
			break
		}
	}
	t.End()
}

func TestVerif_C13Mem(t *testing.T) {
	tr := verifh.Open("memcache")
	defer tr.Close()
	cases, replayOnly := verifh.InputCases("memcache")
	for _, c := range cases {
		c13MemExec(tr, c)
		tr.Count("corpus_or_replay_cases", 1)
	}
	if replayOnly {
		return
	}
	// (a) bounded-exhaustive, two names, sizes around MaxSize=10
	alpha := [][]string{
		{"op", "reserve", "4"}, {"op", "reserve", "6"}, {"op", "reserve", "7"},
		{"op", "release", "4"}, {"op", "release", "6"},
		{"op", "add", "a", "4", "0", "res=4"}, {"op", "add", "b", "6", "5", "res=6"}, {"op", "add", "a", "6", "9", "res=6"},
		{"op", "remove", "a"}, {"op", "removeBatch", "a,b"}, {"op", "expired", "10", "5"},
	}
	depth := verifh.Scale(4, 5)
	var rec func(prefix [][]string, d int)
	rec = func(prefix [][]string, d int) {
		if d == 0 {
			c13MemExec(tr, verifh.Case{Cfg: []string{"max=10"}, Ops: prefix})
			tr.Count("exhaustive_cases", 1)
			return
		}
		for _, o := range alpha {
			rec(append(prefix[:len(prefix):len(prefix)], o), d-1)
		}
	}
	for d := 1; d <= depth; d++ {
		rec(nil, d)
	}
	// (b) random histories that respect the discipline (weighted) with occasional violations and huge sizes
	r := verifh.NewRand(verifh.Seed(), "c13mem")
	for i := 0; i < verifh.Scale(3000, 200000); i++ {
		max := uint64([]int{0, 1, 10, 100, 1000}[r.Intn(5)])
		if r.Chance(1, 20) {
			max = ^uint64(0) - uint64(r.Intn(3))
		}
		var ops [][]string
		// generator-side shadow of the cache (only to keep most histories within the callers' discipline)
		var outstanding []uint64
		var shTotal uint64
		shEntries := map[string]uint64{}
		names := []string{"a", "b", "c"}
		n := 1 + r.Intn(30)
		for j := 0; j < n; j++ {
			switch k := r.Intn(100); {
			case k < 30:
				var size uint64
				switch x := r.Intn(20); {
				case x < 14:
					size = uint64(r.Intn(int(max%1000) + 2))
				case x < 16:
					size = max
				case x < 17:
					size = max + 1
				case x < 18:
					size = ^uint64(0) - uint64(r.Intn(12)) // near 2^64: totalSize+size would wrap
				default:
					size = 0
				}
				ops = append(ops, []string{"op", "reserve", strconv.FormatUint(size, 10)})
				if size <= max && shTotal <= max-size {
					shTotal += size
					outstanding = append(outstanding, size)
				}
				tr.Count("random_op_reserve", 1)
			case k < 45:
				if len(outstanding) > 0 && r.Chance(19, 20) {
					x := r.Intn(len(outstanding))
					ops = append(ops, []string{"op", "release", strconv.FormatUint(outstanding[x], 10)})
					shTotal -= outstanding[x]
					outstanding = append(outstanding[:x], outstanding[x+1:]...)
				} else if r.Chance(1, 6) {
					ops = append(ops, []string{"op", "release", strconv.Itoa(r.Intn(12))}) // not held: breaks the discipline
				}
				tr.Count("random_op_release", 1)
			case k < 70:
				name := names[r.Intn(3)]
				created := strconv.Itoa(r.Intn(20))
				if len(outstanding) > 0 {
					x := r.Intn(len(outstanding))
					sz := outstanding[x]
					if sz <= 1<<12 {
						ln := sz
						if r.Chance(1, 25) {
							ln = uint64(r.Intn(12)) // stored length differs from the reservation: breaks the discipline
						}
						ops = append(ops, []string{"op", "add", name, strconv.FormatUint(ln, 10), created, "res=" + strconv.FormatUint(sz, 10)})
						if _, dup := shEntries[name]; !dup {
							shEntries[name] = ln
							outstanding = append(outstanding[:x], outstanding[x+1:]...)
						}
					}
				} else if r.Chance(1, 10) {
					ops = append(ops, []string{"op", "add", name, strconv.Itoa(r.Intn(12)), created, "res=-"})
				}
				tr.Count("random_op_add", 1)
			case k < 82:
				nm := names[r.Intn(3)]
				ops = append(ops, []string{"op", "remove", nm})
				if l, ok := shEntries[nm]; ok {
					if l > shTotal {
						shTotal = 0
					} else {
						shTotal -= l
					}
					delete(shEntries, nm)
				}
			case k < 88:
				n1, n2 := names[r.Intn(3)], names[r.Intn(3)]
				ops = append(ops, []string{"op", "removeBatch", verifh.List([]string{n1, n2})})
				for _, nm := range []string{n1, n2} {
					if l, ok := shEntries[nm]; ok {
						if l > shTotal {
							shTotal = 0
						} else {
							shTotal -= l
						}
						delete(shEntries, nm)
					}
				}
			case k < 94:
				ops = append(ops, []string{"op", "expired", strconv.Itoa(r.Intn(30)), strconv.Itoa(r.Intn(15))})
			case k < 97:
				ops = append(ops, []string{"op", "get", names[r.Intn(3)]})
			default:
				ops = append(ops, []string{"op", "list"})
			}
		}
		if i < 2 {
			tr.Sample(fmt.Sprint(max, ops))
		}
		c13MemExec(tr, verifh.Case{Cfg: []string{"max=" + strconv.FormatUint(max, 10)}, Ops: ops})
		tr.Count("random_cases", 1)
	}
}

// ---------------------------------------------------------------- LRUCache

// The cache reads time.Now() itself.  Every call is bracketed by two clock readings; the transcript
// carries the reading taken just before the call.  A case is kept only if no call took longer than
// c13Slack and no call ran within c13Guard of an expiry boundary of any key, so that the measured
// times decide every expiry comparison; otherwise it is executed again (at most 4 times), then dropped.
const c13Slack = 1 * time.Millisecond
const c13Guard = 3 * time.Millisecond

type c13Rec struct {
	kind string
	toks []string
	obs  []string
}

func c13LRURun(c verifh.Case) (recs []c13Rec, tainted bool, panicked string) {
	size, _ := strconv.Atoi(c13KV(c.Cfg, "size"))
	if size < 0 {
		size = 0 // NewLRUCache panics on a negative size (make with a negative capacity); not part of the property
	}
	ttlNs, _ := strconv.ParseInt(c13KV(c.Cfg, "ttl"), 10, 64)
	effTTL := time.Duration(ttlNs)
	if effTTL == 0 {
		effTTL = 5 * time.Minute
	}
	l := cache.NewLRUCache(cache.LRUCacheConfig{Size: size, TTL: time.Duration(ttlNs)})
	base := time.Now()
	var boundaries []time.Duration // expiry instants (since base) of every Add made so far
	call := func(f func()) (t0 time.Duration) {
		// stay away from every boundary
		for {
			now := time.Since(base)
			wait := time.Duration(0)
			for _, b := range boundaries {
				if now > b-c13Guard && now < b+c13Guard {
					if w := b + c13Guard - now; w > wait {
						wait = w
					}
				}
			}
			if wait == 0 {
				break
			}
			time.Sleep(wait + 200*time.Microsecond)
		}
		t0 = time.Since(base)
		f()
		t1 := time.Since(base)
		if t1-t0 > c13Slack {
			tainted = true
		}
		for _, b := range boundaries {
			if t1 > b-c13Guard && t0 < b+c13Guard {
				tainted = true
			}
		}
		return t0
	}
	emit := func(t0 time.Duration, toks []string, obs ...string) {
		recs = append(recs, c13Rec{"now", []string{strconv.FormatInt(int64(t0), 10)}, nil}, c13Rec{"op", toks, obs})
	}
	for _, op := range c.Ops {
		if len(op) < 2 || op[0] != "op" {
			continue
		}
		a := op[1:]
		p := verifh.Protect(func() {
			switch {
			case len(a) == 2 && a[0] == "add":
				var pp string
				t0 := call(func() { pp = verifh.Protect(func() { l.Add(a[1]) }) })
				if pp != "" {
					emit(t0, a, "panic")
					panicked = pp
					return
				}
				boundaries = append(boundaries, t0+effTTL)
				emit(t0, a, "ok")
			case len(a) == 2 && a[0] == "has":
				var r bool
				t0 := call(func() { r = l.Has(a[1]) })
				emit(t0, a, verifh.Bool(r))
			case len(a) == 2 && a[0] == "delete":
				t0 := call(func() { l.Delete(a[1]) })
				emit(t0, a, "ok")
			case len(a) == 1 && a[0] == "clear":
				t0 := call(func() { l.Clear() })
				emit(t0, a, "ok")
			case len(a) == 1 && a[0] == "size":
				var n int
				t0 := call(func() { n = l.Size() })
				emit(t0, a, strconv.Itoa(n))
			case len(a) == 2 && a[0] == "sleep":
				ms, err := strconv.Atoi(a[1])
				if err != nil || ms < 0 || ms > 200 {
					return
				}
				time.Sleep(time.Duration(ms) * time.Millisecond)
				emit(time.Since(base), a, "ok")
			}
		})
		if p != "" && panicked == "" {
			panicked = p
		}
		if panicked != "" {
			break
		}
	}
	return recs, tainted, panicked
}

func c13LRUExec(t *verifh.T, c verifh.Case) {
	if len(c.Cfg) == 0 {
		c.Cfg = []string{"size=0", "ttl=0"}
	}
	var recs []c13Rec
	var tainted bool
	for try := 0; try < 4; try++ {
		recs, tainted, _ = c13LRURun(c)
		if !tainted {
			break
		}
		t.Count("lru_case_rerun_timing", 1)
	}
	if tainted {
		t.Count("lru_case_dropped_timing", 1)
		return
	}
	t.Cfg(c.Cfg...)
	for _, r := range recs {
		t.Rec(r.kind, r.toks, r.obs)
	}
	t.End()
}

func TestVerif_C13LRU(t *testing.T) {
	tr := verifh.Open("lru")
	defer tr.Close()
	cases, replayOnly := verifh.InputCases("lru")
	for _, c := range cases {
		c13LRUExec(tr, c)
		tr.Count("corpus_or_replay_cases", 1)
	}
	if replayOnly {
		return
	}
	// (a) bounded-exhaustive without sleeps (nothing expires: ttl 1 h), size 2, three keys
	var alpha [][]string
	for _, k := range []string{"a", "b", "c"} {
		alpha = append(alpha, []string{"op", "add", k}, []string{"op", "has", k})
	}
	alpha = append(alpha, []string{"op", "delete", "a"}, []string{"op", "clear"}, []string{"op", "size"})
	depth := verifh.Scale(4, 5)
	var rec func(prefix [][]string, d int)
	rec = func(prefix [][]string, d int) {
		if d == 0 {
			ops := append(prefix[:len(prefix):len(prefix)], []string{"op", "has", "a"}, []string{"op", "has", "b"}, []string{"op", "has", "c"}, []string{"op", "size"})
			c13LRUExec(tr, verifh.Case{Cfg: []string{"size=2", "ttl=3600000000000"}, Ops: ops})
			tr.Count("exhaustive_cases", 1)
			return
		}
		for _, o := range alpha {
			rec(append(prefix[:len(prefix):len(prefix)], o), d-1)
		}
	}
	for d := 1; d <= depth; d++ {
		rec(nil, d)
	}
	// (a') delete, then evict: a full cache of 3 or 4 keys, one of them deleted (every position), then new
	// keys until the limit forces evictions (optionally a refresh in between); which keys remain is observed
	for _, size := range []int{3, 4} {
		ks := []string{"a", "b", "c", "d"}[:size]
		for di := 0; di < size; di++ {
			for _, refresh := range []string{"", ks[(di+1)%size]} {
				for extra := 1; extra <= 3; extra++ {
					var ops [][]string
					for _, k := range ks {
						ops = append(ops, []string{"op", "add", k})
					}
					ops = append(ops, []string{"op", "delete", ks[di]})
					if refresh != "" {
						ops = append(ops, []string{"op", "add", refresh})
					}
					for x := 0; x < extra; x++ {
						ops = append(ops, []string{"op", "add", "n" + strconv.Itoa(x)})
					}
					for _, k := range append(append([]string{}, ks...), "n0", "n1", "n2") {
						ops = append(ops, []string{"op", "has", k})
					}
					ops = append(ops, []string{"op", "size"})
					c13LRUExec(tr, verifh.Case{Cfg: []string{"size=" + strconv.Itoa(size), "ttl=3600000000000"}, Ops: ops})
					tr.Count("delete_then_evict_cases", 1)
				}
			}
		}
	}

	// (b) random histories with real expiry: ttl 20 ms, sleeps of 8 / 25 ms
	r := verifh.NewRand(verifh.Seed(), "c13lru")
	keys := []string{"a", "b", "c", "d", "e"}
	for i := 0; i < verifh.Scale(200, 5000); i++ {
		size := []int{1, 2, 3, 4, 0}[r.Intn(5)]
		ttl := int64(20 * time.Millisecond)
		if r.Chance(1, 6) {
			ttl = int64(time.Hour)
		}
		if r.Chance(1, 40) {
			ttl = -int64(10 * time.Millisecond)
		}
		var ops [][]string
		n := 3 + r.Intn(20)
		sleeps := 0
		for j := 0; j < n; j++ {
			switch k := r.Intn(100); {
			case k < 40:
				ops = append(ops, []string{"op", "add", keys[r.Intn(len(keys))]})
			case k < 70:
				ops = append(ops, []string{"op", "has", keys[r.Intn(len(keys))]})
			case k < 77:
				ops = append(ops, []string{"op", "delete", keys[r.Intn(len(keys))]})
			case k < 79:
				ops = append(ops, []string{"op", "clear"})
			case k < 84:
				ops = append(ops, []string{"op", "size"})
			default:
				if sleeps < 4 {
					ops = append(ops, []string{"op", "sleep", r.Pick("8", "25", "13")})
					sleeps++
				}
			}
		}
		for _, k := range keys {
			ops = append(ops, []string{"op", "has", k})
		}
		ops = append(ops, []string{"op", "size"})
		if i < 2 {
			tr.Sample(fmt.Sprint(size, ttl, ops))
		}
		c13LRUExec(tr, verifh.Case{Cfg: []string{"size=" + strconv.Itoa(size), "ttl=" + strconv.FormatInt(ttl, 10)}, Ops: ops})
		tr.Count("random_cases", 1)
	}
	_ = sort.Strings
}
