//go:build verif

// Package verifretry holds the pieces the C31/C32 harnesses share to drive a real
// persistedretry.Manager deterministically: an executor wrapper whose Exec waits for the harness,
// a recording store wrapper, and a manager wrapper that can pause Add (before it runs) and Find
// (after it ran).  Injected with `go test -overlay`; not part of /repo.
package verifretry

import (
	"errors"
	"sync"
	"time"

	"github.com/uber/kraken/lib/persistedretry"
)

// Timeout bounds every wait for an event the correct code must produce.
const Timeout = 20 * time.Second

var ErrDead = errors.New("process is gone")

// KeyFunc names a task.
type KeyFunc func(persistedretry.Task) string

// ---------------------------------------------------------------- executor

// GateExec wraps the real executor: asynchronous executions (workers) wait until the harness
// releases them; executions on behalf of SyncExec pass straight through.
type GateExec struct {
	Inner  persistedretry.Executor
	Key    KeyFunc
	mu     sync.Mutex
	dead   bool
	sync   map[string]int
	rel    map[string][]chan struct{}
	Starts chan string
	Dones  chan string // "<key>:ok" | "<key>:err" after the real executor returned (async only)
}

func NewGateExec(inner persistedretry.Executor, key KeyFunc) *GateExec {
	return &GateExec{Inner: inner, Key: key, sync: map[string]int{}, rel: map[string][]chan struct{}{},
		Starts: make(chan string, 256), Dones: make(chan string, 256)}
}

func (e *GateExec) Name() string { return e.Inner.Name() }

func (e *GateExec) Exec(t persistedretry.Task) error {
	k := e.Key(t)
	e.mu.Lock()
	if e.dead {
		e.mu.Unlock()
		return ErrDead
	}
	if e.sync[k] > 0 {
		e.mu.Unlock()
		return e.Inner.Exec(t)
	}
	ch := make(chan struct{})
	e.rel[k] = append(e.rel[k], ch)
	e.mu.Unlock()
	e.Starts <- k
	<-ch
	e.mu.Lock()
	dead := e.dead
	e.mu.Unlock()
	if dead {
		return ErrDead
	}
	err := e.Inner.Exec(t)
	if err != nil {
		e.Dones <- k + ":err"
	} else {
		e.Dones <- k + ":ok"
	}
	return err
}

// Release lets the oldest waiting execution of k run the real executor.
func (e *GateExec) Release(k string) bool {
	e.mu.Lock()
	defer e.mu.Unlock()
	chs := e.rel[k]
	if len(chs) == 0 {
		return false
	}
	close(chs[0])
	e.rel[k] = chs[1:]
	return true
}

func (e *GateExec) setSync(k string, d int) {
	e.mu.Lock()
	e.sync[k] += d
	e.mu.Unlock()
}

// Kill: the process is gone; waiting executions return without running the executor.
func (e *GateExec) Kill() {
	e.mu.Lock()
	defer e.mu.Unlock()
	e.dead = true
	for k, chs := range e.rel {
		for _, ch := range chs {
			close(ch)
		}
		delete(e.rel, k)
	}
}

// ---------------------------------------------------------------- store

type Ev struct {
	Meth, Key, Err string
	N              int
}

// RecStore delegates to the real store and records every completed call.
type RecStore struct {
	Inner persistedretry.Store
	Key   KeyFunc
	mu    sync.Mutex
	dead  bool
	Evs   chan Ev
}

func NewRecStore(inner persistedretry.Store, key KeyFunc) *RecStore {
	return &RecStore{Inner: inner, Key: key, Evs: make(chan Ev, 512)}
}

func (s *RecStore) Kill() { s.mu.Lock(); s.dead = true; s.mu.Unlock() }

func (s *RecStore) isDead() bool { s.mu.Lock(); defer s.mu.Unlock(); return s.dead }

func errClass(err error) string {
	switch {
	case err == nil:
		return ""
	case err == persistedretry.ErrTaskExists:
		return "exists"
	case err == persistedretry.ErrTaskNotFound:
		return "notfound"
	}
	return "err"
}

func (s *RecStore) call1(meth string, t persistedretry.Task, f func(persistedretry.Task) error) error {
	if s.isDead() {
		return ErrDead
	}
	err := f(t)
	if !s.isDead() {
		s.Evs <- Ev{Meth: meth, Key: s.Key(t), Err: errClass(err)}
	}
	return err
}

func (s *RecStore) callN(meth string, f func() ([]persistedretry.Task, error)) ([]persistedretry.Task, error) {
	if s.isDead() {
		return nil, ErrDead
	}
	ts, err := f()
	if !s.isDead() {
		s.Evs <- Ev{Meth: meth, Err: errClass(err), N: len(ts)}
	}
	return ts, err
}

func (s *RecStore) AddPending(t persistedretry.Task) error {
	return s.call1("AddPending", t, s.Inner.AddPending)
}
func (s *RecStore) AddFailed(t persistedretry.Task) error {
	return s.call1("AddFailed", t, s.Inner.AddFailed)
}
func (s *RecStore) MarkPending(t persistedretry.Task) error {
	return s.call1("MarkPending", t, s.Inner.MarkPending)
}
func (s *RecStore) MarkFailed(t persistedretry.Task) error {
	return s.call1("MarkFailed", t, s.Inner.MarkFailed)
}
func (s *RecStore) Remove(t persistedretry.Task) error { return s.call1("Remove", t, s.Inner.Remove) }
func (s *RecStore) GetPending() ([]persistedretry.Task, error) {
	return s.callN("GetPending", s.Inner.GetPending)
}
func (s *RecStore) GetFailed() ([]persistedretry.Task, error) {
	return s.callN("GetFailed", s.Inner.GetFailed)
}
func (s *RecStore) Find(q interface{}) ([]persistedretry.Task, error) {
	if s.isDead() {
		return nil, ErrDead
	}
	return s.Inner.Find(q)
}

// Drain returns the events recorded so far.
func (s *RecStore) Drain() []Ev {
	var out []Ev
	for {
		select {
		case e := <-s.Evs:
			out = append(out, e)
		default:
			return out
		}
	}
}

// Has reports a successful call of meth on key among evs.
func Has(evs []Ev, meth, key string) bool {
	for _, e := range evs {
		if e.Meth == meth && e.Key == key && e.Err == "" {
			return true
		}
	}
	return false
}

// ---------------------------------------------------------------- manager

// Gate parks one caller until Release.
type Gate struct {
	Hit chan string
	rel chan struct{}
}

func newGate() *Gate { return &Gate{Hit: make(chan string, 1), rel: make(chan struct{})} }

func (g *Gate) Release() { close(g.rel) }

// GateManager wraps the real manager handed to the component under test.
type GateManager struct {
	Inner persistedretry.Manager
	Exec  *GateExec
	Key   KeyFunc
	// QueryKey names the blob / tag a Find query is about.
	QueryKey func(q interface{}) string
	mu       sync.Mutex
	dead     bool
	addGates map[string]*Gate // key -> pause the next Add(key) before it runs
	findGate map[string]*Gate // query key -> pause the next Find after it ran
}

func NewGateManager(inner persistedretry.Manager, ex *GateExec, key KeyFunc, qk func(interface{}) string) *GateManager {
	return &GateManager{Inner: inner, Exec: ex, Key: key, QueryKey: qk, addGates: map[string]*Gate{}, findGate: map[string]*Gate{}}
}

// ArmAdd makes the next Add of key wait (before anything happened) until the gate is released.
func (m *GateManager) ArmAdd(key string) *Gate {
	g := newGate()
	m.mu.Lock()
	m.addGates[key] = g
	m.mu.Unlock()
	return g
}

// ArmFind makes the next Find about qk wait (after the store answered) until released.
func (m *GateManager) ArmFind(qk string) *Gate {
	g := newGate()
	m.mu.Lock()
	m.findGate[qk] = g
	m.mu.Unlock()
	return g
}

// Kill: the process is gone; parked callers resume with an error and change nothing.
func (m *GateManager) Kill() { m.mu.Lock(); m.dead = true; m.mu.Unlock() }

func (m *GateManager) isDead() bool { m.mu.Lock(); defer m.mu.Unlock(); return m.dead }

func (m *GateManager) Disarm() {
	m.mu.Lock()
	m.addGates = map[string]*Gate{}
	m.findGate = map[string]*Gate{}
	m.mu.Unlock()
}

func (m *GateManager) Add(t persistedretry.Task) error {
	k := m.Key(t)
	m.mu.Lock()
	g := m.addGates[k]
	delete(m.addGates, k)
	m.mu.Unlock()
	if g != nil {
		g.Hit <- k
		<-g.rel
	}
	if m.isDead() {
		return ErrDead
	}
	return m.Inner.Add(t)
}

func (m *GateManager) SyncExec(t persistedretry.Task) error {
	k := m.Key(t)
	m.Exec.setSync(k, 1)
	defer m.Exec.setSync(k, -1)
	return m.Inner.SyncExec(t)
}

func (m *GateManager) Close() { m.Inner.Close() }

func (m *GateManager) Find(q interface{}) ([]persistedretry.Task, error) {
	ts, err := m.Inner.Find(q)
	qk := m.QueryKey(q)
	m.mu.Lock()
	g := m.findGate[qk]
	delete(m.findGate, qk)
	m.mu.Unlock()
	if g != nil {
		g.Hit <- qk
		<-g.rel
	}
	if m.isDead() {
		return nil, ErrDead
	}
	return ts, err
}
