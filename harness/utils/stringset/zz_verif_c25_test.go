//go:build verif

package stringset_test

import (
	"fmt"
	"sort"
	"strconv"
	"testing"

	"github.com/uber/kraken/utils/stringset"
	"github.com/uber/kraken/utils/verifh"
)

// C25 harness (1/3): stringset.Set.Sample. One self-contained record per call:
//   sample one sample <n> <set> => <result sorted> recv=<len(receiver) after adding a probe to the result>

func c25SampleExec(t *verifh.T, c verifh.Case) {
	for _, op := range c.Ops {
		if len(op) != 4 || op[0] != "one" || op[1] != "sample" {
			continue
		}
		n, err := strconv.Atoi(op[2])
		if err != nil {
			continue
		}
		var hosts []string
		for _, h := range verifh.Unlist(op[3]) {
			s, err := verifh.Unstr(h)
			if err != nil {
				s = h
			}
			hosts = append(hosts, s)
		}
		s := stringset.New(hosts...)
		var res stringset.Set
		if p := verifh.Protect(func() { res = s.Sample(n) }); p != "" {
			t.One(op[1:], "panic", "recv="+strconv.Itoa(len(s)))
			t.PropFail("panic", verifh.Str(p))
			continue
		}
		var rs []string
		for x := range res {
			rs = append(rs, verifh.Str(x))
		}
		sort.Strings(rs)
		// the sample must be a set of its own: changing it must not change the receiver
		res.Add("\x00probe")
		t.One(op[1:], verifh.List(rs), "recv="+strconv.Itoa(len(s)))
	}
}

func c25Hosts(k int, prefix string) []string {
	var hs []string
	for i := 0; i < k; i++ {
		hs = append(hs, verifh.Str(fmt.Sprintf("%s%02d:80", prefix, i)))
	}
	return hs
}

func TestVerif_C25Sample(t *testing.T) {
	tr := verifh.Open("sample")
	defer tr.Close()
	cases, replayOnly := verifh.InputCases("sample")
	for _, c := range cases {
		c25SampleExec(tr, c)
		tr.Count("corpus_or_replay_cases", 1)
	}
	if replayOnly {
		return
	}
	// exhaustive: every set size 0..40 (0..64 thorough) x every n from -2 to size+3
	maxSize := verifh.Scale(40, 64)
	for k := 0; k <= maxSize; k++ {
		for n := -2; n <= k+3; n++ {
			c25SampleExec(tr, verifh.Case{Ops: [][]string{{"one", "sample", strconv.Itoa(n), verifh.List(c25Hosts(k, "h"))}}})
			tr.Count("exhaustive_size_n", 1)
		}
	}
	// random names / sizes, repeated (map iteration order differs from run to run)
	r := verifh.NewRand(verifh.Seed(), "c25sample")
	for i := 0; i < verifh.Scale(3000, 200000); i++ {
		k := r.Intn(45)
		seen := map[string]bool{}
		var hs []string
		for len(hs) < k {
			h := fmt.Sprintf("10.%d.%d.%d:%d", r.Intn(3), r.Intn(200), r.Intn(200), 1000+r.Intn(3))
			if r.Chance(1, 10) {
				h = string(r.Bytes(1 + r.Intn(5)))
			}
			if !seen[h] && h != "-" { // "-" alone would read as the empty list token
				seen[h] = true
				hs = append(hs, verifh.Str(h))
			}
		}
		n := r.Intn(k + 3)
		if r.Chance(1, 4) {
			n = []int{1, 3}[r.Intn(2)] // the values the cluster clients use
		}
		c25SampleExec(tr, verifh.Case{Ops: [][]string{{"one", "sample", strconv.Itoa(n), verifh.List(hs)}}})
		tr.Count("random_cases", 1)
	}
}
