//go:build verif

package httputil_test

import (
	"bytes"
	"fmt"
	"io"
	"net"
	"net/http"
	"net/http/httptest"
	"os"
	"path/filepath"
	"sort"
	"strconv"
	"strings"
	"sync"
	"testing"
	"time"

	"github.com/cenkalti/backoff"

	"github.com/uber/kraken/utils/httputil"
	"github.com/uber/kraken/utils/verifh"
)

// C34 harness: calls the real httputil.Send against an httptest server scripted per request
// (read the whole request then hijack-and-close; or answer with a status) and records what the
// server received on every attempt (method, URI, headers, body bytes, body read error) and what
// Send returned. Keep-alives are off on both sides so every attempt uses a fresh connection and
// net/http never replays a request on its own.

type c34Server struct {
	srv    *httptest.Server
	mu     sync.Mutex
	caseID int // requests carry it as a path prefix /c<id>: a straggler of an earlier case is ignored
	script []string
	seen   []string
}

var c34AutoHeaders = map[string]bool{"User-Agent": true, "Accept-Encoding": true, "Content-Length": true,
	"Transfer-Encoding": true, "Connection": true, "Host": true}

func c34HdrTok(h http.Header) string {
	var hs []string
	for k, vs := range h {
		if c34AutoHeaders[k] {
			continue
		}
		hs = append(hs, k+":"+strings.Join(vs, ";"))
	}
	return verifh.SortedList(hs)
}

func (s *c34Server) ServeHTTP(w http.ResponseWriter, r *http.Request) {
	body, rerr := io.ReadAll(r.Body)
	s.mu.Lock()
	uri := r.URL.RequestURI()
	prefix := fmt.Sprintf("/c%d", s.caseID)
	if !strings.HasPrefix(uri, prefix+"/") {
		s.mu.Unlock()
		w.WriteHeader(410)
		return
	}
	uri = uri[len(prefix):]
	i := len(s.seen)
	if i >= 200 {
		// a retry loop that does not stop: keep answering, stop recording
		s.mu.Unlock()
		w.WriteHeader(503)
		return
	}
	s.seen = append(s.seen, fmt.Sprintf("a:%s|%s|%s|%s|%s", r.Method, verifh.Str(uri), c34HdrTok(r.Header),
		verifh.Hex(body), verifh.Bool(rerr != nil)))
	act := "net"
	if i < len(s.script) {
		act = s.script[i]
	}
	s.mu.Unlock()
	if act == "net" {
		conn, brw, err := w.(http.Hijacker).Hijack()
		if err != nil {
			panic(err)
		}
		brw.Flush()
		if tc, ok := conn.(*net.TCPConn); ok {
			tc.CloseWrite()
			conn.SetReadDeadline(time.Now().Add(30 * time.Second))
			io.Copy(io.Discard, conn)
		}
		conn.Close()
		return
	}
	code, _ := strconv.Atoi(act[1:])
	w.WriteHeader(code)
	if code != 204 && code != 304 && r.Method != "HEAD" {
		w.Write([]byte("scripted"))
	}
}

var c34Srv *c34Server

// c34Backoff answers 0 (no sleep) n times, then Stop (Send never calls Reset).
type c34Backoff struct{ left int }

func (b *c34Backoff) NextBackOff() time.Duration {
	if b.left <= 0 {
		return backoff.Stop
	}
	b.left--
	return 0
}
func (b *c34Backoff) Reset() {}

type c34OnlyReader struct{ r io.Reader }

func (o c34OnlyReader) Read(p []byte) (int, error) { return o.r.Read(p) }

// c34Seeker is a ReadSeeker that is not one of net/http's known in-memory readers.
type c34Seeker struct{ r *bytes.Reader }

func (s c34Seeker) Read(p []byte) (int, error)                 { return s.r.Read(p) }
func (s c34Seeker) Seek(off int64, whence int) (int64, error) { return s.r.Seek(off, whence) }

func c34KV(toks []string, k string) (string, bool) {
	for _, t := range toks {
		if strings.HasPrefix(t, k+"=") {
			return t[len(k)+1:], true
		}
	}
	return "", false
}

var c34Kinds = map[string]string{"nil": "none", "nobody": "none", "bytesreader": "rew", "buffer": "rew", "strings": "rew",
	"file": "plain", "onlyreader": "plain", "limit": "plain", "seeker": "plain"}

func c34Codes(tok string) ([]int, bool) {
	var out []int
	for _, t := range verifh.Unlist(tok) {
		n, err := strconv.Atoi(t)
		if err != nil || n < 200 || n > 599 || n/100 == 3 {
			return nil, false
		}
		out = append(out, n)
	}
	return out, true
}

var c34Transport = &http.Transport{DisableKeepAlives: true}

var c34Broken int

// c34Exec runs one case; returns false if the case is malformed (nothing written).
func c34Exec(t *verifh.T, c verifh.Case, tmp string) bool {
	method, _ := c34KV(c.Cfg, "method")
	pathT, _ := c34KV(c.Cfg, "path")
	hdrT, _ := c34KV(c.Cfg, "hdr")
	impl, _ := c34KV(c.Cfg, "impl")
	bodyT, _ := c34KV(c.Cfg, "body")
	accT, _ := c34KV(c.Cfg, "accepted")
	extraT, _ := c34KV(c.Cfg, "extra")
	boT, _ := c34KV(c.Cfg, "bo")
	kind, okK := c34Kinds[impl]
	path, err1 := verifh.Unstr(pathT)
	body, err2 := verifh.Unhex(bodyT)
	accepted, ok1 := c34Codes(accT)
	extra, ok2 := c34Codes(extraT)
	okM := map[string]bool{"GET": true, "POST": true, "PUT": true, "PATCH": true, "DELETE": true}[method]
	if !okK || err1 != nil || err2 != nil || !ok1 || !ok2 || !okM || !strings.HasPrefix(path, "/") ||
		(kind == "none" && len(body) != 0) || (boT == "none" && len(extra) != 0) {
		return false
	}
	headers := map[string]string{}
	for _, kv := range verifh.Unlist(hdrT) {
		p := strings.SplitN(kv, ":", 2)
		if len(p) != 2 || http.CanonicalHeaderKey(p[0]) != p[0] || c34AutoHeaders[p[0]] || p[1] == "" || strings.ContainsAny(p[1], " ,;|") {
			return false
		}
		if _, dup := headers[p[0]]; dup {
			return false
		}
		headers[p[0]] = p[1]
	}
	var hs []string
	for k, v := range headers {
		hs = append(hs, k+":"+v)
	}
	sort.Strings(hs)
	var script []string
	doSend := false
	for _, op := range c.Ops {
		if len(op) == 2 && op[0] == "op" && op[1] == "send" {
			doSend = true
		}
		if len(op) == 2 && op[0] == "script" && !doSend {
			script = nil
			for _, a := range verifh.Unlist(op[1]) {
				if a != "net" {
					if n, err := strconv.Atoi(strings.TrimPrefix(a, "s")); err != nil || !strings.HasPrefix(a, "s") || n < 200 || n > 599 || n/100 == 3 {
						return false
					}
				}
				script = append(script, a)
			}
		}
	}
	opts := []httputil.SendOption{httputil.SendTransport(c34Transport), httputil.SendHeaders(headers)}
	if len(accepted) > 0 || accT == "-" {
		opts = append(opts, httputil.SendAcceptedCodes(accepted...))
	}
	switch boT {
	case "none":
	case "default":
		opts = append(opts, httputil.SendRetry(httputil.RetryCodes(extra...)))
	default:
		n, err := strconv.Atoi(boT)
		if err != nil || n < 0 || n > 64 {
			return false
		}
		opts = append(opts, httputil.SendRetry(httputil.RetryBackoff(&c34Backoff{left: n}), httputil.RetryCodes(extra...)))
	}
	var rd io.Reader
	switch impl {
	case "nil":
	case "nobody":
		rd = http.NoBody
	case "bytesreader":
		rd = bytes.NewReader(body)
	case "buffer":
		rd = bytes.NewBuffer(append([]byte{}, body...))
	case "strings":
		rd = strings.NewReader(string(body))
	case "file":
		p := filepath.Join(tmp, "body")
		if err := os.WriteFile(p, body, 0644); err != nil {
			panic(err)
		}
		f, err := os.Open(p)
		if err != nil {
			panic(err)
		}
		defer f.Close()
		rd = f
	case "onlyreader":
		rd = c34OnlyReader{bytes.NewReader(body)}
	case "limit":
		rd = io.LimitReader(bytes.NewReader(body), int64(len(body))+7)
	case "seeker":
		rd = c34Seeker{bytes.NewReader(body)}
	}
	if rd != nil {
		opts = append(opts, httputil.SendBody(rd))
	}
	if c34Srv == nil {
		c34Srv = &c34Server{}
		c34Srv.srv = httptest.NewUnstartedServer(c34Srv)
		c34Srv.srv.Config.SetKeepAlivesEnabled(false)
		c34Srv.srv.Start()
	}
	c34Srv.mu.Lock()
	c34Srv.caseID++
	prefix := fmt.Sprintf("/c%d", c34Srv.caseID)
	c34Srv.script, c34Srv.seen = script, nil
	c34Srv.mu.Unlock()

	t.Cfg("method="+method, "path="+verifh.Str(path), "hdr="+verifh.List(hs), "kind="+kind, "impl="+impl, "body="+verifh.Hex(body),
		"accepted="+accT, "extra="+extraT, "bo="+boT)
	t.Rec("script", []string{verifh.List(script)}, nil)
	if !doSend {
		t.End()
		return true
	}
	var resp *http.Response
	var err error
	done := make(chan string, 1)
	go func() {
		done <- verifh.Protect(func() { resp, err = httputil.Send(method, c34Srv.srv.URL+prefix+path, opts...) })
	}()
	select {
	case p := <-done:
		if p != "" {
			t.PropFail("panic", verifh.Str(p))
			t.End()
			return true
		}
	case <-time.After(60 * time.Second):
		// "retrying stops when the backoff is exhausted": a Send that is still retrying after a
		// minute (scripted backoffs do not sleep) never stops. Report the case and end the run.
		c34Srv.mu.Lock()
		n := len(c34Srv.seen)
		c34Srv.mu.Unlock()
		t.PropFail("send-does-not-return", "requests="+strconv.Itoa(n))
		t.End()
		t.Close()
		os.Exit(0)
	}
	var result string
	switch e := err.(type) {
	case nil:
		result = "ok:" + strconv.Itoa(resp.StatusCode)
		io.Copy(io.Discard, resp.Body)
		resp.Body.Close()
	case httputil.NetworkError:
		result = "neterr"
	case httputil.StatusError:
		result = "status:" + strconv.Itoa(e.Status)
	default:
		result = "other:" + verifh.Str(err.Error())
	}
	c34Srv.mu.Lock()
	seen := append([]string{}, c34Srv.seen...)
	c34Srv.mu.Unlock()
	t.Op([]string{"send"}, append([]string{result}, seen...)...)
	t.End()
	want := fmt.Sprintf("a:%s|%s|%s|%s|0", method, verifh.Str(path), verifh.List(hs), verifh.Hex(body))
	for _, a := range seen {
		if a != want {
			c34Broken++ // only used to stop generating early; the verdict is the driver's
			break
		}
	}
	return true
}

func c34Case(method, path string, hdr []string, impl string, body []byte, accepted, extra, bo string, script []string) verifh.Case {
	return verifh.Case{Cfg: []string{"method=" + method, "path=" + verifh.Str(path), "hdr=" + verifh.List(hdr), "kind=" + c34Kinds[impl],
		"impl=" + impl, "body=" + verifh.Hex(body), "accepted=" + accepted, "extra=" + extra, "bo=" + bo},
		Ops: [][]string{{"script", verifh.List(script)}, {"op", "send"}}}
}

func TestVerif_C34(t *testing.T) {
	tmp := t.TempDir()
	tr := verifh.Open("send")
	defer tr.Close()
	cases, replayOnly := verifh.InputCases("send")
	for _, c := range cases {
		c34Exec(tr, c, tmp)
		tr.Count("corpus_or_replay_cases", 1)
	}
	if replayOnly {
		return
	}
	stop := func() bool {
		if c34Broken >= 8 {
			tr.Comment("generation stopped after 8 cases in which an attempt differed from the original request")
			return true
		}
		return false
	}
	// (a) bounded-exhaustive: every server script up to a depth over a small alphabet, for every
	// body implementation, backoff budget and accepted/extra configuration
	alpha := []string{"net", "s200", "s503", "s404", "s429", "s400"}
	impls := []string{"nil", "bytesreader", "buffer", "strings", "file", "onlyreader", "limit", "seeker", "nobody"}
	if !verifh.Thorough() {
		impls = []string{"nil", "bytesreader", "strings", "file", "onlyreader"}
	}
	type acfg struct{ accepted, extra string }
	cfgs := []acfg{{"200", "-"}, {"200,503", "400"}, {"200,404", "-"}}
	bos := []string{"none", "0", "1", "2"}
	if verifh.Thorough() {
		bos = append(bos, "3")
	}
	depth := verifh.Scale(3, 4)
	body := []byte("payload-123")
	var scripts [][]string
	var rec func(prefix []string, d int)
	rec = func(prefix []string, d int) {
		scripts = append(scripts, prefix)
		if d == 0 {
			return
		}
		for _, a := range alpha {
			rec(append(prefix[:len(prefix):len(prefix)], a), d-1)
		}
	}
	rec(nil, depth)
	for _, sc := range scripts {
		for _, impl := range impls {
			for _, bo := range bos {
				if n, err := strconv.Atoi(bo); (err != nil && len(sc) > 1) || (err == nil && len(sc) > n+1) {
					continue // responses beyond the backoff budget are never requested
				}
				for _, cf := range cfgs {
					if bo == "none" && cf.extra != "-" {
						continue
					}
					b := body
					if c34Kinds[impl] == "none" {
						b = nil
					}
					c34Exec(tr, c34Case("POST", "/x", []string{"X-V-A:1"}, impl, b, cf.accepted, cf.extra, bo, sc), tmp)
					tr.Count("exhaustive_cases", 1)
					if stop() {
						return
					}
				}
			}
		}
	}
	// a code listed both as accepted and as a RetryCodes status (known finding: it is retried)
	for _, sc := range scripts {
		if len(sc) > 2 {
			continue
		}
		for _, impl := range []string{"nil", "bytesreader"} {
			b := body
			if impl == "nil" {
				b = nil
			}
			c34Exec(tr, c34Case("POST", "/x", nil, impl, b, "200,404", "404", "2", sc), tmp)
			tr.Count("overlap_cases", 1)
		}
	}
	// the default SendRetry backoff (2 retries, 250 ms apart) and the default accepted codes
	for _, impl := range []string{"nil", "bytesreader", "onlyreader"} {
		b := body
		if impl == "nil" {
			b = nil
		}
		c34Exec(tr, c34Case("PUT", "/d", nil, impl, b, "200", "-", "default", []string{"s503", "net", "s200"}), tmp)
		tr.Count("default_backoff_cases", 1)
	}
	// (b) seeded random: methods, URIs, headers, body sizes up to 64 KiB+, longer scripts, odd codes
	r := verifh.NewRand(verifh.Seed(), "c34")
	allImpls := []string{"nil", "nobody", "bytesreader", "buffer", "strings", "file", "onlyreader", "limit", "seeker"}
	codes := []int{200, 200, 201, 202, 204, 400, 403, 404, 409, 429, 499, 500, 502, 503, 503, 504, 599}
	for i := 0; i < verifh.Scale(1200, 40000); i++ {
		impl := allImpls[r.Intn(len(allImpls))]
		var b []byte
		if c34Kinds[impl] != "none" {
			switch r.Intn(12) {
			case 0:
				b = nil
			case 1:
				if i%40 == 1 {
					b = r.Bytes(60000 + r.Intn(10000))
				} else {
					b = r.Bytes(4000 + r.Intn(5000))
				}
			default:
				b = r.Bytes(1 + r.Intn(64))
			}
		}
		method := r.Pick("POST", "PUT", "PATCH", "DELETE", "GET", "POST")
		path := r.Pick("/x", "/a/b", "/q?k=v&z=1", "/namespace/n%2Fs/blobs/sha256:00", "/")
		var hdr []string
		for _, k := range []string{"X-V-A", "X-V-B", "Content-Type", "Authorization"} {
			if r.Chance(1, 3) {
				hdr = append(hdr, k+":"+r.Pick("1", "two", "application/json", "Bearer.tok"))
			}
		}
		pick := func(n int) string {
			var cs []string
			seen := map[int]bool{}
			for j := 0; j < n; j++ {
				c := codes[r.Intn(len(codes))]
				if !seen[c] {
					seen[c] = true
					cs = append(cs, strconv.Itoa(c))
				}
			}
			return verifh.List(cs)
		}
		accepted := "200"
		if r.Chance(1, 3) {
			accepted = pick(1 + r.Intn(3))
		}
		bo := r.Pick("none", "0", "1", "2", "3", "5", "8")
		extra := "-"
		if bo != "none" && r.Chance(1, 3) {
			extra = pick(1 + r.Intn(2))
		}
		var sc []string
		for j, n := 0, r.Intn(7); j < n; j++ {
			if r.Chance(1, 4) {
				sc = append(sc, "net")
			} else if r.Chance(1, 2) {
				sc = append(sc, r.Pick("s503", "s502", "s429", "s504"))
			} else {
				sc = append(sc, "s"+strconv.Itoa(codes[r.Intn(len(codes))]))
			}
		}
		c := c34Case(method, path, hdr, impl, b, accepted, extra, bo, sc)
		if i < 3 {
			tr.Sample(fmt.Sprint(c.Cfg[:5], " body=", len(b), " ", c.Cfg[6:], " ", sc))
		}
		c34Exec(tr, c, tmp)
		tr.Count("random_cases_"+c34Kinds[impl], 1)
		if stop() {
			return
		}
	}
}
