//go:build verif

package httputil_test

import (
	"bufio"
	"bytes"
	"crypto/ecdsa"
	"crypto/elliptic"
	"crypto/rand"
	"crypto/sha256"
	"crypto/tls"
	"crypto/x509"
	"crypto/x509/pkix"
	"encoding/hex"
	"fmt"
	"io"
	"log"
	"math/big"
	"net"
	"net/http"
	"os"
	"path/filepath"
	"sort"
	"strconv"
	"strings"
	"sync"
	"testing"
	"time"

	"github.com/cenkalti/backoff"

	"github.com/uber/kraken/utils/httputil"
	"github.com/uber/kraken/utils/verifh"
)

// C34 harness: calls the real httputil.Send against one server that speaks TLS and plain HTTP on
// the same port (the https→http fallback keeps host and port) and is scripted per connection:
// answer with a status; read the whole request then close; read k body bytes then close; close
// before reading anything (TLS handshake included). It records what it received on every attempt
// (scheme, method, URI, headers, body, framing) and what Send returned. Unless a case asks for
// keep-alive, every attempt uses a fresh connection, so net/http never replays a request itself.

type c34Server struct {
	mu     sync.Mutex
	caseID int // requests carry it as a path prefix /c<id>: a straggler of an earlier case is ignored
	script []string
	next   int // script entries consumed so far
	seen   []string
	ln     net.Listener
	srv    *http.Server
	url    string // host:port
}

var c34AutoHeaders = map[string]bool{"User-Agent": true, "Accept-Encoding": true, "Content-Length": true,
	"Transfer-Encoding": true, "Connection": true, "Host": true}

func c34HdrTok(h http.Header) string {
	var hs []string
	for k, vs := range h {
		if c34AutoHeaders[k] {
			continue
		}
		hs = append(hs, k+":"+strings.Join(vs, ";"))
	}
	return verifh.SortedList(hs)
}

// c34BodyTok: bodies up to 64 bytes in hex, larger ones as length + hash.
func c34BodyTok(b []byte) string {
	if len(b) <= 64 {
		return verifh.Hex(b)
	}
	h := sha256.Sum256(b)
	return fmt.Sprintf("b%d.%s", len(b), hex.EncodeToString(h[:8]))
}

// peekConn lets the listener look at the first byte of a connection.
type peekConn struct {
	net.Conn
	r *bufio.Reader
}

func (c *peekConn) Read(p []byte) (int, error) { return c.r.Read(p) }

// c34Listener closes connections the script refuses and routes TLS / plain HTTP by the first byte.
type c34Listener struct {
	net.Listener
	s   *c34Server
	cfg *tls.Config
}

func (l *c34Listener) Accept() (net.Conn, error) {
	for {
		c, err := l.Listener.Accept()
		if err != nil {
			return nil, err
		}
		l.s.mu.Lock()
		refuse := l.s.next < len(l.s.script) && l.s.script[l.s.next] == "refuse"
		if refuse {
			l.s.next++
		}
		l.s.mu.Unlock()
		if refuse {
			c.Close()
			continue
		}
		pc := &peekConn{Conn: c, r: bufio.NewReader(c)}
		c.SetReadDeadline(time.Now().Add(30 * time.Second))
		b, err := pc.r.Peek(1)
		c.SetReadDeadline(time.Time{})
		if err != nil {
			c.Close()
			continue
		}
		if b[0] == 0x16 {
			return tls.Server(pc, l.cfg), nil
		}
		return pc, nil
	}
}

func c34Cert() tls.Certificate {
	key, err := ecdsa.GenerateKey(elliptic.P256(), rand.Reader)
	if err != nil {
		panic(err)
	}
	tmpl := &x509.Certificate{SerialNumber: big.NewInt(1), Subject: pkix.Name{CommonName: "verif"},
		NotBefore: time.Now().Add(-time.Hour), NotAfter: time.Now().Add(24 * time.Hour),
		IPAddresses: []net.IP{net.ParseIP("127.0.0.1")}, KeyUsage: x509.KeyUsageDigitalSignature,
		ExtKeyUsage: []x509.ExtKeyUsage{x509.ExtKeyUsageServerAuth}}
	der, err := x509.CreateCertificate(rand.Reader, tmpl, tmpl, &key.PublicKey, key)
	if err != nil {
		panic(err)
	}
	return tls.Certificate{Certificate: [][]byte{der}, PrivateKey: key}
}

func c34Drop(w http.ResponseWriter) {
	conn, brw, err := w.(http.Hijacker).Hijack()
	if err != nil {
		panic(err)
	}
	brw.Flush()
	switch c := conn.(type) {
	case *tls.Conn:
		c.CloseWrite()
	case *peekConn:
		if tc, ok := c.Conn.(*net.TCPConn); ok {
			tc.CloseWrite()
		}
	}
	conn.SetReadDeadline(time.Now().Add(2 * time.Second))
	io.Copy(io.Discard, conn)
	conn.Close()
}

func (s *c34Server) ServeHTTP(w http.ResponseWriter, r *http.Request) {
	s.mu.Lock()
	uri := r.URL.RequestURI()
	prefix := fmt.Sprintf("/c%d", s.caseID)
	if !strings.HasPrefix(uri, prefix+"/") {
		s.mu.Unlock()
		io.Copy(io.Discard, r.Body)
		w.WriteHeader(410)
		return
	}
	uri = uri[len(prefix):]
	act := "net"
	if s.next < len(s.script) {
		act = s.script[s.next]
	}
	s.next++
	over := len(s.seen) >= 200
	s.mu.Unlock()
	if over {
		// a retry loop that does not stop: keep answering, stop recording
		io.Copy(io.Discard, r.Body)
		w.WriteHeader(503)
		return
	}
	scheme := "P"
	if r.TLS != nil {
		scheme = "S"
	}
	framing := "chunked"
	if r.ContentLength >= 0 {
		framing = "cl" + strconv.FormatInt(r.ContentLength, 10)
	}
	head := fmt.Sprintf("a:%s|%s|%s|%s|", scheme, r.Method, verifh.Str(uri), c34HdrTok(r.Header))
	record := func(tok string) {
		s.mu.Lock()
		s.seen = append(s.seen, tok)
		s.mu.Unlock()
	}
	if strings.HasPrefix(act, "n") && act != "net" {
		k, _ := strconv.Atoi(act[1:])
		buf := make([]byte, k)
		n, err := io.ReadFull(r.Body, buf)
		if err == nil {
			// is there more? then the server stops here by script
			var one [1]byte
			m, _ := r.Body.Read(one[:])
			if m > 0 {
				record(head + fmt.Sprintf("p%d|p|%s", k, framing))
				c34Drop(w)
				return
			}
		}
		// the body was not longer than k: it was read completely
		if err != nil && err != io.EOF && err != io.ErrUnexpectedEOF {
			record(head + c34BodyTok(buf[:n]) + "|1|" + framing)
		} else {
			record(head + c34BodyTok(buf[:n]) + "|0|" + framing)
		}
		c34Drop(w)
		return
	}
	body, rerr := io.ReadAll(r.Body)
	record(head + c34BodyTok(body) + "|" + verifh.Bool(rerr != nil) + "|" + framing)
	if act == "net" {
		c34Drop(w)
		return
	}
	code, _ := strconv.Atoi(act[1:])
	w.WriteHeader(code)
	if code != 204 && code != 304 && r.Method != "HEAD" {
		w.Write([]byte("scripted"))
	}
}

var c34Srv *c34Server

func c34Start() {
	s := &c34Server{}
	ln, err := net.Listen("tcp", "127.0.0.1:0")
	if err != nil {
		panic(err)
	}
	s.ln = &c34Listener{Listener: ln, s: s, cfg: &tls.Config{Certificates: []tls.Certificate{c34Cert()}}}
	s.url = ln.Addr().String()
	s.srv = &http.Server{Handler: s, ErrorLog: log.New(io.Discard, "", 0)}
	go s.srv.Serve(s.ln)
	c34Srv = s
}

// c34Backoff answers 0 (no sleep) n times, then Stop. Like the real backoffs (WithMaxRetries,
// ExponentialBackOff) Reset refills it: a Send that resets its backoff mid-request gets more
// attempts than the budget allows.
type c34Backoff struct{ n, left int }

func (b *c34Backoff) NextBackOff() time.Duration {
	if b.left <= 0 {
		return backoff.Stop
	}
	b.left--
	return 0
}
func (b *c34Backoff) Reset() { b.left = b.n }

type c34OnlyReader struct{ r io.Reader }

func (o c34OnlyReader) Read(p []byte) (int, error) { return o.r.Read(p) }

// c34Seeker is a ReadSeeker that is not one of net/http's known in-memory readers.
type c34Seeker struct{ r *bytes.Reader }

func (s c34Seeker) Read(p []byte) (int, error)                { return s.r.Read(p) }
func (s c34Seeker) Seek(off int64, whence int) (int64, error) { return s.r.Seek(off, whence) }

func c34KV(toks []string, k string) (string, bool) {
	for _, t := range toks {
		if strings.HasPrefix(t, k+"=") {
			return t[len(k)+1:], true
		}
	}
	return "", false
}

var c34Kinds = map[string]string{"nil": "none", "nobody": "none", "bytesreader": "rew", "buffer": "rew", "strings": "rew",
	"file": "plain", "onlyreader": "plain", "limit": "plain", "seeker": "plain", "section": "plain"}

func c34Codes(tok string) ([]int, bool) {
	var out []int
	for _, t := range verifh.Unlist(tok) {
		n, err := strconv.Atoi(t)
		if err != nil || n < 200 || n > 599 || n/100 == 3 {
			return nil, false
		}
		out = append(out, n)
	}
	return out, true
}

var (
	c34Plain     = &http.Transport{DisableKeepAlives: true}
	c34PlainKA   = &http.Transport{}
	c34Secure    = &http.Transport{DisableKeepAlives: true, TLSClientConfig: &tls.Config{InsecureSkipVerify: true}}
	c34SecureKA  = &http.Transport{TLSClientConfig: &tls.Config{InsecureSkipVerify: true}}
	c34Broken    int
	c34bodyCache = map[string][]byte{}
)

// c34Body decodes a body token: x<hex>, or g<len>.<seed> (generated bytes, for large bodies).
func c34Body(tok string) ([]byte, bool) {
	if strings.HasPrefix(tok, "x") {
		b, err := verifh.Unhex(tok)
		return b, err == nil
	}
	if strings.HasPrefix(tok, "g") {
		if b, ok := c34bodyCache[tok]; ok {
			return b, true
		}
		p := strings.SplitN(tok[1:], ".", 2)
		if len(p) != 2 {
			return nil, false
		}
		n, err1 := strconv.Atoi(p[0])
		seed, err2 := strconv.Atoi(p[1])
		if err1 != nil || err2 != nil || n < 0 || n > 64<<20 {
			return nil, false
		}
		b := make([]byte, n)
		x := uint32(seed)*2654435761 + 12345
		for i := range b {
			x = x*1664525 + 1013904223
			b[i] = byte(x >> 24)
		}
		c34bodyCache[tok] = b
		return b, true
	}
	return nil, false
}

// c34Exec runs one case; returns false if the case is malformed (nothing written).
func c34Exec(t *verifh.T, c verifh.Case, tmp string) bool {
	method, _ := c34KV(c.Cfg, "method")
	pathT, _ := c34KV(c.Cfg, "path")
	hdrT, _ := c34KV(c.Cfg, "hdr")
	impl, _ := c34KV(c.Cfg, "impl")
	genT, hasGen := c34KV(c.Cfg, "gen") // how the harness produces the body (the transcript carries its token)
	bodyT, _ := c34KV(c.Cfg, "body")
	accT, _ := c34KV(c.Cfg, "accepted")
	extraT, _ := c34KV(c.Cfg, "extra")
	boT, _ := c34KV(c.Cfg, "bo")
	tlsT, _ := c34KV(c.Cfg, "tls")
	fbT, _ := c34KV(c.Cfg, "fb")
	kaT, _ := c34KV(c.Cfg, "ka")
	// skip=k: the reader handed to Send holds k more bytes in front of the body and was advanced
	// past them by the caller; the request body is what is unread when Send is called
	skip := 0
	if sk, ok := c34KV(c.Cfg, "skip"); ok {
		n, err := strconv.Atoi(sk)
		if err != nil || n < 0 || n > 1<<20 {
			return false
		}
		skip = n
	}
	kind, okK := c34Kinds[impl]
	path, err1 := verifh.Unstr(pathT)
	src := bodyT
	if hasGen {
		src = genT
	}
	body, okB := c34Body(src)
	accepted, ok1 := c34Codes(accT)
	extra, ok2 := c34Codes(extraT)
	okM := map[string]bool{"GET": true, "POST": true, "PUT": true, "PATCH": true, "DELETE": true}[method]
	okF := func(s string) bool { return s == "0" || s == "1" }
	if !okK || err1 != nil || !okB || !ok1 || !ok2 || !okM || !strings.HasPrefix(path, "/") ||
		(kind == "none" && len(body) != 0) || (boT == "none" && len(extra) != 0) || !okF(tlsT) || !okF(fbT) || !okF(kaT) ||
		(fbT == "1" && tlsT == "0") || (skip > 0 && kind == "none") {
		return false
	}
	whole := body
	if skip > 0 {
		whole = make([]byte, 0, skip+len(body))
		for i := 0; i < skip; i++ {
			whole = append(whole, "SKIPPED-PREFIX-"[i%15])
		}
		whole = append(whole, body...)
	}
	adv := func(r io.Reader) {
		if skip > 0 {
			if _, err := io.CopyN(io.Discard, r, int64(skip)); err != nil {
				panic(err)
			}
		}
	}
	headers := map[string]string{}
	for _, kv := range verifh.Unlist(hdrT) {
		p := strings.SplitN(kv, ":", 2)
		if len(p) != 2 || http.CanonicalHeaderKey(p[0]) != p[0] || c34AutoHeaders[p[0]] || p[1] == "" || strings.ContainsAny(p[1], " ,;|") {
			return false
		}
		if _, dup := headers[p[0]]; dup {
			return false
		}
		headers[p[0]] = p[1]
	}
	var hs []string
	for k, v := range headers {
		hs = append(hs, k+":"+v)
	}
	sort.Strings(hs)
	var script []string
	doSend := false
	faults := false
	for _, op := range c.Ops {
		if len(op) == 2 && op[0] == "op" && op[1] == "send" {
			doSend = true
		}
		if len(op) == 2 && op[0] == "script" && !doSend {
			script = nil
			for _, a := range verifh.Unlist(op[1]) {
				switch {
				case a == "net" || a == "refuse":
					faults = true
				case strings.HasPrefix(a, "n"):
					if n, err := strconv.Atoi(a[1:]); err != nil || n < 0 {
						return false
					}
					faults = true
				case strings.HasPrefix(a, "s"):
					if n, err := strconv.Atoi(a[1:]); err != nil || n < 200 || n > 599 || n/100 == 3 {
						return false
					}
				default:
					return false
				}
				script = append(script, a)
			}
		}
	}
	if kaT == "1" && (faults || len(script) < 8) {
		// with keep-alive net/http re-sends replayable requests on connections the server closed:
		// keep-alive cases use status answers only, and enough of them that no default `net` is reached
		return false
	}
	tr := c34Plain
	switch {
	case tlsT == "1" && kaT == "1":
		tr = c34SecureKA
	case tlsT == "1":
		tr = c34Secure
	case kaT == "1":
		tr = c34PlainKA
	}
	var opts []httputil.SendOption
	if tlsT == "1" {
		opts = append(opts, httputil.SendTLSTransport(tr))
		if fbT == "1" {
			opts = append(opts, httputil.EnableHTTPFallback())
		}
	} else {
		opts = append(opts, httputil.SendTransport(tr))
	}
	opts = append(opts, httputil.SendHeaders(headers))
	if len(accepted) > 0 || accT == "-" {
		opts = append(opts, httputil.SendAcceptedCodes(accepted...))
	}
	switch boT {
	case "none":
	case "default":
		opts = append(opts, httputil.SendRetry(httputil.RetryCodes(extra...)))
	default:
		n, err := strconv.Atoi(boT)
		if err != nil || n < 0 || n > 64 {
			return false
		}
		opts = append(opts, httputil.SendRetry(httputil.RetryBackoff(&c34Backoff{n: n, left: n}), httputil.RetryCodes(extra...)))
	}
	var rd io.Reader
	switch impl {
	case "nil":
	case "nobody":
		rd = http.NoBody
	case "bytesreader":
		r := bytes.NewReader(whole)
		adv(r)
		rd = r
	case "buffer":
		r := bytes.NewBuffer(append([]byte{}, whole...))
		adv(r)
		rd = r
	case "strings":
		r := strings.NewReader(string(whole))
		adv(r)
		rd = r
	case "file":
		p := filepath.Join(tmp, "body")
		if err := os.WriteFile(p, whole, 0644); err != nil {
			panic(err)
		}
		f, err := os.Open(p)
		if err != nil {
			panic(err)
		}
		defer f.Close()
		if _, err := f.Seek(int64(skip), io.SeekStart); err != nil {
			panic(err)
		}
		rd = f
	case "onlyreader":
		r := bytes.NewReader(whole)
		adv(r)
		rd = c34OnlyReader{r}
	case "limit":
		r := bytes.NewReader(whole)
		adv(r)
		rd = io.LimitReader(r, int64(len(body))+7)
	case "seeker":
		r := bytes.NewReader(whole)
		adv(r)
		rd = c34Seeker{r}
	case "section":
		r := io.NewSectionReader(bytes.NewReader(whole), 0, int64(len(whole)))
		adv(r)
		rd = r
	}
	if rd != nil {
		opts = append(opts, httputil.SendBody(rd))
	}
	if c34Srv == nil {
		c34Start()
	}
	c34Srv.srv.SetKeepAlivesEnabled(kaT == "1")
	c34Srv.mu.Lock()
	c34Srv.caseID++
	prefix := fmt.Sprintf("/c%d", c34Srv.caseID)
	c34Srv.script, c34Srv.seen, c34Srv.next = script, nil, 0
	c34Srv.mu.Unlock()

	cfg := []string{"method=" + method, "path=" + verifh.Str(path), "hdr=" + verifh.List(hs), "kind=" + kind, "impl=" + impl}
	if hasGen {
		cfg = append(cfg, "gen="+genT)
	}
	cfg = append(cfg, "body="+c34BodyTok(body), "accepted="+accT, "extra="+extraT, "bo="+boT, "tls="+tlsT, "fb="+fbT, "ka="+kaT,
		"skip="+strconv.Itoa(skip))
	t.Cfg(cfg...)
	t.Rec("script", []string{verifh.List(script)}, nil)
	if !doSend {
		t.End()
		return true
	}
	scheme := "http://"
	if tlsT == "1" {
		scheme = "https://" // SendTLSTransport sets it anyway
	}
	var resp *http.Response
	var err error
	done := make(chan string, 1)
	go func() {
		done <- verifh.Protect(func() { resp, err = httputil.Send(method, scheme+c34Srv.url+prefix+path, opts...) })
	}()
	select {
	case p := <-done:
		if p != "" {
			t.PropFail("panic", verifh.Str(p))
			t.End()
			return true
		}
	case <-time.After(60 * time.Second):
		// "retrying stops when the backoff is exhausted": a Send that is still retrying after a
		// minute (scripted backoffs do not sleep) never stops. Report the case and end the run.
		c34Srv.mu.Lock()
		n := len(c34Srv.seen)
		c34Srv.mu.Unlock()
		t.PropFail("send-does-not-return", "requests="+strconv.Itoa(n))
		t.End()
		t.Close()
		os.Exit(0)
	}
	var result string
	switch e := err.(type) {
	case nil:
		result = "ok:" + strconv.Itoa(resp.StatusCode)
		io.Copy(io.Discard, resp.Body)
		resp.Body.Close()
	case httputil.NetworkError:
		result = "neterr"
	case httputil.StatusError:
		result = "status:" + strconv.Itoa(e.Status)
	default:
		result = "other:" + verifh.Str(err.Error())
	}
	if kaT == "1" {
		tr.CloseIdleConnections()
	}
	c34Srv.mu.Lock()
	seen := append([]string{}, c34Srv.seen...)
	c34Srv.mu.Unlock()
	t.Op([]string{"send"}, append([]string{result}, seen...)...)
	t.End()
	want := fmt.Sprintf("|%s|%s|%s|%s|0|", method, verifh.Str(path), verifh.List(hs), c34BodyTok(body))
	for _, a := range seen {
		if !strings.Contains(a, want) && !strings.Contains(a, "|p|") {
			c34Broken++ // only used to stop generating early; the verdict is the driver's
			break
		}
	}
	return true
}

type c34Opt struct {
	tls, fb, ka string
	skip        int
}

func c34Case(method, path string, hdr []string, impl string, body string, accepted, extra, bo string, o c34Opt, script []string) verifh.Case {
	cfg := []string{"method=" + method, "path=" + verifh.Str(path), "hdr=" + verifh.List(hdr), "kind=" + c34Kinds[impl], "impl=" + impl}
	if strings.HasPrefix(body, "g") {
		cfg = append(cfg, "gen="+body, "body=x")
	} else {
		cfg = append(cfg, "body="+body)
	}
	cfg = append(cfg, "accepted="+accepted, "extra="+extra, "bo="+bo, "tls="+o.tls, "fb="+o.fb, "ka="+o.ka, "skip="+strconv.Itoa(o.skip))
	return verifh.Case{Cfg: cfg, Ops: [][]string{{"script", verifh.List(script)}, {"op", "send"}}}
}

var c34HTTP = c34Opt{tls: "0", fb: "0", ka: "0"}

func TestVerif_C34(t *testing.T) {
	tmp := t.TempDir()
	tr := verifh.Open("send")
	defer tr.Close()
	cases, replayOnly := verifh.InputCases("send")
	for _, c := range cases {
		c34Exec(tr, c, tmp)
		tr.Count("corpus_or_replay_cases", 1)
	}
	if replayOnly {
		return
	}
	stop := func() bool {
		if c34Broken >= 8 {
			tr.Comment("generation stopped after 8 cases in which an attempt differed from the original request")
			return true
		}
		return false
	}
	// (a) bounded-exhaustive: every server script up to a depth over a small alphabet, for every
	// body implementation, backoff budget and accepted/extra configuration
	alpha := []string{"net", "s200", "s503", "s404", "s429", "s400"}
	impls := []string{"nil", "bytesreader", "buffer", "strings", "file", "onlyreader", "limit", "seeker", "nobody"}
	if !verifh.Thorough() {
		impls = []string{"nil", "bytesreader", "strings", "file", "onlyreader"}
	}
	type acfg struct{ accepted, extra string }
	cfgs := []acfg{{"200", "-"}, {"200,503", "400"}, {"200,404", "-"}}
	bos := []string{"none", "0", "1", "2"}
	if verifh.Thorough() {
		bos = append(bos, "3")
	}
	depth := verifh.Scale(3, 4)
	body := verifh.Hex([]byte("payload-123"))
	var scripts [][]string
	var rec func(prefix []string, d int)
	rec = func(prefix []string, d int) {
		scripts = append(scripts, prefix)
		if d == 0 {
			return
		}
		for _, a := range alpha {
			rec(append(prefix[:len(prefix):len(prefix)], a), d-1)
		}
	}
	rec(nil, depth)
	bodyFor := func(impl, b string) string {
		if c34Kinds[impl] == "none" {
			return "x"
		}
		return b
	}
	for _, sc := range scripts {
		for _, impl := range impls {
			for _, bo := range bos {
				if n, err := strconv.Atoi(bo); (err != nil && len(sc) > 1) || (err == nil && len(sc) > n+1) {
					continue // responses beyond the backoff budget are never requested
				}
				for _, cf := range cfgs {
					if bo == "none" && cf.extra != "-" {
						continue
					}
					c34Exec(tr, c34Case("POST", "/x", []string{"X-V-A:1"}, impl, bodyFor(impl, body), cf.accepted, cf.extra, bo, c34HTTP, sc), tmp)
					tr.Count("exhaustive_cases", 1)
					if stop() {
						return
					}
				}
			}
		}
	}
	// (a2) the other fault kinds (server stops reading after k body bytes, connection closed before
	// anything is read), https, and https with the plain-http fallback: scripts to depth 2 (3)
	alpha2 := []string{"net", "n0", "n4", "n99", "refuse", "s200", "s503"}
	var scripts2 [][]string
	var rec2 func(prefix []string, d int)
	rec2 = func(prefix []string, d int) {
		scripts2 = append(scripts2, prefix)
		if d == 0 {
			return
		}
		for _, a := range alpha2 {
			rec2(append(prefix[:len(prefix):len(prefix)], a), d-1)
		}
	}
	rec2(nil, verifh.Scale(2, 3))
	for _, o := range []c34Opt{c34HTTP, {tls: "1", fb: "0", ka: "0"}, {tls: "1", fb: "1", ka: "0"}} {
		for _, sc := range scripts2 {
			for _, impl := range []string{"nil", "bytesreader", "buffer", "onlyreader", "file"} {
				for _, bo := range []string{"none", "1", "2"} {
					c34Exec(tr, c34Case("PUT", "/f", nil, impl, bodyFor(impl, body), "200", "-", bo, o, sc), tmp)
					tr.Count("fault_and_tls_cases", 1)
					if stop() {
						return
					}
				}
			}
		}
	}
	// (a3) body sizes around the buffer sizes of io.Copy (32 KiB), bufio/chunking and beyond, with
	// retrying scripts: a replay that is cut at some buffer size sends a different body
	sizes := []int{32*1024 - 1, 32 * 1024, 32*1024 + 1, 64*1024 - 1, 64*1024 + 1, 1<<20 + 1}
	if verifh.Thorough() {
		sizes = append(sizes, 4096, 4097, 8<<20)
	}
	for i, n := range sizes {
		for _, impl := range []string{"bytesreader", "strings", "onlyreader", "file"} {
			for _, sc := range [][]string{{"s503", "s200"}, {"net", "s200"}, {"n5000", "s503", "s200"}} {
				for _, o := range []c34Opt{c34HTTP, {tls: "1", fb: "1", ka: "0"}} {
					if o.tls == "1" && n > 1<<20+1 {
						continue
					}
					c34Exec(tr, c34Case("PUT", "/big", nil, impl, fmt.Sprintf("g%d.%d", n, i+1), "200", "-", "2", o, sc), tmp)
					tr.Count("large_body_cases", 1)
					if stop() {
						return
					}
				}
			}
		}
	}
	// (a3') readers the caller had already advanced before Send: the request body is what is unread
	// at that moment, on every attempt (every body implementation, retrying scripts, all modes)
	for _, impl := range []string{"bytesreader", "buffer", "strings", "section", "seeker", "file", "onlyreader", "limit"} {
		for _, sk := range []int{1, 7, 5000} {
			for _, sc := range [][]string{{"s503", "s200"}, {"net", "s200"}, {"s200"}, {"n3", "s503", "s200"}, {"refuse", "s200"}} {
				for _, o := range []c34Opt{c34HTTP, {tls: "1", fb: "1", ka: "0"}} {
					o.skip = sk
					c34Exec(tr, c34Case("PUT", "/adv", nil, impl, body, "200", "-", "2", o, sc), tmp)
					tr.Count("pre_advanced_body_cases", 1)
					if stop() {
						return
					}
				}
			}
		}
	}
	// (a3'') scripts that mix network errors and statuses and are longer than the backoff budget:
	// every script over {net, s503, s200, s404} up to length budget+3 for budgets 0..3, and long
	// alternating ones: the number of attempts is bounded by the budget whatever the order of outcomes
	var mixed func(prefix []string, d int, bo int)
	mixed = func(prefix []string, d int, bo int) {
		if len(prefix) > 0 {
			for _, impl := range []string{"nil", "bytesreader"} {
				c34Exec(tr, c34Case("POST", "/m", nil, impl, bodyFor(impl, body), "200", "-", strconv.Itoa(bo), c34HTTP, prefix), tmp)
				tr.Count("mixed_script_cases", 1)
			}
		}
		if d == 0 {
			return
		}
		for _, a := range []string{"net", "s503", "s200", "s404"} {
			if len(prefix) > 0 && (prefix[len(prefix)-1] == "s200" || prefix[len(prefix)-1] == "s404") {
				continue // nothing follows an answer that ends the request
			}
			mixed(append(prefix[:len(prefix):len(prefix)], a), d-1, bo)
		}
	}
	for bo := 0; bo <= 3; bo++ {
		mixed(nil, bo+3, bo)
		if stop() {
			return
		}
	}
	for _, bo := range []string{"0", "1", "2", "3", "default"} {
		for _, first := range []string{"net", "s503", "refuse", "n2"} {
			second := "s503"
			if first == "s503" {
				second = "net"
			}
			var sc []string
			for i := 0; i < 24; i++ {
				if i%2 == 0 {
					sc = append(sc, first)
				} else {
					sc = append(sc, second)
				}
			}
			for _, o := range []c34Opt{c34HTTP, {tls: "1", fb: "0", ka: "0"}, {tls: "1", fb: "1", ka: "0"}} {
				if bo == "default" && (o.tls == "1" || first != "net") {
					continue
				}
				c34Exec(tr, c34Case("PUT", "/alt", nil, "bytesreader", body, "200", "-", bo, o, sc), tmp)
				tr.Count("alternating_script_cases", 1)
			}
		}
	}
	// (a4) keep-alive on both sides (the production transport): status answers only
	for _, impl := range []string{"nil", "bytesreader", "onlyreader"} {
		for _, sc := range [][]string{{"s503", "s200"}, {"s503", "s502", "s429", "s200"}, {"s200"}, {"s404"}, {"s503", "s503", "s503", "s503"}} {
			for _, o := range []c34Opt{{tls: "0", fb: "0", ka: "1"}, {tls: "1", fb: "0", ka: "1"}} {
				full := append(append([]string{}, sc...), "s500", "s500", "s500", "s500", "s500", "s500", "s500", "s500")
				c34Exec(tr, c34Case("POST", "/ka", []string{"X-V-B:two"}, impl, bodyFor(impl, body), "200", "-", "3", o, full), tmp)
				tr.Count("keepalive_cases", 1)
			}
		}
	}
	// a code listed both as accepted and as a RetryCodes status (known finding: it is retried)
	for _, sc := range [][]string{{"s404"}, {"s404", "s200"}, {"s404", "s404"}, {"s200"}, {"s503", "s404"}} {
		for _, impl := range []string{"nil", "bytesreader"} {
			c34Exec(tr, c34Case("POST", "/x", nil, impl, bodyFor(impl, body), "200,404", "404", "2", c34HTTP, sc), tmp)
			tr.Count("overlap_cases", 1)
		}
	}
	// the default SendRetry backoff (2 retries, 250 ms apart) and the default accepted codes
	for _, impl := range []string{"nil", "bytesreader", "onlyreader"} {
		c34Exec(tr, c34Case("PUT", "/d", nil, impl, bodyFor(impl, body), "200", "-", "default", c34HTTP, []string{"s503", "net", "s200"}), tmp)
		tr.Count("default_backoff_cases", 1)
	}
	// (b) seeded random: methods, URIs, headers, body sizes, longer scripts, odd codes, all modes
	r := verifh.NewRand(verifh.Seed(), "c34")
	allImpls := []string{"nil", "nobody", "bytesreader", "buffer", "strings", "file", "onlyreader", "limit", "seeker", "section"}
	codes := []int{200, 200, 201, 202, 204, 400, 403, 404, 409, 429, 499, 500, 502, 503, 503, 504, 599}
	for i := 0; i < verifh.Scale(1200, 40000); i++ {
		impl := allImpls[r.Intn(len(allImpls))]
		b := "x"
		if c34Kinds[impl] != "none" {
			switch r.Intn(12) {
			case 0:
			case 1:
				if i%40 == 1 {
					b = fmt.Sprintf("g%d.%d", 60000+r.Intn(10000), r.Intn(1000))
				} else {
					b = fmt.Sprintf("g%d.%d", 4000+r.Intn(5000), r.Intn(1000))
				}
			default:
				b = verifh.Hex(r.Bytes(1 + r.Intn(64)))
			}
		}
		method := r.Pick("POST", "PUT", "PATCH", "DELETE", "GET", "POST")
		path := r.Pick("/x", "/a/b", "/q?k=v&z=1", "/namespace/n%2Fs/blobs/sha256:00", "/")
		var hdr []string
		for _, k := range []string{"Authorization", "Content-Type", "X-V-A", "X-V-B"} {
			if r.Chance(1, 3) {
				hdr = append(hdr, k+":"+r.Pick("1", "two", "application/json", "Bearer.tok"))
			}
		}
		pick := func(n int) string {
			var cs []string
			seen := map[int]bool{}
			for j := 0; j < n; j++ {
				c := codes[r.Intn(len(codes))]
				if !seen[c] {
					seen[c] = true
					cs = append(cs, strconv.Itoa(c))
				}
			}
			return verifh.List(cs)
		}
		accepted := "200"
		if r.Chance(1, 3) {
			accepted = pick(1 + r.Intn(3))
		}
		bo := r.Pick("none", "0", "1", "2", "3", "5", "8")
		extra := "-"
		if bo != "none" && r.Chance(1, 3) {
			extra = pick(1 + r.Intn(2))
		}
		o := c34HTTP
		switch r.Intn(6) {
		case 0:
			o = c34Opt{tls: "1", fb: "0", ka: "0"}
		case 1, 2:
			o = c34Opt{tls: "1", fb: "1", ka: "0"}
		}
		var sc []string
		for j, n := 0, r.Intn(7); j < n; j++ {
			switch {
			case r.Chance(1, 5):
				sc = append(sc, "net")
			case r.Chance(1, 8):
				sc = append(sc, "refuse")
			case r.Chance(1, 8):
				sc = append(sc, "n"+strconv.Itoa(r.Intn(80)))
			case r.Chance(1, 2):
				sc = append(sc, r.Pick("s503", "s502", "s429", "s504"))
			default:
				sc = append(sc, "s"+strconv.Itoa(codes[r.Intn(len(codes))]))
			}
		}
		if c34Kinds[impl] != "none" && r.Chance(1, 4) {
			o.skip = 1 + r.Intn(40)
		}
		c := c34Case(method, path, hdr, impl, b, accepted, extra, bo, o, sc)
		if i < 3 {
			tr.Sample(fmt.Sprint(c.Cfg, " ", sc))
		}
		c34Exec(tr, c, tmp)
		tr.Count("random_cases_"+c34Kinds[impl], 1)
		if stop() {
			return
		}
	}
}
