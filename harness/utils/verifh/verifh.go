// Package verifh is the shared helper library of the /verif correspondence harnesses.
// It is injected into the module with `go test -overlay` (it is not part of uber/kraken).
package verifh

import (
	"bufio"
	"encoding/hex"
	"encoding/json"
	"fmt"
	"os"
	"path/filepath"
	"sort"
	"strconv"
	"strings"
	"sync"
)

// ---------------------------------------------------------------- PRNG (splitmix64)

// Rand is a small deterministic PRNG; every random choice of a harness derives from one.
type Rand struct{ s uint64 }

// NewRand returns a generator seeded from seed and a stream label.
func NewRand(seed uint64, label string) *Rand {
	r := &Rand{s: seed}
	for _, c := range []byte(label) {
		r.s = r.s*1099511628211 + uint64(c)
		r.Uint64()
	}
	return r
}

func (r *Rand) Uint64() uint64 {
	r.s += 0x9e3779b97f4a7c15
	z := r.s
	z = (z ^ (z >> 30)) * 0xbf58476d1ce4e5b9
	z = (z ^ (z >> 27)) * 0x94d049bb133111eb
	return z ^ (z >> 31)
}

// Intn returns a value in [0,n). n<=0 yields 0.
func (r *Rand) Intn(n int) int {
	if n <= 0 {
		return 0
	}
	return int(r.Uint64() % uint64(n))
}

// Bool returns true with probability num/den.
func (r *Rand) Chance(num, den int) bool { return r.Intn(den) < num }

// Pick returns one of the strings.
func (r *Rand) Pick(xs ...string) string { return xs[r.Intn(len(xs))] }

// Bytes returns n pseudo-random bytes.
func (r *Rand) Bytes(n int) []byte {
	b := make([]byte, n)
	for i := range b {
		b[i] = byte(r.Uint64())
	}
	return b
}

// Perm returns a permutation of 0..n-1.
func (r *Rand) Perm(n int) []int {
	p := make([]int, n)
	for i := range p {
		p[i] = i
	}
	for i := n - 1; i > 0; i-- {
		j := r.Intn(i + 1)
		p[i], p[j] = p[j], p[i]
	}
	return p
}

// ---------------------------------------------------------------- environment

// Seed returns VERIF_SEED (default 1).
func Seed() uint64 {
	if v := os.Getenv("VERIF_SEED"); v != "" {
		if n, err := strconv.ParseUint(v, 10, 64); err == nil {
			return n
		}
		if n, err := strconv.ParseInt(v, 10, 64); err == nil {
			return uint64(n)
		}
	}
	return 1
}

// Tier returns "quick" or "thorough".
func Tier() string {
	if os.Getenv("VERIF_TIER") == "thorough" {
		return "thorough"
	}
	return "quick"
}

// Thorough reports whether the thorough tier is requested.
func Thorough() bool { return Tier() == "thorough" }

// Scale picks the quick or the thorough value.
func Scale(quick, thorough int) int {
	if Thorough() {
		return thorough
	}
	return quick
}

// ---------------------------------------------------------------- token encoding

// Hex encodes bytes as the protocol's byte-string token.
func Hex(b []byte) string { return "x" + hex.EncodeToString(b) }

// Unhex decodes a byte-string token.
func Unhex(tok string) ([]byte, error) {
	if !strings.HasPrefix(tok, "x") {
		return nil, fmt.Errorf("not a byte token: %q", tok)
	}
	return hex.DecodeString(tok[1:])
}

func plain(c byte) bool {
	return c >= 'a' && c <= 'z' || c >= 'A' && c <= 'Z' || c >= '0' && c <= '9' ||
		c == '_' || c == '-' || c == '.' || c == '/' || c == ':' || c == '@' || c == '+' || c == '~'
}

// Str percent-encodes a string into one token (the empty string is "%").
func Str(s string) string {
	if s == "" {
		return "%"
	}
	var sb strings.Builder
	for i := 0; i < len(s); i++ {
		c := s[i]
		if plain(c) {
			sb.WriteByte(c)
		} else {
			fmt.Fprintf(&sb, "%%%02x", c)
		}
	}
	return sb.String()
}

// Unstr decodes a Str token.
func Unstr(tok string) (string, error) {
	if tok == "%" {
		return "", nil
	}
	var sb strings.Builder
	for i := 0; i < len(tok); i++ {
		if tok[i] == '%' {
			if i+3 > len(tok) {
				return "", fmt.Errorf("bad escape in %q", tok)
			}
			b, err := hex.DecodeString(tok[i+1 : i+3])
			if err != nil {
				return "", err
			}
			sb.WriteByte(b[0])
			i += 2
		} else {
			sb.WriteByte(tok[i])
		}
	}
	return sb.String(), nil
}

// List joins tokens with commas ("-" for the empty list).
func List(xs []string) string {
	if len(xs) == 0 {
		return "-"
	}
	return strings.Join(xs, ",")
}

// SortedList sorts a copy and joins it.
func SortedList(xs []string) string {
	c := append([]string(nil), xs...)
	sort.Strings(c)
	return List(c)
}

// Unlist splits a list token.
func Unlist(tok string) []string {
	if tok == "-" || tok == "" {
		return nil
	}
	return strings.Split(tok, ",")
}

// Bool encodes a bool token.
func Bool(b bool) string {
	if b {
		return "1"
	}
	return "0"
}

// ---------------------------------------------------------------- transcript

// Case is one replayable case: a cfg record and op records (tokens without observations).
type Case struct {
	Cfg []string   // tokens after "cfg" (nil: no cfg record is written)
	Ops [][]string // each: record kind followed by its tokens, e.g. {"op","add","h1"}
}

// T writes the transcript and the generator statistics of one harness run.
type T struct {
	mu      sync.Mutex
	machine string
	w       *bufio.Writer
	f       *os.File
	stats   map[string]int
	samples []string
	lines   int
}

// Open creates the transcript named by VERIF_OUT (default: os.TempDir()/verif-<machine>.transcript).
func Open(machine string) *T {
	path := os.Getenv("VERIF_OUT")
	if path == "" {
		path = filepath.Join(os.TempDir(), "verif-"+machine+".transcript")
	}
	f, err := os.Create(path)
	if err != nil {
		panic(err)
	}
	return &T{machine: machine, f: f, w: bufio.NewWriterSize(f, 1<<20), stats: map[string]int{}}
}

func (t *T) line(toks ...string) {
	t.w.WriteString(t.machine)
	for _, k := range toks {
		t.w.WriteByte(' ')
		t.w.WriteString(k)
	}
	t.w.WriteByte('\n')
	t.lines++
}

// Cfg starts a case.
func (t *T) Cfg(toks ...string) {
	t.mu.Lock()
	defer t.mu.Unlock()
	t.line(append([]string{"cfg"}, toks...)...)
}

// Rec writes a record `kind toks… => obs…` (obs nil: no observation part).
func (t *T) Rec(kind string, toks []string, obs []string) {
	t.mu.Lock()
	defer t.mu.Unlock()
	l := append([]string{kind}, toks...)
	if obs != nil {
		l = append(l, "=>")
		l = append(l, obs...)
	}
	t.line(l...)
}

// Op writes `op toks… => obs…`.
func (t *T) Op(toks []string, obs ...string) { t.Rec("op", toks, obs) }

// One writes a self-contained one-line case.
func (t *T) One(toks []string, obs ...string) { t.Rec("one", toks, obs) }

// PropFail reports a failure of the property's predicate observed on the real code.
func (t *T) PropFail(key string, detail ...string) {
	t.mu.Lock()
	defer t.mu.Unlock()
	t.line(append([]string{"propfail", "key=" + key}, detail...)...)
	t.w.Flush()
}

// End ends the case.
func (t *T) End() {
	t.mu.Lock()
	defer t.mu.Unlock()
	t.line("end")
}

// Comment writes a comment line.
func (t *T) Comment(s string) {
	t.mu.Lock()
	defer t.mu.Unlock()
	t.w.WriteString("# " + strings.ReplaceAll(s, "\n", " ") + "\n")
	t.lines++
}

// Flush flushes buffered output (call before anything that may crash the process).
func (t *T) Flush() {
	t.mu.Lock()
	defer t.mu.Unlock()
	t.w.Flush()
}

// Count adds to a named generator statistic (reported in the evidence).
func (t *T) Count(name string, n int) {
	t.mu.Lock()
	defer t.mu.Unlock()
	t.stats[name] += n
}

// Sample records a human readable sample case for the evidence (first 5 kept).
func (t *T) Sample(s string) {
	t.mu.Lock()
	defer t.mu.Unlock()
	if len(t.samples) < 5 {
		t.samples = append(t.samples, s)
	}
}

// Close flushes the transcript and writes the statistics file named by VERIF_STATS.
func (t *T) Close() {
	t.mu.Lock()
	defer t.mu.Unlock()
	t.w.WriteString("# complete\n")
	t.w.Flush()
	t.f.Close()
	if p := os.Getenv("VERIF_STATS"); p != "" {
		b, _ := json.MarshalIndent(map[string]interface{}{
			"machine": t.machine, "lines": t.lines, "stats": t.stats, "samples": t.samples,
			"seed": Seed(), "tier": Tier(),
		}, "", " ")
		os.WriteFile(p, b, 0644)
	}
}

// ---------------------------------------------------------------- replay / corpus input

// ReadCases parses a .ops file: transcript lines (observations after "=>" are dropped), cases
// delimited by "cfg" … "end"; "one" records are one-op cases; lines of other machines are skipped.
func ReadCases(path, machine string) ([]Case, error) {
	f, err := os.Open(path)
	if err != nil {
		return nil, err
	}
	defer f.Close()
	var out []Case
	var cur *Case
	sc := bufio.NewScanner(f)
	sc.Buffer(make([]byte, 1<<20), 1<<28)
	for sc.Scan() {
		toks := strings.Fields(sc.Text())
		if len(toks) < 2 || strings.HasPrefix(toks[0], "#") || toks[0] != machine {
			continue
		}
		rest := toks[1:]
		for i, k := range rest {
			if k == "=>" {
				rest = rest[:i]
				break
			}
		}
		switch rest[0] {
		case "cfg":
			if cur != nil {
				out = append(out, *cur)
			}
			cur = &Case{Cfg: append([]string{}, rest[1:]...)}
		case "end":
			if cur != nil {
				out = append(out, *cur)
				cur = nil
			}
		case "propfail":
		case "one":
			out = append(out, Case{Ops: [][]string{append([]string{}, rest...)}})
		default:
			if cur == nil {
				cur = &Case{}
			}
			cur.Ops = append(cur.Ops, append([]string{}, rest...))
		}
	}
	if cur != nil {
		out = append(out, *cur)
	}
	return out, sc.Err()
}

// InputCases returns the cases a harness must execute before (or instead of) generating:
// the file named by VERIF_REPLAY (then replayOnly is true), else every *.ops file of the
// directory VERIF_CORPUS in name order.
func InputCases(machine string) (cases []Case, replayOnly bool) {
	if p := os.Getenv("VERIF_REPLAY"); p != "" {
		cs, err := ReadCases(p, machine)
		if err != nil {
			panic(err)
		}
		return cs, true
	}
	if d := os.Getenv("VERIF_CORPUS"); d != "" {
		files, _ := filepath.Glob(filepath.Join(d, "*.ops"))
		sort.Strings(files)
		for _, f := range files {
			cs, err := ReadCases(f, machine)
			if err != nil {
				panic(err)
			}
			cases = append(cases, cs...)
		}
	}
	return cases, false
}

// Protect runs f and converts a panic into its message ("" when f returned normally).
func Protect(f func()) (panicked string) {
	defer func() {
		if r := recover(); r != nil {
			panicked = fmt.Sprint(r)
		}
	}()
	f()
	return ""
}
