package verifh

// Helpers of the crash-point harnesses (C04, C05, C06): file-system call records, re-execution of a
// recorded syscall plan on a directory tree, canonical tree listings, tree copies, marker syscalls
// for the strace recorder (harness/tools/crash_strace.py).

import (
	"bufio"
	"fmt"
	"io"
	"os"
	"path/filepath"
	"sort"
	"strconv"
	"strings"
	"syscall"
	"time"
)

// FSCall is one mutating file-system call; paths are relative to the case root.
//
//	mkdir:<p>  creat:<p> (O_CREAT|O_EXCL)  opencreat:<p> (O_CREAT)  opentrunc:<p> (O_CREAT|O_TRUNC)
//	pwrite:<p>:<off>:<xhex>  trunc:<p>:<len>  rename:<p>:<q>  unlink:<p>  rmdir:<p>  link:<p>:<q>
type FSCall struct {
	Kind string
	A, B string
	Off  int64
	Data []byte
}

// Tok renders the call as one transcript token.
func (c FSCall) Tok() string {
	switch c.Kind {
	case "pwrite":
		return fmt.Sprintf("pwrite:%s:%d:%s", c.A, c.Off, Hex(c.Data))
	case "trunc":
		return fmt.Sprintf("trunc:%s:%d", c.A, c.Off)
	case "rename", "link":
		return c.Kind + ":" + c.A + ":" + c.B
	default:
		return c.Kind + ":" + c.A
	}
}

// ParseFSCall parses a token written by Tok (or by the strace recorder).
func ParseFSCall(tok string) (FSCall, error) {
	p := strings.Split(tok, ":")
	bad := fmt.Errorf("bad fs call token %q", tok)
	if len(p) < 2 {
		return FSCall{}, bad
	}
	c := FSCall{Kind: p[0], A: p[1]}
	switch p[0] {
	case "mkdir", "creat", "opencreat", "opentrunc", "unlink", "rmdir":
		if len(p) != 2 {
			return c, bad
		}
	case "rename", "link":
		if len(p) != 3 {
			return c, bad
		}
		c.B = p[2]
	case "trunc":
		if len(p) != 3 {
			return c, bad
		}
		n, err := strconv.ParseInt(p[2], 10, 64)
		if err != nil {
			return c, bad
		}
		c.Off = n
	case "pwrite":
		if len(p) != 4 {
			return c, bad
		}
		n, err := strconv.ParseInt(p[2], 10, 64)
		if err != nil {
			return c, bad
		}
		c.Off = n
		d, err := Unhex(p[3])
		if err != nil {
			return c, bad
		}
		c.Data = d
	default:
		return c, bad
	}
	return c, nil
}

// Apply re-executes the call below root with the same system call the recorder saw.
func (c FSCall) Apply(root string) error {
	a := filepath.Join(root, c.A)
	switch c.Kind {
	case "mkdir":
		return os.Mkdir(a, 0775)
	case "creat":
		f, err := os.OpenFile(a, os.O_WRONLY|os.O_CREATE|os.O_EXCL, 0775)
		if err != nil {
			return err
		}
		return f.Close()
	case "opencreat":
		f, err := os.OpenFile(a, os.O_RDONLY|os.O_CREATE, 0775)
		if err != nil {
			return err
		}
		return f.Close()
	case "opentrunc":
		f, err := os.OpenFile(a, os.O_WRONLY|os.O_CREATE|os.O_TRUNC, 0775)
		if err != nil {
			return err
		}
		return f.Close()
	case "pwrite":
		f, err := os.OpenFile(a, os.O_WRONLY, 0775)
		if err != nil {
			return err
		}
		defer f.Close()
		_, err = f.WriteAt(c.Data, c.Off)
		return err
	case "trunc":
		return os.Truncate(a, c.Off)
	case "rename":
		return os.Rename(a, filepath.Join(root, c.B))
	case "link":
		return os.Link(a, filepath.Join(root, c.B))
	case "unlink":
		return syscall.Unlink(a)
	case "rmdir":
		return syscall.Rmdir(a)
	}
	return fmt.Errorf("unknown fs call kind %q", c.Kind)
}

// PlanToks renders a plan.
func PlanToks(cs []FSCall) []string {
	out := make([]string, 0, len(cs))
	for _, c := range cs {
		out = append(out, c.Tok())
	}
	return out
}

// DumpTree lists a directory tree canonically: `d:<rel>` for every directory below root and
// `f:<rel>:<xhex>` for every regular file, sorted.
func DumpTree(root string) []string {
	var out []string
	filepath.Walk(root, func(p string, info os.FileInfo, err error) error {
		if err != nil || p == root {
			return nil
		}
		rel, _ := filepath.Rel(root, p)
		if info.IsDir() {
			out = append(out, "d:"+rel)
		} else {
			b, _ := os.ReadFile(p)
			out = append(out, "f:"+rel+":"+Hex(b))
		}
		return nil
	})
	sort.Strings(out)
	return out
}

// MaterializeTree creates the tree described by DumpTree tokens below root (parents are created
// as needed, so a listing may omit them).
func MaterializeTree(root string, listing []string) error {
	for _, t := range listing {
		p := strings.Split(t, ":")
		switch {
		case len(p) == 2 && p[0] == "d":
			if err := os.MkdirAll(filepath.Join(root, p[1]), 0775); err != nil {
				return err
			}
		case len(p) == 3 && p[0] == "f":
			b, err := Unhex(p[2])
			if err != nil {
				return err
			}
			fp := filepath.Join(root, p[1])
			if err := os.MkdirAll(filepath.Dir(fp), 0775); err != nil {
				return err
			}
			if err := os.WriteFile(fp, b, 0775); err != nil {
				return err
			}
		default:
			return fmt.Errorf("bad listing token %q", t)
		}
	}
	return nil
}

// CopyTree copies a directory tree of regular files and directories (dst must not exist).
func CopyTree(src, dst string) error {
	return filepath.Walk(src, func(p string, info os.FileInfo, err error) error {
		if err != nil {
			return err
		}
		rel, _ := filepath.Rel(src, p)
		t := filepath.Join(dst, rel)
		if info.IsDir() {
			return os.MkdirAll(t, 0775)
		}
		in, err := os.Open(p)
		if err != nil {
			return err
		}
		defer in.Close()
		out, err := os.OpenFile(t, os.O_WRONLY|os.O_CREATE|os.O_TRUNC, 0775)
		if err != nil {
			return err
		}
		if _, err := io.Copy(out, in); err != nil {
			out.Close()
			return err
		}
		if err := out.Close(); err != nil {
			return err
		}
		return os.Chtimes(t, info.ModTime(), info.ModTime())
	})
}

// SetMTime sets the modification time of a file to a fixed epoch plus rank*10 seconds.
func SetMTime(path string, rank int) error {
	t := time.Unix(1700000000+int64(rank)*10, 0)
	return os.Chtimes(path, t, t)
}

// ---------------------------------------------------------------- strace recorder protocol

// CrashPhase is "A" while the harness runs under the strace recorder (markers only), "B" when it
// runs with the recorded plans (VERIF_CRASH_PLANS), "" otherwise.
func CrashPhase() string { return os.Getenv("VERIF_CRASH_PHASE") }

// CrashBase is the directory below which every case keeps its root (<base>/<case index>).
func CrashBase() string {
	if b := os.Getenv("VERIF_CRASH_BASE"); b != "" {
		return b
	}
	d, err := os.MkdirTemp("", "verif-crash")
	if err != nil {
		panic(err)
	}
	return d
}

// Mark issues the marker syscall that brackets operation `op` of case `c` (kind "B" begin, "E" end).
// The recorder keeps the mutating calls below <base>/<c>/ between the two markers.
func Mark(kind string, c, op int) {
	os.Stat(fmt.Sprintf("/VERIF_MARK/%s/%d/%d", kind, c, op))
	if kind == "B" {
		// the recorder checks that it saw as many bracketed operations as the harness issued
		if p := os.Getenv("VERIF_CRASH_MARKS_FILE"); p != "" {
			if f, err := os.OpenFile(p, os.O_APPEND|os.O_CREATE|os.O_WRONLY, 0644); err == nil {
				f.Write([]byte{'.'})
				f.Close()
			}
		}
	}
}

// LoadPlans reads the recorder's output: lines `<case> <op> <call token>…`.
func LoadPlans(path string) (map[[2]int][]FSCall, error) {
	f, err := os.Open(path)
	if err != nil {
		return nil, err
	}
	defer f.Close()
	out := map[[2]int][]FSCall{}
	sc := bufio.NewScanner(f)
	sc.Buffer(make([]byte, 1<<20), 1<<28)
	for sc.Scan() {
		p := strings.Fields(sc.Text())
		if len(p) < 2 {
			continue
		}
		c, err1 := strconv.Atoi(p[0])
		o, err2 := strconv.Atoi(p[1])
		if err1 != nil || err2 != nil {
			return nil, fmt.Errorf("bad plan line %q", sc.Text())
		}
		calls := []FSCall{}
		for _, t := range p[2:] {
			fc, err := ParseFSCall(t)
			if err != nil {
				return nil, err
			}
			calls = append(calls, fc)
		}
		out[[2]int{c, o}] = calls
	}
	return out, sc.Err()
}

// RemovalSegments returns the maximal runs [s,e) of consecutive `unlink` calls inside one directory that
// are followed by the `rmdir` of that directory: the entries of an os.RemoveAll, visited in an order the file
// system decides. (Other runs of unlinks, e.g. files removed one by one in os.ReadDir order, keep their order.)
func RemovalSegments(plan []FSCall) [][2]int {
	var out [][2]int
	i := 0
	for i < len(plan) {
		if plan[i].Kind != "unlink" {
			i++
			continue
		}
		d := filepath.Dir(plan[i].A)
		j := i
		for j < len(plan) && plan[j].Kind == "unlink" && filepath.Dir(plan[j].A) == d {
			j++
		}
		if j < len(plan) && plan[j].Kind == "rmdir" && plan[j].A == d {
			out = append(out, [2]int{i, j})
		}
		i = j
	}
	return out
}

// ReorderRemovals returns the plan with every removal segment stably reordered so that the files
// (relative paths) listed in `first` come first (in that order); other calls keep their place.
func ReorderRemovals(plan []FSCall, first []string) []FSCall {
	out := append([]FSCall(nil), plan...)
	rank := func(c FSCall) int {
		for i, f := range first {
			if f == c.A {
				return i
			}
		}
		return len(first)
	}
	for _, seg := range RemovalSegments(plan) {
		s := out[seg[0]:seg[1]]
		sort.SliceStable(s, func(i, j int) bool { return rank(s[i]) < rank(s[j]) })
	}
	return out
}
