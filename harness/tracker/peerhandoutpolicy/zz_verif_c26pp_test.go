//go:build verif

package peerhandoutpolicy

import (
	"fmt"
	"strconv"
	"strings"
	"testing"

	"github.com/uber-go/tally"
	"github.com/uber/kraken/core"
	"github.com/uber/kraken/utils/verifh"
)

// C26, peerhandoutpolicy in isolation (in-package: assignPriority is unexported): the priority table of
// both policies, and SortPeers on scripted lists of up to 60 entries (beyond the 12-element stable
// insertion-sort path of sort.Slice), with the source under other endpoints and duplicate ids.

var c26ppIDs = func() []core.PeerID {
	var ps []core.PeerID
	for i := 0; i < 70; i++ {
		p, err := core.NewPeerID(strings.Repeat(fmt.Sprintf("%02x", 0x10+i), 20))
		if err != nil {
			panic(err)
		}
		ps = append(ps, p)
	}
	return ps
}()

func c26ppIP(i int) string {
	if i == 0 {
		return ""
	}
	return fmt.Sprintf("10.0.0.%d", i)
}

// token `p<j>|o<j>:ip<k>:<port>:<origin>:<complete>`; o<j> is id 60+j
func c26ppParse(tok string) (*core.PeerInfo, bool) {
	f := strings.Split(tok, ":")
	if len(f) != 5 || len(f[0]) < 2 || !strings.HasPrefix(f[1], "ip") {
		return nil, false
	}
	j, err1 := strconv.Atoi(f[0][1:])
	k, err2 := strconv.Atoi(f[1][2:])
	port, err3 := strconv.Atoi(f[2])
	if err1 != nil || err2 != nil || err3 != nil || j < 0 || k < 0 || k > 3 || port < 0 ||
		(f[3] != "0" && f[3] != "1") || (f[4] != "0" && f[4] != "1") {
		return nil, false
	}
	switch {
	case f[0][0] == 'p' && j < 60:
	case f[0][0] == 'o' && j < 10:
		j += 60
	default:
		return nil, false
	}
	return core.NewPeerInfo(c26ppIDs[j], c26ppIP(k), port, f[3] == "1", f[4] == "1"), true
}

func c26ppTok(p *core.PeerInfo) string {
	id := "p?"
	for i, x := range c26ppIDs {
		if x == p.PeerID {
			if i < 60 {
				id = fmt.Sprintf("p%d", i)
			} else {
				id = fmt.Sprintf("o%d", i-60)
			}
		}
	}
	ip := "ip?"
	for i := 0; i < 4; i++ {
		if c26ppIP(i) == p.IP {
			ip = fmt.Sprintf("ip%d", i)
		}
	}
	return fmt.Sprintf("%s:%s:%d:%s:%s", id, ip, p.Port, verifh.Bool(p.Origin), verifh.Bool(p.Complete))
}

func c26ppExec(tr *verifh.T, c verifh.Case) {
	for _, op := range c.Ops {
		if len(op) < 2 || op[0] != "one" {
			continue
		}
		o := op
		if p := verifh.Protect(func() {
			switch {
			case o[1] == "prio" && len(o) == 5:
				pol, err := NewPriorityPolicy(tally.NoopScope, o[2])
				if err != nil || (o[3] != "0" && o[3] != "1") || (o[4] != "0" && o[4] != "1") {
					return
				}
				prio, _ := pol.policy.assignPriority(core.NewPeerInfo(c26ppIDs[0], "", 0, o[3] == "1", o[4] == "1"))
				tr.One(o[1:], strconv.Itoa(prio))
			case o[1] == "sort" && len(o) == 5:
				pol, err := NewPriorityPolicy(tally.NoopScope, o[2])
				src, ok := c26ppParse(o[3])
				if err != nil || !ok {
					return
				}
				var peers []*core.PeerInfo
				var toks []string
				for _, t := range verifh.Unlist(o[4]) {
					p, ok := c26ppParse(t)
					if !ok {
						return
					}
					peers = append(peers, p)
					toks = append(toks, c26ppTok(p))
				}
				if verifh.List(toks) != o[4] || c26ppTok(src) != o[3] {
					return
				}
				var out []string
				for _, p := range pol.SortPeers(src, peers) {
					out = append(out, c26ppTok(p))
				}
				tr.One(o[1:], verifh.List(out))
			}
		}); p != "" {
			tr.PropFail("panic", verifh.Str(p))
		}
	}
}

func TestVerif_C26_Policy(t *testing.T) {
	tr := verifh.Open("pp")
	defer tr.Close()
	cases, replayOnly := verifh.InputCases("pp")
	for _, c := range cases {
		c26ppExec(tr, c)
		tr.Count("corpus_or_replay_cases", 1)
	}
	if replayOnly {
		return
	}
	// the priority table: 2 policies x origin x complete
	for _, pol := range []string{"default", "completeness"} {
		for _, o := range []string{"0", "1"} {
			for _, c := range []string{"0", "1"} {
				c26ppExec(tr, verifh.Case{Ops: [][]string{{"one", "prio", pol, o, c}}})
				tr.Count("prio_records", 1)
			}
		}
	}
	r := verifh.NewRand(verifh.Seed(), "c26pp")
	for i := 0; i < verifh.Scale(600, 30000); i++ {
		pol := r.Pick("completeness", "completeness", "default")
		n := r.Intn(10)
		if r.Chance(1, 2) {
			n = 13 + r.Intn(48)
		}
		nid := 1 + r.Intn(59)
		srcID := r.Intn(nid)
		var l []string
		for j := 0; j < n; j++ {
			switch k := r.Intn(12); {
			case k == 0:
				l = append(l, fmt.Sprintf("p%d:ip%d:%d:0:%s", srcID, r.Intn(4), r.Intn(3), verifh.Bool(r.Chance(1, 2))))
			case k < 4:
				l = append(l, fmt.Sprintf("o%d:ip%d:%d:1:%s", r.Intn(10), r.Intn(4), r.Intn(3), verifh.Bool(r.Chance(4, 5))))
			default:
				l = append(l, fmt.Sprintf("p%d:ip%d:%d:0:%s", r.Intn(nid), r.Intn(4), r.Intn(3), verifh.Bool(r.Chance(1, 2))))
			}
		}
		src := fmt.Sprintf("p%d:ip%d:%d:0:%s", srcID, r.Intn(4), r.Intn(3), verifh.Bool(r.Chance(1, 4)))
		c26ppExec(tr, verifh.Case{Ops: [][]string{{"one", "sort", pol, src, verifh.List(l)}}})
		tr.Count("sort_records", 1)
	}
}
