//go:build verif

package peerstore

import (
	"fmt"
	"runtime"
	"sort"
	"strconv"
	"strings"
	"sync"
	"sync/atomic"
	"testing"
	"time"

	"github.com/andres-erbsen/clock"
	"github.com/uber/kraken/core"
	"github.com/uber/kraken/utils/verifh"
)

// C27 harness: drives LocalStore (UpdatePeer / GetPeers through the Store interface, the two cleanup
// passes in-package) with a settable clock and records what it returns.
//
// Interleavings of cleanupExpiredPeerEntries with announcements are produced deterministically,
// without touching /repo: the injected clock's Now() is the only seam the cleanup offers, and the
// cleanup calls it while it holds the group's read lock. The harness parks the cleanup goroutine
// inside the first such call of a group (later reads of that scan see the same clock value, so the
// scan is atomic at that instant), runs the operations of the gap, and for an announcement to the very group being
// cleaned starts UpdatePeer in a goroutine, waits until it is the pending writer of the group's
// RWMutex and only then lets the cleanup go on: the pending writer gets the lock when the cleanup
// drops its read lock, so the update is applied before the cleanup's write-locked sweep.

// ---------------------------------------------------------------- clock

type c27Hook interface {
	pre()                       // before the clock is read
	post(t time.Time) time.Time // after the clock was read; returns what Now returns
}

type c27HookBox struct{ h c27Hook }

type c27NoHook struct{}

func (c27NoHook) pre()                       {}
func (c27NoHook) post(t time.Time) time.Time { return t }

type c27Clock struct {
	clock.Clock // real clock for the methods LocalStore does not use
	mu          sync.Mutex
	now         time.Time
	hook        atomic.Value // c27HookBox
}

func newC27Clock() *c27Clock {
	c := &c27Clock{Clock: clock.New(), now: time.Unix(1000, 0)}
	c.hook.Store(c27HookBox{c27NoHook{}})
	return c
}

func (c *c27Clock) Now() time.Time {
	h := c.hook.Load().(c27HookBox).h
	h.pre()
	c.mu.Lock()
	t := c.now
	c.mu.Unlock()
	return h.post(t)
}

// c27GID returns the id of the calling goroutine (parsed from the stack header).
func c27GID() int64 {
	var buf [64]byte
	n := runtime.Stack(buf[:], false)
	f := strings.Fields(string(buf[:n]))
	if len(f) < 2 {
		return -1
	}
	id, _ := strconv.ParseInt(f[1], 10, 64)
	return id
}

func (c *c27Clock) add(sec int) {
	c.mu.Lock()
	c.now = c.now.Add(time.Duration(sec) * time.Second)
	c.mu.Unlock()
}

// ---------------------------------------------------------------- tokens

const (
	c27NH  = 4
	c27NP  = 6
	c27NIP = 4
)

var c27Hashes, c27Peers = func() ([]core.InfoHash, []core.PeerID) {
	var hs []core.InfoHash
	for i := 0; i < c27NH; i++ {
		h, err := core.NewInfoHashFromHex(strings.Repeat(fmt.Sprintf("%02x", 0xa0+i), 20))
		if err != nil {
			panic(err)
		}
		hs = append(hs, h)
	}
	var ps []core.PeerID
	for i := 0; i < c27NP; i++ {
		p, err := core.NewPeerID(strings.Repeat(fmt.Sprintf("%02x", 0x10+i), 20))
		if err != nil {
			panic(err)
		}
		ps = append(ps, p)
	}
	return hs, ps
}()

func c27Idx(tok, pfx string, n int) (int, bool) {
	if !strings.HasPrefix(tok, pfx) {
		return 0, false
	}
	i, err := strconv.Atoi(tok[len(pfx):])
	if err != nil || i < 0 || i >= n {
		return 0, false
	}
	return i, true
}

func c27IP(i int) string {
	if i == 0 {
		return "" // the store does not validate addresses
	}
	return fmt.Sprintf("10.0.0.%d", i)
}

func c27PeerTok(p *core.PeerInfo) string {
	id := "p?" + p.PeerID.String()
	for i, x := range c27Peers {
		if x == p.PeerID {
			id = fmt.Sprintf("p%d", i)
		}
	}
	ip := "ip?" + verifh.Str(p.IP)
	for i := 0; i < c27NIP; i++ {
		if c27IP(i) == p.IP {
			ip = fmt.Sprintf("ip%d", i)
		}
	}
	return fmt.Sprintf("%s:%s:%d:%s:%s", id, ip, p.Port, verifh.Bool(p.Origin), verifh.Bool(p.Complete))
}

// ---------------------------------------------------------------- split cleanup

type c27Split struct {
	cgid        int64 // goroutine running cleanupExpiredPeerEntries
	mu          sync.Mutex
	groups      map[string]*peerGroup
	cur         *peerGroup   // group whose scan is parked / under way (cleanup goroutine only)
	curTime     time.Time    // clock value that scan sees
	uAdv        int32        // seconds to advance right after the interleaved announcement has read the clock
	uRet        atomic.Value // chan struct{}: closed when the interleaved announcement has returned
	uGid        int64        // goroutine of the interleaved announcement
	preTimeouts int32
	clk         *c27Clock
	paused      chan string
	resume      chan struct{}
}

func (r *c27Split) snapshot(s *LocalStore) {
	m := map[string]*peerGroup{}
	s.mu.RLock()
	for i, h := range c27Hashes {
		if g, ok := s.peerGroups[h]; ok {
			m[fmt.Sprintf("h%d", i)] = g
		}
	}
	s.mu.RUnlock()
	r.mu.Lock()
	r.groups = m
	r.mu.Unlock()
}

// readLocked returns a group other than skip that is read-locked (by the cleanup goroutine: nothing
// else holds read locks while it runs).
func (r *c27Split) readLocked(skip *peerGroup) (string, *peerGroup) {
	r.mu.Lock()
	groups := r.groups
	r.mu.Unlock()
	for tok, g := range groups {
		if g == skip {
			continue
		}
		if g.mu.TryLock() {
			g.mu.Unlock()
			continue
		}
		if !g.mu.TryRLock() {
			continue // write-locked
		}
		g.mu.RUnlock()
		return tok, g
	}
	return "", nil
}

func (r *c27Split) uOutstanding() bool {
	ch, _ := r.uRet.Load().(chan struct{})
	if ch == nil {
		return false
	}
	select {
	case <-ch:
		return false
	default:
		return true
	}
}

// scanOn: is the cleanup goroutine (the caller) still inside the read-locked scan of r.cur?
func (r *c27Split) scanOn() bool {
	if r.cur == nil {
		return false
	}
	if r.uOutstanding() {
		// an announcement is waiting for (or has just got) the lock of r.cur; lock probing cannot tell a
		// reader with a pending writer from a writer
		if _, g := r.readLocked(r.cur); g != nil {
			return false // already scanning the next group
		}
		// still scanning iff the announcement is still parked on the group lock (not assuming anything
		// about where the announcement reads the clock)
		st := c27GoState(atomic.LoadInt64(&r.uGid))
		return st == "sync.RWMutex.Lock" || st == "sync.Mutex.Lock"
	}
	if r.cur.mu.TryLock() {
		r.cur.mu.Unlock()
		return false
	}
	if r.cur.mu.TryRLock() {
		r.cur.mu.RUnlock()
		return true
	}
	return false // write-locked: the sweep of r.cur
}

// pre: outside a scan that is under way, the cleanup goroutine does not read the clock while an
// interleaved announcement is still running (when the scan collected nothing the cleanup takes no
// write lock and would otherwise go on to the next group concurrently with the announcement).
func (r *c27Split) pre() {
	if c27GID() != atomic.LoadInt64(&r.cgid) {
		return
	}
	if r.scanOn() {
		return
	}
	if ch, _ := r.uRet.Load().(chan struct{}); ch != nil {
		select {
		case <-ch:
		case <-time.After(time.Second):
			// never hold the cleanup back for long: if the announcement cannot finish while the
			// cleanup waits here, the interleaving is simply not forced
			atomic.AddInt32(&r.preTimeouts, 1)
		}
	}
}

// post: the first clock read of the cleanup goroutine under a group's read lock parks it: from the
// model's point of view the whole read-locked scan of that group happens at this instant — the
// remaining clock reads of the scan get the same value, and what the harness runs while the
// goroutine is parked does not touch that group (an announcement to it waits for the read lock to be
// dropped), so it commutes with the rest of the scan. A clock read by another goroutine is the
// interleaved announcement (or an op of the gap).
func (r *c27Split) post(t time.Time) time.Time {
	if c27GID() != atomic.LoadInt64(&r.cgid) {
		if d := atomic.SwapInt32(&r.uAdv, 0); d > 0 {
			r.clk.add(int(d))
		}
		return t
	}
	if r.scanOn() {
		return r.curTime
	}
	r.cur = nil
	tok, g := r.readLocked(nil)
	if g == nil {
		return t // a sweep
	}
	r.cur, r.curTime = g, t
	r.paused <- tok
	<-r.resume
	return t
}

// ---------------------------------------------------------------- two racing announcements

// c27Park parks one goroutine in its k-th clock read (after the value was read).
type c27Park struct {
	gid    int64
	skip   int32
	atPark chan struct{}
	resume chan struct{}
}

func (r *c27Park) pre() {}
func (r *c27Park) post(t time.Time) time.Time {
	if c27GID() != atomic.LoadInt64(&r.gid) {
		return t
	}
	if atomic.AddInt32(&r.skip, -1) == -1 {
		r.atPark <- struct{}{}
		<-r.resume
	}
	return t
}

// c27GoState returns the wait reason of goroutine gid.
func c27GoState(gid int64) string {
	buf := make([]byte, 1<<18)
	n := runtime.Stack(buf, true)
	dump := string(buf[:n])
	hdr := fmt.Sprintf("goroutine %d [", gid)
	i := strings.Index(dump, hdr)
	if i < 0 {
		return ""
	}
	rest := dump[i+len(hdr):]
	j := strings.IndexAny(rest, "],")
	if j < 0 {
		return ""
	}
	return rest[:j]
}

// race2: announcement A is parked right after the clock read that stamps its entry; the clock moves on
// by d; announcement B runs. With the clock read inside the group's lock section B (same torrent)
// cannot be applied before A. Reports which of the two was applied first.
func (e *c27Env) race2(op []string) bool {
	if len(op) != 13 {
		return false
	}
	fa, ok1 := e.upd(append([]string{"op", "upd"}, op[2:7]...))
	fb, ok2 := e.upd(append([]string{"op", "upd"}, op[7:12]...))
	d, err := strconv.Atoi(op[12])
	ha, _ := c27Idx(op[2], "h", c27NH)
	if !ok1 || !ok2 || err != nil || d < 0 || d > 1000000 {
		return false
	}
	e.s.mu.RLock()
	_, exists := e.s.peerGroups[c27Hashes[ha]]
	e.s.mu.RUnlock()
	r := &c27Park{atPark: make(chan struct{}), resume: make(chan struct{})}
	if !exists {
		r.skip = 1 // the first read stamps the new group (under s.mu), the second one the entry
	}
	aDone, bDone := make(chan string, 1), make(chan string, 1)
	reg := make(chan struct{})
	e.clk.hook.Store(c27HookBox{r})
	go func() {
		atomic.StoreInt64(&r.gid, c27GID())
		close(reg)
		aDone <- verifh.Protect(fa)
	}()
	<-reg
	parked := false
	select {
	case <-r.atPark:
		parked = true
	case p := <-aDone: // no clock read reached: nothing to interleave
		aDone <- p
	case <-time.After(c27Wait):
		e.tr.PropFail("deadlock", "race2-announcer-a")
		panic("c27 harness: race2 stuck")
	}
	e.clk.add(d)
	bgid := make(chan int64, 1)
	go func() {
		bgid <- c27GID()
		bDone <- verifh.Protect(fb)
	}()
	gb := <-bgid
	order := "a-first"
	deadline := time.Now().Add(c27Wait)
	for parked {
		select {
		case p := <-bDone:
			bDone <- p
			if op[2] == op[7] {
				order = "b-first" // same torrent: B was applied while A still sat on its clock value
			}
			parked = false
			r.resume <- struct{}{}
			continue
		default:
		}
		if st := c27GoState(gb); st == "sync.RWMutex.Lock" || st == "sync.Mutex.Lock" || st == "sync.RWMutex.RLock" {
			parked = false
			r.resume <- struct{}{}
			continue
		}
		runtime.Gosched()
		if time.Now().After(deadline) {
			e.tr.PropFail("deadlock", "race2-announcer-b")
			panic("c27 harness: race2 stuck")
		}
	}
	for _, ch := range []chan string{aDone, bDone} {
		select {
		case p := <-ch:
			if p != "" {
				e.tr.PropFail("panic", verifh.Str(p))
			}
		case <-time.After(c27Wait):
			e.tr.PropFail("deadlock", "race2")
			panic("c27 harness: race2 stuck")
		}
	}
	e.clk.hook.Store(c27HookBox{c27NoHook{}})
	e.tr.Op(op[1:], order)
	e.tr.Count("race2_"+order, 1)
	return true
}

// ---------------------------------------------------------------- executor

type c27Env struct {
	tr  *verifh.T
	s   *LocalStore
	clk *c27Clock
}

const c27Wait = 5 * time.Second

// set when a split cleanup got stuck once: later split passes of the run are executed unsplit
var c27SplitBroken int32

func (e *c27Env) upd(op []string) (func(), bool) {
	if len(op) != 7 {
		return nil, false
	}
	h, ok1 := c27Idx(op[2], "h", c27NH)
	p, ok2 := c27Idx(op[3], "p", c27NP)
	ip, ok3 := c27Idx(op[4], "ip", c27NIP)
	port, err := strconv.Atoi(op[5])
	if !ok1 || !ok2 || !ok3 || err != nil || port < 0 || (op[6] != "0" && op[6] != "1") {
		return nil, false
	}
	return func() {
		var st Store = e.s
		if err := st.UpdatePeer(c27Hashes[h], core.NewPeerInfo(c27Peers[p], c27IP(ip), port, false, op[6] == "1")); err != nil {
			e.tr.PropFail("update-error", verifh.Str(err.Error()))
		}
	}, true
}

// simple executes one non-cleanup-pass op; reports whether it produced a record.
func (e *c27Env) simple(op []string) bool {
	if len(op) < 2 || op[0] != "op" {
		return false
	}
	switch op[1] {
	case "upd":
		f, ok := e.upd(op)
		if !ok {
			return false
		}
		f()
		e.tr.Op(op[1:], "ok")
		return true
	case "get":
		if len(op) != 4 {
			return false
		}
		h, ok := c27Idx(op[2], "h", c27NH)
		n, err := strconv.Atoi(op[3])
		if !ok || err != nil {
			return false
		}
		var st Store = e.s
		peers, err := st.GetPeers(c27Hashes[h], n)
		if err != nil {
			e.tr.Op(op[1:], "err")
			return true
		}
		var toks []string
		for _, p := range peers {
			toks = append(toks, c27PeerTok(p))
		}
		e.tr.Op(op[1:], verifh.SortedList(toks))
		return true
	case "adv":
		if len(op) != 3 {
			return false
		}
		d, err := strconv.Atoi(op[2])
		if err != nil || d < 0 || d > 1000000 {
			return false
		}
		e.clk.add(d)
		e.tr.Op(op[1:], "ok")
		return true
	}
	return false
}

// split runs cleanupExpiredPeerEntries with the scripted gaps; ops = the records between cebegin and ceend.
func (e *c27Env) split(ops [][]string) {
	gaps := map[string][][]string{}
	cur := ""
	for _, op := range ops {
		if len(op) == 3 && op[1] == "scan" {
			cur = op[2]
			if _, dup := gaps[cur]; dup {
				cur = ""
			} else {
				gaps[cur] = nil
			}
			continue
		}
		if len(op) == 3 && op[1] == "sweep" {
			cur = ""
			continue
		}
		if cur != "" {
			gaps[cur] = append(gaps[cur], op)
		} else {
			e.tr.Count("split_ops_outside_gap_dropped", 1)
		}
	}
	if atomic.LoadInt32(&c27SplitBroken) == 1 {
		// a split pass hung earlier in this run: run the pass unsplit (the driver cleans every group at `ceend`)
		e.tr.Op([]string{"cebegin"}, "ok")
		if p := verifh.Protect(e.s.cleanupExpiredPeerEntries); p != "" {
			e.tr.PropFail("panic", verifh.Str(p))
		}
		e.tr.Op([]string{"ceend"}, "ok")
		e.tr.Count("split_run_unsplit_after_hang", 1)
		return
	}
	r := &c27Split{clk: e.clk, paused: make(chan string), resume: make(chan struct{})}
	r.snapshot(e.s)
	r.uRet.Store((chan struct{})(nil))
	atomic.StoreInt64(&r.cgid, -2)
	e.clk.hook.Store(c27HookBox{r})
	done := make(chan string, 1)
	e.tr.Op([]string{"cebegin"}, "ok")
	go func() {
		atomic.StoreInt64(&r.cgid, c27GID())
		done <- verifh.Protect(e.s.cleanupExpiredPeerEntries)
	}()
	pendingSweep := ""
	flushSweep := func() {
		if pendingSweep != "" {
			e.tr.Op([]string{"sweep", pendingSweep}, "ok")
			pendingSweep = ""
		}
	}
	stuck := func(what string) {
		atomic.StoreInt32(&c27SplitBroken, 1)
		e.tr.PropFail("deadlock", what)
		e.tr.Flush()
		panic("c27 harness: stuck waiting for " + what)
	}
loop:
	for {
		select {
		case tok := <-r.paused:
			flushSweep()
			e.tr.Op([]string{"scan", tok}, "ok")
			e.tr.Count("split_gaps", 1)
			resumed := false
			script := gaps[tok]
			for i := 0; i < len(script) && !resumed; i++ {
				op := script[i]
				if len(op) >= 3 && op[1] == "upd" && op[2] == tok {
					f, ok := e.upd(op)
					if !ok {
						continue
					}
					// announcement to the group being cleaned: make it the pending writer, then let
					// the cleanup finish its scan; adv ops that follow are applied right after the
					// announcement has read the clock (it still holds the group lock then)
					adv := 0
					var advOps [][]string
					for _, o := range script[i+1:] {
						if len(o) == 3 && o[1] == "adv" {
							if d, err := strconv.Atoi(o[2]); err == nil && d > 0 && d <= 1000000 {
								adv += d
								advOps = append(advOps, o)
								continue
							}
						}
						break
					}
					r.mu.Lock()
					g := r.groups[tok]
					r.mu.Unlock()
					atomic.StoreInt32(&r.uAdv, int32(adv))
					uDone := make(chan string, 1)
					uRet := make(chan struct{})
					r.uRet.Store(uRet)
					ugid := make(chan struct{})
					go func() {
						atomic.StoreInt64(&r.uGid, c27GID())
						close(ugid)
						p := verifh.Protect(f)
						close(uRet)
						uDone <- p
					}()
					<-ugid
					deadline := time.Now().Add(2 * time.Second)
					early, uPanic := false, ""
				pending:
					for g.mu.TryRLock() {
						g.mu.RUnlock()
						select {
						case uPanic = <-uDone:
							early = true // the announcement did not wait for the scan's read lock
							break pending
						default:
						}
						runtime.Gosched()
						if time.Now().After(deadline) {
							break // blocked somewhere else: let the cleanup go on, the order is then not forced
						}
					}
					if early || time.Now().After(deadline) {
						e.tr.Count("split_interleaving_not_forced", 1)
					}
					r.resume <- struct{}{}
					resumed = true
					if !early {
						select {
						case uPanic = <-uDone:
						case <-time.After(c27Wait):
							stuck("the interleaved announcement")
						}
					}
					if uPanic != "" {
						e.tr.PropFail("panic", verifh.Str(uPanic))
					}
					e.tr.Op(op[1:], "ok")
					e.tr.Count("split_same_group_updates", 1)
					if adv > 0 && atomic.LoadInt32(&r.uAdv) == 0 {
						for _, o := range advOps {
							e.tr.Op(o[1:], "ok")
						}
						e.tr.Count("split_adv_after_update", 1)
					}
					atomic.StoreInt32(&r.uAdv, 0)
					break
				}
				if p := verifh.Protect(func() {
					if e.simple(op) {
						e.tr.Count("split_gap_ops", 1)
					}
				}); p != "" {
					e.tr.PropFail("panic", verifh.Str(p))
				}
				if len(op) >= 2 && op[1] == "upd" {
					r.snapshot(e.s)
				}
			}
			if !resumed {
				r.resume <- struct{}{}
			}
			pendingSweep = tok
		case p := <-done:
			if p != "" {
				e.tr.PropFail("panic", verifh.Str(p))
			}
			break loop
		case <-time.After(c27Wait):
			stuck("cleanupExpiredPeerEntries")
		}
	}
	flushSweep()
	if n := atomic.LoadInt32(&r.preTimeouts); n > 0 {
		e.tr.Count("split_pre_wait_timeouts", int(n))
	}
	e.clk.hook.Store(c27HookBox{c27NoHook{}})
	e.tr.Op([]string{"ceend"}, "ok")
}

func c27Exec(tr *verifh.T, c verifh.Case) {
	ttl := 10
	for _, t := range c.Cfg {
		if strings.HasPrefix(t, "ttl=") {
			if n, err := strconv.Atoi(t[4:]); err == nil && n > 0 && n <= 1000000 {
				ttl = n
			}
		}
	}
	clk := newC27Clock()
	s := NewLocalStore(LocalConfig{TTL: time.Duration(ttl) * time.Second}, clk)
	defer s.Close()
	e := &c27Env{tr: tr, s: s, clk: clk}
	tr.Cfg(fmt.Sprintf("ttl=%d", ttl))
	for i := 0; i < len(c.Ops); i++ {
		op := c.Ops[i]
		if len(op) < 2 || op[0] != "op" {
			continue
		}
		var run func()
		if (op[1] == "ce" || op[1] == "cg" || op[1] == "cebegin") && len(op) != 2 {
			continue
		}
		switch op[1] {
		case "ce":
			run = func() { s.cleanupExpiredPeerEntries(); tr.Op(op[1:], "ok") }
		case "cg":
			run = func() { s.cleanupExpiredPeerGroups(); tr.Op(op[1:], "ok") }
		case "cebegin":
			j := i + 1
			for j < len(c.Ops) && !(len(c.Ops[j]) == 2 && c.Ops[j][1] == "ceend") {
				j++
			}
			body := c.Ops[i+1 : j]
			i = j
			run = func() { e.split(body) }
		case "scan", "sweep", "ceend":
			continue
		case "race2":
			run = func() { e.race2(op) }
		default:
			run = func() { e.simple(op) }
		}
		if p := verifh.Protect(run); p != "" {
			tr.PropFail("panic", verifh.Str(p))
		}
	}
	// final observation of every torrent through the public API
	for i := 0; i < c27NH; i++ {
		op := []string{"op", "get", fmt.Sprintf("h%d", i), "1000"}
		if p := verifh.Protect(func() { e.simple(op) }); p != "" {
			tr.PropFail("panic", verifh.Str(p))
		}
	}
	tr.End()
}

// ---------------------------------------------------------------- generators

func c27Upd(h, p, ip, port int, c bool) []string {
	return []string{"op", "upd", fmt.Sprintf("h%d", h), fmt.Sprintf("p%d", p), fmt.Sprintf("ip%d", ip),
		strconv.Itoa(port), verifh.Bool(c)}
}

// c27Race2: announcements of peers pa and pb (torrents ha, hb), the clock advancing by d in between
func c27Race2(ha, pa, hb, pb, d int) []string {
	a, b := c27Upd(ha, pa, 1, 8, false), c27Upd(hb, pb, 2, 9, true)
	return append(append(append([]string{"op", "race2"}, a[2:]...), b[2:]...), strconv.Itoa(d))
}

func c27Split1(h int, gap ...[]string) [][]string {
	hs := fmt.Sprintf("h%d", h)
	out := [][]string{{"op", "cebegin"}, {"op", "scan", hs}}
	out = append(out, gap...)
	return append(out, []string{"op", "sweep", hs}, []string{"op", "ceend"})
}

// exhaustive alphabet (ttl=2): each symbol is a short block of op records
func c27Alphabet() [][][]string {
	one := func(op ...string) [][]string { return [][]string{append([]string{"op"}, op...)} }
	return [][][]string{
		{c27Upd(0, 0, 1, 1, false)},
		{c27Upd(0, 0, 2, 2, true)},
		{c27Upd(0, 1, 1, 3, false)},
		{c27Upd(1, 0, 3, 4, true)},
		one("adv", "1"),
		one("adv", "2"),
		one("adv", "3"),
		one("ce"),
		one("cg"),
		one("get", "h0", "1"),
		c27Split1(0),
		c27Split1(0, c27Upd(0, 0, 3, 5, false)),
		c27Split1(0, c27Upd(0, 1, 3, 6, true)),
		c27Split1(0, c27Upd(0, 0, 3, 7, false), []string{"op", "adv", "2"}),
		c27Split1(0, []string{"op", "adv", "1"}, []string{"op", "get", "h0", "9"}),
		{c27Upd(0, 0, 1, 1, false), c27Race2(0, 0, 0, 1, 2)},
	}
}

func c27Random(r *verifh.Rand, tr *verifh.T) verifh.Case {
	ttl := []int{1, 2, 3, 5}[r.Intn(4)]
	nh := 1 + r.Intn(3)
	np := 1 + r.Intn(5)
	n := 1 + r.Intn(40)
	randUpd := func(h int) []string {
		if h < 0 {
			h = r.Intn(nh)
		}
		return c27Upd(h, r.Intn(np), r.Intn(c27NIP), r.Intn(4), r.Chance(1, 2))
	}
	randAdv := func() []string { return []string{"op", "adv", strconv.Itoa(r.Intn(ttl + 3))} }
	randGet := func() []string {
		ns := []int{-1, 0, 1, 2, 3, 50}
		return []string{"op", "get", fmt.Sprintf("h%d", r.Intn(nh)), strconv.Itoa(ns[r.Intn(len(ns))])}
	}
	var ops [][]string
	for j := 0; j < n; j++ {
		k := r.Intn(100)
		switch {
		case k < 40:
			ops = append(ops, randUpd(-1))
			tr.Count("random_op_upd", 1)
		case k < 55:
			ops = append(ops, randGet())
			tr.Count("random_op_get", 1)
		case k < 72:
			ops = append(ops, randAdv())
			tr.Count("random_op_adv", 1)
		case k < 76:
			ops = append(ops, []string{"op", "ce"})
			tr.Count("random_op_ce", 1)
		case k < 79:
			ops = append(ops, c27Race2(r.Intn(nh), r.Intn(np), r.Intn(nh), r.Intn(np), r.Intn(ttl+2)))
			tr.Count("random_op_race2", 1)
		case k < 85:
			ops = append(ops, []string{"op", "cg"})
			tr.Count("random_op_cg", 1)
		default:
			tr.Count("random_op_split", 1)
			ops = append(ops, []string{"op", "cebegin"})
			for _, h := range r.Perm(nh) {
				if r.Chance(1, 4) {
					continue
				}
				hs := fmt.Sprintf("h%d", h)
				ops = append(ops, []string{"op", "scan", hs})
				for g := r.Intn(4); g > 0; g-- {
					switch r.Intn(4) {
					case 0:
						ops = append(ops, randUpd((h+1+r.Intn(c27NH-1))%c27NH)) // another torrent
					case 1:
						ops = append(ops, randAdv())
					case 2:
						ops = append(ops, randGet())
					}
				}
				if r.Chance(2, 3) {
					ops = append(ops, randUpd(h))
					for r.Chance(1, 3) {
						ops = append(ops, randAdv())
					}
				}
				ops = append(ops, []string{"op", "sweep", hs})
			}
			ops = append(ops, []string{"op", "ceend"})
		}
	}
	return verifh.Case{Cfg: []string{fmt.Sprintf("ttl=%d", ttl)}, Ops: ops}
}

func c27Malformed(r *verifh.Rand) verifh.Case {
	toks := []string{"op", "upd", "get", "adv", "ce", "cg", "cebegin", "scan", "sweep", "ceend", "h0", "h1", "h9", "p0",
		"p1", "p77", "ip1", "ip9", "0", "1", "2", "-3", "99999999999999999999", "x", "", "=>"}
	var ops [][]string
	for j := 0; j < 1+r.Intn(25); j++ {
		if r.Chance(1, 2) {
			ops = append(ops, c27Upd(r.Intn(2), r.Intn(3), r.Intn(c27NIP), r.Intn(3), r.Chance(1, 2)))
			continue
		}
		op := []string{"op"}
		for k := r.Intn(7); k > 0; k-- {
			if t := toks[r.Intn(len(toks))]; t != "" && t != "=>" {
				op = append(op, t)
			}
		}
		ops = append(ops, op)
	}
	return verifh.Case{Cfg: []string{"ttl=" + []string{"2", "0", "-1", "x", "3"}[r.Intn(5)]}, Ops: ops}
}

func TestVerif_C27(t *testing.T) {
	tr := verifh.Open("ps")
	defer tr.Close()
	cases, replayOnly := verifh.InputCases("ps")
	for _, c := range cases {
		c27Exec(tr, c)
		tr.Count("corpus_or_replay_cases", 1)
	}
	if replayOnly {
		return
	}
	// (a) bounded-exhaustive over the block alphabet, ttl=2
	alpha := c27Alphabet()
	depth := verifh.Scale(3, 4)
	var rec func(prefix [][]string, d int)
	rec = func(prefix [][]string, d int) {
		if d == 0 {
			c27Exec(tr, verifh.Case{Cfg: []string{"ttl=2"}, Ops: prefix})
			tr.Count("exhaustive_cases", 1)
			return
		}
		for _, blk := range alpha {
			rec(append(prefix[:len(prefix):len(prefix)], blk...), d-1)
		}
	}
	for d := 1; d <= depth; d++ {
		rec(nil, d)
	}
	// (b) random long histories
	r := verifh.NewRand(verifh.Seed(), "c27")
	for i := 0; i < verifh.Scale(1500, 60000); i++ {
		c := c27Random(r, tr)
		if i < 2 {
			tr.Sample(fmt.Sprint(c.Cfg, c.Ops))
		}
		c27Exec(tr, c)
		tr.Count("random_cases", 1)
	}
	// (c) malformed stream
	rm := verifh.NewRand(verifh.Seed(), "c27-malformed")
	for i := 0; i < verifh.Scale(300, 5000); i++ {
		c27Exec(tr, c27Malformed(rm))
		tr.Count("malformed_cases", 1)
	}
}

var _ = sort.Strings
