//go:build verif

package peerstore

import (
	"fmt"
	"runtime"
	"strconv"
	"strings"
	"sync"
	"sync/atomic"
	"testing"
	"time"

	"github.com/uber/kraken/core"
	"github.com/uber/kraken/utils/verifh"
)

// C27 supporting harness: uncontrolled goroutine runs (announcers, readers, the cleanup goroutine, a
// clock that jumps past the TTL) on the real LocalStore. The predicates are evaluated here, on
// facts that hold for every interleaving:
//   * a lookup returns at most n peers, no peer twice, and for each peer a version of its
//     announcement that is not older than the last one completed before the lookup started and not
//     newer than the last one started before the lookup returned;
//   * at quiescence, every peer whose last announcement is certainly still fresh is returned with
//     exactly that announcement (an announcement that raced with the deletion of its group must
//     have been retried on the new group).
// This is the only place where the `deleted` retry of getOrInitLockedPeerGroup is exercised: no
// seam lets the deterministic harness stop an announcer between its two lock sections.

type c27cCell struct {
	started   int64 // version of the last announcement started
	completed int64 // version of the last announcement completed
	before    int64 // clock (unix seconds) read before the last completed announcement started
}

func c27cRound(tr *verifh.T, r *verifh.Rand, round int) {
	const ttl = 3
	clk := newC27Clock()
	s := NewLocalStore(LocalConfig{TTL: ttl * time.Second}, clk)
	defer s.Close()
	var st Store = s
	nh, np := 1+r.Intn(2), 2+r.Intn(3)
	cells := make([][]c27cCell, nh)
	for i := range cells {
		cells[i] = make([]c27cCell, np)
	}
	var fails sync.Map
	fail := func(key, detail string) { fails.LoadOrStore(key, detail) }
	announce := func(h, p int) {
		c := &cells[h][p]
		v := atomic.AddInt64(&c.started, 1)
		before := clk.Now().Unix()
		if err := st.UpdatePeer(c27Hashes[h], core.NewPeerInfo(c27Peers[p], c27IP(1+p%3), int(v), false, v%2 == 0)); err != nil {
			fail("update-error", err.Error())
		}
		atomic.StoreInt64(&c.before, before)
		atomic.StoreInt64(&c.completed, v)
	}
	lookup := func(h, n int) {
		lo := make([]int64, np)
		for p := range lo {
			lo[p] = atomic.LoadInt64(&cells[h][p].completed)
		}
		peers, err := st.GetPeers(c27Hashes[h], n)
		if err != nil {
			fail("get-error", err.Error())
			return
		}
		if n < 0 {
			n = 0
		}
		if len(peers) > n {
			fail("too-many", fmt.Sprintf("get h%d %d returned %d", h, n, len(peers)))
		}
		seen := map[core.PeerID]bool{}
		for _, pi := range peers {
			if seen[pi.PeerID] {
				fail("duplicate-peer", fmt.Sprintf("get h%d returned %s twice", h, c27PeerTok(pi)))
			}
			seen[pi.PeerID] = true
			for p := 0; p < np; p++ {
				if c27Peers[p] == pi.PeerID {
					hi := atomic.LoadInt64(&cells[h][p].started)
					v := int64(pi.Port)
					if v < lo[p] || v > hi || pi.Complete != (v%2 == 0) || pi.IP != c27IP(1+p%3) || pi.Origin {
						fail("stale-announcement", fmt.Sprintf("get h%d returned %s, completed before the lookup: version %d, started: %d",
							h, c27PeerTok(pi), lo[p], hi))
					}
				}
			}
		}
	}
	// phase A: everybody announces once; then the clock jumps past the TTL so that every group is
	// deletable; phase B: announcers, readers and the cleanup goroutine run concurrently.
	for h := 0; h < nh; h++ {
		for p := 0; p < np; p++ {
			announce(h, p)
		}
	}
	clk.add(ttl + 1 + r.Intn(2))
	var wg sync.WaitGroup
	nw := 1 + r.Intn(np)
	plan := make([][][2]int, nw)
	for p := 0; p < np; p++ { // a peer is announced by one goroutine only: versions are ordered
		w := p % nw
		for k := r.Intn(3); k > 0; k-- {
			plan[w] = append(plan[w], [2]int{r.Intn(nh), p})
		}
	}
	for w := 0; w < nw; w++ {
		wg.Add(1)
		go func(w int) {
			defer wg.Done()
			for _, hp := range plan[w] {
				announce(hp[0], hp[1])
			}
		}(w)
	}
	wg.Add(1)
	nticks := r.Intn(3)
	go func() { // the clock keeps moving while announcements are in progress (by less than the TTL in total)
		defer wg.Done()
		for i := nticks; i > 0; i-- {
			clk.add(1)
			runtime.Gosched()
		}
	}()
	wg.Add(1)
	go func() { // the cleanupTask goroutine's work
		defer wg.Done()
		for i := 0; i < 3; i++ {
			s.cleanupExpiredPeerGroups()
			s.cleanupExpiredPeerEntries()
		}
	}()
	ngets := 0
	for k := r.Intn(3); k > 0; k-- {
		h, n := r.Intn(nh), []int{-1, 0, 1, 2, 50}[r.Intn(5)]
		ngets++
		wg.Add(1)
		go func() {
			defer wg.Done()
			lookup(h, n)
			lookup(h, n)
		}()
	}
	done := make(chan struct{})
	go func() { wg.Wait(); close(done) }()
	select {
	case <-done:
	case <-time.After(c27Wait):
		tr.PropFail("deadlock", "concurrent-round")
		tr.Flush()
		panic("c27c: goroutines stuck")
	}
	// quiescent check
	now := clk.Now().Unix()
	nupd := 0
	for h := 0; h < nh; h++ {
		peers, _ := st.GetPeers(c27Hashes[h], 1000)
		got := map[core.PeerID]*core.PeerInfo{}
		for _, pi := range peers {
			got[pi.PeerID] = pi
		}
		for p := 0; p < np; p++ {
			c := &cells[h][p]
			nupd += int(c.completed)
			if c.completed == 0 || now >= c.before+ttl {
				continue // possibly expired
			}
			pi := got[c27Peers[p]]
			if pi == nil {
				fail("fresh-forgotten", fmt.Sprintf("h%d p%d version %d announced at >= %d, now %d, ttl %d: not returned", h, p, c.completed, c.before, now, ttl))
			} else if int64(pi.Port) != c.completed {
				fail("stale-announcement", fmt.Sprintf("h%d p%d: stored version %d, last announced %d", h, p, pi.Port, c.completed))
			}
		}
	}
	tr.Cfg()
	tr.Op([]string{"round", strconv.Itoa(round), "upd=" + strconv.Itoa(nupd), "gets=" + strconv.Itoa(ngets)}, "ok")
	fails.Range(func(k, v interface{}) bool {
		tr.PropFail(k.(string), verifh.Str(v.(string)))
		return true
	})
	tr.End()
	tr.Count("concurrent_rounds", 1)
	tr.Count("concurrent_announcements", nupd)
}

// c27Blocked reports whether goroutine gid is parked in one of the given wait reasons
// (the bracketed state of its header in a full stack dump).
func c27Blocked(gid int64, reasons ...string) bool {
	buf := make([]byte, 1<<18)
	n := runtime.Stack(buf, true)
	dump := string(buf[:n])
	hdr := fmt.Sprintf("goroutine %d [", gid)
	i := strings.Index(dump, hdr)
	if i < 0 {
		return false
	}
	rest := dump[i+len(hdr):]
	j := strings.IndexAny(rest, "],")
	if j < 0 {
		return false
	}
	for _, r := range reasons {
		if rest[:j] == r {
			return true
		}
	}
	return false
}

func c27WaitBlocked(tr *verifh.T, gid int64, what string, reasons ...string) {
	deadline := time.Now().Add(c27Wait)
	for !c27Blocked(gid, reasons...) {
		runtime.Gosched()
		if time.Now().After(deadline) {
			tr.PropFail("deadlock", what)
			tr.Flush()
			panic("c27c: " + what + " never blocked")
		}
	}
}

// c27cRace sets up the race between an announcer that has looked its group up and the group
// cleanup deleting that group: the harness holds the group's lock (like any other announcer in its
// critical section would), starts UpdatePeer and waits until it is parked on the group lock (so it
// is past its s.mu section), starts cleanupExpiredPeerGroups and waits until it is parked on the
// group's read lock (it holds s.mu), then releases the lock. Which of the two gets the write lock
// first is up to the runtime; both orders are legal and the predicate below holds for both.
func c27cRace(tr *verifh.T, r *verifh.Rand, round int) {
	const ttl = 3
	clk := newC27Clock()
	s := NewLocalStore(LocalConfig{TTL: ttl * time.Second}, clk)
	defer s.Close()
	var st Store = s
	h := c27Hashes[0]
	old := core.NewPeerInfo(c27Peers[0], c27IP(1), 1, false, false)
	if err := st.UpdatePeer(h, old); err != nil {
		tr.PropFail("update-error", verifh.Str(err.Error()))
	}
	clk.add(ttl + 1)
	s.mu.RLock()
	g := s.peerGroups[h]
	s.mu.RUnlock()
	p := 1 + r.Intn(2) // sometimes the same peer, sometimes a new one
	if p == 2 {
		p = 0
	}
	fresh := core.NewPeerInfo(c27Peers[p], c27IP(2), 7, false, true)
	g.mu.Lock()
	uid, gidc := make(chan int64, 1), make(chan int64, 1)
	var wg sync.WaitGroup
	wg.Add(2)
	go func() {
		defer wg.Done()
		uid <- c27GID()
		if err := st.UpdatePeer(h, fresh); err != nil {
			tr.PropFail("update-error", verifh.Str(err.Error()))
		}
	}()
	c27WaitBlocked(tr, <-uid, "announcer", "sync.RWMutex.Lock", "sync.Mutex.Lock", "semacquire")
	// a lookup that has found the group and now waits for its read lock: it reads the group before or
	// after its deletion; either way only announcements that were the latest at some point of the call
	var looked []*core.PeerInfo
	lgid := make(chan int64, 1)
	wg.Add(1)
	go func() {
		defer wg.Done()
		lgid <- c27GID()
		looked, _ = st.GetPeers(h, 10)
	}()
	c27WaitBlocked(tr, <-lgid, "lookup", "sync.RWMutex.RLock", "semacquire")
	go func() {
		defer wg.Done()
		gidc <- c27GID()
		s.cleanupExpiredPeerGroups()
	}()
	c27WaitBlocked(tr, <-gidc, "group cleanup", "sync.RWMutex.RLock", "semacquire")
	g.mu.Unlock()
	wg.Wait()
	for _, pi := range looked {
		isOld := pi.PeerID == old.PeerID && pi.Port == 1 && !pi.Complete && pi.IP == old.IP
		isNew := pi.PeerID == fresh.PeerID && pi.Port == 7 && pi.Complete && pi.IP == fresh.IP
		if !isOld && !isNew {
			tr.PropFail("stale-announcement", fmt.Sprintf("lookup-racing-with-group-deletion-returned-%s", c27PeerTok(pi)))
		}
	}
	s.mu.RLock()
	replaced := s.peerGroups[h] != g
	s.mu.RUnlock()
	peers, _ := st.GetPeers(h, 1000)
	found := false
	for _, pi := range peers {
		if pi.PeerID == fresh.PeerID && pi.Port == 7 && pi.Complete && pi.IP == fresh.IP {
			found = true
		}
	}
	tr.Cfg()
	tr.Op([]string{"race", strconv.Itoa(round), "group-replaced=" + verifh.Bool(replaced)}, "ok")
	if !found {
		tr.PropFail("fresh-forgotten", fmt.Sprintf("announcement-racing-with-group-deletion-lost:group-replaced=%v", replaced))
	}
	tr.End()
	if replaced {
		tr.Count("race_cleanup_first_retry_taken", 1)
	} else {
		tr.Count("race_announcer_first", 1)
	}
}

// c27cLookups: lookups overlapping a cleanup pass that really removes entries. P peers of one torrent,
// every other one expired (exact: the clock does not move during the round); several goroutines loop
// GetPeers while cleanupExpiredPeerEntries runs once. The read section and the sweep are atomic w.r.t.
// each other, so for every interleaving: a result lists no peer id twice, every returned peer carries its
// latest announcement, a lookup asking for everything gets all P peers or exactly the P/2 fresh ones,
// and a lookup that starts after the pass returned gets no expired peer.
func c27cLookups(tr *verifh.T, r *verifh.Rand, round int) {
	const ttl = 10
	np := 64 + 2*r.Intn(33)
	clk := newC27Clock()
	s := NewLocalStore(LocalConfig{TTL: ttl * time.Second}, clk)
	defer s.Close()
	var st Store = s
	h := c27Hashes[0]
	ids := make([]core.PeerID, np)
	idx := map[core.PeerID]int{}
	for i := range ids {
		copy(ids[i][:], fmt.Sprintf("c27cL-%014d", i))
		idx[ids[i]] = i
	}
	ver := make([]int, np)
	announce := func(i int) {
		ver[i]++
		if err := st.UpdatePeer(h, core.NewPeerInfo(ids[i], c27IP(1+i%3), ver[i], false, i%5 == 0)); err != nil {
			tr.PropFail("update-error", verifh.Str(err.Error()))
		}
	}
	for _, i := range r.Perm(np) {
		announce(i)
	}
	clk.add(6)
	for i := 0; i < np; i += 2 {
		announce(i) // the even peers renew: fresh until +16
	}
	clk.add(5) // the odd peers' announcements (expiring at +10) are now expired
	fresh := func(i int) bool { return i%2 == 0 }
	var fails sync.Map
	fail := func(key, detail string) { fails.LoadOrStore(key, detail) }
	var cleanStarted, cleanDone, stop int32
	var overlaps, lookups int64
	nl := 3 + r.Intn(3)
	ns := []int{np + 10, np, np / 2, np / 2, np / 3, 5}
	ready := make(chan struct{}, nl)
	start := make(chan struct{})
	var wg sync.WaitGroup
	for l := 0; l < nl; l++ {
		wg.Add(1)
		go func(l int) {
			defer wg.Done()
			ready <- struct{}{}
			<-start
			for k := 0; k < 12 || (atomic.LoadInt32(&stop) == 0 && k < 60); k++ {
				n := ns[(l+k)%len(ns)]
				doneBefore := atomic.LoadInt32(&cleanDone)
				peers, err := st.GetPeers(h, n)
				startedAfter := atomic.LoadInt32(&cleanStarted)
				atomic.AddInt64(&lookups, 1)
				if doneBefore == 0 && startedAfter == 1 {
					atomic.AddInt64(&overlaps, 1)
				}
				if err != nil {
					fail("get-error", err.Error())
				}
				if len(peers) > n {
					fail("too-many", fmt.Sprintf("get n=%d returned %d", n, len(peers)))
				}
				seen := map[core.PeerID]bool{}
				for _, pi := range peers {
					i, known := idx[pi.PeerID]
					switch {
					case !known:
						fail("unknown-peer", c27PeerTok(pi))
					case seen[pi.PeerID]:
						fail("duplicate-peer", fmt.Sprintf("get n=%d of %d peers returned peer %d twice (lookup overlapping the cleanup: %v)", n, np, i, doneBefore == 0 && startedAfter == 1))
					case pi.Port != ver[i] || pi.IP != c27IP(1+i%3) || pi.Complete != (i%5 == 0) || pi.Origin:
						fail("stale-announcement", fmt.Sprintf("peer %d returned as %s, latest version %d", i, c27PeerTok(pi), ver[i]))
					case doneBefore == 1 && !fresh(i):
						fail("expired-after-cleanup", fmt.Sprintf("a lookup that started after the cleanup pass had returned got expired peer %d", i))
					}
					seen[pi.PeerID] = true
				}
				if n >= np && len(peers) != np && len(peers) != np/2 {
					fail("torn-lookup", fmt.Sprintf("get n=%d of %d peers returned %d: neither all stored nor exactly the fresh ones", n, np, len(peers)))
				}
				if doneBefore == 1 && n >= np/2 && len(peers) != np/2 {
					fail("fresh-forgotten", fmt.Sprintf("after the cleanup get n=%d returned %d of the %d fresh peers", n, len(peers), np/2))
				}
			}
		}(l)
	}
	for l := 0; l < nl; l++ {
		<-ready
	}
	close(start)
	for j := r.Intn(4); j > 0; j-- {
		runtime.Gosched() // let some lookups begin first
	}
	atomic.StoreInt32(&cleanStarted, 1)
	s.cleanupExpiredPeerEntries()
	atomic.StoreInt32(&cleanDone, 1)
	atomic.StoreInt32(&stop, 1)
	wg.Wait()
	tr.Cfg()
	ov := "0"
	if atomic.LoadInt64(&overlaps) > 0 {
		ov = "1"
	}
	tr.Op([]string{"lookups", strconv.Itoa(round), "peers=" + strconv.Itoa(np), "overlapping-cleanup=" + ov}, "ok")
	fails.Range(func(k, v interface{}) bool {
		tr.PropFail(k.(string), verifh.Str(v.(string)))
		return true
	})
	tr.End()
	tr.Count("lookup_rounds", 1)
	tr.Count("lookups", int(atomic.LoadInt64(&lookups)))
	tr.Count("lookups_overlapping_cleanup", int(atomic.LoadInt64(&overlaps)))
}

func TestVerif_C27c(t *testing.T) {
	tr := verifh.Open("psc")
	defer tr.Close()
	cases, replayOnly := verifh.InputCases("psc")
	r := verifh.NewRand(verifh.Seed(), "c27c")
	if replayOnly {
		// concurrent rounds are not replayable step by step: re-run a batch of rounds instead
		for i := 0; i < 2000*(1+len(cases)); i++ {
			c27cRound(tr, r, i)
			c27cRace(tr, r, i)
			c27cLookups(tr, r, i)
		}
		return
	}
	for i := 0; i < verifh.Scale(1500, 6000); i++ {
		c27cRace(tr, r, i)
	}
	for i := 0; i < verifh.Scale(1500, 8000); i++ {
		c27cLookups(tr, r, i)
	}
	for i := 0; i < verifh.Scale(3000, 30000); i++ {
		c27cRound(tr, r, i)
	}
}
