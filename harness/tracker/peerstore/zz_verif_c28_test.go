//go:build verif

package peerstore

// C28 harness (in-package: serializePeer / deserializePeer are unexported).
//   machine "pc": the member codec as pure functions
//   machine "rs": RedisStore against an in-process Redis (miniredis) with a mock clock
// Record formats: /verif/lean/Driver/C28.lean.

import (
	"fmt"
	"sort"
	"strconv"
	"strings"
	"testing"
	"time"

	"github.com/alicebob/miniredis"
	"github.com/andres-erbsen/clock"
	"github.com/uber/kraken/core"
	"github.com/uber/kraken/utils/verifh"
)

func c28Kv(toks []string, k string) (string, bool) {
	for _, t := range toks {
		if strings.HasPrefix(t, k+"=") {
			return t[len(k)+1:], true
		}
	}
	return "", false
}

func c28Peer(toks []string) (*core.PeerInfo, bool) {
	pidS, ok1 := c28Kv(toks, "pid")
	ipS, ok2 := c28Kv(toks, "ip")
	portS, ok3 := c28Kv(toks, "port")
	cS, ok4 := c28Kv(toks, "c")
	if !(ok1 && ok2 && ok3 && ok4) {
		return nil, false
	}
	pidB, e1 := verifh.Unhex(pidS)
	ip, e2 := verifh.Unstr(ipS)
	port, e3 := strconv.Atoi(portS)
	if e1 != nil || e2 != nil || e3 != nil || len(pidB) != 20 || (cS != "0" && cS != "1") {
		return nil, false
	}
	var pid core.PeerID
	copy(pid[:], pidB)
	return core.NewPeerInfo(pid, ip, port, false, cS == "1"), true
}

func c28DeErr(err error) string {
	m := err.Error()
	switch {
	case strings.HasPrefix(m, "invalid peer encoding"):
		return "parts"
	case strings.HasPrefix(m, "parse peer id"):
		return "peerid"
	case strings.HasPrefix(m, "parse port"):
		return "port"
	}
	return "other"
}

func c28PcOp(t *verifh.T, op []string) {
	switch op[0] {
	case "ser":
		p, ok := c28Peer(op)
		if !ok {
			return
		}
		s := serializePeer(p)
		id, complete, err := deserializePeer(s)
		if err != nil {
			t.One(op, verifh.Str(s), "back="+c28DeErr(err))
			return
		}
		t.One(op, verifh.Str(s), "back=ok", "bpid="+verifh.Hex(id.peerID[:]), "bip="+verifh.Str(id.ip),
			"bport="+strconv.Itoa(id.port), "bc="+verifh.Bool(complete))
	case "de":
		if len(op) != 2 {
			return
		}
		s, err := verifh.Unstr(op[1])
		if err != nil {
			return
		}
		id, complete, derr := deserializePeer(s)
		if derr != nil {
			t.One(op, "err", c28DeErr(derr))
			return
		}
		t.One(op, "ok", "pid="+verifh.Hex(id.peerID[:]), "ip="+verifh.Str(id.ip), "port="+strconv.Itoa(id.port),
			"c="+verifh.Bool(complete))
	}
}

func c28PcExec(t *verifh.T, c verifh.Case) {
	for _, op := range c.Ops {
		if len(op) < 2 || op[0] != "one" {
			continue
		}
		o := op[1:]
		if p := verifh.Protect(func() { c28PcOp(t, o) }); p != "" {
			t.One(o, "panic")
			t.PropFail("panic", verifh.Str(p))
		}
	}
}

var c28Addrs = []string{
	"10.0.0.1", "192.168.255.254", "0.0.0.0", "127.0.0.1", "::1", "::", "fe80::1", "2001:db8::8a2e:370:7334",
	"2001:0db8:0000:0000:0000:8a2e:0370:7334", "::ffff:10.0.0.1", "fe80::1%eth0", "[::1]", "localhost",
	"agent-17.dc1.example.com", "host_with_underscore", "", ":", ":::::::", "a:b", "trailing:", ":leading",
	"1:2:3:4:5:6:7:8:9", "sp ace", "tab\there", "ünï", "%", "a|b,c;d",
}

func c28RandAddr(r *verifh.Rand) string {
	switch r.Intn(5) {
	case 0:
		return fmt.Sprintf("%d.%d.%d.%d", r.Intn(256), r.Intn(256), r.Intn(256), r.Intn(256))
	case 1:
		var gs []string
		for i := 0; i < 8; i++ {
			gs = append(gs, strconv.FormatInt(int64(r.Intn(65536)), 16))
		}
		s := strings.Join(gs, ":")
		if r.Chance(1, 2) {
			i := r.Intn(6)
			gs = append(gs[:i], append([]string{""}, gs[i+2+r.Intn(2):]...)...)
			s = strings.Join(gs, ":")
			if strings.HasPrefix(s, ":") {
				s = ":" + s
			}
		}
		return s
	case 2:
		return c28Addrs[r.Intn(len(c28Addrs))]
	case 3:
		alpha := "ab:19.-%[] "
		n := r.Intn(12)
		b := make([]byte, n)
		for i := range b {
			b[i] = alpha[r.Intn(len(alpha))]
		}
		return string(b)
	default:
		return "h" + strconv.Itoa(r.Intn(1000)) + ".example.org"
	}
}

func c28PeerToks(pid []byte, ip string, port int, c bool) []string {
	return []string{"pid=" + verifh.Hex(pid), "ip=" + verifh.Str(ip), "port=" + strconv.Itoa(port), "c=" + verifh.Bool(c)}
}

func TestVerif_C28_Codec(t *testing.T) {
	tr := verifh.Open("pc")
	defer tr.Close()
	cases, replayOnly := verifh.InputCases("pc")
	for _, c := range cases {
		c28PcExec(tr, c)
		tr.Count("corpus_or_replay_cases", 1)
	}
	if replayOnly {
		return
	}
	r := verifh.NewRand(verifh.Seed(), "c28pc")
	run := func(toks ...string) {
		c28PcExec(tr, verifh.Case{Ops: [][]string{append([]string{"one"}, toks...)}})
	}
	ports := []int{0, 1, 80, 6881, 65535, 65536, -1, -65535, 1 << 31, -(1 << 31), 1<<63 - 1, -(1 << 63)}
	// (a) every listed address x every boundary port x both flags
	for _, a := range c28Addrs {
		for _, p := range ports {
			for _, c := range []bool{false, true} {
				run(append([]string{"ser"}, c28PeerToks(r.Bytes(20), a, p, c)...)...)
				tr.Count("ser_grid", 1)
			}
		}
	}
	// every address over a tiny alphabet up to length 4 (thorough 5)
	var rec func(prefix string, d int)
	rec = func(prefix string, d int) {
		run(append([]string{"ser"}, c28PeerToks(r.Bytes(20), prefix, 6881, len(prefix)%2 == 0)...)...)
		tr.Count("ser_exhaustive", 1)
		if d == 0 {
			return
		}
		for _, a := range []string{":", "1", "a", "."} {
			rec(prefix+a, d-1)
		}
	}
	rec("", verifh.Scale(4, 6))
	// (b) random peers
	for i := 0; i < verifh.Scale(1500, 150000); i++ {
		a := c28RandAddr(r)
		p := ports[r.Intn(len(ports))]
		if r.Chance(2, 3) {
			p = r.Intn(65536)
		}
		run(append([]string{"ser"}, c28PeerToks(r.Bytes(20), a, p, r.Chance(1, 2))...)...)
		tr.Count("ser_random", 1)
		if i < 2 {
			tr.Sample("ser ip=" + a)
		}
	}
	// (c) arbitrary member strings into the decoder
	pid := fmt.Sprintf("%x", r.Bytes(20))
	for _, s := range []string{"", ":", "::", ":::", "::::", pid, pid + ":1.2.3.4:80", pid + ":1.2.3.4:80:1", pid + ":1.2.3.4:80:0",
		pid + ":1.2.3.4:80:2", pid + ":1.2.3.4:80:", pid + ":1.2.3.4::1", pid + ":1.2.3.4:+80:1", pid + ":1.2.3.4:-80:1",
		pid + ":1.2.3.4:080:1", pid + ":1.2.3.4:8_0:1", pid + ":1.2.3.4:0x50:1", pid + ":1.2.3.4:80 :1", pid + ":1.2.3.4:9223372036854775808:1",
		pid + ":1.2.3.4:-9223372036854775808:1", pid + ":::1:80:1", pid + "::80:1", pid[:39] + ":1.2.3.4:80:1", strings.ToUpper(pid) + ":h:1:1",
		"zz" + pid[2:] + ":h:1:1", pid + pid + ":h:1:1", ":h:1:1", pid + ":a:b:c:d:e:80:1"} {
		run("de", verifh.Str(s))
		tr.Count("de_listed", 1)
	}
	// every byte value at positions spread over valid members (peer id, separators, address, port, bit)
	for _, m := range []string{pid + ":10.0.0.1:6881:1", pid + ":fe80::1:80:0"} {
		for _, i := range []int{0, 1, 20, 39, 40, 41, 45, len(m) - 7, len(m) - 6, len(m) - 4, len(m) - 3, len(m) - 2, len(m) - 1} {
			for b := 0; b < 256; b++ {
				run("de", verifh.Str(m[:i]+string([]byte{byte(b)})+m[i+1:]))
				tr.Count("de_byte_subst", 1)
			}
		}
	}
	for i := 0; i < verifh.Scale(1500, 150000); i++ {
		p := core.NewPeerInfo(core.PeerID{}, c28RandAddr(r), r.Intn(70000)-100, false, r.Chance(1, 2))
		copy(p.PeerID[:], r.Bytes(20))
		s := serializePeer(p)
		switch r.Intn(10) {
		case 8, 9: // malformed port field
			i := strings.LastIndex(s, ":")
			j := strings.LastIndex(s[:i], ":")
			s = s[:j+1] + r.Pick("+80", "080", "8_0", "", "-", "+", "99999999999999999999", "9223372036854775807", "-9223372036854775809", "0x10", "1e3", " 80", "８０") + s[i:]
		case 0:
			s = s[:r.Intn(len(s)+1)]
		case 1:
			b := []byte(s)
			b[r.Intn(len(b))] = ":0g+- _"[r.Intn(7)]
			s = string(b)
		case 2:
			i := r.Intn(len(s) + 1)
			s = s[:i] + ":" + s[i:]
		case 3:
			s = strings.Replace(s, ":", "", 1)
		case 4:
			s = s + r.Pick(":", "1", ":1", " ")
		case 5:
			s = s[1:]
		}
		run("de", verifh.Str(s))
		tr.Count("de_random", 1)
	}
}

// ---------------------------------------------------------------- store

var c28Base = int64(4102444800) // 2100-01-01: EXPIREAT times are always in Redis' future

func c28RsExec(t *verifh.T, c verifh.Case) {
	sizeS, ok1 := c28Kv(c.Cfg, "size")
	maxS, ok2 := c28Kv(c.Cfg, "max")
	t0S, ok3 := c28Kv(c.Cfg, "t0")
	size, e1 := strconv.Atoi(sizeS)
	mx, e2 := strconv.Atoi(maxS)
	t0, e3 := strconv.ParseInt(t0S, 10, 64)
	if !(ok1 && ok2 && ok3) || e1 != nil || e2 != nil || e3 != nil || size < 1 || mx < 1 || t0 < c28Base {
		return
	}
	mr, err := miniredis.Run()
	if err != nil {
		panic(err)
	}
	defer mr.Close()
	clk := clock.NewMock()
	clk.Set(time.Unix(t0, 0))
	mr.SetTime(clk.Now())
	s, err := NewRedisStore(RedisConfig{Addr: mr.Addr(), PeerSetWindowSize: time.Duration(size) * time.Second, MaxPeerSetWindows: mx}, clk)
	if err != nil {
		panic(err)
	}
	t.Cfg(c.Cfg...)
	do := func(op []string) {
		switch op[1] {
		case "tick":
			if len(op) != 3 {
				return
			}
			d, err := strconv.Atoi(op[2])
			if err != nil || d < 0 {
				return
			}
			clk.Add(time.Duration(d) * time.Second)
			mr.SetTime(clk.Now())
			mr.FastForward(time.Duration(d) * time.Second)
			t.Rec("op", op[1:], nil)
		case "update":
			hS, _ := c28Kv(op, "h")
			hB, err := verifh.Unhex(hS)
			p, ok := c28Peer(op)
			if err != nil || len(hB) != 20 || !ok {
				return
			}
			var h core.InfoHash
			copy(h[:], hB)
			if err := s.UpdatePeer(h, p); err != nil {
				t.Op(op[1:], "err")
				return
			}
			t.Op(op[1:], "ok")
		case "get":
			hS, _ := c28Kv(op, "h")
			nS, _ := c28Kv(op, "n")
			hB, err := verifh.Unhex(hS)
			n, err2 := strconv.Atoi(nS)
			if err != nil || err2 != nil || len(hB) != 20 {
				return
			}
			var h core.InfoHash
			copy(h[:], hB)
			peers, err := s.GetPeers(h, n)
			if err != nil {
				t.Op(op[1:], "err")
				return
			}
			var xs []string
			for _, p := range peers {
				if p.Origin {
					t.PropFail("origin-set", p.PeerID.String())
				}
				xs = append(xs, fmt.Sprintf("%s|%s|%d|%s", p.PeerID.String(), verifh.Str(p.IP), p.Port, verifh.Bool(p.Complete)))
			}
			t.Op(op[1:], verifh.SortedList(xs))
		}
	}
	for _, op := range c.Ops {
		if len(op) < 2 || op[0] != "op" {
			continue
		}
		o := op
		if p := verifh.Protect(func() { do(o) }); p != "" {
			t.PropFail("panic", verifh.Str(p))
		}
	}
	t.End()
}

func TestVerif_C28_Store(t *testing.T) {
	tr := verifh.Open("rs")
	defer tr.Close()
	cases, replayOnly := verifh.InputCases("rs")
	for _, c := range cases {
		c28RsExec(tr, c)
		tr.Count("corpus_or_replay_cases", 1)
	}
	if replayOnly {
		return
	}
	r := verifh.NewRand(verifh.Seed(), "c28rs")
	hashes := []string{verifh.Hex([]byte(strings.Repeat("\x11", 20))), verifh.Hex([]byte(strings.Repeat("\x22", 20)))}
	type peer struct {
		pid  []byte
		ip   string
		port int
	}
	for i := 0; i < verifh.Scale(400, 15000); i++ {
		size := []int{1, 2, 5, 10, 30}[r.Intn(5)]
		mx := 1 + r.Intn(4)
		t0 := c28Base + int64(r.Intn(100000))
		c := verifh.Case{Cfg: []string{fmt.Sprintf("size=%d", size), fmt.Sprintf("max=%d", mx), fmt.Sprintf("t0=%d", t0)}}
		var pool []peer
		for j := 0; j < 2+r.Intn(5); j++ {
			a := c28RandAddr(r)
			if r.Chance(1, 2) {
				a = c28Addrs[r.Intn(12)]
			}
			pool = append(pool, peer{r.Bytes(20), a, r.Intn(65536)})
		}
		// two peers sharing a peer id but differing in address
		if r.Chance(1, 4) {
			pool = append(pool, peer{pool[0].pid, "::1", pool[0].port})
		}
		nops := 1 + r.Intn(25)
		nann := 0
		for j := 0; j < nops; j++ {
			h := hashes[0]
			if r.Chance(1, 5) {
				h = hashes[1]
			}
			switch k := r.Intn(10); {
			case k < 5:
				p := pool[r.Intn(len(pool))]
				c.Ops = append(c.Ops, append([]string{"op", "update", "h=" + h}, c28PeerToks(p.pid, p.ip, p.port, r.Chance(1, 3))...))
				tr.Count("op_update", 1)
				nann++
			case k < 7:
				d := r.Intn(size + 1)
				if r.Chance(1, 6) {
					d = r.Intn(size*mx + 2)
				}
				c.Ops = append(c.Ops, []string{"op", "tick", strconv.Itoa(d)})
				tr.Count("op_tick", 1)
			default:
				n := 1000
				switch k := r.Intn(10); {
				case k < 2:
					n = r.Intn(4)
				case k < 6:
					// around the number of peers announced so far: the sampling regime and its boundary
					n = nann + r.Intn(3) - 1
					if r.Chance(1, 3) {
						n = 1 + r.Intn(nann+1)
					}
				}
				c.Ops = append(c.Ops, []string{"op", "get", "h=" + h, "n=" + strconv.Itoa(n)})
				tr.Count("op_get", 1)
			}
		}
		c.Ops = append(c.Ops, []string{"op", "get", "h=" + hashes[0], "n=1000"})
		if i < 2 {
			tr.Sample(fmt.Sprint(c.Cfg, len(c.Ops)))
		}
		c28RsExec(tr, c)
		tr.Count("store_cases", 1)
	}
	// (b) one peer id re-announcing from a nearby address/port on ONE store, with GetPeers in between: ports differing by
	// +-1, by dropped / appended trailing 0/1 digits, addresses differing in trailing 0/1/':' characters, complete-bit flips
	nearPorts := func(p int) []int {
		out := []int{p + 1, p - 1, p*10 + 0, p*10 + 1, p / 10, p / 100, p + 10, p ^ 1}
		s := strconv.Itoa(p)
		if t := strings.TrimRight(s, "01"); t != s && t != "" {
			v, _ := strconv.Atoi(t)
			out = append(out, v)
		}
		return out
	}
	nearAddrs := func(a string) []string {
		return []string{a, a + "0", a + "1", a + "10", strings.TrimRight(a, "01"), a + ":", a + ":1", strings.TrimRight(a, ":01")}
	}
	for i := 0; i < verifh.Scale(150, 6000); i++ {
		size := []int{1, 5, 30}[r.Intn(3)]
		mx := 1 + r.Intn(4)
		t0 := c28Base + int64(r.Intn(100000))
		c := verifh.Case{Cfg: []string{fmt.Sprintf("size=%d", size), fmt.Sprintf("max=%d", mx), fmt.Sprintf("t0=%d", t0)}}
		pid := r.Bytes(20)
		addr := []string{"10.0.0.1", "10.0.0.2", "192.168.1.100", "::1", "fe80::1", "host-1", "h", "2001:db8::10"}[r.Intn(8)]
		port := []int{8080, 8081, 5000, 50, 6881, 1, 10, 100, 65535, 80, 8000, 1111}[r.Intn(12)]
		h := hashes[0]
		upd := func(hh, a string, p int, cpl bool) {
			c.Ops = append(c.Ops, append([]string{"op", "update", "h=" + hh}, c28PeerToks(pid, a, p, cpl)...))
		}
		get := func(hh string) { c.Ops = append(c.Ops, []string{"op", "get", "h=" + hh, "n=1000"}) }
		cpl := r.Chance(1, 3)
		upd(h, addr, port, cpl)
		get(h)
		steps := 1 + r.Intn(4)
		for j := 0; j < steps; j++ {
			if r.Chance(1, 3) {
				c.Ops = append(c.Ops, []string{"op", "tick", strconv.Itoa(r.Intn(size*mx + 2))})
			}
			a2, p2 := addr, port
			switch r.Intn(4) {
			case 0, 1:
				ps := nearPorts(port)
				p2 = ps[r.Intn(len(ps))]
			case 2:
				as := nearAddrs(addr)
				a2 = as[r.Intn(len(as))]
			default:
				cpl = !cpl
			}
			hh := h
			if r.Chance(1, 6) {
				hh = hashes[1]
			}
			upd(hh, a2, p2, cpl)
			get(hh)
			if r.Chance(1, 3) {
				addr, port = a2, p2
			}
		}
		get(h)
		if i < 1 {
			tr.Sample(fmt.Sprint("re-announce ", c.Ops))
		}
		c28RsExec(tr, c)
		tr.Count("reannounce_cases", 1)
	}
	_ = sort.Strings
}
