//go:build verif

package trackerserver_test

import (
	"bytes"
	"encoding/json"
	"fmt"
	"net/http"
	"net/http/httptest"
	"strconv"
	"strings"
	"testing"
	"time"

	"github.com/andres-erbsen/clock"
	"github.com/uber-go/tally"

	"github.com/uber/kraken/core"
	"github.com/uber/kraken/tracker/announceclient"
	"github.com/uber/kraken/tracker/peerhandoutpolicy"
	"github.com/uber/kraken/tracker/peerstore"
	"github.com/uber/kraken/tracker/trackerserver"
	"github.com/uber/kraken/utils/verifh"
)

// C26 harness: the real tracker server (trackerserver.New + its chi handler), a real LocalStore, the
// real PriorityPolicy and a static origin store, driven through the two announce endpoints
// (GET /announce with a body, POST /announce/{infohash}); records the status and the ordered peer
// list of every response. Public API only.

const (
	c26NH  = 3
	c26NP  = 60
	c26NO  = 3
	c26NIP = 4
)

var c26Hashes, c26Digests, c26Peers, c26Origins = func() ([]core.InfoHash, []core.Digest, []core.PeerID, []core.PeerID) {
	var hs []core.InfoHash
	var ds []core.Digest
	for i := 0; i < c26NH; i++ {
		h, err := core.NewInfoHashFromHex(strings.Repeat(fmt.Sprintf("%02x", 0xb0+i), 20))
		if err != nil {
			panic(err)
		}
		hs = append(hs, h)
		d, err := core.NewSHA256DigestFromHex(strings.Repeat(fmt.Sprintf("%02x", 0xc0+i), 32))
		if err != nil {
			panic(err)
		}
		ds = append(ds, d)
	}
	mk := func(base, n int) []core.PeerID {
		var ps []core.PeerID
		for i := 0; i < n; i++ {
			p, err := core.NewPeerID(strings.Repeat(fmt.Sprintf("%02x", base+i), 20))
			if err != nil {
				panic(err)
			}
			ps = append(ps, p)
		}
		return ps
	}
	return hs, ds, mk(0x10, c26NP), mk(0x70, c26NO)
}()

func c26IP(i int) string {
	if i == 0 {
		return ""
	}
	return fmt.Sprintf("10.0.0.%d", i)
}

func c26PeerTok(p *core.PeerInfo) string {
	if p == nil {
		return "nil"
	}
	id := "p?" + p.PeerID.String()
	for i, x := range c26Peers {
		if x == p.PeerID {
			id = fmt.Sprintf("p%d", i)
		}
	}
	for i, x := range c26Origins {
		if x == p.PeerID {
			id = fmt.Sprintf("o%d", i)
		}
	}
	ip := "ip?" + verifh.Str(p.IP)
	for i := 0; i < c26NIP; i++ {
		if c26IP(i) == p.IP {
			ip = fmt.Sprintf("ip%d", i)
		}
	}
	return fmt.Sprintf("%s:%s:%d:%s:%s", id, ip, p.Port, verifh.Bool(p.Origin), verifh.Bool(p.Complete))
}

// c26ParseInfo parses a peer token `p<j>|o<j>:ip<k>:<port>:<origin>:<complete>`.
func c26ParseInfo(tok string) (*core.PeerInfo, bool) {
	f := strings.Split(tok, ":")
	if len(f) != 5 || len(f[0]) < 2 || !strings.HasPrefix(f[1], "ip") {
		return nil, false
	}
	j, err1 := strconv.Atoi(f[0][1:])
	k, err2 := strconv.Atoi(f[1][2:])
	port, err3 := strconv.Atoi(f[2])
	if err1 != nil || err2 != nil || err3 != nil || j < 0 || k < 0 || k >= c26NIP || port < 0 ||
		(f[3] != "0" && f[3] != "1") || (f[4] != "0" && f[4] != "1") {
		return nil, false
	}
	var id core.PeerID
	switch {
	case f[0][0] == 'p' && j < c26NP:
		id = c26Peers[j]
	case f[0][0] == 'o' && j < c26NO:
		id = c26Origins[j]
	default:
		return nil, false
	}
	return core.NewPeerInfo(id, c26IP(k), port, f[3] == "1", f[4] == "1"), true
}

// c26ParseOrigin parses an origin token (origin flag set; the id may be an agent's: an origin that also announces).
func c26ParseOrigin(tok string) (*core.PeerInfo, bool) {
	p, ok := c26ParseInfo(tok)
	if !ok || !p.Origin {
		return nil, false
	}
	return p, true
}

// static origin store: the same origins for every blob
type c26OriginStore struct{ origins []*core.PeerInfo }

func (s c26OriginStore) GetOrigins(core.Digest) ([]*core.PeerInfo, error) {
	// fresh objects on every call, as the real origin store's results are
	var out []*core.PeerInfo
	for _, o := range s.origins {
		c := *o
		out = append(out, &c)
	}
	return out, nil
}

// stub peer store: GetPeers answers with whatever the current op scripted (fresh objects)
type c26StubStore struct{ answer []*core.PeerInfo }

func (s *c26StubStore) Close()                                         {}
func (s *c26StubStore) UpdatePeer(core.InfoHash, *core.PeerInfo) error { return nil }
func (s *c26StubStore) GetPeers(core.InfoHash, int) ([]*core.PeerInfo, error) {
	var out []*core.PeerInfo
	for _, p := range s.answer {
		c := *p
		out = append(out, &c)
	}
	return out, nil
}

func c26Exec(tr *verifh.T, c verifh.Case) {
	limit, policy := 0, "default"
	var origins []*core.PeerInfo
	var originToks []string
	for _, t := range c.Cfg {
		switch {
		case strings.HasPrefix(t, "limit="):
			if n, err := strconv.Atoi(t[6:]); err == nil && n > -1000 && n < 1000 {
				limit = n
			}
		case t == "policy=completeness":
			policy = "completeness"
		case strings.HasPrefix(t, "origins="):
			for _, ot := range verifh.Unlist(t[8:]) {
				if o, ok := c26ParseOrigin(ot); ok {
					origins = append(origins, o)
					originToks = append(originToks, c26PeerTok(o))
				}
			}
		}
	}
	pol, err := peerhandoutpolicy.NewPriorityPolicy(tally.NoopScope, policy)
	if err != nil {
		panic(err)
	}
	ps := peerstore.NewLocalStore(peerstore.LocalConfig{TTL: time.Hour}, clock.NewMock())
	defer ps.Close()
	srv := trackerserver.New(trackerserver.Config{PeerHandoutLimit: limit}, tally.NoopScope, pol, ps,
		c26OriginStore{origins}, nil)
	handler := srv.Handler()
	stub := &c26StubStore{}
	stubHandler := trackerserver.New(trackerserver.Config{PeerHandoutLimit: limit}, tally.NoopScope, pol, stub,
		c26OriginStore{origins}, nil).Handler()
	tr.Cfg(fmt.Sprintf("limit=%d", limit), "policy="+policy, "origins="+verifh.List(originToks))
	for _, op := range c.Ops {
		if len(op) < 2 || op[0] != "op" || !((op[1] == "ann" && len(op) == 9) || (op[1] == "sann" && len(op) == 10)) {
			continue
		}
		h := handler
		if op[1] == "sann" {
			var ans []*core.PeerInfo
			okAll := true
			var toks []string
			for _, t := range verifh.Unlist(op[9]) {
				p, ok := c26ParseInfo(t)
				if !ok {
					okAll = false
					break
				}
				ans = append(ans, p)
				toks = append(toks, c26PeerTok(p))
			}
			if !okAll || verifh.List(toks) != op[9] {
				continue
			}
			stub.answer = ans
			h = stubHandler
		}
		hi, err1 := strconv.Atoi(strings.TrimPrefix(op[2], "h"))
		p, err2 := strconv.Atoi(strings.TrimPrefix(op[3], "p"))
		ip, err3 := strconv.Atoi(strings.TrimPrefix(op[4], "ip"))
		port, err4 := strconv.Atoi(op[5])
		if err1 != nil || err2 != nil || err3 != nil || err4 != nil || !strings.HasPrefix(op[2], "h") ||
			!strings.HasPrefix(op[3], "p") || !strings.HasPrefix(op[4], "ip") ||
			hi < 0 || hi >= c26NH || p < 0 || p >= c26NP || ip < 0 || ip >= c26NIP || port < 0 ||
			(op[6] != "0" && op[6] != "1") || (op[7] != "0" && op[7] != "1") || (op[8] != "v1" && op[8] != "v2") {
			continue
		}
		run := func() {
			d := c26Digests[hi]
			body, err := json.Marshal(&announceclient.Request{
				Name:     d.Hex(),
				Digest:   &d,
				InfoHash: c26Hashes[hi],
				Peer:     core.NewPeerInfo(c26Peers[p], c26IP(ip), port, op[7] == "1", op[6] == "1"),
			})
			if err != nil {
				panic(err)
			}
			var req *http.Request
			if op[8] == "v1" {
				req = httptest.NewRequest("GET", "/announce", bytes.NewReader(body))
			} else {
				req = httptest.NewRequest("POST", "/announce/"+c26Hashes[hi].Hex(), bytes.NewReader(body))
			}
			rec := httptest.NewRecorder()
			h.ServeHTTP(rec, req)
			if rec.Code != 200 {
				tr.Op(op[1:], strconv.Itoa(rec.Code))
				return
			}
			var resp announceclient.Response
			if err := json.Unmarshal(rec.Body.Bytes(), &resp); err != nil {
				tr.Op(op[1:], "200", "undecodable")
				return
			}
			var toks []string
			for _, pi := range resp.Peers {
				toks = append(toks, c26PeerTok(pi))
			}
			tr.Op(op[1:], "200", verifh.List(toks)) // order kept: the handout is ordered by priority
		}
		if pmsg := verifh.Protect(run); pmsg != "" {
			tr.PropFail("panic", verifh.Str(pmsg))
		}
	}
	tr.End()
}

func c26Ann(h, p, ip, port int, complete, origin bool, v int) []string {
	return []string{"op", "ann", fmt.Sprintf("h%d", h), fmt.Sprintf("p%d", p), fmt.Sprintf("ip%d", ip), strconv.Itoa(port),
		verifh.Bool(complete), verifh.Bool(origin), fmt.Sprintf("v%d", v)}
}

func c26OriginsCfg(r *verifh.Rand, n int) string {
	var toks []string
	for _, j := range r.Perm(c26NO)[:n] {
		toks = append(toks, fmt.Sprintf("o%d:ip%d:%d:1:%s", j, r.Intn(c26NIP), r.Intn(3), verifh.Bool(r.Chance(3, 4))))
	}
	return "origins=" + verifh.List(toks)
}

func TestVerif_C26(t *testing.T) {
	tr := verifh.Open("ho")
	defer tr.Close()
	cases, replayOnly := verifh.InputCases("ho")
	for _, c := range cases {
		c26Exec(tr, c)
		tr.Count("corpus_or_replay_cases", 1)
	}
	if replayOnly {
		return
	}
	// (a) bounded-exhaustive: announce sequences of 3 peers x complete flag on one torrent (+ one
	// announce on a second torrent), for every policy, limits -1..3 and 0..2 origins
	var alpha [][]string
	for p := 0; p < 3; p++ {
		for _, c := range []bool{false, true} {
			alpha = append(alpha, c26Ann(0, p, 1+p, p, c, false, 2))
		}
	}
	alpha = append(alpha, c26Ann(1, 0, 1, 9, false, false, 1))
	depth := verifh.Scale(3, 4)
	for _, policy := range []string{"default", "completeness"} {
		for limit := -1; limit <= 3; limit++ {
			for _, origins := range []string{"origins=-", "origins=o0:ip1:1:1:1", "origins=o0:ip1:1:1:1,o1:ip2:2:1:0"} {
				cfg := []string{fmt.Sprintf("limit=%d", limit), "policy=" + policy, origins}
				var rec func(prefix [][]string, d int)
				rec = func(prefix [][]string, d int) {
					if d == 0 {
						c26Exec(tr, verifh.Case{Cfg: cfg, Ops: prefix})
						tr.Count("exhaustive_cases", 1)
						return
					}
					for _, o := range alpha {
						rec(append(prefix[:len(prefix):len(prefix)], o), d-1)
					}
				}
				for d := 1; d <= depth; d++ {
					rec(nil, d)
				}
			}
		}
	}
	// (b) random long histories: up to 6 peers, 3 torrents, all flags, both endpoints
	r := verifh.NewRand(verifh.Seed(), "c26")
	for i := 0; i < verifh.Scale(1500, 60000); i++ {
		cfg := []string{fmt.Sprintf("limit=%d", []int{-1, 0, 1, 2, 3, 4, 5, 50}[r.Intn(8)]),
			"policy=" + r.Pick("default", "completeness", "completeness"), c26OriginsCfg(r, r.Intn(c26NO+1))}
		np, nh := 1+r.Intn(c26NP), 1+r.Intn(c26NH)
		var ops [][]string
		for j := 1 + r.Intn(30); j > 0; j-- {
			ops = append(ops, c26Ann(r.Intn(nh), r.Intn(np), r.Intn(c26NIP), r.Intn(4), r.Chance(2, 5), r.Chance(1, 10), 1+r.Intn(2)))
			tr.Count("random_op_ann", 1)
		}
		if i < 2 {
			tr.Sample(fmt.Sprint(cfg, ops))
		}
		c26Exec(tr, verifh.Case{Cfg: cfg, Ops: ops})
		tr.Count("random_cases", 1)
	}
	// (d) large handouts (more than 12 entries: sort.Slice leaves its stable insertion-sort path), up
	// to and beyond the default limit of 50
	rb := verifh.NewRand(verifh.Seed(), "c26-big")
	for i := 0; i < verifh.Scale(24, 600); i++ {
		cfg := []string{"limit=" + rb.Pick("0", "0", "20", "60"), "policy=" + rb.Pick("completeness", "completeness", "default"),
			c26OriginsCfg(rb, 1+rb.Intn(c26NO))}
		np := 14 + rb.Intn(c26NP-14)
		var ops [][]string
		for _, p := range rb.Perm(np) {
			ops = append(ops, c26Ann(0, p, rb.Intn(c26NIP), rb.Intn(4), rb.Chance(1, 2), false, 2))
		}
		for j := 0; j < 4; j++ {
			ops = append(ops, c26Ann(0, rb.Intn(np), rb.Intn(c26NIP), rb.Intn(4), false, false, 1+rb.Intn(2)))
		}
		c26Exec(tr, verifh.Case{Cfg: cfg, Ops: ops})
		tr.Count("big_cases", 1)
	}
	// (e) scripted store answers through the stub peer store: the announcer under another endpoint or
	// flag, the same id twice, origins that are also agents, 0..40 entries
	rs := verifh.NewRand(verifh.Seed(), "c26-stub")
	for i := 0; i < verifh.Scale(500, 20000); i++ {
		var origs []string
		for j := rs.Intn(4); j > 0; j-- {
			if rs.Chance(1, 4) {
				origs = append(origs, fmt.Sprintf("p%d:ip%d:%d:1:1", rs.Intn(6), rs.Intn(c26NIP), rs.Intn(3))) // an origin that also announces
			} else {
				origs = append(origs, fmt.Sprintf("o%d:ip%d:%d:1:%s", rs.Intn(c26NO), rs.Intn(c26NIP), rs.Intn(3), verifh.Bool(rs.Chance(3, 4))))
			}
		}
		cfg := []string{"limit=" + rs.Pick("0", "3", "50"), "policy=" + rs.Pick("completeness", "completeness", "default"),
			"origins=" + verifh.List(origs)}
		var ops [][]string
		for k := 1 + rs.Intn(4); k > 0; k-- {
			src := rs.Intn(6)
			n := rs.Intn(8)
			if rs.Chance(1, 3) {
				n = 13 + rs.Intn(28)
			}
			nid := 1 + rs.Intn(20)
			var l []string
			for j := 0; j < n; j++ {
				id := rs.Intn(nid)
				if rs.Chance(1, 6) {
					id = src // the announcer as the store holds it: maybe another endpoint or flag
				}
				l = append(l, fmt.Sprintf("p%d:ip%d:%d:0:%s", id, rs.Intn(c26NIP), rs.Intn(3), verifh.Bool(rs.Chance(1, 2))))
			}
			op := c26Ann(rs.Intn(2), src, rs.Intn(c26NIP), rs.Intn(3), rs.Chance(1, 5), false, 1+rs.Intn(2))
			op[1] = "sann"
			ops = append(ops, append(op, verifh.List(l)))
			tr.Count("stub_op_sann", 1)
		}
		c26Exec(tr, verifh.Case{Cfg: cfg, Ops: ops})
		tr.Count("stub_cases", 1)
	}
	// (c) malformed stream
	rm := verifh.NewRand(verifh.Seed(), "c26-malformed")
	toks := []string{"ann", "h0", "h9", "p0", "p1", "p99", "ip1", "ip7", "0", "1", "2", "-1", "v1", "v2", "v3", "x"}
	for i := 0; i < verifh.Scale(200, 3000); i++ {
		var ops [][]string
		for j := rm.Intn(12); j > 0; j-- {
			if rm.Chance(1, 2) {
				ops = append(ops, c26Ann(rm.Intn(2), rm.Intn(3), rm.Intn(c26NIP), rm.Intn(3), rm.Chance(1, 2), false, 1+rm.Intn(2)))
				continue
			}
			op := []string{"op"}
			for k := rm.Intn(10); k > 0; k-- {
				op = append(op, toks[rm.Intn(len(toks))])
			}
			ops = append(ops, op)
		}
		cfg := []string{"limit=" + rm.Pick("0", "1", "x", "-5", "99999"), "policy=" + rm.Pick("default", "completeness", "nope"),
			"origins=" + rm.Pick("-", "o0:ip1:1:1:1", "o0:ip1:1:0:1", "o9:ip1:1:1:1", "junk", "o1:ip1:1:1:1,o1:ip2:2:1:1")}
		c26Exec(tr, verifh.Case{Cfg: cfg, Ops: ops})
		tr.Count("malformed_cases", 1)
	}
}
