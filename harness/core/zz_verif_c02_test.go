//go:build verif

package core

// C02 harness (in-package: the `info` struct and its bencoding are unexported).
// Records (machine "mi"), see /verif/lean/Driver/C02.lean:
//   one gen pl=<int> d=<str> data=<xbytes> rd=bytes|stream|short<k>|fail<k> crcs=<list> => …
//   one deser <xbytes> => …

import (
	"bytes"
	"crypto/sha1"
	"errors"
	"fmt"
	"hash/crc32"
	"io"
	"math"
	"reflect"
	"strconv"
	"strings"
	"testing"

	"github.com/jackpal/bencode-go"
	"github.com/uber/kraken/utils/verifh"
)

// c02ShortReader returns at most k bytes per Read.
type c02ShortReader struct {
	data []byte
	k    int
}

func (r *c02ShortReader) Read(p []byte) (int, error) {
	if len(r.data) == 0 {
		return 0, io.EOF
	}
	n := r.k
	if n > len(p) {
		n = len(p)
	}
	if n > len(r.data) {
		n = len(r.data)
	}
	copy(p, r.data[:n])
	r.data = r.data[n:]
	return n, nil
}

// c02FailReader delivers k bytes and then fails with a non-EOF error.
type c02FailReader struct {
	data []byte
	k    int
}

func (r *c02FailReader) Read(p []byte) (int, error) {
	if r.k <= 0 || len(r.data) == 0 {
		return 0, errors.New("verif: injected read error")
	}
	n := len(p)
	if n > r.k {
		n = r.k
	}
	if n > len(r.data) {
		n = len(r.data)
	}
	copy(p, r.data[:n])
	r.data = r.data[n:]
	r.k -= n
	return n, nil
}

func c02Kv(toks []string, k string) (string, bool) {
	for _, t := range toks {
		if strings.HasPrefix(t, k+"=") {
			return t[len(k)+1:], true
		}
	}
	return "", false
}

func c02SumsTok(s []uint32) string {
	if s == nil {
		return "nil"
	}
	if len(s) == 0 {
		return "empty"
	}
	xs := make([]string, len(s))
	for i, v := range s {
		xs[i] = strconv.FormatUint(uint64(v), 10)
	}
	return strings.Join(xs, ",")
}

func c02Benc(t *verifh.T, mi *MetaInfo) []byte {
	var b bytes.Buffer
	if err := bencode.Marshal(&b, mi.info); err != nil {
		t.PropFail("bencode-error", verifh.Str(err.Error()))
	}
	if h := sha1.Sum(b.Bytes()); !bytes.Equal(h[:], mi.InfoHash().Bytes()) {
		t.PropFail("infohash-not-sha1-of-bencoded-info", "ih="+mi.InfoHash().Hex())
	}
	return b.Bytes()
}

// c02PieceCRCs: checksum of each consecutive piece, sliced independently of the code under test.
func c02PieceCRCs(t *verifh.T, data []byte, pl int64) string {
	if pl <= 0 {
		return "-"
	}
	var xs []string
	for off := 0; off < len(data); {
		end := len(data)
		if int64(end-off) > pl {
			end = off + int(pl)
		}
		piece := data[off:end]
		// the oracle is CRC-32/IEEE computed by hash/crc32 itself; both anchored functions must agree with it
		s := crc32.ChecksumIEEE(piece)
		h := PieceHash()
		h.Write(piece)
		if h.Sum32() != s || PieceSum(piece) != s {
			t.PropFail("piece-checksum-not-crc32-ieee", verifh.Hex(piece))
		}
		xs = append(xs, strconv.FormatUint(uint64(s), 10))
		off = end
	}
	return verifh.List(xs)
}

func c02Digest(d string) (Digest, bool) {
	if d == "" {
		return Digest{}, true
	}
	dg, err := NewSHA256DigestFromHex(d)
	return dg, err == nil
}

func c02Gen(t *verifh.T, op []string) {
	plS, ok1 := c02Kv(op, "pl")
	dS, ok2 := c02Kv(op, "d")
	dataS, ok3 := c02Kv(op, "data")
	rd, ok4 := c02Kv(op, "rd")
	if !(ok1 && ok2 && ok3 && ok4) {
		return
	}
	pl, err := strconv.ParseInt(plS, 10, 64)
	if err != nil {
		return
	}
	dstr, err := verifh.Unstr(dS)
	if err != nil {
		return
	}
	data, err := verifh.Unhex(dataS)
	if err != nil {
		return
	}
	d, ok := c02Digest(dstr)
	if !ok {
		return
	}
	rec := []string{"gen", "pl=" + plS, "d=" + dS, "data=" + dataS, "rd=" + rd, "crcs=" + c02PieceCRCs(t, data, pl)}
	var mi *MetaInfo
	var gerr error
	p := verifh.Protect(func() {
		switch {
		case rd == "bytes":
			mi, gerr = NewMetaInfoFromBytes(d, append([]byte(nil), data...), pl)
		case rd == "stream":
			mi, gerr = NewMetaInfo(d, bytes.NewReader(data), pl)
		case strings.HasPrefix(rd, "short"):
			k, _ := strconv.Atoi(rd[5:])
			if k < 1 {
				k = 1
			}
			mi, gerr = NewMetaInfo(d, &c02ShortReader{append([]byte(nil), data...), k}, pl)
		case strings.HasPrefix(rd, "fail"):
			k, _ := strconv.Atoi(rd[4:])
			mi, gerr = NewMetaInfo(d, &c02FailReader{append([]byte(nil), data...), k}, pl)
		default:
			gerr = errors.New("verif: unknown reader mode")
		}
	})
	if p != "" {
		t.One(rec, "panic")
		t.PropFail("panic", verifh.Str(p))
		return
	}
	if gerr != nil {
		switch {
		case strings.Contains(gerr.Error(), "piece length must be positive"):
			t.One(rec, "err", "piecelength")
		case strings.HasPrefix(gerr.Error(), "read blob:"):
			t.One(rec, "err", "read")
		default:
			t.One(rec, "err", "other")
		}
		return
	}
	np := mi.NumPieces()
	var gpl []string
	for i := -1; i <= np+1; i++ {
		gpl = append(gpl, strconv.FormatInt(mi.GetPieceLength(i), 10))
	}
	ser, serr := mi.Serialize()
	if serr != nil {
		t.One(rec, "err", "serialize")
		return
	}
	rt := "ok"
	mi2, derr := DeserializeMetaInfo(ser)
	switch {
	case derr == nil:
		// serialising and parsing preserves info hash, digest and piece layout
		if mi2.InfoHash() != mi.InfoHash() || mi2.Digest() != mi.Digest() || mi2.Length() != mi.Length() ||
			mi2.PieceLength() != mi.PieceLength() || mi2.NumPieces() != mi.NumPieces() ||
			!(len(mi.info.PieceSums) == 0 && len(mi2.info.PieceSums) == 0 || reflect.DeepEqual(mi.info.PieceSums, mi2.info.PieceSums)) {
			t.PropFail("roundtrip", "ser="+verifh.Hex(ser))
		}
	case strings.HasPrefix(derr.Error(), "parse name:"):
		rt = "errname"
	case strings.HasPrefix(derr.Error(), "json:"):
		rt = "errjson"
	default:
		rt = "errother"
	}
	// the observed sums are read through the public accessor
	sums := mi.info.PieceSums
	for i := 0; i < np; i++ {
		if mi.GetPieceSum(i) != sums[i] {
			t.PropFail("getpiecesum", strconv.Itoa(i))
		}
	}
	t.One(rec, "ok", fmt.Sprintf("len=%d", mi.Length()), fmt.Sprintf("pl=%d", mi.PieceLength()),
		"sums="+c02SumsTok(sums), "name="+verifh.Str(mi.info.Name), "dg="+verifh.Str(mi.Digest().Hex()),
		"gpl="+verifh.List(gpl), "ser="+verifh.Hex(ser), "benc="+verifh.Hex(c02Benc(t, mi)), "rt="+rt)
}

func c02Deser(t *verifh.T, op []string) {
	if len(op) != 2 {
		return
	}
	raw, err := verifh.Unhex(op[1])
	if err != nil {
		return
	}
	var mi *MetaInfo
	var derr error
	if p := verifh.Protect(func() { mi, derr = DeserializeMetaInfo(raw) }); p != "" {
		t.One(op, "panic")
		t.PropFail("panic", verifh.Str(p))
		return
	}
	if derr != nil {
		switch {
		case strings.HasPrefix(derr.Error(), "json:"):
			t.One(op, "err", "json")
		case strings.HasPrefix(derr.Error(), "parse name:"):
			t.One(op, "err", "name")
		default:
			t.One(op, "err", "other")
		}
		return
	}
	reser, serr := mi.Serialize()
	if serr != nil {
		t.One(op, "err", "serialize")
		return
	}
	if mi.Digest().Hex() != mi.info.Name {
		t.PropFail("digest-not-name", verifh.Str(mi.info.Name))
	}
	mi2, err2 := DeserializeMetaInfo(reser)
	if err2 != nil || !reflect.DeepEqual(mi, mi2) {
		t.PropFail("roundtrip", "reser="+verifh.Hex(reser))
	}
	t.One(op, "ok", fmt.Sprintf("pl=%d", mi.info.PieceLength), "sums="+c02SumsTok(mi.info.PieceSums),
		"name="+verifh.Str(mi.info.Name), fmt.Sprintf("len=%d", mi.info.Length),
		"benc="+verifh.Hex(c02Benc(t, mi)), "reser="+verifh.Hex(reser))
}

func c02Exec(t *verifh.T, c verifh.Case) {
	for _, op := range c.Ops {
		if len(op) < 2 || op[0] != "one" {
			continue
		}
		switch op[1] {
		case "gen":
			c02Gen(t, op[1:])
		case "deser":
			c02Deser(t, op[1:])
		}
	}
}

func c02GenCase(pl int64, d string, data []byte, rd string) verifh.Case {
	return verifh.Case{Ops: [][]string{{"one", "gen", fmt.Sprintf("pl=%d", pl), "d=" + verifh.Str(d),
		"data=" + verifh.Hex(data), "rd=" + rd}}}
}

func c02RandHex(r *verifh.Rand, upper bool) string {
	s := fmt.Sprintf("%x", r.Bytes(32))
	if upper {
		return strings.ToUpper(s)
	}
	return s
}

// c02Mutate produces malformed / non-canonical variants of a serialisation.
func c02Mutate(r *verifh.Rand, ser []byte) []byte {
	s := string(ser)
	switch r.Intn(16) {
	case 0: // truncate
		return []byte(s[:r.Intn(len(s)+1)])
	case 1: // flip one byte
		b := []byte(s)
		if len(b) > 0 {
			b[r.Intn(len(b))] ^= byte(1 << uint(r.Intn(8)))
		}
		return b
	case 2: // whitespace
		return []byte(strings.Replace(s, ":", " : ", r.Intn(4)+1))
	case 3: // leading zero
		return []byte(strings.Replace(s, `"PieceLength":`, `"PieceLength":0`, 1))
	case 4: // negative length
		return []byte(strings.Replace(s, `"Length":`, `"Length":-`, 1))
	case 5: // float
		return []byte(strings.Replace(s, `,"PieceSums"`, `.0,"PieceSums"`, 1))
	case 6: // out of range sum
		return []byte(strings.Replace(s, `"PieceSums":[`, `"PieceSums":[4294967296,`, 1))
	case 7: // lower-case keys
		return []byte(strings.Replace(s, `"Name"`, `"name"`, 1))
	case 8: // unknown field
		return []byte(strings.Replace(s, `{"PieceLength"`, `{"X":[1,{"a":null}],"PieceLength"`, 1))
	case 9: // duplicate key, last wins
		return []byte(strings.Replace(s, `,"Name"`, `,"Length":3,"Name"`, 1))
	case 10: // escaped first character of the name (still a valid name after decoding)
		if i := strings.Index(s, `"Name":"`); i >= 0 && len(s) > i+9 {
			return []byte(s[:i+8] + `\u0061` + s[i+9:])
		}
		return []byte(s)
	case 11: // short name
		return []byte(strings.Replace(s, `"Name":"`, `"Name":"ab`, 1))
	case 12: // null / empty sums
		if r.Chance(1, 2) {
			return []byte(`{"Info":{"PieceLength":4,"PieceSums":[],"Name":"` + c02RandHex(r, false) + `","Length":0}}`)
		}
		return []byte(`{"Info":{"PieceLength":4,"PieceSums":null,"Name":"` + c02RandHex(r, true) + `","Length":0}}`)
	case 13: // int64 boundary
		return []byte(strings.Replace(s, `"Length":`, `"Length":`+r.Pick("9223372036854775807", "9223372036854775808", "-9223372036854775808", "-9223372036854775809"), 1))
	case 14: // trailing bytes
		return []byte(s + r.Pick(" ", "\n", "x", "{}"))
	default: // garbage
		return r.Bytes(r.Intn(40))
	}
}

func TestVerif_C02(t *testing.T) {
	tr := verifh.Open("mi")
	defer tr.Close()
	cases, replayOnly := verifh.InputCases("mi")
	for _, c := range cases {
		c02Exec(tr, c)
		tr.Count("corpus_or_replay_cases", 1)
	}
	if replayOnly {
		return
	}
	r := verifh.NewRand(verifh.Seed(), "c02")
	var sers [][]byte
	run := func(c verifh.Case) {
		c02Exec(tr, c)
	}
	// (a) bounded-exhaustive: piece lengths 1..P, every size 0..4*pl+1 (thorough 6*pl+1), every reader mode
	P := verifh.Scale(9, 17)
	mult := verifh.Scale(4, 6)
	modes := []string{"bytes", "stream", "short1", "short3"}
	for pl := int64(-1); pl <= int64(P); pl++ {
		top := int(pl)*mult + 1
		if pl <= 0 {
			top = 3
		}
		for size := 0; size <= top; size++ {
			data := r.Bytes(size)
			d := c02RandHex(r, size%5 == 4)
			for _, m := range modes {
				run(c02GenCase(pl, d, data, m))
				tr.Count("exhaustive_gen_"+m, 1)
			}
			if size%3 == 0 {
				run(c02GenCase(pl, d, data, fmt.Sprintf("fail%d", r.Intn(size+1))))
				tr.Count("exhaustive_gen_fail", 1)
			}
			dg, _ := c02Digest(d)
			if mi, err := NewMetaInfoFromBytes(dg, data, pl); err == nil && len(sers) < 400 {
				if s, err := mi.Serialize(); err == nil {
					sers = append(sers, s)
				}
			}
		}
	}
	// (b) random: sizes around multiples of larger piece lengths, extreme piece lengths, zero digest
	bigPLs := []int64{16, 31, 64, 100, 255, 256, 1000, 4096}
	for i := 0; i < verifh.Scale(250, 6000); i++ {
		pl := bigPLs[r.Intn(len(bigPLs))]
		size := int(pl)*r.Intn(4) + r.Intn(3) - 1
		if r.Chance(1, 4) {
			size = r.Intn(int(pl)*3 + 2)
		}
		if size < 0 {
			size = 0
		}
		data := r.Bytes(size)
		mode := r.Pick("bytes", "stream", "short1", fmt.Sprintf("short%d", 1+r.Intn(int(pl)+3)), "short32768")
		if r.Chance(1, 12) {
			mode = fmt.Sprintf("fail%d", r.Intn(size+1))
		}
		d := c02RandHex(r, r.Chance(1, 6))
		if r.Chance(1, 25) {
			d = ""
		}
		c := c02GenCase(pl, d, data, mode)
		if i < 2 {
			tr.Sample(fmt.Sprintf("gen pl=%d size=%d rd=%s", pl, size, mode))
		}
		run(c)
		tr.Count("random_gen_"+strings.TrimRight(mode, "0123456789"), 1)
	}
	for _, pl := range []int64{math.MaxInt64, math.MaxInt64 - 1, 1 << 62, 1 << 32, math.MinInt64, -5, 0} {
		for _, size := range []int{0, 1, 7} {
			for _, m := range modes {
				run(c02GenCase(pl, c02RandHex(r, false), r.Bytes(size), m))
				tr.Count("extreme_piece_length", 1)
			}
		}
	}
	// (c') every byte value at positions spread over a valid serialisation (keys, numbers, sums, name, braces)
	for k := 0; k < verifh.Scale(2, 6); k++ {
		s := sers[r.Intn(len(sers))]
		name := bytes.Index(s, []byte(`"Name":"`)) + 8
		for _, i := range []int{0, 1, 9, 24, 25, name - 10, name, name + 31, name + 63, name + 64, len(s) - 3, len(s) - 2, len(s) - 1} {
			if i < 0 || i >= len(s) {
				continue
			}
			for b := 0; b < 256; b++ {
				m := append([]byte(nil), s...)
				m[i] = byte(b)
				run(verifh.Case{Ops: [][]string{{"one", "deser", verifh.Hex(m)}}})
				tr.Count("deser_byte_subst", 1)
			}
		}
	}
	// (c) deserialisation: valid serialisations and their mutations
	for i := 0; i < verifh.Scale(1500, 60000); i++ {
		s := sers[r.Intn(len(sers))]
		if r.Chance(2, 3) {
			s = c02Mutate(r, s)
			tr.Count("deser_mutated", 1)
		} else {
			tr.Count("deser_valid", 1)
		}
		if i < 2 {
			tr.Sample("deser " + string(s))
		}
		run(verifh.Case{Ops: [][]string{{"one", "deser", verifh.Hex(s)}}})
	}
}
