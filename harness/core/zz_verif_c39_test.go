//go:build verif

package core_test

// C39 harness, machine "ids": digests, info hashes, peer ids, digest lists (public API of core).
// Record formats: /verif/lean/Driver/C39.lean.

import (
	"encoding/hex"
	"fmt"
	"strings"
	"testing"

	"github.com/uber/kraken/core"
	"github.com/uber/kraken/utils/verifh"
)

func c39DigestErr(err error) string {
	m := err.Error()
	switch {
	case strings.Contains(m, "invalid digest: empty"):
		return "empty"
	case strings.Contains(m, "expected '<algo>:<hex>'"):
		return "parts"
	case strings.Contains(m, "invalid digest algo"):
		return "algo"
	case strings.Contains(m, "expected 64 characters"):
		return "length"
	case strings.Contains(m, "hex:"):
		return "hex"
	}
	return "other"
}

func c39HexListTok(l core.DigestList) string {
	if l == nil {
		return "nil"
	}
	if len(l) == 0 {
		return "empty"
	}
	xs := make([]string, len(l))
	for i, d := range l {
		xs[i] = d.Hex()
	}
	return strings.Join(xs, ",")
}

func c39IdsOp(t *verifh.T, op []string) {
	if len(op) != 2 {
		return
	}
	switch op[0] {
	case "digest", "digesthex":
		s, err := verifh.Unstr(op[1])
		if err != nil {
			return
		}
		var d core.Digest
		var perr error
		if op[0] == "digest" {
			d, perr = core.ParseSHA256Digest(s)
		} else {
			d, perr = core.NewSHA256DigestFromHex(s)
		}
		if perr != nil {
			t.One(op, "err", c39DigestErr(perr))
			return
		}
		// printed form parses back to the same digest
		d2, err2 := core.ParseSHA256Digest(d.String())
		if err2 != nil || d2 != d || d.Algo() != core.SHA256 {
			t.PropFail("digest-print-parse", verifh.Str(d.String()))
		}
		if core.ValidateSHA256(d.Hex()) != nil {
			t.PropFail("digest-accepts-malformed", verifh.Str(d.Hex()))
		}
		t.One(op, "ok", "hex="+verifh.Str(d.Hex()), "str="+verifh.Str(d.String()))
	case "infohash":
		s, err := verifh.Unstr(op[1])
		if err != nil {
			return
		}
		h, perr := core.NewInfoHashFromHex(s)
		if perr != nil {
			if strings.Contains(perr.Error(), "expected 40 characters") {
				t.One(op, "err", "length")
			} else if strings.Contains(perr.Error(), "invalid hex") {
				t.One(op, "err", "hex")
			} else {
				t.One(op, "err", "invariant")
			}
			return
		}
		t.One(op, "ok", verifh.Hex(h.Bytes()), "hex="+verifh.Str(h.Hex()))
	case "peerid":
		s, err := verifh.Unstr(op[1])
		if err != nil {
			return
		}
		p, perr := core.NewPeerID(s)
		if perr != nil {
			if perr == core.ErrInvalidPeerIDLength {
				t.One(op, "err", "length")
			} else {
				t.One(op, "err", "hex")
			}
			return
		}
		t.One(op, "ok", verifh.Hex(p[:]), "str="+verifh.Str(p.String()))
	case "ihbytes":
		b, err := verifh.Unhex(op[1])
		if err != nil || len(b) != 20 {
			return
		}
		var h core.InfoHash
		copy(h[:], b)
		back, err := core.NewInfoHashFromHex(h.Hex())
		if err != nil || back != h || h.String() != h.Hex() {
			t.PropFail("ihbytes-print-parse", op[1])
		}
		t.One(op, verifh.Str(h.Hex()))
	case "pidbytes":
		b, err := verifh.Unhex(op[1])
		if err != nil || len(b) != 20 {
			return
		}
		var p core.PeerID
		copy(p[:], b)
		back, err := core.NewPeerID(p.String())
		if err != nil || back != p {
			t.PropFail("pidbytes-print-parse", op[1])
		}
		t.One(op, verifh.Str(p.String()))
	case "dlist":
		b, err := verifh.Unhex(op[1])
		if err != nil {
			return
		}
		var l core.DigestList
		if err := l.Scan(b); err != nil {
			t.One(op, "err")
			return
		}
		v, err := l.Value()
		if err != nil {
			t.One(op, "err")
			return
		}
		var l2 core.DigestList
		if err := l2.Scan(v); err != nil || c39HexListTok(l2) != c39HexListTok(l) {
			t.PropFail("digestlist-roundtrip", verifh.Hex(v.([]byte)))
		}
		t.One(op, "ok", c39HexListTok(l), "reser="+verifh.Hex(v.([]byte)))
	case "dlistval":
		var l core.DigestList
		switch op[1] {
		case "nil":
		case "empty":
			l = core.DigestList{}
		default:
			for _, h := range strings.Split(op[1], ",") {
				d, err := core.NewSHA256DigestFromHex(h)
				if err != nil {
					return
				}
				l = append(l, d)
			}
		}
		v, err := l.Value()
		if err != nil {
			t.One(op, "err")
			return
		}
		var l2 core.DigestList
		if err := l2.Scan(v); err != nil || c39HexListTok(l2) != c39HexListTok(l) {
			t.PropFail("digestlist-roundtrip", verifh.Hex(v.([]byte)))
		}
		t.One(op, verifh.Hex(v.([]byte)))
	}
}

func c39IdsExec(t *verifh.T, c verifh.Case) {
	for _, op := range c.Ops {
		if len(op) < 2 || op[0] != "one" {
			continue
		}
		o := op[1:]
		if p := verifh.Protect(func() { c39IdsOp(t, o) }); p != "" {
			t.One(o, "panic")
			t.PropFail("panic", verifh.Str(p))
		}
	}
}

func c39One(toks ...string) verifh.Case {
	return verifh.Case{Ops: [][]string{append([]string{"one"}, toks...)}}
}

func c39MixedHex(r *verifh.Rand, nbytes int) string {
	s := []byte(hex.EncodeToString(r.Bytes(nbytes)))
	mode := r.Intn(3)
	for i := range s {
		if mode == 1 || (mode == 2 && r.Chance(1, 2)) {
			if s[i] >= 'a' && s[i] <= 'f' {
				s[i] -= 32
			}
		}
	}
	return string(s)
}

// c39Neighbours: every single substitution / deletion / insertion over a small alphabet.
func c39Neighbours(s string, alpha string, f func(string)) {
	for i := 0; i <= len(s); i++ {
		for _, a := range []byte(alpha) {
			f(s[:i] + string(a) + s[i:])
			if i < len(s) {
				f(s[:i] + string(a) + s[i+1:])
			}
		}
		if i < len(s) {
			f(s[:i] + s[i+1:])
		}
	}
}

func c39RandStr(r *verifh.Rand) string {
	n := r.Intn(90)
	b := make([]byte, n)
	alpha := "0123456789abcdefABCDEFg:sh256 \"\\\x00\xff"
	for i := range b {
		b[i] = alpha[r.Intn(len(alpha))]
	}
	return string(b)
}

func TestVerif_C39_Ids(t *testing.T) {
	tr := verifh.Open("ids")
	defer tr.Close()
	cases, replayOnly := verifh.InputCases("ids")
	for _, c := range cases {
		c39IdsExec(tr, c)
		tr.Count("corpus_or_replay_cases", 1)
	}
	if replayOnly {
		return
	}
	r := verifh.NewRand(verifh.Seed(), "c39ids")
	run := func(toks ...string) { c39IdsExec(tr, c39One(toks...)) }
	alpha := "0fFgG: "
	if verifh.Thorough() {
		alpha = "09afAFgG:s \"\\\x00"
	}
	// (a) bounded-exhaustive neighbourhoods of valid strings
	for k := 0; k < verifh.Scale(1, 4); k++ {
		hx := c39MixedHex(r, 32)
		c39Neighbours("sha256:"+hx, alpha, func(s string) { run("digest", verifh.Str(s)); tr.Count("digest_neighbour", 1) })
		c39Neighbours(hx, alpha, func(s string) { run("digesthex", verifh.Str(s)); tr.Count("digesthex_neighbour", 1) })
		id := c39MixedHex(r, 20)
		c39Neighbours(id, alpha, func(s string) {
			run("infohash", verifh.Str(s))
			run("peerid", verifh.Str(s))
			tr.Count("id_neighbour", 1)
		})
	}
	// (a') exhaustive single-byte substitution: every byte value 0..255 at the first, second, middle and last
	// position of a valid input, for every parser (catches parsers that alias bytes onto hex digits)
	subst := func(s string, lo int, f func(string)) {
		pos := []int{lo, lo + 1, (lo + len(s)) / 2, len(s) - 2, len(s) - 1}
		for _, i := range pos {
			for b := 0; b < 256; b++ {
				f(s[:i] + string([]byte{byte(b)}) + s[i+1:])
			}
		}
	}
	for k := 0; k < verifh.Scale(1, 3); k++ {
		hx := c39MixedHex(r, 32)
		subst("sha256:"+hx, 7, func(s string) { run("digest", verifh.Str(s)); tr.Count("digest_byte_subst", 1) })
		subst("sha256:"+hx, 0, func(s string) { run("digest", verifh.Str(s)); tr.Count("digest_byte_subst", 1) })
		subst(hx, 0, func(s string) { run("digesthex", verifh.Str(s)); tr.Count("digesthex_byte_subst", 1) })
		id := c39MixedHex(r, 20)
		subst(id, 0, func(s string) {
			run("infohash", verifh.Str(s))
			run("peerid", verifh.Str(s))
			tr.Count("id_byte_subst", 2)
		})
		js := `["sha256:` + hx + `","sha256:` + c39MixedHex(r, 32) + `"]`
		subst(js, 9, func(s string) { run("dlist", verifh.Hex([]byte(s))); tr.Count("dlist_byte_subst", 1) })
	}
	// (a2) exact LENGTHS: every length 0..90 of a hexadecimal string into every parser (the valid ones are 40 and 64)
	for n := 0; n <= 90; n++ {
		hx := c39MixedHex(r, 64)[:n]
		run("digest", verifh.Str("sha256:"+hx))
		run("digesthex", verifh.Str(hx))
		run("infohash", verifh.Str(hx))
		run("peerid", verifh.Str(hx))
		run("dlist", verifh.Hex([]byte(`["sha256:`+hx+`"]`)))
		tr.Count("exact_lengths", 5)
	}
	// (b) random valid values and random malformed strings
	for i := 0; i < verifh.Scale(600, 60000); i++ {
		hx := c39MixedHex(r, 32)
		run("digest", verifh.Str("sha256:"+hx))
		run("digesthex", verifh.Str(hx))
		id := c39MixedHex(r, 20)
		run("infohash", verifh.Str(id))
		run("peerid", verifh.Str(id))
		run("ihbytes", verifh.Hex(r.Bytes(20)))
		run("pidbytes", verifh.Hex(r.Bytes(20)))
		tr.Count("random_valid", 6)
		s := c39RandStr(r)
		if r.Chance(1, 3) {
			s = r.Pick("sha256:", "sha256", "SHA256:", "sha512:", "md5:", ":", "", "sha256::", "sha256:sha256:") + c39MixedHex(r, []int{31, 32, 33}[r.Intn(3)])
		}
		run("digest", verifh.Str(s))
		run("digesthex", verifh.Str(s))
		run("infohash", verifh.Str(s))
		run("peerid", verifh.Str(s))
		odd := c39MixedHex(r, r.Intn(45))
		if r.Chance(1, 2) && len(odd) > 0 {
			odd = odd[:len(odd)-1]
		}
		run("infohash", verifh.Str(odd))
		run("peerid", verifh.Str(odd))
		tr.Count("random_malformed", 6)
		if i < 2 {
			tr.Sample("digest " + s)
		}
	}
	// (c) digest lists
	run("dlistval", "nil")
	run("dlistval", "empty")
	run("dlist", verifh.Hex([]byte("null")))
	run("dlist", verifh.Hex([]byte("[]")))
	for i := 0; i < verifh.Scale(300, 20000); i++ {
		n := 1 + r.Intn(4)
		var hs, quoted []string
		for j := 0; j < n; j++ {
			h := c39MixedHex(r, 32)
			hs = append(hs, h)
			quoted = append(quoted, `"sha256:`+h+`"`)
		}
		run("dlistval", strings.Join(hs, ","))
		js := "[" + strings.Join(quoted, ",") + "]"
		switch r.Intn(11) {
		case 0:
			js = strings.Replace(js, ",", " , ", 1)
		case 1:
			js = js[:r.Intn(len(js)+1)]
		case 2:
			js = strings.Replace(js, "sha256:", r.Pick("sha25:", "", "sha256::", "SHA256:"), 1)
		case 3:
			js = strings.Replace(js, `"sha256:`, `"sha256:0`, 1)
		case 4:
			js = "[" + r.Pick("1", "null", `"x"`, "{}", `""`) + "," + js[1:]
		case 5:
			js = " " + js + "\n"
		case 7: // whitespace / case variations inside the strings: not in the digest language
			js = strings.Replace(js, `"sha256:`, r.Pick(`" sha256:`, `"\tsha256:`, `"Sha256:`, `"sha256 :`, `"sha256: `), 1)
		case 8:
			js = strings.Replace(js, `"]`, r.Pick(` "]`, `\n"]`, `\u0020"]`), 1)
		case 6:
			js = strings.Replace(js, `sha256:`, `\u0073ha256:`, 1)
		}
		run("dlist", verifh.Hex([]byte(js)))
		tr.Count("digest_list", 2)
	}
	_ = fmt.Sprint
}
