#!/usr/bin/env python3
"""Plan recorder for the crash-point properties (C04, C05, C06).

usage: crash_strace.py <test binary> <TestName> [--cwd DIR]

Phase A: runs the compiled harness under strace (VERIF_CRASH_PHASE=A). The harness brackets every
         operation of interest with marker syscalls  stat("/VERIF_MARK/B/<case>/<op>") … stat("/VERIF_MARK/E/…")
         and keeps the tree of case <n> below $VERIF_CRASH_BASE/<n>/.  The trace is reduced to the
         *successful mutating* calls below that root between the markers: the operation's syscall plan.
Phase B: runs the harness again, untraced, with VERIF_CRASH_PLANS=<plans file>; it re-executes the same
         cases, materialises every crash prefix of every recorded plan, runs the real constructor on it
         and writes the transcript to $VERIF_OUT.

Plan tokens (paths relative to the case root):
  mkdir:<p> creat:<p> opencreat:<p> opentrunc:<p> pwrite:<p>:<off>:x<hex> trunc:<p>:<len>
  rename:<p>:<q> unlink:<p> rmdir:<p> link:<p>:<q>
"""
import os
import re
import shutil
import subprocess
import sys
import tempfile
import time

TRACE = "openat,open,creat,mkdir,mkdirat,write,pwrite64,lseek,ftruncate,truncate,rename,renameat,renameat2," \
        "unlink,unlinkat,rmdir,link,linkat,symlink,symlinkat,newfstatat,stat,lstat,statx," \
        "writev,pwritev,pwritev2,copy_file_range,sendfile,fallocate,splice"

# mutating calls the plan language has no token for: inside an operation, on a file of the case, they are an error
UNMODELLED = ("writev", "pwritev", "pwritev2", "copy_file_range", "sendfile", "fallocate", "splice")

LINE = re.compile(r"^(\d+)\s+(.*)$")
UNFINISHED = re.compile(r"^(.*) <unfinished \.\.\.>$")
RESUMED = re.compile(r"^<\.\.\. (\w+) resumed>(.*)$")
CALL = re.compile(r"^(\w+)\((.*)\)\s+=\s+(-?\d+|\?)(.*)$")


def unquote(s):
    """strace -xx string literal -> bytes"""
    out = bytearray()
    i = 0
    while i < len(s):
        if s[i] == "\\" and i + 3 < len(s) + 1 and s[i + 1] == "x":
            out.append(int(s[i + 2:i + 4], 16))
            i += 4
        elif s[i] == "\\":
            out.append({"n": 10, "t": 9, "r": 13, "\\": 92, '"': 34}.get(s[i + 1], ord(s[i + 1])))
            i += 2
        else:
            out.append(ord(s[i]))
            i += 1
    return bytes(out)


def split_args(a):
    """split a strace argument list at top-level commas"""
    out, cur, depth, q = [], [], 0, False
    i = 0
    while i < len(a):
        c = a[i]
        if q:
            cur.append(c)
            if c == "\\":
                cur.append(a[i + 1])
                i += 1
            elif c == '"':
                q = False
        elif c == '"':
            q = True
            cur.append(c)
        elif c in "([{<":
            depth += 1
            cur.append(c)
        elif c in ")]}>":
            depth -= 1
            cur.append(c)
        elif c == "," and depth == 0:
            out.append("".join(cur).strip())
            cur = []
        else:
            cur.append(c)
        i += 1
    if cur:
        out.append("".join(cur).strip())
    return out


def strlit(arg):
    m = re.match(r'^"(.*)"(\.\.\.)?$', arg, re.S)
    return unquote(m.group(1)).decode("latin-1") if m else None


def fdpath(arg):
    """`3</a/b>` -> /a/b ; AT_FDCWD</cwd> -> cwd"""
    m = re.match(r"^(?:\d+|AT_FDCWD)<(.*)>$", arg)
    return unquote(m.group(1)).decode("latin-1") if m else None


def resolve(dirfd, path):
    if path is None:
        return None
    if path.startswith("/"):
        return os.path.normpath(path)
    d = fdpath(dirfd) if dirfd is not None else None
    if d is None:
        return None
    d = re.sub(r" \(deleted\)$", "", d)
    return os.path.normpath(os.path.join(d, path))


def parse(trace_path, base):
    base = os.path.realpath(base)
    plans = {}            # (case, op) -> [tokens]
    cur = None            # (case, op) being recorded
    pending = {}          # pid -> unfinished prefix
    offsets = {}          # fd number -> write offset (single traced process image: fds are shared by all threads)
    problems = []

    def rel(case, p):
        root = os.path.join(base, str(case)) + "/"
        if p is None or not (p + "/").startswith(root):
            return None
        return p[len(root):]

    with open(trace_path, errors="replace") as f:
        for raw in f:
            m = LINE.match(raw.rstrip("\n"))
            if not m:
                continue
            pid, body = m.group(1), m.group(2)
            u = UNFINISHED.match(body)
            if u:
                pending[pid] = u.group(1)
                continue
            r = RESUMED.match(body)
            if r:
                body = pending.pop(pid, r.group(1) + "(") + r.group(2)
            c = CALL.match(body)
            if not c:
                continue
            name, args, ret = c.group(1), split_args(c.group(2)), c.group(3)
            if ret == "?":
                continue
            ret = int(ret)
            # ---- markers
            if name in ("newfstatat", "stat", "lstat", "statx"):
                p = None
                for a in args[:2]:
                    s = strlit(a)
                    if s and s.startswith("/VERIF_MARK/"):
                        p = s
                if p:
                    _, _, kind, case, op = p.split("/")
                    if kind == "B":
                        cur = (int(case), int(op))
                        plans[cur] = []
                    elif kind == "E":
                        cur = None
                continue
            if ret < 0:
                continue
            # ---- fd offsets are tracked everywhere (a file may be opened outside the markers)
            if name in ("openat", "open", "creat"):
                if name == "openat":
                    path, flags = resolve(args[0], strlit(args[1])), args[2]
                elif name == "open":
                    path, flags = resolve(None, strlit(args[0])), args[1]
                else:
                    path, flags = resolve(None, strlit(args[0])), "O_CREAT|O_WRONLY|O_TRUNC"
                offsets[ret] = 0
                if cur is None:
                    continue
                rp = rel(cur[0], path)
                if rp is None:
                    continue
                fl = set(flags.split("|"))
                if "O_CREAT" in fl and "O_EXCL" in fl:
                    plans[cur].append("creat:" + rp)
                elif "O_CREAT" in fl and "O_TRUNC" in fl:
                    plans[cur].append("opentrunc:" + rp)
                elif "O_TRUNC" in fl:
                    plans[cur].append("opentrunc:" + rp)
                elif "O_CREAT" in fl:
                    plans[cur].append("opencreat:" + rp)
                continue
            if name == "lseek":
                m2 = re.match(r"^(\d+)", args[0])
                if m2:
                    offsets[int(m2.group(1))] = ret
                continue
            if name in ("write", "pwrite64"):
                m2 = re.match(r"^(\d+)(?:<(.*)>)?$", args[0])
                if not m2:
                    continue
                fd = int(m2.group(1))
                if name == "write":
                    off = offsets.get(fd, 0)
                    offsets[fd] = off + ret
                else:
                    off = int(args[3])
                if cur is None or m2.group(2) is None:
                    continue
                rp = rel(cur[0], re.sub(r" \(deleted\)$", "", unquote(m2.group(2)).decode("latin-1")))
                if rp is None:
                    continue
                data = unquote(re.match(r'^"(.*)"(\.\.\.)?$', args[1], re.S).group(1))[:ret]
                if len(data) != ret:
                    problems.append("truncated write payload in trace: %s" % body[:120])
                if ret > 0:
                    plans[cur].append("pwrite:%s:%d:x%s" % (rp, off, data.hex()))
                continue
            if cur is None:
                continue
            case = cur[0]
            tok = None
            if name in UNMODELLED:
                root = os.path.join(base, str(case)) + "/"
                def under(a):
                    m3 = re.search(r"<(.*)>", a)
                    return bool(m3) and unquote(m3.group(1)).decode("latin-1").startswith(root)
                if any(under(a) for a in args):
                    problems.append("unmodelled mutating call inside an operation: %s" % body[:160])
                continue
            if name in ("mkdir", "mkdirat"):
                p = resolve(args[0], strlit(args[1])) if name == "mkdirat" else resolve(None, strlit(args[0]))
                rp = rel(case, p)
                tok = rp and "mkdir:" + rp
            elif name == "ftruncate":
                rp = rel(case, fdpath(args[0]))
                tok = rp and "trunc:%s:%d" % (rp, int(args[1]))
            elif name == "truncate":
                rp = rel(case, resolve(None, strlit(args[0])))
                tok = rp and "trunc:%s:%d" % (rp, int(args[1]))
            elif name in ("rename", "renameat", "renameat2", "link", "linkat"):
                if name in ("rename", "link"):
                    a, b = resolve(None, strlit(args[0])), resolve(None, strlit(args[1]))
                else:
                    a, b = resolve(args[0], strlit(args[1])), resolve(args[2], strlit(args[3]))
                ra, rb = rel(case, a), rel(case, b)
                if ra is not None or rb is not None:
                    if ra is None or rb is None:
                        problems.append("rename/link across the case root: %s" % body[:160])
                    else:
                        tok = ("rename:" if name.startswith("rename") else "link:") + ra + ":" + rb
            elif name in ("unlink", "rmdir"):
                rp = rel(case, resolve(None, strlit(args[0])))
                tok = rp and ("unlink:" if name == "unlink" else "rmdir:") + rp
            elif name == "unlinkat":
                rp = rel(case, resolve(args[0], strlit(args[1])))
                tok = rp and ("rmdir:" if "AT_REMOVEDIR" in args[2] else "unlink:") + rp
            elif name in ("symlink", "symlinkat"):
                problems.append("symlink call inside an operation: %s" % body[:160])
            if tok:
                plans[cur].append(tok)
    return plans, problems


def main():
    if len(sys.argv) < 3:
        print(__doc__)
        return 2
    binp, test = sys.argv[1], sys.argv[2]
    cwd = None
    if "--cwd" in sys.argv:
        cwd = sys.argv[sys.argv.index("--cwd") + 1]
    out = os.environ.get("VERIF_OUT")
    if not out:
        print("VERIF_OUT not set")
        return 2
    # scratch trees on tmpfs when available: thousands of tiny trees are created, copied and removed
    shm = "/dev/shm" if os.path.isdir("/dev/shm") and os.access("/dev/shm", os.W_OK) else None
    work = tempfile.mkdtemp(prefix="verif-crash-", dir=os.environ.get("VERIF_CRASH_TMP") or shm)
    try:
        base = os.path.join(work, "base")
        os.makedirs(base)
        trace = os.path.join(work, "trace.txt")
        env = dict(os.environ)
        marks = os.path.join(work, "marks")
        env.update(VERIF_CRASH_PHASE="A", VERIF_CRASH_BASE=base, VERIF_OUT=os.path.join(work, "phaseA.transcript"),
                   VERIF_CRASH_MARKS_FILE=marks)
        env.pop("VERIF_STATS", None)
        cmd = ["strace", "-f", "-y", "-xx", "-s", "1000000", "-e", "trace=" + TRACE, "-e", "signal=none",
               "-o", trace, binp, "-test.run", "^%s$" % test, "-test.count=1", "-test.timeout", "3000s"]
        t0 = time.time()
        p = subprocess.run(cmd, env=env, cwd=cwd, stdout=subprocess.PIPE, stderr=subprocess.STDOUT, text=True,
                           errors="replace")
        tA = time.time() - t0
        if p.returncode != 0:
            print("phase A (strace) failed rc=%d\n%s" % (p.returncode, p.stdout[-3000:]))
            # unblock the reader of the fifo with an incomplete transcript
            open(out, "w").close()
            return 1
        t0 = time.time()
        plans, problems = parse(trace, base)
        tP = time.time() - t0
        wanted = os.path.getsize(marks) if os.path.exists(marks) else 0
        if wanted != len(plans):
            # markers not seen in the trace (strace output or marker call changed): phase B would explore nothing
            print("recorder problem: the harness bracketed %d operations, the trace shows %d" % (wanted, len(plans)))
            open(out, "w").close()
            return 1
        plans_path = os.path.join(work, "plans.txt")
        with open(plans_path, "w") as f:
            for (c, o), toks in sorted(plans.items()):
                f.write("%d %d %s\n" % (c, o, " ".join(toks)))
        if os.environ.get("VERIF_CRASH_KEEP"):
            shutil.copy(plans_path, os.environ["VERIF_CRASH_KEEP"] + ".plans")
            shutil.copy(trace, os.environ["VERIF_CRASH_KEEP"] + ".trace")
        for pr in problems[:20]:
            print("recorder problem:", pr)
        shutil.rmtree(base, ignore_errors=True)
        os.makedirs(base)
        env = dict(os.environ)
        env.update(VERIF_CRASH_PHASE="B", VERIF_CRASH_BASE=base, VERIF_CRASH_PLANS=plans_path)
        cmd = [binp, "-test.run", "^%s$" % test, "-test.count=1", "-test.timeout", "3000s"]
        t0 = time.time()
        p = subprocess.run(cmd, env=env, cwd=cwd, stdout=subprocess.PIPE, stderr=subprocess.STDOUT, text=True,
                           errors="replace")
        print(p.stdout[-3000:])
        print("recorded plans: %d operations, %d calls; strace run %.1fs, trace parse %.1fs (%d KB), replay run %.1fs" % (
            len(plans), sum(len(v) for v in plans.values()), tA, tP, os.path.getsize(trace) >> 10, time.time() - t0))
        if problems:
            return 1
        return p.returncode
    finally:
        shutil.rmtree(work, ignore_errors=True)


if __name__ == "__main__":
    sys.exit(main())
