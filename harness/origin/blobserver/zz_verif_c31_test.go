//go:build verif

package blobserver_test

// C31 harness: a real origin blob server (blobserver.New + its HTTP handler) on a real CAStore, with
// the real write-back executor and the real retry manager on an on-disk SQLite table, two
// namespaces with separate fault-injecting in-memory backends.  Uploads, duplicate uploads, forced
// cleanups, blob deletions, backend outages, poll passes, executions and restarts are driven one
// at a time; the manager handed to the server is wrapped so that a commit can be parked right
// before Manager.Add and a forced cleanup right after Manager.Find (the interleavings the property
// quantifies over), and worker executions wait for the harness.  After every op the cache files
// with their persist flags, the backends and the task table are dumped.

import (
	"bytes"
	"context"
	"encoding/json"
	"errors"
	"fmt"
	"io"
	"net/http"
	"os"
	"path/filepath"
	"sort"
	"strconv"
	"strings"
	"sync"
	"testing"
	"time"

	"github.com/andres-erbsen/clock"
	"github.com/jmoiron/sqlx"
	"github.com/uber-go/tally"
	"go.uber.org/zap"

	"github.com/uber/kraken/core"
	"github.com/uber/kraken/lib/backend"
	"github.com/uber/kraken/lib/backend/backenderrors"
	"github.com/uber/kraken/lib/blobrefresh"
	"github.com/uber/kraken/lib/hashring"
	"github.com/uber/kraken/lib/healthcheck"
	"github.com/uber/kraken/lib/hostlist"
	"github.com/uber/kraken/lib/metainfogen"
	"github.com/uber/kraken/lib/persistedretry"
	"github.com/uber/kraken/lib/persistedretry/writeback"
	"github.com/uber/kraken/lib/store"
	"github.com/uber/kraken/lib/store/metadata"
	"github.com/uber/kraken/localdb"
	"github.com/uber/kraken/origin/blobclient"
	"github.com/uber/kraken/origin/blobserver"
	"github.com/uber/kraken/utils/httputil"
	"github.com/uber/kraken/utils/log"
	"github.com/uber/kraken/utils/testutil"
	"github.com/uber/kraken/utils/verifh"
	"github.com/uber/kraken/utils/verifretry"
)

const (
	c31Blobs = 3
	c31NS    = 2
	c31Host  = "origin1:80"
)

type c31Blob struct {
	content []byte
	digest  core.Digest
}

var c31BlobTab = func() []c31Blob {
	var out []c31Blob
	for i := 0; i < c31Blobs; i++ {
		content := []byte(fmt.Sprintf("verif-c31-blob-%d-%s", i, strings.Repeat("x", 10+i)))
		d, err := core.NewDigester().FromBytes(content)
		if err != nil {
			panic(err)
		}
		out = append(out, c31Blob{content, d})
	}
	return out
}()

func c31BlobIdx(hex string) int {
	for i, b := range c31BlobTab {
		if b.digest.Hex() == hex {
			return i
		}
	}
	return 99
}

func c31NSIdx(ns string) int {
	i, err := strconv.Atoi(strings.TrimPrefix(ns, "ns"))
	if err != nil {
		return 99
	}
	return i
}

func c31Key(ns string, hex string) string { return "k" + strconv.Itoa(2*c31BlobIdx(hex)+c31NSIdx(ns)) }

func c31ParseKey(tok string) (b, ns int, ok bool) {
	if !strings.HasPrefix(tok, "k") {
		return 0, 0, false
	}
	n, err := strconv.Atoi(tok[1:])
	if err != nil || n < 0 || n >= 2*c31Blobs {
		return 0, 0, false
	}
	return n / 2, n % 2, true
}

func c31ParseBlob(tok string) (int, bool) {
	if !strings.HasPrefix(tok, "b") {
		return 0, false
	}
	n, err := strconv.Atoi(tok[1:])
	if err != nil || n < 0 || n >= c31Blobs {
		return 0, false
	}
	return n, true
}

func c31TaskKey(t persistedretry.Task) string {
	if x, ok := t.(*writeback.Task); ok {
		return c31Key(x.Namespace, x.Name)
	}
	return "k?"
}

func c31QueryKey(q interface{}) string {
	// writeback.NameQuery has one unexported string field: the blob name
	s := fmt.Sprint(q)
	s = strings.Trim(s, "&{}")
	return "b" + strconv.Itoa(c31BlobIdx(s))
}

// ---------------------------------------------------------------- fault-injecting backend

type c31Backend struct {
	mu    sync.Mutex
	down  bool
	blobs map[string][]byte
}

func (b *c31Backend) Stat(namespace, name string) (*core.BlobInfo, error) {
	b.mu.Lock()
	defer b.mu.Unlock()
	if b.down {
		return nil, errors.New("backend unreachable")
	}
	c, ok := b.blobs[name]
	if !ok {
		return nil, backenderrors.ErrBlobNotFound
	}
	return core.NewBlobInfo(int64(len(c))), nil
}

func (b *c31Backend) Upload(namespace, name string, src io.Reader) error {
	c, err := io.ReadAll(src)
	if err != nil {
		return err
	}
	b.mu.Lock()
	defer b.mu.Unlock()
	if b.down {
		return errors.New("backend unreachable")
	}
	b.blobs[name] = c
	return nil
}

func (b *c31Backend) Download(namespace, name string, dst io.Writer) error {
	b.mu.Lock()
	defer b.mu.Unlock()
	if b.down {
		return errors.New("backend unreachable")
	}
	c, ok := b.blobs[name]
	if !ok {
		return backenderrors.ErrBlobNotFound
	}
	_, err := dst.Write(c)
	return err
}

func (b *c31Backend) List(prefix string, opts ...backend.ListOption) (*backend.ListResult, error) {
	return nil, errors.New("not supported")
}

func (b *c31Backend) Close() error { return nil }

type c31NoCluster struct{}

func (c31NoCluster) Provide(dns string) (blobclient.ClusterClient, error) {
	return nil, errors.New("no remote clusters")
}

type c31NoClients struct{}

func (c31NoClients) Provide(host string) blobclient.Client { return blobclient.New(host) }

// ---------------------------------------------------------------- one case

// an upload made request by request, so that another commit of the same blob can land between them
type c31Manual struct {
	uid     string
	patched bool
}

type c31Async struct {
	done chan string // result of the request
	gate *verifretry.Gate
}

type c31Sess struct {
	tr       *verifh.T
	dir      string
	backends [c31NS]*c31Backend
	hdb      *sqlx.DB

	cas    *store.CAStore
	db     *sqlx.DB
	rec    *verifretry.RecStore
	gex    *verifretry.GateExec
	inner  persistedretry.Manager
	gm     *verifretry.GateManager
	stop   func()
	addr   string
	client *blobclient.HTTPClient

	cluster blobclient.ClusterProvider // remote clusters (nil: none)

	uploads map[string]*c31Async // paused uploads by key
	manual  map[string]*c31Manual // uploads driven request by request (start / patch / commit)
	fc      *c31Async            // paused forced cleanup
	started map[string]bool      // executions waiting at the gate
	expect  int                  // starts the harness still has to see
	broken  bool
}

func (s *c31Sess) fail(key string, detail ...string) {
	s.tr.PropFail(key, detail...)
	s.broken = true
}

func (s *c31Sess) open() error {
	cas, err := store.NewCAStore(store.CAStoreConfig{
		UploadDir:     filepath.Join(s.dir, "upload"),
		CacheDir:      filepath.Join(s.dir, "cache"),
		UploadCleanup: store.CleanupConfig{Disabled: true},
		CacheCleanup:  store.CleanupConfig{Disabled: true},
	}, tally.NoopScope)
	if err != nil {
		return err
	}
	bm := backend.ManagerFixture()
	for i := 0; i < c31NS; i++ {
		if err := bm.Register(fmt.Sprintf("ns%d", i), s.backends[i], false); err != nil {
			return err
		}
	}
	db, err := localdb.New(localdb.Config{Source: filepath.Join(s.dir, "retry.db")})
	if err != nil {
		return err
	}
	s.rec = verifretry.NewRecStore(writeback.NewStore(db), c31TaskKey)
	s.gex = verifretry.NewGateExec(writeback.NewExecutor(tally.NoopScope, cas, bm), c31TaskKey)
	inner, err := persistedretry.NewManager(persistedretry.Config{
		IncomingBuffer: 16, RetryBuffer: 16, NumIncomingWorkers: 8, NumRetryWorkers: 8,
		MaxTaskThroughput: time.Nanosecond, RetryInterval: time.Nanosecond, PollRetriesInterval: 24 * time.Hour,
		// SyncExec (forced cleanup) retries in place: keep its three attempts, not its waits
		SyncRetryBackoff: httputil.ExponentialBackOffConfig{Enabled: true, InitialInterval: time.Microsecond,
			MaxInterval: time.Microsecond, MaxRetries: 2},
		Testing: true,
	}, tally.NoopScope, s.rec, s.gex)
	if err != nil {
		return err
	}
	s.gm = verifretry.NewGateManager(inner, s.gex, c31TaskKey, c31QueryKey)
	mg := metainfogen.Fixture(cas, 4)
	br := blobrefresh.New(blobrefresh.Config{}, tally.NoopScope, cas, bm, mg)
	ring := hashring.New(hashring.Config{MaxReplica: 1}, hostlist.Fixture(c31Host), healthcheck.IdentityFilter{}, tally.NoopScope)
	clk := clock.NewMock()
	clk.Set(time.Now().Add(2 * time.Hour)) // every cache file is "expired" for a forced cleanup with ttl 0
	var cluster blobclient.ClusterProvider = c31NoCluster{}
	if s.cluster != nil {
		cluster = s.cluster
	}
	srv, err := blobserver.New(blobserver.Config{}, tally.NoopScope, clk, c31Host, ring, cas, c31NoClients{},
		cluster, core.PeerContextFixture(), bm, br, mg, s.gm)
	if err != nil {
		return err
	}
	s.addr, s.stop = testutil.StartServer(srv.Handler())
	s.client = blobclient.New(s.addr, blobclient.WithChunkSize(16))
	s.cas, s.db, s.inner = cas, db, inner
	s.uploads, s.fc, s.started, s.expect = map[string]*c31Async{}, nil, map[string]bool{}, 0
	s.manual = map[string]*c31Manual{}
	s.rec.Drain()
	return nil
}

func (s *c31Sess) kill() {
	if s.inner == nil {
		return
	}
	s.rec.Kill()
	s.gex.Kill()
	s.gm.Kill()
	for _, u := range s.uploads {
		u.gate.Release()
		select {
		case <-u.done:
		case <-time.After(verifretry.Timeout):
		}
	}
	if s.fc != nil {
		s.fc.gate.Release()
		select {
		case <-s.fc.done:
		case <-time.After(verifretry.Timeout):
		}
	}
	s.stop()
	done := make(chan struct{})
	go func() { s.inner.Close(); close(done) }()
	select {
	case <-done:
	case <-time.After(verifretry.Timeout):
		s.fail("stuck-close", "Close_did_not_return")
	}
	s.db.Close()
	s.cas.Close()
	s.inner = nil
}

func (s *c31Sess) dump() []string {
	var files []string
	names, err := s.cas.ListCacheFiles()
	if err != nil {
		files = append(files, "err")
	}
	for _, n := range names {
		var pm metadata.Persist
		flag := "0"
		if err := s.cas.GetCacheFileMetadata(n, &pm); err == nil && pm.Value {
			flag = "1"
		}
		files = append(files, fmt.Sprintf("b%d:%s", c31BlobIdx(n), flag))
	}
	var inb []string
	for i, b := range s.backends {
		b.mu.Lock()
		for n := range b.blobs {
			inb = append(inb, c31Key(fmt.Sprintf("ns%d", i), n))
		}
		b.mu.Unlock()
	}
	var tbl []string
	rows, err := s.hdb.Queryx("SELECT namespace, name, status, failures FROM writeback_task ORDER BY rowid")
	if err != nil {
		tbl = append(tbl, "err")
	} else {
		for rows.Next() {
			var ns, name, status string
			var failures int
			if rows.Scan(&ns, &name, &status, &failures) == nil {
				tbl = append(tbl, fmt.Sprintf("%s:%s:%d", c31Key(ns, name), status[:1], failures))
			}
		}
		rows.Close()
	}
	var st []string
	for k := range s.started {
		st = append(st, k)
	}
	return []string{"c=" + verifh.SortedList(files), "b=" + verifh.SortedList(inb), "t=" + verifh.List(tbl), "x=" + verifh.SortedList(st)}
}

// settle waits for every execution the harness knows must start.
func (s *c31Sess) settle() {
	for s.expect > 0 {
		select {
		case k := <-s.gex.Starts:
			s.started[k] = true
			s.expect--
		case <-time.After(verifretry.Timeout):
			s.fail("stuck-not-started", "an_enqueued_write-back_task_was_not_picked_up")
			s.expect = 0
			return
		}
	}
	for {
		select {
		case k := <-s.gex.Starts:
			s.started[k] = true
		default:
			return
		}
	}
}

// noteAdds turns the store calls of finished Add / poll calls into expected starts.
func (s *c31Sess) noteAdds() {
	evs := s.rec.Drain()
	for i, e := range evs {
		if (e.Meth == "AddPending" || e.Meth == "MarkPending") && e.Err == "" {
			over := false
			for _, f := range evs[i+1:] {
				if f.Meth == "MarkFailed" && f.Key == e.Key {
					over = true
				}
			}
			if !over {
				s.expect++
			}
		}
	}
}

func (s *c31Sess) startUpload(b, ns int, dup bool) chan string {
	done := make(chan string, 1)
	cl := s.client
	blob := c31BlobTab[b]
	go func() {
		var err error
		if dup {
			err = cl.DuplicateUploadBlob(fmt.Sprintf("ns%d", ns), blob.digest, bytes.NewReader(blob.content), uint64(len(blob.content)), time.Hour)
		} else {
			err = cl.UploadBlob(context.Background(), fmt.Sprintf("ns%d", ns), blob.digest, bytes.NewReader(blob.content), uint64(len(blob.content)))
		}
		if err != nil {
			done <- "err"
		} else {
			done <- "ack"
		}
	}()
	return done
}

func (s *c31Sess) startForceCleanup() chan string {
	done := make(chan string, 1)
	addr := s.addr
	go func() {
		resp, err := http.Post(fmt.Sprintf("http://%s/forcecleanup?ttl_hr=0", addr), "", nil)
		if err != nil {
			done <- "err"
			return
		}
		defer resp.Body.Close()
		var out struct {
			Deleted []string `json:"deleted"`
			Errors  []string `json:"errors"`
		}
		if resp.StatusCode != 200 || json.NewDecoder(resp.Body).Decode(&out) != nil {
			done <- "err"
			return
		}
		var del []string
		for _, n := range out.Deleted {
			del = append(del, "b"+strconv.Itoa(c31BlobIdx(n)))
		}
		done <- fmt.Sprintf("done deleted=%s errors=%d", verifh.SortedList(del), len(out.Errors))
	}()
	return done
}

func (s *c31Sess) wait(ch chan string) string {
	select {
	case r := <-ch:
		return r
	case <-time.After(verifretry.Timeout):
		s.fail("stuck-request", "request_did_not_return")
		return "err"
	}
}

func (s *c31Sess) do(op []string) []string {
	switch {
	case (op[1] == "upload" || op[1] == "uploadb") && len(op) == 3:
		b, ns, ok := c31ParseKey(op[2])
		if !ok {
			return nil
		}
		if _, busy := s.uploads[op[2]]; busy {
			return []string{"busy"}
		}
		var g *verifretry.Gate
		if op[1] == "uploadb" {
			g = s.gm.ArmAdd(op[2])
		}
		done := s.startUpload(b, ns, false)
		if g == nil {
			r := s.wait(done)
			s.noteAdds()
			s.settle()
			return []string{r}
		}
		select {
		case <-g.Hit:
			s.uploads[op[2]] = &c31Async{done, g}
			return []string{"paused"}
		case r := <-done:
			s.gm.Disarm()
			s.noteAdds()
			s.settle()
			return []string{r}
		case <-time.After(verifretry.Timeout):
			s.fail("stuck-request", "upload_did_not_return")
			return []string{"err"}
		}
	case op[1] == "uploade" && len(op) == 3:
		if _, _, ok := c31ParseKey(op[2]); !ok {
			return nil
		}
		u := s.uploads[op[2]]
		if u == nil {
			return []string{"none"}
		}
		delete(s.uploads, op[2])
		u.gate.Release()
		r := s.wait(u.done)
		s.noteAdds()
		s.settle()
		return []string{r}
	case op[1] == "fc" && len(op) == 2:
		if s.fc != nil {
			return []string{"busy"}
		}
		r := s.wait(s.startForceCleanup())
		return strings.Fields(r)
	case op[1] == "fcb" && len(op) == 3:
		b, ok := c31ParseBlob(op[2])
		if !ok {
			return nil
		}
		if s.fc != nil {
			return []string{"busy"}
		}
		g := s.gm.ArmFind("b" + strconv.Itoa(b))
		done := s.startForceCleanup()
		select {
		case <-g.Hit:
			s.fc = &c31Async{done, g}
			return []string{"paused"}
		case r := <-done:
			s.gm.Disarm()
			return strings.Fields(r)
		case <-time.After(verifretry.Timeout):
			s.fail("stuck-request", "forced_cleanup_did_not_return")
			return []string{"err"}
		}
	case op[1] == "fcf" && len(op) == 2:
		if s.fc == nil {
			return []string{"none"}
		}
		f := s.fc
		s.fc = nil
		f.gate.Release()
		return strings.Fields(s.wait(f.done))
	case (op[1] == "ubegin" || op[1] == "upatch" || op[1] == "ucommit" || op[1] == "dcommit") && len(op) == 3:
		b, ns, ok := c31ParseKey(op[2])
		if !ok {
			return nil
		}
		blob := c31BlobTab[b]
		base := fmt.Sprintf("http://%s/namespace/ns%d/blobs/%s/uploads", s.addr, ns, blob.digest)
		// 200 -> ok, 409 -> conflict (clients treat it as success), anything else -> err
		class := func(err error) string {
			if err == nil {
				return "ok"
			}
			if httputil.IsConflict(err) {
				return "conflict"
			}
			return "err"
		}
		m := s.manual[op[2]]
		var res string
		switch op[1] {
		case "ubegin":
			if m != nil {
				return []string{"busy"}
			}
			if _, busy := s.uploads[op[2]]; busy {
				return []string{"busy"}
			}
			r, err := httputil.Post(fmt.Sprintf("%s?size=%d", base, len(blob.content)))
			res = class(err)
			if err == nil {
				s.manual[op[2]] = &c31Manual{uid: r.Header.Get("Location")}
				res = "started"
			}
		case "upatch":
			if m == nil {
				return []string{"none"}
			}
			_, err := httputil.Patch(base+"/"+m.uid, httputil.SendBody(bytes.NewReader(blob.content)),
				httputil.SendHeaders(map[string]string{"Content-Range": fmt.Sprintf("0-%d", len(blob.content))}))
			res = class(err)
			if err == nil {
				m.patched = true
				res = "patched"
			} else {
				delete(s.manual, op[2])
			}
		case "ucommit":
			if m == nil || !m.patched {
				return []string{"none"}
			}
			delete(s.manual, op[2])
			_, err := httputil.Put(base+"/"+m.uid, httputil.SendTimeout(time.Minute))
			res = class(err)
		case "dcommit":
			// the commit a neighbouring origin sends when it duplicates an upload (write-back delayed)
			if m == nil || !m.patched {
				return []string{"none"}
			}
			delete(s.manual, op[2])
			body, _ := json.Marshal(blobclient.DuplicateCommitUploadRequest{Delay: time.Hour})
			_, err := httputil.Put(fmt.Sprintf("http://%s/internal/duplicate/namespace/ns%d/blobs/%s/uploads/%s", s.addr, ns, blob.digest, m.uid),
				httputil.SendBody(bytes.NewReader(body)), httputil.SendTimeout(time.Minute))
			res = class(err)
		}
		s.noteAdds()
		s.settle()
		return []string{res}
	case op[1] == "fetch" && len(op) == 3:
		// the blob reaches this origin's cache without an upload commit: internal transfer from
		// another origin (the same happens on a download from the backend) — no flag, no task
		b, ok := c31ParseBlob(op[2])
		if !ok {
			return nil
		}
		blob := c31BlobTab[b]
		if err := s.client.TransferBlob(blob.digest, bytes.NewReader(blob.content), uint64(len(blob.content))); err != nil {
			return []string{"err"}
		}
		return []string{"ok"}
	case op[1] == "del" && len(op) == 3:
		b, ok := c31ParseBlob(op[2])
		if !ok {
			return nil
		}
		if err := s.client.DeleteBlob(c31BlobTab[b].digest); err != nil {
			return []string{"err"}
		}
		return []string{"ok"}
	case op[1] == "poll" && len(op) == 2:
		// time passes: delayed (duplicate) write-back tasks become ready
		if _, err := s.hdb.Exec("UPDATE writeback_task SET created_at = datetime(created_at, '-2 hours')"); err != nil {
			return []string{"err"}
		}
		persistedretry.VerifPollOnce(s.inner)
		s.noteAdds()
		s.settle()
		return []string{"ok"}
	case op[1] == "exec" && len(op) == 3:
		if _, _, ok := c31ParseKey(op[2]); !ok {
			return nil
		}
		if !s.started[op[2]] {
			return []string{"none"}
		}
		delete(s.started, op[2])
		if !s.gex.Release(op[2]) {
			return []string{"none"}
		}
		res := ""
		deadline := time.After(verifretry.Timeout)
		for res == "" {
			select {
			case d := <-s.gex.Dones:
				if strings.HasPrefix(d, op[2]+":") {
					res = d[len(op[2])+1:]
				}
			case <-deadline:
				s.fail("stuck-exec", "executor_did_not_return")
				return []string{"err"}
			}
		}
		// the worker records the outcome
		for seen := false; !seen; {
			select {
			case e := <-s.rec.Evs:
				seen = e.Key == op[2] && (e.Meth == "Remove" || e.Meth == "MarkFailed")
			case <-deadline:
				s.fail("outcome-not-recorded", "execution_of_"+op[2]+"_returned_and_the_table_was_never_updated")
				return []string{"err"}
			}
		}
		s.settle()
		return []string{res}
	case (op[1] == "down" || op[1] == "upb") && len(op) == 3:
		ns := c31NSIdx(op[2])
		if ns < 0 || ns >= c31NS {
			return nil
		}
		s.backends[ns].mu.Lock()
		s.backends[ns].down = op[1] == "down"
		s.backends[ns].mu.Unlock()
		return []string{"ok"}
	case op[1] == "restart" && len(op) == 2:
		if s.fc != nil {
			// a parked forced cleanup cannot be killed: released in a "dead" process it would go on
			// deleting the remaining cache files.  A crash during a forced cleanup is not simulated
			// (the model's theorems cover it).
			return []string{"busy"}
		}
		s.kill()
		if err := s.open(); err != nil {
			s.fail("start-failed", verifh.Str(err.Error()))
			return []string{"err"}
		}
		return []string{"ok"}
	}
	return nil
}

func (s *c31Sess) step(op []string) {
	if s.broken || len(op) < 2 || op[0] != "op" {
		return
	}
	var obs []string
	if p := verifh.Protect(func() { obs = s.do(op) }); p != "" {
		s.fail("panic", verifh.Str(p))
		return
	}
	if obs == nil {
		return
	}
	s.tr.Op(op[1:], append(obs, s.dump()...)...)
}

// complete: a fair, fault-free continuation — every parked request finishes, backends are
// reachable, executions and poll passes alternate until the task table is empty.
func (s *c31Sess) complete() {
	if s.broken {
		return
	}
	var ks []string
	for k := range s.uploads {
		ks = append(ks, k)
	}
	sort.Strings(ks)
	for _, k := range ks {
		s.step([]string{"op", "uploade", k})
	}
	if s.fc != nil {
		s.step([]string{"op", "fcf"})
	}
	for i := 0; i < c31NS; i++ {
		s.step([]string{"op", "upb", fmt.Sprintf("ns%d", i)})
	}
	for round := 0; round < 6 && !s.broken; round++ {
		var run []string
		for k := range s.started {
			run = append(run, k)
		}
		sort.Strings(run)
		for _, k := range run {
			s.step([]string{"op", "exec", k})
		}
		var n int
		if err := s.hdb.Get(&n, "SELECT COUNT(*) FROM writeback_task"); err == nil && n == 0 {
			break
		}
		if round == 5 {
			s.fail("never-completed", "write-back_tasks_were_not_executed_to_success_under_a_fair_schedule")
			return
		}
		s.step([]string{"op", "poll"})
	}
	if !s.broken {
		s.tr.Op([]string{"final"}, s.dump()...)
	}
}

var c31Broken int

func c31Run(base string, tr *verifh.T, c verifh.Case) {
	if c31Broken >= 3 {
		return
	}
	dir, err := os.MkdirTemp(base, "case-")
	if err != nil {
		panic(err)
	}
	defer os.RemoveAll(dir)
	s := &c31Sess{tr: tr, dir: dir}
	if os.Getenv("VERIF_C31_TIMING") != "" {
		t0 := time.Now()
		defer func() {
			if d := time.Since(t0); d > 100*time.Millisecond {
				fmt.Fprintln(os.Stderr, "SLOW", d, c.Ops)
			}
		}()
	}
	for i := range s.backends {
		s.backends[i] = &c31Backend{blobs: map[string][]byte{}}
	}
	// the order in which forceCleanup visits the cache files: directory order of the hex names
	idx := []int{0, 1, 2}
	sort.Slice(idx, func(i, j int) bool { return c31BlobTab[idx[i]].digest.Hex() < c31BlobTab[idx[j]].digest.Hex() })
	var order []string
	for _, i := range idx {
		order = append(order, "b"+strconv.Itoa(i))
	}
	tr.Cfg("order=" + verifh.List(order))
	defer tr.End()
	if err := s.open(); err != nil {
		s.fail("start-failed", verifh.Str(err.Error()))
		return
	}
	s.hdb, err = sqlx.Open("sqlite3", filepath.Join(dir, "retry.db"))
	if err != nil {
		panic(err)
	}
	s.hdb.SetMaxOpenConns(1)
	defer s.hdb.Close()
	for _, op := range c.Ops {
		s.step(op)
	}
	s.complete()
	s.kill()
	if s.broken {
		c31Broken++
	}
}

// ---------------------------------------------------------------- generators

func c31Alphabet(keys []string, blobs []string) [][]string {
	ops := [][]string{{"op", "fc"}, {"op", "fcf"}, {"op", "poll"}, {"op", "restart"}, {"op", "down", "ns0"}, {"op", "upb", "ns0"}}
	for _, k := range keys {
		ops = append(ops, []string{"op", "upload", k}, []string{"op", "uploadb", k}, []string{"op", "uploade", k}, []string{"op", "exec", k})
	}
	if len(keys) > 1 {
		// request-by-request uploads: conflicts at the patch and commit sites, duplicate commits
		for _, k := range keys {
			ops = append(ops, []string{"op", "ubegin", k}, []string{"op", "upatch", k}, []string{"op", "ucommit", k}, []string{"op", "dcommit", k})
		}
	}
	for _, b := range blobs {
		ops = append(ops, []string{"op", "fcb", b}, []string{"op", "del", b}, []string{"op", "fetch", b})
	}
	return ops
}

func TestVerif_C31(t *testing.T) {
	log.SetGlobalLogger(zap.NewNop().Sugar())
	tr := verifh.Open("originwb")
	defer tr.Close()
	base := os.TempDir()
	if st, err := os.Stat("/dev/shm"); err == nil && st.IsDir() {
		base = "/dev/shm"
	}
	base, err := os.MkdirTemp(base, "verif-c31-")
	if err != nil {
		t.Fatal(err)
	}
	defer os.RemoveAll(base)

	cases, replayOnly := verifh.InputCases("originwb")
	for _, c := range cases {
		c31Run(base, tr, c)
		tr.Count("corpus_or_replay_cases", 1)
	}
	if replayOnly {
		return
	}
	// (a) bounded-exhaustive over one blob in one namespace (13 ops) …
	alpha := c31Alphabet([]string{"k0"}, []string{"b0"})
	var rec func(prefix [][]string, d int)
	rec = func(prefix [][]string, d int) {
		if d == 0 {
			c31Run(base, tr, verifh.Case{Ops: prefix})
			tr.Count("exhaustive_cases", 1)
			return
		}
		for _, o := range alpha {
			rec(append(prefix[:len(prefix):len(prefix)], o), d-1)
		}
	}
	for d := 0; d <= verifh.Scale(2, 3); d++ {
		rec(nil, d)
	}
	// … and suffixes of depth 2 after an upload whose backend is down (task stored and failed)
	for _, a := range alpha {
		for _, b := range alpha {
			c31Run(base, tr, verifh.Case{Ops: [][]string{{"op", "down", "ns0"}, {"op", "upload", "k0"}, {"op", "exec", "k0"}, a, b}})
			tr.Count("prefixed_exhaustive_cases", 1)
		}
	}
	// … and after a commit parked before Manager.Add (flag set, no task yet)
	for _, a := range alpha {
		for _, b := range alpha {
			c31Run(base, tr, verifh.Case{Ops: [][]string{{"op", "uploadb", "k0"}, a, b}})
			tr.Count("prefixed_exhaustive_cases", 1)
		}
	}
	// … after the blob was cached without a commit, and after it was written back (flag cleared):
	// the conflict path on a cached blob without persist flag, under either namespace
	alpha2 := c31Alphabet([]string{"k0", "k1"}, []string{"b0"})
	for _, pre := range [][][]string{
		{{"op", "fetch", "b0"}},
		{{"op", "upload", "k0"}, {"op", "exec", "k0"}},
	} {
		for _, a := range alpha2 {
			for _, b := range alpha2 {
				if verifh.Thorough() || a[1] == "upload" || a[1] == "uploadb" || b[1] == "upload" || b[1] == "uploade" {
					c31Run(base, tr, verifh.Case{Ops: append(append([][]string{}, pre...), a, b)})
					tr.Count("prefixed_exhaustive_cases", 1)
				}
			}
		}
	}
	// … an upload started (and patched) request by request, then anything, then its commit: the blob can
	// appear between start and patch / commit (conflict at the patch site, at the commit site)
	for _, pre := range [][][]string{
		{{"op", "ubegin", "k0"}},
		{{"op", "ubegin", "k0"}, {"op", "upatch", "k0"}},
	} {
		for _, a := range alpha2 {
			for _, fin := range [][]string{{"op", "upatch", "k0"}, {"op", "ucommit", "k0"}, {"op", "dcommit", "k0"}} {
				ops := append(append([][]string{}, pre...), a, fin)
				if fin[1] == "upatch" {
					ops = append(ops, []string{"op", "ucommit", "k0"})
				}
				c31Run(base, tr, verifh.Case{Ops: ops})
				tr.Count("prefixed_exhaustive_cases", 1)
			}
		}
	}
	// (b) random histories over 2 blobs x 2 namespaces
	r := verifh.NewRand(verifh.Seed(), "c31")
	keys := []string{"k0", "k1", "k2", "k3"}
	// (b0) two clients pushing the same layer: an upload is started (and maybe patched), the blob gets
	// cached through another upload / a fetch, then the first upload goes on (conflict at the patch or
	// commit site), then a short random tail (executions, deletions, forced cleanups, restarts)
	for i := 0; i < verifh.Scale(80, 1500); i++ {
		ki := r.Intn(len(keys))
		k, other := keys[ki], keys[ki^1]
		b := "b" + strconv.Itoa(ki/2)
		ops := [][]string{{"op", "ubegin", k}}
		patched := r.Chance(1, 2)
		if patched {
			ops = append(ops, []string{"op", "upatch", k})
		}
		switch r.Intn(4) {
		case 0:
			ops = append(ops, []string{"op", "upload", other})
		case 1:
			ops = append(ops, []string{"op", "upload", k})
		case 2:
			ops = append(ops, []string{"op", "fetch", b})
		default:
			ops = append(ops, []string{"op", "upload", other}, []string{"op", "exec", other})
		}
		if r.Chance(1, 4) {
			if r.Chance(1, 2) {
				ops = append(ops, []string{"op", "del", b})
			} else {
				ops = append(ops, []string{"op", "fc"})
			}
		}
		if !patched {
			ops = append(ops, []string{"op", "upatch", k})
		}
		ops = append(ops, []string{"op", r.Pick("ucommit", "ucommit", "dcommit"), k})
		for j := r.Intn(5); j > 0; j-- {
			switch r.Intn(6) {
			case 0:
				ops = append(ops, []string{"op", "exec", r.Pick(k, other)})
			case 1:
				ops = append(ops, []string{"op", "del", b})
			case 2:
				ops = append(ops, []string{"op", "fc"})
			case 3:
				ops = append(ops, []string{"op", "poll"})
			case 4:
				ops = append(ops, []string{"op", "restart"})
			default:
				ops = append(ops, []string{"op", "exec", k})
			}
		}
		c31Run(base, tr, verifh.Case{Ops: ops})
		tr.Count("conflict_site_cases", 1)
	}
	for i := 0; i < verifh.Scale(400, 8000); i++ {
		var ops [][]string
		for j := 3 + r.Intn(14); j > 0; j-- {
			k := keys[r.Intn(len(keys))]
			b := "b" + strconv.Itoa(r.Intn(2))
			var o []string
			switch x := r.Intn(100); {
			case x < 18:
				o = []string{"op", "upload", k}
			case x < 26:
				o = []string{"op", r.Pick("ubegin", "upatch", "upatch", "ucommit", "ucommit", "dcommit"), k}
			case x < 34:
				o = []string{"op", "uploadb", k}
			case x < 42:
				o = []string{"op", "uploade", k}
			case x < 60:
				o = []string{"op", "exec", k}
			case x < 68:
				o = []string{"op", "poll"}
			case x < 74:
				o = []string{"op", "fc"}
			case x < 79:
				o = []string{"op", "fcb", b}
			case x < 84:
				o = []string{"op", "fcf"}
			case x < 87:
				o = []string{"op", "del", b}
			case x < 90:
				o = []string{"op", "fetch", b}
			case x < 94:
				o = []string{"op", r.Pick("down", "down", "upb"), r.Pick("ns0", "ns1")}
			default:
				o = []string{"op", "restart"}
			}
			tr.Count("random_op_"+o[1], 1)
			ops = append(ops, o)
		}
		if i < 2 {
			tr.Sample(fmt.Sprint(ops))
		}
		c31Run(base, tr, verifh.Case{Ops: ops})
		tr.Count("random_cases", 1)
	}
}
