//go:build verif

package blobserver_test

// C05, server level (machine `ocs`): trees that a crash of an origin can leave in its cache directory are
// materialised, a new CAStore and a real blobserver.Server are started on them, and a metainfo request
// goes through the router to getMetaInfo. A sidecar that decodes is answered with 200; anything else must
// be answered with 202 (refresh started: blobrefresh.Refresher with a backend that holds the blob) and,
// polled, end in 200 with the blob's metainfo; the blob is then downloadable.

import (
	"bytes"
	"encoding/binary"
	"fmt"
	"io"
	"net/http/httptest"
	"os"
	"path/filepath"
	"sort"
	"strconv"
	"strings"
	"testing"
	"time"

	"github.com/andres-erbsen/clock"
	"github.com/uber-go/tally"
	"github.com/uber/kraken/core"
	"github.com/uber/kraken/lib/backend"
	"github.com/uber/kraken/lib/backend/backenderrors"
	"github.com/uber/kraken/lib/blobrefresh"
	"github.com/uber/kraken/lib/hashring"
	"github.com/uber/kraken/lib/healthcheck"
	"github.com/uber/kraken/lib/hostlist"
	"github.com/uber/kraken/lib/metainfogen"
	"github.com/uber/kraken/lib/persistedretry"
	"github.com/uber/kraken/lib/store"
	"github.com/uber/kraken/lib/store/metadata"
	"github.com/uber/kraken/origin/blobclient"
	"github.com/uber/kraken/origin/blobserver"
	"github.com/uber/kraken/utils/log"
	"github.com/uber/kraken/utils/verifh"
	"go.uber.org/zap"
)

const c05sHost = "verif-origin:80"
const c05sNS = "ns"

type c05sBackend struct{ blobs map[string][]byte }

func (b *c05sBackend) Stat(namespace, name string) (*core.BlobInfo, error) {
	d, ok := b.blobs[name]
	if !ok {
		return nil, backenderrors.ErrBlobNotFound
	}
	return core.NewBlobInfo(int64(len(d))), nil
}
func (b *c05sBackend) Upload(namespace, name string, src io.Reader) error { return nil }
func (b *c05sBackend) Download(namespace, name string, dst io.Writer) error {
	d, ok := b.blobs[name]
	if !ok {
		return backenderrors.ErrBlobNotFound
	}
	_, err := dst.Write(d)
	return err
}
func (b *c05sBackend) List(prefix string, opts ...backend.ListOption) (*backend.ListResult, error) {
	return &backend.ListResult{}, nil
}
func (b *c05sBackend) Close() error { return nil }

type c05sWriteBack struct{}

func (c05sWriteBack) Add(persistedretry.Task) error                         { return nil }
func (c05sWriteBack) SyncExec(persistedretry.Task) error                    { return nil }
func (c05sWriteBack) Close()                                                {}
func (c05sWriteBack) Find(query interface{}) ([]persistedretry.Task, error) { return nil, nil }

type c05sClients struct{}

func (c05sClients) Provide(addr string) blobclient.Client { panic("verif: no other origin") }

type c05sClusters struct{}

func (c05sClusters) Provide(dns string) (blobclient.ClusterClient, error) {
	return nil, fmt.Errorf("verif: no remote cluster")
}

func c05sLatTok(hexTok string) string {
	b, err := verifh.Unhex(hexTok)
	if err != nil || len(b) == 0 {
		return hexTok
	}
	sec, n := binary.Varint(b)
	if n > 0 && time.Since(time.Unix(sec, 0)) < 4*time.Minute {
		return "x4c4154"
	}
	return "x4f4c44"
}

func c05sMaterialize(tok string) string {
	p := strings.Split(tok, ":")
	if len(p) == 3 && p[0] == "f" && strings.HasSuffix(p[1], "/_last_access_time") {
		switch p[2] {
		case "x4c4154":
			b, _ := metadata.NewLastAccessTime(time.Now()).Serialize()
			return "f:" + p[1] + ":" + verifh.Hex(b)
		case "x4f4c44":
			b, _ := metadata.NewLastAccessTime(time.Unix(1000, 0)).Serialize()
			return "f:" + p[1] + ":" + verifh.Hex(b)
		}
	}
	return tok
}

func c05sCanonTree(root string) []string {
	var out []string
	for _, tok := range verifh.DumpTree(root) {
		p := strings.Split(tok, ":")
		if len(p) == 3 && p[0] == "f" && strings.HasSuffix(p[1], "/_last_access_time") {
			tok = "f:" + p[1] + ":" + c05sLatTok(p[2])
		}
		out = append(out, tok)
	}
	sort.Strings(out)
	return out
}

func c05sKV(toks []string, k string) string {
	for _, t := range toks {
		if strings.HasPrefix(t, k+"=") {
			return t[len(k)+1:]
		}
	}
	return ""
}

var c05sBase string

// the time a refresh is given to finish: generous once (a loaded machine), short after a first timeout
var c05sPatience = 10 * time.Second

func c05sOne(t *verifh.T, toks []string) {
	blob, err := verifh.Unhex(c05sKV(toks, "blob"))
	if err != nil {
		panic(err)
	}
	pl, _ := strconv.Atoi(c05sKV(toks, "pl"))
	if pl <= 0 {
		pl = 2
	}
	d, err := core.NewDigester().FromBytes(blob)
	if err != nil {
		panic(err)
	}
	mi, err := core.NewMetaInfo(d, bytes.NewReader(blob), int64(pl))
	if err != nil {
		panic(err)
	}
	mib, _ := mi.Serialize()
	name := d.Hex()
	dir := "cache/" + name[0:2] + "/" + name[2:4] + "/" + name
	root, err := os.MkdirTemp(c05sBase, "c05s")
	if err != nil {
		panic(err)
	}
	defer os.RemoveAll(root)
	var tree []string
	for _, tk := range verifh.Unlist(c05sKV(toks, "tree")) {
		tk = strings.ReplaceAll(tk, "$", dir)
		tk = strings.ReplaceAll(tk, "@", verifh.Hex(mib))
		tk = strings.ReplaceAll(tk, "%", verifh.Hex(make([]byte, len(mib))))
		tree = append(tree, c05sMaterialize(tk))
	}
	if err := verifh.MaterializeTree(root, tree); err != nil {
		panic(err)
	}
	hasBackend := c05sKV(toks, "backend") != "0"
	cached := "0"
	if _, err := os.Stat(filepath.Join(root, dir, "data")); err == nil {
		cached = "1"
	}
	args := []string{"meta", "blob=" + verifh.Hex(blob), "pl=" + strconv.Itoa(pl), "backend=" + verifh.Bool(hasBackend),
		"tree=" + verifh.List(c05sCanonTree(root)), "name=" + name, "mi=" + verifh.Hex(mib), "cached=" + cached}
	cas, err := store.NewCAStore(store.CAStoreConfig{
		UploadDir: filepath.Join(root, "upload"), CacheDir: filepath.Join(root, "cache"),
		UploadCleanup: store.CleanupConfig{Disabled: true}, CacheCleanup: store.CleanupConfig{Disabled: true},
	}, tally.NoopScope)
	if err != nil {
		t.One(args, "start-err")
		return
	}
	defer cas.Close()
	bm := backend.ManagerFixture()
	held := map[string][]byte{}
	if hasBackend {
		held[name] = blob
	}
	if err := bm.Register(c05sNS, &c05sBackend{held}, false); err != nil {
		panic(err)
	}
	mg := metainfogen.Fixture(cas, pl)
	br := blobrefresh.New(blobrefresh.Config{}, tally.NoopScope, cas, bm, mg)
	ring := hashring.New(hashring.Config{MaxReplica: 1}, hostlist.Fixture(c05sHost), healthcheck.IdentityFilter{}, tally.NoopScope)
	srv, err := blobserver.New(blobserver.Config{}, tally.NoopScope, clock.New(), c05sHost, ring, cas, c05sClients{}, c05sClusters{},
		core.PeerContextFixture(), bm, br, mg, c05sWriteBack{})
	if err != nil {
		panic(err)
	}
	h := srv.Handler()
	get := func(path string) (int, []byte) {
		w := httptest.NewRecorder()
		h.ServeHTTP(w, httptest.NewRequest("GET", path, nil))
		return w.Code, w.Body.Bytes()
	}
	miPath := "/internal/namespace/" + c05sNS + "/blobs/" + d.String() + "/metainfo"
	var first, code int
	var body []byte
	polls := 0
	if p := verifh.Protect(func() {
		first, body = get(miPath)
		code = first
		deadline := time.Now().Add(c05sPatience)
		for code == 202 && time.Now().Before(deadline) {
			time.Sleep(2 * time.Millisecond)
			polls++
			code, body = get(miPath)
		}
		if code == 202 {
			c05sPatience = 2 * time.Second
		}
	}); p != "" {
		t.One(args, "panic")
		t.PropFail("panic", verifh.Str(p))
		return
	}
	final := "code" + strconv.Itoa(code)
	if code == 200 {
		if bytes.Equal(body, mib) {
			final = "valid"
		} else {
			final = "wrong"
		}
	}
	dcode, dbody := get("/namespace/" + c05sNS + "/blobs/" + d.String())
	dl := "code" + strconv.Itoa(dcode)
	if dcode == 200 {
		if bytes.Equal(dbody, blob) {
			dl = "ok"
		} else {
			dl = "wrong"
		}
	}
	t.Count("polls", polls)
	t.Count("first_"+strconv.Itoa(first), 1)
	t.One(args, "first="+strconv.Itoa(first), "final="+final, "dl="+dl)
}

func c05sCases() []verifh.Case {
	var out []verifh.Case
	r := verifh.NewRand(verifh.Seed(), "c05s")
	mk := func(blob []byte, pl int, tree []string, backend string) {
		out = append(out, verifh.Case{Ops: [][]string{{"one", "meta", "blob=" + verifh.Hex(blob), "pl=" + strconv.Itoa(pl),
			"backend=" + backend, "tree=" + verifh.List(tree)}}})
	}
	lats := []string{"", "x", "x00000000000000000000", "x4c4154", "x4f4c44"}
	tms := []string{"", "x", "%", "@"}
	pers := []string{"", "x", "x74727565"}
	n := 0
	for _, lat := range lats {
		for _, tm := range tms {
			for _, pe := range pers {
				n++
				if verifh.Scale(0, 1) == 0 && n%3 != int(verifh.Seed()%3) {
					continue // the quick tier takes every third combination, rotating with the seed
				}
				blob := make([]byte, 1+r.Intn(7))
				for i := range blob {
					blob[i] = byte('a' + r.Intn(20))
				}
				tree := []string{"d:$", "f:$/data:" + verifh.Hex(blob)}
				if lat != "" {
					tree = append(tree, "f:$/_last_access_time:"+lat)
				}
				if tm != "" {
					tree = append(tree, "f:$/_torrentmeta:"+tm)
				}
				if pe != "" {
					tree = append(tree, "f:$/_persist:"+pe)
				}
				// the backend holds the blob, or (a blob that was never written back) does not
				mk(blob, 1+r.Intn(3), tree, r.Pick("0", "0", "1"))
			}
		}
	}
	// no blob file: nothing at all, an empty directory, a directory with only the last access time
	for _, tree := range [][]string{{"d:cache"}, {"d:$"}, {"d:$", "f:$/_last_access_time:x"}, {"d:$", "f:$/_last_access_time:x4c4154"},
		{"d:upload/zz", "f:upload/zz/data:x6162", "d:$", "f:$/_last_access_time:x4f4c44"}} {
		mk([]byte("blob"+strconv.Itoa(len(out))), 2, tree, "1")
		mk([]byte("blob"+strconv.Itoa(len(out))), 2, tree, "0")
	}
	return out
}

func TestVerif_C05Srv(t *testing.T) {
	log.SetGlobalLogger(zap.NewNop().Sugar())
	tr := verifh.Open("ocs")
	defer tr.Close()
	c05sBase = verifh.CrashBase()
	os.MkdirAll(c05sBase, 0775)
	defer os.RemoveAll(c05sBase)
	cases, replayOnly := verifh.InputCases("ocs")
	tr.Count("corpus_or_replay_cases", len(cases))
	if !replayOnly {
		gen := c05sCases()
		tr.Count("generated_cases", len(gen))
		if len(gen) > 0 {
			tr.Sample(fmt.Sprint(gen[len(gen)/2].Ops))
		}
		cases = append(cases, gen...)
	}
	for _, c := range cases {
		for _, op := range c.Ops {
			if len(op) >= 2 && op[0] == "one" && op[1] == "meta" {
				var toks []string
				for _, tk := range op[2:] {
					if !strings.HasPrefix(tk, "name=") && !strings.HasPrefix(tk, "mi=") && !strings.HasPrefix(tk, "cached=") {
						toks = append(toks, tk)
					}
				}
				c05sOne(tr, toks)
			}
		}
	}
}
