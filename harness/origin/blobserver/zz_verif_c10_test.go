//go:build verif

package blobserver_test

import (
	"bytes"
	"encoding/json"
	"errors"
	"fmt"
	"net/http/httptest"
	"os"
	"strconv"
	"strings"
	"testing"
	"time"

	"github.com/andres-erbsen/clock"
	"github.com/uber-go/tally"

	"github.com/uber/kraken/core"
	"github.com/uber/kraken/lib/backend"
	"github.com/uber/kraken/lib/blobrefresh"
	"github.com/uber/kraken/lib/hashring"
	"github.com/uber/kraken/lib/healthcheck"
	"github.com/uber/kraken/lib/hostlist"
	"github.com/uber/kraken/lib/metainfogen"
	"github.com/uber/kraken/lib/persistedretry"
	"github.com/uber/kraken/lib/persistedretry/writeback"
	"github.com/uber/kraken/lib/store"
	"github.com/uber/kraken/lib/store/base"
	"github.com/uber/kraken/lib/store/metadata"
	"github.com/uber/kraken/origin/blobserver"
	"github.com/uber/kraken/utils/verifh"
)

// C10 part 4: the origin's forced cleanup (POST /forcecleanup → Server.maybeDelete) on a real CAStore
// with one cached blob, a scripted write-back manager and an injected clock / hash ring.  Public API
// only (injected together with zz_verif_c01_test.go, whose fakes it reuses).

type c10oWriteBack struct {
	script   []bool // outcome of each SyncExec, in order
	found    int    // tasks Find returns
	findErr  bool   // Find fails
	executed int
	onAdd    func(persistedretry.Task) error // called inside Add
}

func (w *c10oWriteBack) Add(t persistedretry.Task) error {
	if w.onAdd != nil {
		return w.onAdd(t)
	}
	return nil
}
func (w *c10oWriteBack) SyncExec(persistedretry.Task) error {
	i := w.executed
	w.executed++
	if i < len(w.script) && w.script[i] {
		return nil
	}
	return errors.New("verif: scripted write-back failure")
}
func (w *c10oWriteBack) Close() {}
func (w *c10oWriteBack) Find(query interface{}) ([]persistedretry.Task, error) {
	if w.findErr {
		return nil, errors.New("verif: scripted Find failure")
	}
	var ts []persistedretry.Task
	for i := 0; i < w.found; i++ {
		ts = append(ts, writeback.NewTask(c01oNS, fmt.Sprintf("task%d", i), 0))
	}
	return ts, nil
}

func c10oOne(t *verifh.T, toks []string) {
	owns := c01oKV(toks, "owns") == "1"
	persist := c01oKV(toks, "persist")
	findErr := c01oKV(toks, "finderr") == "1"
	// age = (now - ModTime) - ttl in ns; old replays carry expired=0|1
	age, aerr := strconv.ParseInt(c01oKV(toks, "age"), 10, 64)
	if aerr != nil {
		age = -int64(time.Hour)
		if c01oKV(toks, "expired") == "1" {
			age = int64(2 * time.Hour)
		}
	}
	var script []bool
	for _, x := range verifh.Unlist(c01oKV(toks, "tasks")) {
		script = append(script, x == "1")
	}
	up, err := os.MkdirTemp("", "verifc10oup")
	if err != nil {
		panic(err)
	}
	defer os.RemoveAll(up)
	ca, err := os.MkdirTemp("", "verifc10oca")
	if err != nil {
		panic(err)
	}
	defer os.RemoveAll(ca)
	casClk := clock.NewMock()
	cas, closeCAS := store.CAStoreFixtureWithClock(store.CAStoreConfig{
		UploadDir: up, CacheDir: ca,
		UploadCleanup: store.CleanupConfig{Disabled: true}, CacheCleanup: store.CleanupConfig{Disabled: true},
	}, casClk)
	defer closeCAS()
	data := []byte("blob for forced cleanup " + strings.Join(toks, " "))
	name := c01oSha(data)
	if err := cas.CreateCacheFile(name, bytes.NewReader(data)); err != nil {
		panic(err)
	}
	if persist == "0" || persist == "1" {
		if _, err := cas.SetCacheFileMetadata(name, metadata.NewPersist(persist == "1")); err != nil {
			panic(err)
		}
	}
	fi, err := cas.GetCacheFileStat(name)
	if err != nil {
		panic(err)
	}
	wb := &c10oWriteBack{script: script, found: len(script), findErr: findErr}
	bm := backend.ManagerFixture()
	mg := metainfogen.Fixture(cas, 4)
	br := blobrefresh.New(blobrefresh.Config{}, tally.NoopScope, cas, bm, mg)
	ringHost := c01oHost
	if !owns {
		ringHost = "some-other-origin:80"
	}
	ring := hashring.New(hashring.Config{MaxReplica: 1}, hostlist.Fixture(ringHost), healthcheck.IdentityFilter{}, tally.NoopScope)
	// the server's clock: exactly `age` past the blob's expiry for ttl = 1 h
	clk := clock.NewMock()
	clk.Set(fi.ModTime().Add(time.Hour + time.Duration(age)))
	// a second blob that is fresh (created "now" on that clock) — and, when this origin owns blobs, no candidate
	other := []byte("fresh blob " + strings.Join(toks, " "))
	otherName := c01oSha(other)
	if owns {
		if err := cas.CreateCacheFile(otherName, bytes.NewReader(other)); err != nil {
			panic(err)
		}
		// on-disk layout of the CAS cache: <dir>/<2 hex>/<2 hex>/<name>/data
		os.Chtimes(ca+"/"+otherName[0:2]+"/"+otherName[2:4]+"/"+otherName+"/data", clk.Now(), clk.Now())
	}
	srv, err := blobserver.New(blobserver.Config{}, tally.NoopScope, clk, c01oHost, ring, cas, c01oClients{}, c01oClusters{},
		core.PeerContextFixture(), bm, br, mg, wb)
	if err != nil {
		panic(err)
	}
	w := httptest.NewRecorder()
	srv.Handler().ServeHTTP(w, httptest.NewRequest("POST", "/forcecleanup?ttl_hr=1", nil))
	result := "error"
	var resp struct {
		Deleted []string `json:"deleted"`
		Errors  []string `json:"errors"`
	}
	if w.Code == 200 && json.Unmarshal(w.Body.Bytes(), &resp) == nil {
		del := false
		for _, d := range resp.Deleted {
			if d == name {
				del = true
			}
		}
		switch {
		case len(resp.Errors) > 0:
			result = "error"
		case del:
			result = "deleted"
		default:
			result = "kept"
		}
	}
	_, serr := cas.GetCacheFileStat(name)
	otherPresent := true
	if owns {
		_, oerr := cas.GetCacheFileStat(otherName)
		otherPresent = oerr == nil
	}
	// is the blob still marked as awaiting write-back?  the sidecar, and what a delete request answers
	flag := "-"
	var pm metadata.Persist
	if merr := cas.GetCacheFileMetadata(name, &pm); merr == nil {
		flag = verifh.Bool(pm.Value)
	} else if !os.IsNotExist(merr) {
		flag = "?"
	}
	del := "fail"
	switch derr := cas.DeleteCacheFile(name); {
	case derr == nil:
		del = "ok"
	case derr == base.ErrFilePersisted:
		del = "persisted"
	case os.IsNotExist(derr):
		del = "notexist"
	}
	t.One(append([]string{"maybedelete"}, toks...), result, "executed="+strconv.Itoa(wb.executed), "present="+verifh.Bool(serr == nil),
		"other="+verifh.Bool(otherPresent), "flag="+flag, "del="+del)
}

// C10 part 5: an upload commit over HTTP (cluster route, or the duplicate route used for replication); the
// scripted write-back manager looks at the store at the moment the task is handed to it: the blob's persist
// flag and what a delete request answers.
func c10oCommit(t *verifh.T, toks []string) {
	dup := c01oKV(toks, "dup") == "1"
	addfail := c01oKV(toks, "addfail") == "1"
	n, _ := strconv.Atoi(c01oKV(toks, "len"))
	if n < 0 || n > 1<<16 {
		n = 1
	}
	up, err := os.MkdirTemp("", "verifc10cup")
	if err != nil {
		panic(err)
	}
	defer os.RemoveAll(up)
	ca, err := os.MkdirTemp("", "verifc10cca")
	if err != nil {
		panic(err)
	}
	defer os.RemoveAll(ca)
	cas, closeCAS := store.CAStoreFixtureWithClock(store.CAStoreConfig{
		UploadDir: up, CacheDir: ca,
		UploadCleanup: store.CleanupConfig{Disabled: true}, CacheCleanup: store.CleanupConfig{Disabled: true},
	}, clock.NewMock())
	defer closeCAS()
	data := bytes.Repeat([]byte("commit "+strings.Join(toks, " ")+"|"), n/8+1)[:n]
	name := c01oSha(data)
	delAnswer := func() string {
		switch derr := cas.DeleteCacheFile(name); {
		case derr == nil:
			return "ok"
		case derr == base.ErrFilePersisted:
			return "persisted"
		case os.IsNotExist(derr):
			return "notexist"
		}
		return "fail"
	}
	flagNow := func() string {
		var pm metadata.Persist
		if merr := cas.GetCacheFileMetadata(name, &pm); merr == nil {
			return verifh.Bool(pm.Value)
		} else if !os.IsNotExist(merr) {
			return "?"
		}
		return "-"
	}
	called, flagq, delq := false, "-", "-"
	wb := &c10oWriteBack{}
	wb.onAdd = func(task persistedretry.Task) error {
		if !called {
			called = true
			flagq = flagNow()
			delq = delAnswer()
		}
		if addfail {
			return errors.New("verif: scripted Add failure")
		}
		return nil
	}
	bm := backend.ManagerFixture()
	mg := metainfogen.Fixture(cas, 4)
	br := blobrefresh.New(blobrefresh.Config{}, tally.NoopScope, cas, bm, mg)
	ring := hashring.New(hashring.Config{MaxReplica: 1}, hostlist.Fixture(c01oHost), healthcheck.IdentityFilter{}, tally.NoopScope)
	srv, err := blobserver.New(blobserver.Config{}, tally.NoopScope, clock.NewMock(), c01oHost, ring, cas, c01oClients{}, c01oClusters{},
		core.PeerContextFixture(), bm, br, mg, wb)
	if err != nil {
		panic(err)
	}
	h := srv.Handler()
	do := func(method, path string, hdr map[string]string, body []byte) *httptest.ResponseRecorder {
		q := httptest.NewRequest(method, path, bytes.NewReader(body))
		for k, v := range hdr {
			q.Header.Set(k, v)
		}
		w := httptest.NewRecorder()
		h.ServeHTTP(w, q)
		return w
	}
	ubase := "/namespace/" + c01oNS + "/blobs/" + c01oDigest(name) + "/uploads"
	if dup {
		ubase = "/internal/blobs/" + c01oDigest(name) + "/uploads"
	}
	w := do("POST", ubase, nil, nil)
	uid := w.Header().Get("Location")
	if c01oClass(w.Code) != "ok" || uid == "" {
		panic(fmt.Sprintf("start upload: %d %s", w.Code, w.Body.String()))
	}
	if n > 0 {
		w = do("PATCH", ubase+"/"+uid, map[string]string{"Content-Range": fmt.Sprintf("0-%d", n)}, data)
		if c01oClass(w.Code) != "ok" {
			panic(fmt.Sprintf("patch upload: %d %s", w.Code, w.Body.String()))
		}
	}
	if dup {
		w = do("PUT", "/internal/duplicate/namespace/"+c01oNS+"/blobs/"+c01oDigest(name)+"/uploads/"+uid, nil, []byte(`{"Delay":0}`))
	} else {
		w = do("PUT", ubase+"/"+uid, nil, nil)
	}
	result := "fail"
	if c01oClass(w.Code) == "ok" {
		result = "ok"
	}
	_, serr := cas.GetCacheFileStat(name)
	t.One(append([]string{"commit"}, toks...), result, "called="+verifh.Bool(called), "flagq="+flagq, "delq="+delq,
		"flag="+flagNow(), "present="+verifh.Bool(serr == nil))
}

func TestVerif_C10Force(t *testing.T) {
	tr := verifh.Open("forceclean")
	defer tr.Close()
	cases, replayOnly := verifh.InputCases("forceclean")
	for _, c := range cases {
		for _, op := range c.Ops {
			if len(op) >= 2 && op[0] == "one" && op[1] == "maybedelete" {
				op := op
				if p := verifh.Protect(func() { c10oOne(tr, op[2:]) }); p != "" {
					tr.PropFail("panic", verifh.Str(p))
				}
				tr.Count("corpus_or_replay_cases", 1)
			}
			if len(op) >= 2 && op[0] == "one" && op[1] == "commit" {
				op := op
				if p := verifh.Protect(func() { c10oCommit(tr, op[2:]) }); p != "" {
					tr.PropFail("panic", verifh.Str(p))
				}
				tr.Count("corpus_or_replay_cases", 1)
			}
		}
	}
	if replayOnly {
		return
	}
	// upload commits: both routes × Add succeeds / fails × a few blob lengths
	for _, dup := range []string{"0", "1"} {
		for _, af := range []string{"0", "1"} {
			for _, n := range []string{"0", "1", "4", "5", "64", "1000"} {
				toks := []string{"dup=" + dup, "addfail=" + af, "len=" + n}
				if pp := verifh.Protect(func() { c10oCommit(tr, toks) }); pp != "" {
					tr.PropFail("panic", verifh.Str(pp))
				}
				tr.Count("commit_cases", 1)
			}
		}
	}
	// exhaustive: expired × owns × persist sidecar × every task outcome list up to length 3 (4 in thorough)
	var lists [][]string
	var gen func(prefix []string, d int)
	gen = func(prefix []string, d int) {
		lists = append(lists, append([]string{}, prefix...))
		if d == 0 {
			return
		}
		for _, b := range []string{"1", "0"} {
			gen(append(prefix, b), d-1)
		}
	}
	gen(nil, verifh.Scale(3, 4))
	// ages around the expiry boundary (strict >): ttl - 1 s, ttl exactly, ttl + 1 ns, ttl + 1 s, far on both sides
	for _, e := range []string{"-1000000000", "0", "1", "1000000000", "-3600000000000", "7200000000000"} {
		for _, o := range []string{"0", "1"} {
			for _, p := range []string{"-", "0", "1"} {
				for li, l := range lists {
					if !verifh.Thorough() && e != "1" && e != "0" && li%3 != 0 {
						continue
					}
					toks := []string{"age=" + e, "owns=" + o, "persist=" + p, "tasks=" + verifh.List(l)}
					if li%5 == 4 {
						toks = append(toks, "finderr=1")
					}
					if pp := verifh.Protect(func() { c10oOne(tr, toks) }); pp != "" {
						tr.PropFail("panic", verifh.Str(pp))
					}
					tr.Count("exhaustive_cases", 1)
				}
			}
		}
	}
}
