//go:build verif

package blobserver_test

// C33, origin side: POST /namespace/<ns>/blobs/<d>/remote/<remote> on the real origin server
// (replicateToRemote).  The tag-replication executor takes a 200 as "the blob is in the remote origin
// cluster"; here the remote cluster is a recording fake, and a 200 must mean its UploadBlob completed.
// A blob that is not cached locally must not be answered 200 (202 while it is fetched from the
// backend, 404 when the backend does not have it).  Reuses the C31 server fixture.

import (
	"context"
	"errors"
	"fmt"
	"io"
	"net/http"
	"net/http/httptest"
	"net/url"
	"os"
	"sort"
	"strconv"
	"strings"
	"sync"
	"testing"
	"time"

	"github.com/cenkalti/backoff"
	"github.com/uber-go/tally"
	"go.uber.org/zap"

	"github.com/uber/kraken/build-index/tagclient"
	"github.com/uber/kraken/core"
	"github.com/uber/kraken/lib/persistedretry/tagreplication"
	"github.com/uber/kraken/origin/blobclient"
	"github.com/uber/kraken/utils/httputil"
	"github.com/uber/kraken/utils/log"
	"github.com/uber/kraken/utils/verifh"
	"github.com/uber/kraken/utils/verifretry"
)

type c33oRemote struct {
	blobclient.ClusterClient
	mu    sync.Mutex
	down  bool
	blobs map[string]bool
	// gate: uploads park (hit) until released with an outcome
	gated bool
	hit   chan struct{}
	rel   chan bool
}

func (r *c33oRemote) UploadBlob(ctx context.Context, namespace string, d core.Digest, blob io.ReadSeeker, size uint64) error {
	c, err := io.ReadAll(blob)
	if err != nil {
		return err
	}
	r.mu.Lock()
	gated := r.gated
	r.mu.Unlock()
	if gated {
		// the upload is streaming to the remote origin: parked until the harness decides how it ends
		r.hit <- struct{}{}
		if ok := <-r.rel; !ok {
			return errors.New("upload to the remote origin failed")
		}
	}
	r.mu.Lock()
	defer r.mu.Unlock()
	if r.down && !gated {
		return errors.New("remote cluster unreachable")
	}
	if uint64(len(c)) != size {
		return errors.New("short blob")
	}
	r.blobs[d.Hex()] = true
	return nil
}

func (r *c33oRemote) Provide(dns string) (blobclient.ClusterClient, error) { return r, nil }

func c33oRun(base string, tr *verifh.T, c verifh.Case) {
	dir, err := os.MkdirTemp(base, "case-")
	if err != nil {
		panic(err)
	}
	defer os.RemoveAll(dir)
	remote := &c33oRemote{blobs: map[string]bool{}, hit: make(chan struct{}, 16), rel: make(chan bool)}
	s := &c31Sess{tr: tr, dir: dir, cluster: remote}
	// the remote build-index: records, for every tag it is asked to store, whether the remote origin
	// cluster holds the tag's blob at that moment
	var tagsMu sync.Mutex
	var tags []string
	tagBlob := map[string]int{}
	index := httptest.NewServer(http.HandlerFunc(func(rw http.ResponseWriter, r *http.Request) {
		p := strings.Split(strings.Trim(r.URL.EscapedPath(), "/"), "/")
		switch {
		case r.Method == "HEAD" && len(p) == 2 && p[0] == "tags":
			rw.WriteHeader(404)
		case r.Method == "GET" && r.URL.Path == "/origin":
			fmt.Fprint(rw, "remote")
		case r.Method == "PUT" && len(p) == 4 && p[0] == "tags" && p[2] == "digest":
			tag, _ := url.PathUnescape(p[1])
			tagsMu.Lock()
			b := tagBlob[tag]
			remote.mu.Lock()
			has := remote.blobs[c31BlobTab[b].digest.Hex()]
			remote.mu.Unlock()
			tags = append(tags, fmt.Sprintf("%s:b%d:%s", tag, b, verifh.Bool(has)))
			tagsMu.Unlock()
			rw.WriteHeader(200)
		default:
			rw.WriteHeader(400)
		}
	}))
	index.Config.SetKeepAlivesEnabled(false)
	defer index.Close()
	type parkedExec struct {
		tag string
		res chan error
	}
	var parked []parkedExec
	for i := range s.backends {
		s.backends[i] = &c31Backend{blobs: map[string][]byte{}}
	}
	tr.Cfg()
	defer tr.End()
	if err := s.open(); err != nil {
		tr.PropFail("start-failed", verifh.Str(err.Error()))
		return
	}
	defer s.kill()
	dump := func() []string {
		var cached, rem []string
		names, _ := s.cas.ListCacheFiles()
		for _, n := range names {
			cached = append(cached, "b"+strconv.Itoa(c31BlobIdx(n)))
		}
		remote.mu.Lock()
		for n := range remote.blobs {
			rem = append(rem, "b"+strconv.Itoa(c31BlobIdx(n)))
		}
		remote.mu.Unlock()
		sort.Strings(cached)
		sort.Strings(rem)
		tagsMu.Lock()
		tl := verifh.SortedList(append([]string(nil), tags...)) // concurrent executions: arrival order is not fixed
		tagsMu.Unlock()
		var pk []string
		for _, p := range parked {
			pk = append(pk, p.tag)
		}
		return []string{"c=" + verifh.List(cached), "r=" + verifh.List(rem), "tags=" + tl, "p=" + verifh.List(pk)}
	}
	blobclient.VerifPollBackOff = func() backoff.BackOff { return &backoff.StopBackOff{} }
	newExec := func() *tagreplication.Executor {
		return tagreplication.NewExecutor(tally.NoopScope,
			blobclient.NewClusterClient(c33oResolver{[]blobclient.Client{blobclient.New(s.addr)}}), tagclient.NewProvider(nil))
	}
	errTok := func(err error) string {
		if err != nil {
			return "err"
		}
		return "ok"
	}
	for _, op := range c.Ops {
		if len(op) < 2 || op[0] != "op" {
			continue
		}
		var obs []string
		switch {
		case (op[1] == "fetch" || op[1] == "seed" || op[1] == "rep") && len(op) == 3:
			b, ok := c31ParseBlob(op[2])
			if !ok {
				continue
			}
			blob := c31BlobTab[b]
			if op[1] == "rep" && len(parked) > 0 {
				obs = []string{"busy"}
				break
			}
			switch op[1] {
			case "fetch":
				obs = s.do(op)
			case "seed": // the blob is in the backend of ns0 (not in this origin's cache)
				s.backends[0].mu.Lock()
				s.backends[0].blobs[blob.digest.Hex()] = blob.content
				s.backends[0].mu.Unlock()
				obs = []string{"ok"}
			case "rep":
				err := s.client.ReplicateToRemote("ns0", blob.digest, "remote")
				switch {
				case err == nil:
					obs = []string{"ok"}
				case httputil.IsAccepted(err):
					obs = []string{"202"}
					// the blob is being fetched from the backend: wait until it is cached
					deadline := time.Now().Add(verifretry.Timeout)
					for {
						if _, err := s.cas.GetCacheFileStat(blob.digest.Hex()); err == nil {
							break
						}
						if time.Now().After(deadline) {
							tr.PropFail("stuck-refresh", "blob_was_not_fetched_from_the_backend")
							break
						}
						time.Sleep(time.Millisecond)
					}
				case httputil.IsNotFound(err):
					obs = []string{"404"}
				default:
					obs = []string{"err"}
				}
			}
		case (op[1] == "exec" || op[1] == "execb") && len(op) == 4 && (op[2] == "tA" || op[2] == "tB" || op[2] == "tC"):
			// the real tagreplication executor on a task (tag, one dependency b) against this origin and the
			// recording remote build-index; execb: the upload to the remote origin parks at the gate
			b, ok := c31ParseBlob(op[3])
			if !ok {
				continue
			}
			blob := c31BlobTab[b]
			if _, err := s.cas.GetCacheFileStat(blob.digest.Hex()); err != nil {
				obs = []string{"uncached"}
				break
			}
			if op[1] == "exec" && len(parked) > 0 {
				obs = []string{"busy"}
				break
			}
			dup := false
			for _, p := range parked {
				dup = dup || p.tag == op[2]
			}
			if dup {
				obs = []string{"busy"}
				break
			}
			tagsMu.Lock()
			tagBlob[op[2]] = b
			tagsMu.Unlock()
			task := tagreplication.NewTask(op[2], c31BlobTab[(b+1)%len(c31BlobTab)].digest, core.DigestList{blob.digest}, strings.TrimPrefix(index.URL, "http://"), 0)
			ex := newExec()
			if op[1] == "exec" {
				obs = []string{errTok(ex.Exec(task))}
				break
			}
			remote.mu.Lock()
			remote.gated = true
			remote.mu.Unlock()
			res := make(chan error, 1)
			go func() { res <- ex.Exec(task) }()
			select {
			case <-remote.hit:
				parked = append(parked, parkedExec{op[2], res})
				obs = []string{"paused"}
			case err := <-res:
				obs = []string{errTok(err)}
			case <-time.After(verifretry.Timeout):
				tr.PropFail("stuck-exec", "Exec_neither_returned_nor_reached_the_remote_upload")
				obs = []string{"err"}
			}
			if len(parked) == 0 {
				remote.mu.Lock()
				remote.gated = false
				remote.mu.Unlock()
			}
		case op[1] == "grel" && len(op) == 3 && (op[2] == "ok" || op[2] == "fail"):
			// the parked uploads end (all the same way), oldest first; the executions go on to the end
			var rs []string
			for range parked {
				select {
				case remote.rel <- op[2] == "ok":
				case <-time.After(verifretry.Timeout):
					tr.PropFail("stuck-exec", "a_parked_upload_is_gone")
				}
			}
			for _, p := range parked {
				select {
				case err := <-p.res:
					rs = append(rs, p.tag+":"+errTok(err))
				case <-time.After(verifretry.Timeout):
					tr.PropFail("stuck-exec", "Exec_did_not_return_after_the_upload_ended")
					rs = append(rs, p.tag+":err")
				}
			}
			parked = nil
			remote.mu.Lock()
			remote.gated = false
			remote.mu.Unlock()
			obs = []string{"res=" + verifh.List(rs)}
		case (op[1] == "rdown" || op[1] == "rup") && len(op) == 2:
			remote.mu.Lock()
			remote.down = op[1] == "rdown"
			remote.mu.Unlock()
			obs = []string{"ok"}
		}
		if obs != nil {
			tr.Op(op[1:], append(obs, dump()...)...)
		}
	}
	for range parked {
		select {
		case remote.rel <- false:
		case <-time.After(verifretry.Timeout):
		}
	}
	for _, p := range parked {
		select {
		case <-p.res:
		case <-time.After(verifretry.Timeout):
		}
	}
	// an upload that parked without the harness expecting it (no execution waits for it)
	for {
		select {
		case <-remote.hit:
			select {
			case remote.rel <- false:
			case <-time.After(time.Second):
			}
			continue
		default:
		}
		break
	}
}

type c33oResolver struct{ clients []blobclient.Client }

func (r c33oResolver) Resolve(d core.Digest) ([]blobclient.Client, error) { return r.clients, nil }

func TestVerif_C33Origin(t *testing.T) {
	log.SetGlobalLogger(zap.NewNop().Sugar())
	tr := verifh.Open("originrep")
	defer tr.Close()
	base := os.TempDir()
	if st, err := os.Stat("/dev/shm"); err == nil && st.IsDir() {
		base = "/dev/shm"
	}
	base, err := os.MkdirTemp(base, "verif-c33o-")
	if err != nil {
		t.Fatal(err)
	}
	defer os.RemoveAll(base)
	cases, replayOnly := verifh.InputCases("originrep")
	for _, c := range cases {
		c33oRun(base, tr, c)
		tr.Count("corpus_or_replay_cases", 1)
	}
	if replayOnly {
		return
	}
	alpha := [][]string{{"op", "rdown"}, {"op", "rup"}}
	for _, b := range []string{"b0", "b1"} {
		alpha = append(alpha, []string{"op", "fetch", b}, []string{"op", "seed", b}, []string{"op", "rep", b})
	}
	// concurrent replication of tags that share a blob: executions whose upload to the remote origin parks
	alphaX := append(append([][]string{}, alpha...), []string{"op", "grel", "ok"}, []string{"op", "grel", "fail"})
	for _, t := range []string{"tA", "tB"} {
		alphaX = append(alphaX, []string{"op", "execb", t, "b0"}, []string{"op", "exec", t, "b0"})
	}
	for _, pre := range [][][]string{
		{{"op", "fetch", "b0"}, {"op", "execb", "tA", "b0"}},
		{{"op", "fetch", "b0"}, {"op", "execb", "tA", "b0"}, {"op", "execb", "tB", "b0"}},
	} {
		for _, a := range alphaX {
			for _, b := range alphaX {
				if len(pre) == 3 && !(verifh.Thorough() || a[1] == "grel" || b[1] == "grel") {
					continue
				}
				c33oRun(base, tr, verifh.Case{Ops: append(append([][]string{}, pre...), a, b)})
				tr.Count("overlap_cases", 1)
			}
		}
	}
	var rec func(prefix [][]string, d int)
	rec = func(prefix [][]string, d int) {
		if d == 0 {
			c33oRun(base, tr, verifh.Case{Ops: prefix})
			tr.Count("exhaustive_cases", 1)
			return
		}
		for _, o := range alpha {
			rec(append(prefix[:len(prefix):len(prefix)], o), d-1)
		}
	}
	for d := 1; d <= verifh.Scale(2, 4); d++ {
		rec(nil, d)
	}
	r := verifh.NewRand(verifh.Seed(), "c33o")
	for i := 0; i < verifh.Scale(200, 3000); i++ {
		var ops [][]string
		pool := alpha
		if i%3 == 0 {
			pool = alphaX
		}
		for j := 3 + r.Intn(8); j > 0; j-- {
			ops = append(ops, pool[r.Intn(len(pool))])
		}
		if i < 2 {
			tr.Sample(fmt.Sprint(ops))
		}
		c33oRun(base, tr, verifh.Case{Ops: ops})
		tr.Count("random_cases", 1)
	}
}
