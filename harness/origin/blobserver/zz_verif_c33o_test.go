//go:build verif

package blobserver_test

// C33, origin side: POST /namespace/<ns>/blobs/<d>/remote/<remote> on the real origin server
// (replicateToRemote).  The tag-replication executor takes a 200 as "the blob is in the remote origin
// cluster"; here the remote cluster is a recording fake, and a 200 must mean its UploadBlob completed.
// A blob that is not cached locally must not be answered 200 (202 while it is fetched from the
// backend, 404 when the backend does not have it).  Reuses the C31 server fixture.

import (
	"context"
	"errors"
	"fmt"
	"io"
	"os"
	"sort"
	"strconv"
	"sync"
	"testing"
	"time"

	"go.uber.org/zap"

	"github.com/uber/kraken/core"
	"github.com/uber/kraken/origin/blobclient"
	"github.com/uber/kraken/utils/httputil"
	"github.com/uber/kraken/utils/log"
	"github.com/uber/kraken/utils/verifh"
	"github.com/uber/kraken/utils/verifretry"
)

type c33oRemote struct {
	blobclient.ClusterClient
	mu    sync.Mutex
	down  bool
	blobs map[string]bool
}

func (r *c33oRemote) UploadBlob(ctx context.Context, namespace string, d core.Digest, blob io.ReadSeeker, size uint64) error {
	c, err := io.ReadAll(blob)
	if err != nil {
		return err
	}
	r.mu.Lock()
	defer r.mu.Unlock()
	if r.down {
		return errors.New("remote cluster unreachable")
	}
	if uint64(len(c)) != size {
		return errors.New("short blob")
	}
	r.blobs[d.Hex()] = true
	return nil
}

func (r *c33oRemote) Provide(dns string) (blobclient.ClusterClient, error) { return r, nil }

func c33oRun(base string, tr *verifh.T, c verifh.Case) {
	dir, err := os.MkdirTemp(base, "case-")
	if err != nil {
		panic(err)
	}
	defer os.RemoveAll(dir)
	remote := &c33oRemote{blobs: map[string]bool{}}
	s := &c31Sess{tr: tr, dir: dir, cluster: remote}
	for i := range s.backends {
		s.backends[i] = &c31Backend{blobs: map[string][]byte{}}
	}
	tr.Cfg()
	defer tr.End()
	if err := s.open(); err != nil {
		tr.PropFail("start-failed", verifh.Str(err.Error()))
		return
	}
	defer s.kill()
	dump := func() []string {
		var cached, rem []string
		names, _ := s.cas.ListCacheFiles()
		for _, n := range names {
			cached = append(cached, "b"+strconv.Itoa(c31BlobIdx(n)))
		}
		remote.mu.Lock()
		for n := range remote.blobs {
			rem = append(rem, "b"+strconv.Itoa(c31BlobIdx(n)))
		}
		remote.mu.Unlock()
		sort.Strings(cached)
		sort.Strings(rem)
		return []string{"c=" + verifh.List(cached), "r=" + verifh.List(rem)}
	}
	for _, op := range c.Ops {
		if len(op) < 2 || op[0] != "op" {
			continue
		}
		var obs []string
		switch {
		case (op[1] == "fetch" || op[1] == "seed" || op[1] == "rep") && len(op) == 3:
			b, ok := c31ParseBlob(op[2])
			if !ok {
				continue
			}
			blob := c31BlobTab[b]
			switch op[1] {
			case "fetch":
				obs = s.do(op)
			case "seed": // the blob is in the backend of ns0 (not in this origin's cache)
				s.backends[0].mu.Lock()
				s.backends[0].blobs[blob.digest.Hex()] = blob.content
				s.backends[0].mu.Unlock()
				obs = []string{"ok"}
			case "rep":
				err := s.client.ReplicateToRemote("ns0", blob.digest, "remote")
				switch {
				case err == nil:
					obs = []string{"ok"}
				case httputil.IsAccepted(err):
					obs = []string{"202"}
					// the blob is being fetched from the backend: wait until it is cached
					deadline := time.Now().Add(verifretry.Timeout)
					for {
						if _, err := s.cas.GetCacheFileStat(blob.digest.Hex()); err == nil {
							break
						}
						if time.Now().After(deadline) {
							tr.PropFail("stuck-refresh", "blob_was_not_fetched_from_the_backend")
							break
						}
						time.Sleep(time.Millisecond)
					}
				case httputil.IsNotFound(err):
					obs = []string{"404"}
				default:
					obs = []string{"err"}
				}
			}
		case (op[1] == "rdown" || op[1] == "rup") && len(op) == 2:
			remote.mu.Lock()
			remote.down = op[1] == "rdown"
			remote.mu.Unlock()
			obs = []string{"ok"}
		}
		if obs != nil {
			tr.Op(op[1:], append(obs, dump()...)...)
		}
	}
}

func TestVerif_C33Origin(t *testing.T) {
	log.SetGlobalLogger(zap.NewNop().Sugar())
	tr := verifh.Open("originrep")
	defer tr.Close()
	base := os.TempDir()
	if st, err := os.Stat("/dev/shm"); err == nil && st.IsDir() {
		base = "/dev/shm"
	}
	base, err := os.MkdirTemp(base, "verif-c33o-")
	if err != nil {
		t.Fatal(err)
	}
	defer os.RemoveAll(base)
	cases, replayOnly := verifh.InputCases("originrep")
	for _, c := range cases {
		c33oRun(base, tr, c)
		tr.Count("corpus_or_replay_cases", 1)
	}
	if replayOnly {
		return
	}
	alpha := [][]string{{"op", "rdown"}, {"op", "rup"}}
	for _, b := range []string{"b0", "b1"} {
		alpha = append(alpha, []string{"op", "fetch", b}, []string{"op", "seed", b}, []string{"op", "rep", b})
	}
	var rec func(prefix [][]string, d int)
	rec = func(prefix [][]string, d int) {
		if d == 0 {
			c33oRun(base, tr, verifh.Case{Ops: prefix})
			tr.Count("exhaustive_cases", 1)
			return
		}
		for _, o := range alpha {
			rec(append(prefix[:len(prefix):len(prefix)], o), d-1)
		}
	}
	for d := 1; d <= verifh.Scale(2, 4); d++ {
		rec(nil, d)
	}
	r := verifh.NewRand(verifh.Seed(), "c33o")
	for i := 0; i < verifh.Scale(200, 3000); i++ {
		var ops [][]string
		for j := 3 + r.Intn(8); j > 0; j-- {
			ops = append(ops, alpha[r.Intn(len(alpha))])
		}
		if i < 2 {
			tr.Sample(fmt.Sprint(ops))
		}
		c33oRun(base, tr, verifh.Case{Ops: ops})
		tr.Count("random_cases", 1)
	}
}
