//go:build verif

package blobserver_test

import (
	"bytes"
	"crypto/sha256"
	"encoding/hex"
	"errors"
	"fmt"
	"hash/crc32"
	"io"
	"net/http"
	"net/http/httptest"
	"os"
	"sort"
	"strconv"
	"strings"
	"sync"
	"testing"
	"time"

	"github.com/andres-erbsen/clock"
	"github.com/uber-go/tally"
	"go.uber.org/zap"

	"github.com/uber/kraken/core"
	"github.com/uber/kraken/lib/backend"
	"github.com/uber/kraken/lib/backend/backenderrors"
	"github.com/uber/kraken/lib/blobrefresh"
	"github.com/uber/kraken/lib/hashring"
	"github.com/uber/kraken/lib/healthcheck"
	"github.com/uber/kraken/lib/hostlist"
	"github.com/uber/kraken/lib/metainfogen"
	"github.com/uber/kraken/lib/persistedretry"
	"github.com/uber/kraken/lib/store"
	"github.com/uber/kraken/origin/blobclient"
	"github.com/uber/kraken/origin/blobserver"
	"github.com/uber/kraken/utils/log"
	"github.com/uber/kraken/utils/verifh"
)

// C01, HTTP level: the real origin handler (chi router, uploader, blobrefresh, metainfogen) over a real
// CAStore, with a scripted storage backend that streams whatever the case says (corrupted, truncated,
// extended, failing, different on the retry).  Public API only.  The memory cache has no drain workers
// here (DrainWorkers=-1): write-through entries stay in memory, so reads exercise the memory-first path.

const c01oHost = "verif-origin:80"
const c01oNS = "ns"

func init() {
	zc := zap.NewProductionConfig()
	zc.OutputPaths = []string{}
	log.ConfigureLogger(zc)
}

var errC01oInjected = errors.New("verif: injected backend failure")

type c01oAtt struct {
	data []byte
	fail bool
}

// c01oBackend is a backend.Client whose content is set per fetch operation.
type c01oBackend struct {
	mu    sync.Mutex
	size  map[string]int64
	atts  map[string][]c01oAtt
	calls map[string]int
}

func (b *c01oBackend) Stat(namespace, name string) (*core.BlobInfo, error) {
	b.mu.Lock()
	defer b.mu.Unlock()
	sz, ok := b.size[name]
	if !ok {
		return nil, backenderrors.ErrBlobNotFound
	}
	return core.NewBlobInfo(sz), nil
}
func (b *c01oBackend) Upload(namespace, name string, src io.Reader) error { return nil }
func (b *c01oBackend) Download(namespace, name string, dst io.Writer) error {
	b.mu.Lock()
	i := b.calls[name]
	b.calls[name]++
	atts := b.atts[name]
	b.mu.Unlock()
	if i >= len(atts) {
		return errC01oInjected
	}
	if _, err := io.Copy(dst, bytes.NewReader(atts[i].data)); err != nil {
		return err
	}
	if atts[i].fail {
		return errC01oInjected
	}
	return nil
}
func (b *c01oBackend) List(prefix string, opts ...backend.ListOption) (*backend.ListResult, error) {
	return &backend.ListResult{}, nil
}
func (b *c01oBackend) Close() error { return nil }

type c01oWriteBack struct{}

func (c01oWriteBack) Add(persistedretry.Task) error                     { return nil }
func (c01oWriteBack) SyncExec(persistedretry.Task) error                { return nil }
func (c01oWriteBack) Close()                                            {}
func (c01oWriteBack) Find(query interface{}) ([]persistedretry.Task, error) { return nil, nil }

type c01oClients struct{}

func (c01oClients) Provide(addr string) blobclient.Client { panic("no replica expected: " + addr) }

type c01oClusters struct{}

func (c01oClusters) Provide(dns string) (blobclient.ClusterClient, error) {
	return nil, errors.New("no remote cluster")
}

type c01oRun struct {
	t      *verifh.T
	h      http.Handler
	be     *c01oBackend
	stats  tally.TestScope
	alias  map[string]string // generator's handle token -> handle of the latest successful start using it
	uids   map[string]string // handle -> uid handed out by the server
	shadow map[string][]byte // handle -> what was patched so far (pwrite semantics)
	nstart int
	names  []string
	shaEm  map[string]bool
	crcEm  map[string]bool
}

func c01oSha(b []byte) string {
	h := sha256.Sum256(b)
	return hex.EncodeToString(h[:])
}

func (r *c01oRun) tblSha(b []byte) {
	k := verifh.Hex(b)
	if !r.shaEm[k] {
		r.shaEm[k] = true
		r.t.Rec("tbl", []string{"sha", k, c01oSha(b)}, nil)
	}
}

func (r *c01oRun) tblCrc(b []byte, pl int64) {
	if pl <= 0 {
		return
	}
	for off := int64(0); off < int64(len(b)); off += pl {
		end := off + pl
		if end > int64(len(b)) {
			end = int64(len(b))
		}
		k := verifh.Hex(b[off:end])
		if !r.crcEm[k] {
			r.crcEm[k] = true
			r.t.Rec("tbl", []string{"crc", k, strconv.FormatUint(uint64(crc32.ChecksumIEEE(b[off:end])), 10)}, nil)
		}
	}
}

func (r *c01oRun) req(method, path string, hdr map[string]string, body []byte) *httptest.ResponseRecorder {
	var rd io.Reader
	if body != nil {
		rd = bytes.NewReader(body)
	}
	q := httptest.NewRequest(method, path, rd)
	for k, v := range hdr {
		q.Header.Set(k, v)
	}
	w := httptest.NewRecorder()
	r.h.ServeHTTP(w, q)
	return w
}

func c01oClass(code int) string {
	switch {
	case code >= 200 && code < 300 && code != http.StatusAccepted:
		return "ok"
	case code == http.StatusAccepted:
		return "accepted"
	case code == http.StatusConflict:
		return "conflict"
	case code == http.StatusNotFound:
		return "notfound"
	default:
		return "fail"
	}
}

func c01oDigest(name string) string { return "sha256:" + name }

func (r *c01oRun) uploadBase(kind, name string) string {
	if kind == "cluster" {
		return "/namespace/" + c01oNS + "/blobs/" + c01oDigest(name) + "/uploads"
	}
	return "/internal/blobs/" + c01oDigest(name) + "/uploads"
}

func (r *c01oRun) blobPath(name string) string {
	return "/namespace/" + c01oNS + "/blobs/" + c01oDigest(name)
}

func (r *c01oRun) probe(name string) {
	var rs, ss, ms string
	var data []byte
	w := r.req("GET", r.blobPath(name), nil, nil)
	switch c01oClass(w.Code) {
	case "ok":
		data = w.Body.Bytes()
		if data == nil {
			data = []byte{}
		}
		rs = verifh.Hex(data)
	case "notfound":
		rs = "notexist"
	default:
		rs = "err"
	}
	w = r.req("HEAD", "/internal/namespace/"+c01oNS+"/blobs/"+c01oDigest(name)+"?local=true", nil, nil)
	switch c01oClass(w.Code) {
	case "ok":
		ss = w.Header().Get("Content-Length")
	case "notfound":
		ss = "notexist"
	default:
		ss = "err"
	}
	w = r.req("GET", "/internal/namespace/"+c01oNS+"/blobs/"+c01oDigest(name)+"/metainfo", nil, nil)
	switch c01oClass(w.Code) {
	case "ok":
		mi, err := core.DeserializeMetaInfo(w.Body.Bytes())
		if err != nil {
			ms = "err"
			break
		}
		var sums []string
		for i := 0; i < mi.NumPieces(); i++ {
			sums = append(sums, strconv.FormatUint(uint64(mi.GetPieceSum(i)), 10))
		}
		sj := "-"
		if len(sums) > 0 {
			sj = strings.Join(sums, ".")
		}
		ms = fmt.Sprintf("%s:%d:%d:%s", mi.Digest().Hex(), mi.Length(), mi.PieceLength(), sj)
		if data != nil {
			r.tblCrc(data, mi.PieceLength())
		}
	case "notfound":
		ms = "notexist"
	default:
		ms = "err"
	}
	if data != nil {
		r.tblSha(data)
	}
	r.t.Op([]string{"probe", name}, "r="+rs, "s="+ss, "m="+ms, "mem=-")
}

// pendingRefreshes reads the RequestCache's num_requests gauge from the refresher's stats scope.
func (r *c01oRun) pendingRefreshes() (float64, bool) {
	for _, g := range r.stats.Snapshot().Gauges() {
		if g.Name() == "num_requests" {
			return g.Value(), true
		}
	}
	return 0, false
}

func (r *c01oRun) probeAll() {
	for _, n := range r.names {
		r.probe(n)
	}
}

func c01oValidName(n string) bool { return core.ValidateSHA256(n) == nil }

func c01oPwrite(old []byte, off int, b []byte) []byte {
	if len(b) == 0 {
		return old
	}
	for len(old) < off+len(b) {
		old = append(old, 0)
	}
	copy(old[off:], b)
	return old
}

func (r *c01oRun) do(op []string, pl int64) (mutating bool) {
	if len(op) < 2 || op[0] != "op" {
		return false
	}
	a := op[1:]
	switch {
	case len(a) == 4 && a[0] == "start" && c01oValidName(a[2]):
		// every successful start gets a handle of its own; later ops name it by the generator's token
		handle := a[3] + "_" + strconv.Itoa(r.nstart)
		w := r.req("POST", r.uploadBase(a[1], a[2])+"?size=0", nil, nil)
		cl := c01oClass(w.Code)
		if cl == "ok" {
			r.alias[a[3]] = handle
			r.uids[handle] = w.Header().Get("Location")
			r.shadow[handle] = []byte{}
			r.nstart++
		}
		r.t.Op([]string{"start", a[1], a[2], handle}, cl)
		return true
	case len(a) == 6 && a[0] == "patch" && c01oValidName(a[2]):
		off, err1 := strconv.Atoi(a[4])
		b, err2 := verifh.Unhex(a[5])
		if err1 != nil || err2 != nil || off < 0 || off > 1<<16 {
			return false
		}
		handle := a[3]
		if h, ok := r.alias[handle]; ok {
			handle = h
		}
		uid, ok := r.uids[handle]
		if !ok {
			uid = "00000000-0000-0000-0000-000000000000"
		}
		w := r.req("PATCH", r.uploadBase(a[1], a[2])+"/"+uid,
			map[string]string{"Content-Range": fmt.Sprintf("%d-%d", off, off+len(b))}, b)
		cl := c01oClass(w.Code)
		if cl == "ok" && ok {
			r.shadow[handle] = c01oPwrite(r.shadow[handle], off, b)
		}
		r.t.Op([]string{"patch", a[1], a[2], handle, a[4], a[5]}, cl)
		return true
	case (len(a) == 4 || len(a) == 5) && a[0] == "commit" && c01oValidName(a[2]):
		handle := a[3]
		if h, ok := r.alias[handle]; ok {
			handle = h
		}
		uid, ok := r.uids[handle]
		have := "-"
		if ok {
			have = verifh.Hex(r.shadow[handle])
			r.tblSha(r.shadow[handle])
			r.tblCrc(r.shadow[handle], pl)
		} else {
			uid = "00000000-0000-0000-0000-000000000000"
		}
		w := r.req("PUT", r.uploadBase(a[1], a[2])+"/"+uid, nil, nil)
		cl := c01oClass(w.Code)
		if ok {
			delete(r.uids, handle) // the upload file is gone after a commit attempt
			delete(r.shadow, handle)
		}
		r.t.Op([]string{"commit", a[1], a[2], handle, have}, cl)
		return true
	case len(a) == 4 && a[0] == "fetch" && c01oValidName(a[1]):
		name := a[1]
		var atts []c01oAtt
		for _, t := range verifh.Unlist(a[3]) {
			fail := strings.HasSuffix(t, "!")
			b, err := verifh.Unhex(strings.TrimSuffix(t, "!"))
			if err != nil {
				return false
			}
			atts = append(atts, c01oAtt{b, fail})
			r.tblSha(b)
			r.tblCrc(b, pl)
		}
		r.be.mu.Lock()
		r.be.calls[name] = 0
		if a[2] != "-" {
			sz, err := strconv.ParseInt(a[2], 10, 64)
			if err != nil || sz < 0 || sz > 1<<20 {
				r.be.mu.Unlock()
				return false
			}
			r.be.size[name] = sz
			r.be.atts[name] = atts
		}
		r.be.mu.Unlock()
		// GET; a 202 means the refresh runs in the background.  Polling the GET endpoints while it
		// completes can start a second refresh (the handler's check-then-refresh is not atomic), so its
		// completion is awaited without requests: the refresher's RequestCache updates the gauge
		// num_requests to 0 when the request function has returned and its result is recorded.
		w := r.req("GET", r.blobPath(name), nil, nil)
		cl := c01oClass(w.Code)
		if cl == "accepted" {
			deadline := time.Now().Add(20 * time.Second)
			seen := false
			for !time.Now().After(deadline) {
				v, ok := r.pendingRefreshes()
				if ok {
					seen = true
					if v == 0 {
						break
					}
				} else if !seen && time.Now().After(deadline.Add(-19*time.Second)) {
					break // the gauge does not exist (renamed?): fall back to polling the endpoint
				}
				time.Sleep(100 * time.Microsecond)
			}
			for {
				w = r.req("GET", r.blobPath(name), nil, nil)
				cl = c01oClass(w.Code)
				if cl != "accepted" || time.Now().After(deadline) {
					break
				}
				time.Sleep(time.Millisecond)
			}
		}
		r.be.mu.Lock()
		calls := r.be.calls[name]
		delete(r.be.size, name)
		delete(r.be.atts, name)
		r.be.mu.Unlock()
		r.t.Op(a, cl, "calls="+strconv.Itoa(calls))
		return true
	case len(a) == 3 && a[0] == "overwritemeta" && c01oValidName(a[1]):
		plo, err := strconv.ParseInt(a[2], 10, 64)
		if err != nil {
			return false
		}
		// rows for the content currently served
		if w := r.req("GET", r.blobPath(a[1]), nil, nil); c01oClass(w.Code) == "ok" {
			r.tblCrc(w.Body.Bytes(), plo)
		}
		w := r.req("POST", "/internal/blobs/"+c01oDigest(a[1])+"/metainfo?piece_length="+a[2], nil, nil)
		r.t.Op(a, c01oClass(w.Code))
		return true
	case len(a) == 2 && a[0] == "probe" && c01oValidName(a[1]):
		r.probe(a[1])
		return false
	}
	return false
}

func c01oKV(toks []string, k string) string {
	for _, t := range toks {
		if strings.HasPrefix(t, k+"=") {
			return t[len(k)+1:]
		}
	}
	return ""
}

func c01oExec(t *verifh.T, c verifh.Case) {
	if len(c.Cfg) == 0 {
		c.Cfg = []string{"mem=0", "max=0", "retries=0", "ttl=0", "skip=0", "pl=4"}
	}
	mem := c01oKV(c.Cfg, "mem") == "1"
	max, _ := strconv.ParseUint(c01oKV(c.Cfg, "max"), 10, 64)
	skip := c01oKV(c.Cfg, "skip") == "1"
	pl, _ := strconv.ParseInt(c01oKV(c.Cfg, "pl"), 10, 64)
	if pl <= 0 {
		pl = 4
	}
	up, err := os.MkdirTemp("", "verifc01oup")
	if err != nil {
		panic(err)
	}
	defer os.RemoveAll(up)
	ca, err := os.MkdirTemp("", "verifc01oca")
	if err != nil {
		panic(err)
	}
	defer os.RemoveAll(ca)
	clk := clock.NewMock()
	cas, closeCAS := store.CAStoreFixtureWithClock(store.CAStoreConfig{
		UploadDir:            up,
		CacheDir:             ca,
		UploadCleanup:        store.CleanupConfig{Disabled: true},
		CacheCleanup:         store.CleanupConfig{Disabled: true},
		SkipHashVerification: skip,
		MemoryCache: store.MemoryCacheConfig{
			Enabled:      mem,
			MaxSize:      max,
			DrainWorkers: -1,
			TTLInterval:  time.Duration(1 << 62),
		},
	}, clk)
	defer closeCAS()
	be := &c01oBackend{size: map[string]int64{}, atts: map[string][]c01oAtt{}, calls: map[string]int{}}
	bm := backend.ManagerFixture()
	if err := bm.Register(c01oNS, be, false); err != nil {
		panic(err)
	}
	mg := metainfogen.Fixture(cas, int(pl))
	rstats := tally.NewTestScope("", nil)
	br := blobrefresh.New(blobrefresh.Config{}, rstats, cas, bm, mg)
	ring := hashring.New(hashring.Config{MaxReplica: 1}, hostlist.Fixture(c01oHost), healthcheck.IdentityFilter{}, tally.NoopScope)
	srv, err := blobserver.New(blobserver.Config{}, tally.NoopScope, clk, c01oHost, ring, cas, c01oClients{}, c01oClusters{},
		core.PeerContextFixture(), bm, br, mg, c01oWriteBack{})
	if err != nil {
		panic(err)
	}
	r := &c01oRun{t: t, h: srv.Handler(), be: be, stats: rstats, alias: map[string]string{}, uids: map[string]string{}, shadow: map[string][]byte{},
		shaEm: map[string]bool{}, crcEm: map[string]bool{}}
	seen := map[string]bool{}
	for _, op := range c.Ops {
		if len(op) < 3 || op[0] != "op" {
			continue
		}
		var n string
		switch op[1] {
		case "start", "patch", "commit":
			if len(op) >= 4 {
				n = op[3]
			}
		case "fetch", "overwritemeta", "probe":
			n = op[2]
		}
		if n != "" && c01oValidName(n) && !seen[n] {
			seen[n] = true
			r.names = append(r.names, n)
		}
	}
	sort.Strings(r.names)
	t.Cfg(c.Cfg...)
	r.probeAll()
	for _, op := range c.Ops {
		op := op
		var mut bool
		if p := verifh.Protect(func() { mut = r.do(op, pl) }); p != "" {
			t.PropFail("panic", verifh.Str(strings.Join(op, " ")), verifh.Str(p))
			break
		}
		if mut {
			r.probeAll()
		}
	}
	t.End()
}

func TestVerif_C01Origin(t *testing.T) {
	tr := verifh.Open("origin")
	defer tr.Close()
	cases, replayOnly := verifh.InputCases("origin")
	for _, c := range cases {
		c01oExec(tr, c)
		tr.Count("corpus_or_replay_cases", 1)
	}
	if replayOnly {
		return
	}
	A := []byte("abcdefghij")
	B := []byte("xyz")
	nA, nB := c01oSha(A), c01oSha(B)
	hA, hB := verifh.Hex(A), verifh.Hex(B)

	// (a) bounded-exhaustive over a small alphabet on one digest
	alpha := [][]string{
		{"op", "fetch", nA, "10", hA},
		{"op", "fetch", nA, "10", hB + "," + hB},
		{"op", "fetch", nA, "10", hB + "," + hA},
		{"op", "fetch", nA, "-", "-"},
		{"op", "start", "transfer", nA, "u0"},
		{"op", "patch", "transfer", nA, "u0", "0", hA},
		{"op", "patch", "transfer", nA, "u0", "0", hB},
		{"op", "commit", "transfer", nA, "u0"},
		{"op", "start", "cluster", nA, "u1"},
		{"op", "commit", "cluster", nA, "u1"},
		{"op", "overwritemeta", nA, "3"},
	}
	cfgs := [][]string{
		{"mem=1", "max=64", "retries=0", "ttl=0", "skip=0", "pl=4"},
		{"mem=0", "max=0", "retries=0", "ttl=0", "skip=0", "pl=4"},
	}
	var rec func(cfg []string, prefix [][]string, d int)
	rec = func(cfg []string, prefix [][]string, d int) {
		if d == 0 {
			c01oExec(tr, verifh.Case{Cfg: cfg, Ops: prefix})
			tr.Count("exhaustive_cases", 1)
			return
		}
		for _, o := range alpha {
			rec(cfg, append(prefix[:len(prefix):len(prefix)], o), d-1)
		}
	}
	for ci, cfg := range cfgs {
		dd := verifh.Scale(2, 3)
		if ci > 0 {
			dd--
		}
		for d := 1; d <= dd; d++ {
			rec(cfg, nil, d)
		}
	}
	_ = nB

	// (b) seeded random histories
	r := verifh.NewRand(verifh.Seed(), "c01origin")
	for i := 0; i < verifh.Scale(150, 6000); i++ {
		var pool [][]byte
		for j := 0; j < 3; j++ {
			pool = append(pool, r.Bytes(r.Intn(12)))
		}
		names := []string{c01oSha(pool[0]), c01oSha(pool[1]), c01oSha(pool[2]), c01oSha([]byte("never"))}
		mem := r.Chance(3, 4)
		cfg := []string{"mem=" + verifh.Bool(mem), "max=" + strconv.Itoa([]int{0, 5, 12, 24, 1000}[r.Intn(5)]),
			"retries=0", "ttl=0", "skip=" + verifh.Bool(r.Chance(1, 20)), "pl=" + strconv.Itoa(1+r.Intn(5))}
		var ops [][]string
		nstart := 0
		corrupt := func(p []byte) []byte {
			switch r.Intn(4) {
			case 0:
				return pool[r.Intn(3)]
			case 1:
				if len(p) > 0 {
					return p[:len(p)-1]
				}
				return []byte{7}
			case 2:
				return append(append([]byte{}, p...), byte(r.Intn(256)))
			default:
				if len(p) == 0 {
					return []byte{1}
				}
				d := append([]byte{}, p...)
				d[r.Intn(len(d))] ^= 1 << uint(r.Intn(8))
				return d
			}
		}
		n := 2 + r.Intn(10)
		for j := 0; j < n; j++ {
			pi := r.Intn(3)
			name := names[pi]
			if r.Chance(1, 10) {
				name = names[r.Intn(4)]
			}
			switch k := r.Intn(100); {
			case k < 40: // GET with refresh from the backend
				natt := 1 + r.Intn(2)
				var atts []string
				for a := 0; a < natt; a++ {
					p := pool[pi]
					if r.Chance(2, 5) {
						p = corrupt(p)
					}
					tok := verifh.Hex(p)
					if r.Chance(1, 8) {
						tok += "!"
					}
					atts = append(atts, tok)
				}
				size := strconv.Itoa(len(pool[pi]))
				if r.Chance(1, 6) {
					size = strconv.Itoa(r.Intn(14))
				}
				if r.Chance(1, 10) {
					size = "-"
				}
				ops = append(ops, []string{"op", "fetch", name, size, verifh.List(atts)})
				tr.Count("random_op_fetch", 1)
			case k < 85: // an upload flow
				kind := r.Pick("transfer", "cluster")
				h := "u" + strconv.Itoa(nstart)
				ops = append(ops, []string{"op", "start", kind, name, h})
				nstart++
				p := pool[pi]
				if r.Chance(1, 4) {
					p = corrupt(p)
				}
				if len(p) > 1 && r.Chance(1, 2) {
					cut := 1 + r.Intn(len(p)-1)
					first := []string{"op", "patch", kind, name, h, "0", verifh.Hex(p[:cut])}
					second := []string{"op", "patch", kind, name, h, strconv.Itoa(cut), verifh.Hex(p[cut:])}
					if r.Chance(1, 3) {
						first, second = second, first
					}
					ops = append(ops, first, second)
				} else {
					ops = append(ops, []string{"op", "patch", kind, name, h, "0", verifh.Hex(p)})
				}
				if r.Chance(1, 5) { // something else happens before the commit
					ops = append(ops, []string{"op", "fetch", name, strconv.Itoa(len(pool[pi])), verifh.Hex(pool[pi])})
				}
				if !r.Chance(1, 10) {
					ops = append(ops, []string{"op", "commit", kind, name, h})
				}
				tr.Count("random_op_upload_flow", 1)
			case k < 93:
				ops = append(ops, []string{"op", "overwritemeta", name, strconv.Itoa(r.Intn(6))})
			default:
				ops = append(ops, []string{"op", "commit", r.Pick("transfer", "cluster"), name, "u" + strconv.Itoa(r.Intn(nstart+1))})
			}
		}
		if i < 2 {
			tr.Sample(fmt.Sprint(cfg, ops))
		}
		c01oExec(tr, verifh.Case{Cfg: cfg, Ops: ops})
		tr.Count("random_cases", 1)
	}
}
