//go:build verif

package blobserver

import (
	"bytes"
	"crypto/sha1"
	"fmt"
	"io"
	"net/http"
	"net/url"
	"os"
	"path/filepath"
	"sort"
	"strings"
	"testing"
	"time"

	"github.com/andres-erbsen/clock"
	"github.com/golang/mock/gomock"
	"github.com/uber-go/tally"
	"go.uber.org/zap"

	"github.com/uber/kraken/core"
	"github.com/uber/kraken/lib/backend"
	"github.com/uber/kraken/lib/blobrefresh"
	"github.com/uber/kraken/lib/hashring"
	"github.com/uber/kraken/lib/healthcheck"
	"github.com/uber/kraken/lib/hostlist"
	"github.com/uber/kraken/lib/metainfogen"
	"github.com/uber/kraken/lib/store"
	mockpersistedretry "github.com/uber/kraken/mocks/lib/persistedretry"
	mockblobclient "github.com/uber/kraken/mocks/origin/blobclient"
	"github.com/uber/kraken/utils/log"
	"github.com/uber/kraken/utils/testutil"
	"github.com/uber/kraken/utils/verifh"
)

// C11 harness (3/3): the real origin blob server (chi router, ParseParam/ParseDigest, uploader,
// CAStore on disk) under an HTTP listener; internal upload endpoints PATCH / PUT …/uploads/{uid}
// with the uid segment taken verbatim from the op record (or `@k` = the uid the server issued for
// upload k).  After each request the tree outside the store's upload/cache directories is compared.
//   origin op start|pstart <k> => ok                        (internal / public route)
//   origin op patch|commit|ppatch|pcommit|dcommit <raw segment | @k> <k> => <class> <every changed path | ->
// Routes: /internal/blobs/{d}/uploads/{uid} (PATCH, PUT), /namespace/{ns}/blobs/{d}/uploads/{uid} (PATCH, PUT),
// /internal/duplicate/namespace/{ns}/blobs/{d}/uploads/{uid} (PUT).  The snapshot covers the whole test root
// (store directories included); issued upload ids are written @k and the cache entry of blob k #k.  `data`
// sentinels sit at <root>, <store>, <upload> and <cache>.

type c11OEnv struct {
	root, storeDir, upload, cache string
	addr                          string
	stop                          []func()
	blobs                         []*core.BlobFixture
	uids                          map[string]string
}

func c11OSnapshot(e *c11OEnv) map[string]string {
	snap := map[string]string{}
	filepath.Walk(e.root, func(p string, info os.FileInfo, err error) error {
		if err != nil {
			return nil
		}
		rel, _ := filepath.Rel(e.root, p)
		rel = e.symbolic(rel)
		if info.IsDir() {
			snap[rel] = "d"
			return nil
		}
		b, _ := os.ReadFile(p)
		snap[rel] = fmt.Sprintf("f:%d:%x", len(b), sha1.Sum(b))
		return nil
	})
	return snap
}

// symbolic rewrites the parts of a path that depend on random values: issued upload ids become @k, the
// cache entry (and shard directories) of blob k become #k.
func (e *c11OEnv) symbolic(rel string) string {
	for k, uid := range e.uids {
		if uid != "" {
			rel = strings.ReplaceAll(rel, uid, "@"+k)
		}
	}
	for i, b := range e.blobs {
		h := b.Digest.Hex()
		full := filepath.Join("store/cache", h[0:2], h[2:4], h)
		switch {
		case strings.HasPrefix(rel, full):
			rel = fmt.Sprintf("store/cache/#%d", i) + rel[len(full):]
		case rel == filepath.Join("store/cache", h[0:2], h[2:4]), rel == filepath.Join("store/cache", h[0:2]):
			rel = "store/cache/#shard" // a shard directory of the CAS layout (may be shared between blobs)
		}
	}
	return rel
}

// plantFor: if the CAS shard layout would (lexically) place the entry of this digest parameter outside the cache
// directory but inside the test root, put a `data` file there before the request: the file an attacker aims at
// (for instance a tag of the build-index store next door).  Real code rejects such a parameter long before.
func (e *c11OEnv) plantFor(seg string) {
	raw, err := url.PathUnescape(seg)
	if err != nil || !strings.HasPrefix(raw, "sha256:") {
		return
	}
	name := raw[len("sha256:"):]
	if len(name) < 4 {
		return
	}
	target := filepath.Join(e.cache, name[0:2], name[2:4], name, "data")
	if strings.HasPrefix(target, e.cache+"/") || !strings.HasPrefix(target, e.root+"/") {
		return
	}
	if _, err := os.Stat(target); err == nil {
		return
	}
	os.MkdirAll(filepath.Dir(target), 0775)
	os.WriteFile(target, e.blobs[0].Content, 0644)
}

func c11ODiff(a, b map[string]string) string {
	var out []string
	for k, v := range a {
		if w, ok := b[k]; !ok {
			out = append(out, "-"+k)
		} else if w != v {
			out = append(out, "~"+k)
		}
	}
	for k := range b {
		if _, ok := a[k]; !ok {
			out = append(out, "+"+k)
		}
	}
	sort.Strings(out)
	if len(out) > 14 {
		out = append(out[:14], "+more")
	}
	for i := range out {
		out[i] = verifh.Str(out[i])
	}
	return verifh.List(out)
}

func c11ONewEnv(t *testing.T) *c11OEnv {
	root, err := os.MkdirTemp("", "verif-c11-origin-")
	if err != nil {
		panic(err)
	}
	e := &c11OEnv{root: root, storeDir: filepath.Join(root, "store"), uids: map[string]string{}}
	e.upload = filepath.Join(e.storeDir, "upload")
	e.cache = filepath.Join(e.storeDir, "cache")
	for _, d := range []string{e.upload, e.cache} {
		if err := os.MkdirAll(d, 0775); err != nil {
			panic(err)
		}
	}
	for i := 0; i < 3; i++ {
		e.blobs = append(e.blobs, core.SizedBlobFixture(64, 16))
	}
	e.stop = append(e.stop, func() { os.RemoveAll(root) })

	ctrl := gomock.NewController(t)
	cas, err := store.NewCAStore(store.CAStoreConfig{UploadDir: e.upload, CacheDir: e.cache}, tally.NoopScope)
	if err != nil {
		panic(err)
	}
	e.stop = append(e.stop, cas.Close)
	os.WriteFile(filepath.Join(root, "outer-sentinel"), []byte("outer"), 0644)
	os.WriteFile(filepath.Join(e.storeDir, "sentinel"), []byte("inner"), 0644)
	// files that a mis-resolved upload id would alias, at every level (each holds blob 0, so that even a
	// commit of it would verify)
	for _, d := range []string{root, e.storeDir, e.upload, e.cache} {
		os.WriteFile(filepath.Join(d, "data"), e.blobs[0].Content, 0644)
	}
	bm := backend.ManagerFixture()
	wb := mockpersistedretry.NewMockManager(ctrl)
	wb.EXPECT().Add(gomock.Any()).Return(nil).AnyTimes()
	mg := metainfogen.Fixture(cas, 4)
	br := blobrefresh.New(blobrefresh.Config{}, tally.NoopScope, cas, bm, mg)
	clk := clock.NewMock()
	clk.Set(time.Now())
	cp := newTestClientProvider()
	ring := hashring.New(hashring.Config{MaxReplica: 3}, hostlist.Fixture("origin1:80"), healthcheck.IdentityFilter{}, tally.NoopScope)
	s, err := New(Config{}, tally.NoopScope, clk, "origin1:80", ring, cas, cp,
		mockblobclient.NewMockClusterProvider(ctrl), core.PeerContextFixture(), bm, br, mg, wb)
	if err != nil {
		panic(err)
	}
	addr, stop := testutil.StartServer(s.Handler())
	e.addr = addr
	e.stop = append(e.stop, stop)
	return e
}

func (e *c11OEnv) close() {
	for i := len(e.stop) - 1; i >= 0; i-- {
		e.stop[i]()
	}
}

func c11OClass(code int) string {
	switch code {
	case 200, 201, 204:
		return "ok"
	case 202:
		return "accepted"
	case 400:
		return "badreq"
	case 404:
		return "notfound"
	case 409:
		return "conflict"
	}
	return "error"
}

func c11ODo(method, addr, rawPath string, hdr map[string]string, body []byte) (string, http.Header) {
	req := &http.Request{Method: method, Host: addr, Header: http.Header{},
		URL: &url.URL{Scheme: "http", Host: addr, Opaque: rawPath}}
	for k, v := range hdr {
		req.Header.Set(k, v)
	}
	if body != nil {
		req.Body = io.NopCloser(bytes.NewReader(body))
		req.ContentLength = int64(len(body))
	}
	resp, err := http.DefaultClient.Do(req)
	if err != nil {
		return "transport-error", nil
	}
	io.Copy(io.Discard, resp.Body)
	resp.Body.Close()
	return c11OClass(resp.StatusCode), resp.Header
}

func c11OriginExec(t *testing.T, tr *verifh.T, c verifh.Case) {
	e := c11ONewEnv(t)
	defer e.close()
	tr.Cfg()
	blob := func(k string) *core.BlobFixture {
		var i int
		fmt.Sscanf(k, "%d", &i)
		if i < 0 || i >= len(e.blobs) {
			i = 0
		}
		return e.blobs[i]
	}
	for _, op := range c.Ops {
		if len(op) < 3 || op[0] != "op" {
			continue
		}
		switch {
		case (op[1] == "start" || op[1] == "pstart") && len(op) == 3:
			b := blob(op[2])
			route := "/internal/blobs/"
			if op[1] == "pstart" {
				route = "/namespace/ns/blobs/"
			}
			cls, h := c11ODo("POST", e.addr, route+b.Digest.String()+"/uploads", nil, nil)
			if cls == "ok" {
				e.uids[op[2]] = h.Get("Location")
			}
			tr.Op(op[1:], cls)
		case (op[1] == "bget" || op[1] == "bhead" || op[1] == "bdel") && len(op) == 3:
			seg, err := verifh.Unstr(op[2])
			if err != nil || seg == "" {
				continue
			}
			if strings.HasPrefix(seg, "#") {
				seg = blob(seg[1:]).Digest.String()
			} else if strings.ContainsAny(seg, "/ ?#\r\n") {
				continue
			} else {
				e.plantFor(seg)
			}
			before := c11OSnapshot(e)
			var cls string
			switch op[1] {
			case "bget":
				cls, _ = c11ODo("GET", e.addr, "/namespace/ns/blobs/"+seg, nil, nil)
			case "bhead":
				cls, _ = c11ODo("HEAD", e.addr, "/internal/namespace/ns/blobs/"+seg+"?local=true", nil, nil)
			default:
				cls, _ = c11ODo("DELETE", e.addr, "/internal/blobs/"+seg, nil, nil)
			}
			tr.Op(op[1:], cls, c11ODiff(before, c11OSnapshot(e)))
		case (op[1] == "patch" || op[1] == "commit" || op[1] == "ppatch" || op[1] == "pcommit" || op[1] == "dcommit") && len(op) == 4:
			seg, err := verifh.Unstr(op[2])
			if err != nil || seg == "" {
				continue
			}
			if strings.HasPrefix(seg, "@") {
				uid, ok := e.uids[seg[1:]]
				if !ok {
					continue
				}
				seg = uid
			} else if strings.ContainsAny(seg, "/ ?#\r\n") {
				continue
			}
			b := blob(op[3])
			before := c11OSnapshot(e)
			path := "/internal/blobs/" + b.Digest.String() + "/uploads/" + seg
			switch op[1] {
			case "ppatch", "pcommit":
				path = "/namespace/ns/blobs/" + b.Digest.String() + "/uploads/" + seg
			case "dcommit":
				path = "/internal/duplicate/namespace/ns/blobs/" + b.Digest.String() + "/uploads/" + seg
			}
			var cls string
			switch op[1] {
			case "patch", "ppatch":
				cls, _ = c11ODo("PATCH", e.addr, path,
					map[string]string{"Content-Range": fmt.Sprintf("0-%d", len(b.Content))}, b.Content)
			case "dcommit":
				cls, _ = c11ODo("PUT", e.addr, path, nil, []byte(`{"delay":0}`))
			default:
				cls, _ = c11ODo("PUT", e.addr, path, nil, nil)
			}
			tr.Op(op[1:], cls, c11ODiff(before, c11OSnapshot(e)))
		}
	}
	tr.End()
}

var c11OPieces = []string{".", "..", "a", "%2e", "%2E", "%2F", "%2f", "%25", "%", "%zz", "%00", "%252e", "~", "data", "-"}

func TestVerif_C11Origin(t *testing.T) {
	log.SetGlobalLogger(zap.NewNop().Sugar())
	tr := verifh.Open("origin")
	defer tr.Close()
	cases, replayOnly := verifh.InputCases("origin")
	for _, c := range cases {
		c11OriginExec(t, tr, c)
		tr.Count("corpus_or_replay_cases", 1)
	}
	if replayOnly {
		return
	}
	op := func(xs ...string) []string { return append([]string{"op"}, xs...) }
	// (a) every piece and every pair of pieces as upload id, patch then commit, next to a legitimate upload
	var segs []string
	lead := map[string]bool{".": true, "..": true, "%2e": true, "%2F": true, "%25": true, "%252e": true, "a": true, "%": true}
	for _, a := range c11OPieces {
		segs = append(segs, a)
		if !lead[a] && !verifh.Thorough() {
			continue
		}
		for _, b := range c11OPieces {
			segs = append(segs, a+b)
		}
	}
	segs = append(segs, "..%2Fx", "..%2F..%2Fx", "a%2F..%2F..%2Fx", "%2E%2E%2Fdata", "..%2Fcache%2Fx",
		"%252e%252e%252Fdata", "a%2F.%2Fb", "%2Fetc%2Fx", "a%2F")
	for i, sg := range segs {
		g := verifh.Str(sg)
		c11OriginExec(t, tr, verifh.Case{Ops: [][]string{op("patch", g, "0"), op("commit", g, "0")}})
		c11OriginExec(t, tr, verifh.Case{Ops: [][]string{op("pstart", "1"), op("pcommit", g, "0"),
			op("ppatch", "@1", "1"), op("pcommit", "@1", "1"), op("ppatch", g, "1")}})
		tr.Count("exhaustive_pairs_cases", 2)
		if i%3 == 0 || len(sg) > 6 {
			c11OriginExec(t, tr, verifh.Case{Ops: [][]string{op("ppatch", g, "0"), op("dcommit", g, "0")}})
			c11OriginExec(t, tr, verifh.Case{Ops: [][]string{op("start", "1"), op("commit", g, "0"),
				op("patch", "@1", "1"), op("commit", "@1", "1"), op("commit", "@1", "1")}})
			tr.Count("exhaustive_pairs_cases", 2)
		}
	}
	// (a') CAS-name routes: the {digest} parameter as a legitimate digest, and as 64 characters that start with k hex
	// characters and continue with escaped separators and dot segments, for every split point k
	c11OriginExec(t, tr, verifh.Case{Ops: [][]string{op("start", "1"), op("patch", "@1", "1"), op("commit", "@1", "1"),
		op("bhead", "#1"), op("bget", "#1"), op("bhead", "#2"), op("bget", "#2"), op("bdel", "#1"), op("bhead", "#1"), op("bdel", "#2")}})
	{
		const hexs = "0123456789abcdefABCDEF0123456789abcdef0123456789abcdef0123456789ab"
		var segs []string
		step := verifh.Scale(3, 1)
		for k := 0; k <= 63; k++ {
			if k%step != 0 && k != 32 && k != 33 && k != 34 && k != 62 {
				continue
			}
			for j := 3; j <= 6; j++ {
				tail := strings.Repeat("%2F..", j) + "%2F"
				if pad := 64 - k - 3*j - 1; pad >= 1 {
					segs = append(segs, "sha256:"+hexs[:k]+tail+strings.Repeat("x", pad))
				}
			}
			segs = append(segs, "sha256:"+hexs[:k]+strings.Repeat(".", 64-k))
		}
		segs = append(segs, "sha256:"+strings.Repeat("A", 64), "sha256:"+hexs[:63], "sha256:"+hexs[:64]+"0", "sha512:"+hexs[:64],
			"sha256:"+hexs[:32]+"%252F..%252F..%252F..%252F..%252Ftags%252Fxxxxxx", hexs[:64], "sha256:"+hexs[:60]+"%zz")
		for i := 0; i < len(segs); i += 3 {
			var c verifh.Case
			for _, sg := range segs[i:min(i+3, len(segs))] {
				g := verifh.Str(sg)
				c.Ops = append(c.Ops, op("bhead", g), op("bget", g), op("bdel", g))
			}
			c11OriginExec(t, tr, c)
			tr.Count("cas_route_cases", 1)
		}
	}
	// (b) random interleavings of legitimate uploads and hostile ids
	r := verifh.NewRand(verifh.Seed(), "c11origin")
	for i := 0; i < verifh.Scale(80, 4000); i++ {
		var c verifh.Case
		started := map[string]bool{}
		for j := 0; j < 2+r.Intn(8); j++ {
			k := fmt.Sprint(r.Intn(3))
			switch x := r.Intn(10); {
			case x < 2 && !started[k]:
				started[k] = true
				c.Ops = append(c.Ops, op(r.Pick("start", "pstart"), k))
			case x < 5 && started[k]:
				c.Ops = append(c.Ops, op(r.Pick("patch", "commit", "ppatch", "pcommit", "dcommit"), "@"+k, k))
			default:
				s := ""
				for n := 1 + r.Intn(3); n > 0; n-- {
					s += c11OPieces[r.Intn(len(c11OPieces))]
				}
				c.Ops = append(c.Ops, op(r.Pick("patch", "commit", "ppatch", "pcommit", "dcommit"), verifh.Str(s), k))
			}
		}
		c11OriginExec(t, tr, c)
		tr.Count("random_cases", 1)
	}
}
