//go:build verif

package blobclient_test

import (
	"bytes"
	"context"
	"errors"
	"fmt"
	"io"
	"net"
	"net/http"
	"net/http/httptest"
	"os"
	"path/filepath"
	"strconv"
	"strings"
	"sync"
	"testing"
	"time"

	"github.com/cenkalti/backoff"
	"go.uber.org/zap"

	"github.com/uber/kraken/core"
	"github.com/uber/kraken/lib/store"
	"github.com/uber/kraken/origin/blobclient"
	"github.com/uber/kraken/utils/httputil"
	"github.com/uber/kraken/utils/log"
	"github.com/uber/kraken/utils/verifh"
)

// C35 harness: runs the real ClusterClient.DownloadBlob (entry=cluster) and the real Poll with the
// bare HTTPClient.DownloadBlob closure (entry=poll) against httptest origins whose behaviour is
// scripted per request: hijack-and-close, status codes, 200 + k body bytes then a dropped
// connection, 200 + the whole blob. Every request uses a fresh connection (keep-alives off on
// both sides) so that net/http never replays a request transparently; a "cut" half-closes the
// connection after flushing, so the client always receives exactly the k bytes before EOF.

const c35Namespace = "verif-ns"

var c35Digest = core.DigestFixture()

type c35Resp struct {
	kind    string // net | status | cut | full
	n       int
	chunked bool // no Content-Length: the body is streamed with chunked transfer encoding
}

func c35ParseScript(tok string) ([]c35Resp, bool) {
	var out []c35Resp
	for _, t := range verifh.Unlist(tok) {
		switch {
		case t == "net":
			out = append(out, c35Resp{kind: "net"})
		case t == "full":
			out = append(out, c35Resp{kind: "full"})
		case t == "fullc":
			out = append(out, c35Resp{kind: "full", chunked: true})
		case strings.HasPrefix(t, "e"):
			n, err := strconv.Atoi(t[1:])
			if err != nil || n < 0 {
				return nil, false
			}
			out = append(out, c35Resp{kind: "eof", n: n})
		case strings.HasPrefix(t, "k"):
			n, err := strconv.Atoi(t[1:])
			if err != nil || n < 0 {
				return nil, false
			}
			out = append(out, c35Resp{kind: "cut", n: n, chunked: true})
		case strings.HasPrefix(t, "s"):
			n, err := strconv.Atoi(t[1:])
			if err != nil || n < 201 || n > 599 || n/100 == 3 {
				return nil, false
			}
			out = append(out, c35Resp{kind: "status", n: n})
		case strings.HasPrefix(t, "c"):
			n, err := strconv.Atoi(t[1:])
			if err != nil || n < 0 {
				return nil, false
			}
			out = append(out, c35Resp{kind: "cut", n: n})
		default:
			return nil, false
		}
	}
	return out, true
}

type c35Origin struct {
	srv    *httptest.Server
	mu     sync.Mutex
	script []c35Resp
	reqs   int
	bad    []string
	blob   []byte
}

func c35Drop(w http.ResponseWriter) {
	hj, ok := w.(http.Hijacker)
	if !ok {
		panic("verif: response writer cannot hijack")
	}
	conn, brw, err := hj.Hijack()
	if err != nil {
		panic(err)
	}
	brw.Flush()
	if tc, ok := conn.(*net.TCPConn); ok {
		// FIN after the flushed bytes; wait for the peer to close, then release the socket.
		tc.CloseWrite()
		conn.SetReadDeadline(time.Now().Add(30 * time.Second))
		io.Copy(io.Discard, conn)
	}
	conn.Close()
}

func (o *c35Origin) ServeHTTP(w http.ResponseWriter, r *http.Request) {
	io.Copy(io.Discard, r.Body)
	o.mu.Lock()
	idx := o.reqs
	o.reqs++
	want := "/namespace/" + c35Namespace + "/blobs/" + c35Digest.String()
	if r.Method != "GET" || r.URL.Path != want {
		o.bad = append(o.bad, r.Method+" "+r.URL.Path)
	}
	resp := c35Resp{kind: "net"}
	if idx < len(o.script) {
		resp = o.script[idx]
	}
	blob := o.blob
	o.mu.Unlock()
	switch resp.kind {
	case "net":
		c35Drop(w)
	case "status":
		w.WriteHeader(resp.n)
		if resp.n != 204 {
			w.Write([]byte("scripted"))
		}
	case "eof":
		// a body delimited by the end of the connection only (no Content-Length, no chunked
		// framing, as an HTTP/1.0 upstream or proxy answers): written raw on the hijacked connection
		conn, brw, err := w.(http.Hijacker).Hijack()
		if err != nil {
			panic(err)
		}
		n := resp.n
		if n > len(blob) {
			n = len(blob)
		}
		brw.WriteString("HTTP/1.1 200 OK\r\nContent-Type: application/octet-stream\r\nConnection: close\r\n\r\n")
		brw.Write(blob[:n])
		brw.Flush()
		if tc, ok := conn.(*net.TCPConn); ok {
			tc.CloseWrite()
			conn.SetReadDeadline(time.Now().Add(30 * time.Second))
			io.Copy(io.Discard, conn)
		}
		conn.Close()
	case "cut", "full":
		w.Header().Set("Content-Type", "application/octet-stream")
		if resp.chunked {
			// streamed like the origin's download handler: no Content-Length, chunked encoding
			w.WriteHeader(200)
			if resp.kind == "full" {
				half := len(blob) / 2
				w.Write(blob[:half])
				w.(http.Flusher).Flush()
				w.Write(blob[half:])
				return
			}
			n := resp.n
			if n > len(blob) {
				n = len(blob)
			}
			w.Write(blob[:n])
			w.(http.Flusher).Flush()
			c35Drop(w) // before the terminating chunk, even if every body byte was sent
			return
		}
		w.Header().Set("Content-Length", strconv.Itoa(len(blob)))
		w.WriteHeader(200)
		if resp.kind == "full" || resp.n >= len(blob) {
			w.Write(blob)
			return
		}
		w.Write(blob[:resp.n])
		w.(http.Flusher).Flush()
		c35Drop(w)
	}
}

type c35Resolver struct {
	clients []blobclient.Client
	err     error
}

func (r *c35Resolver) Resolve(core.Digest) ([]blobclient.Client, error) { return r.clients, r.err }

// c35Backoff answers 0 (no sleep) n times after each Reset, then Stop.
type c35Backoff struct{ n, left int }

func (b *c35Backoff) NextBackOff() time.Duration {
	if b.left <= 0 {
		return backoff.Stop
	}
	b.left--
	return 0
}
func (b *c35Backoff) Reset() { b.left = b.n }

// c35MemFile is an in-memory io.WriteSeeker with file semantics (no Truncate).
type c35MemFile struct {
	data []byte
	pos  int64
}

func (f *c35MemFile) Write(p []byte) (int, error) {
	if len(p) == 0 {
		return 0, nil
	}
	end := f.pos + int64(len(p))
	for int64(len(f.data)) < f.pos {
		f.data = append(f.data, 0)
	}
	if int64(len(f.data)) < end {
		f.data = append(f.data, make([]byte, end-int64(len(f.data)))...)
	}
	copy(f.data[f.pos:end], p)
	f.pos = end
	return len(p), nil
}

func (f *c35MemFile) Seek(off int64, whence int) (int64, error) {
	var abs int64
	switch whence {
	case io.SeekStart:
		abs = off
	case io.SeekCurrent:
		abs = f.pos + off
	case io.SeekEnd:
		abs = int64(len(f.data)) + off
	default:
		return 0, errors.New("memfile: invalid whence")
	}
	if abs < 0 {
		return 0, errors.New("memfile: negative position")
	}
	f.pos = abs
	return abs, nil
}

// c35OnlyWriter hides every optional interface of the wrapped writer.
type c35OnlyWriter struct{ w io.Writer }

func (o c35OnlyWriter) Write(p []byte) (int, error) { return o.w.Write(p) }

type c35Rec struct {
	kind string
	toks []string
	obs  []string
}

func c35KV(toks []string, k string) (string, bool) {
	for _, t := range toks {
		if strings.HasPrefix(t, k+"=") {
			return t[len(k)+1:], true
		}
	}
	return "", false
}

// c35Slow reports whether the case makes the real default backoff sleep (202 under entry=cluster).
func c35Slow(c verifh.Case) int {
	if e, _ := c35KV(c.Cfg, "entry"); e != "cluster" {
		return 0
	}
	n := 0
	for _, op := range c.Ops {
		if len(op) == 2 && op[0] == "origin" {
			n += strings.Count(","+op[1]+",", ",s202,")
		}
	}
	return n
}

func c35NewOrigin() *c35Origin {
	o := &c35Origin{}
	o.srv = httptest.NewUnstartedServer(o)
	o.srv.Config.SetKeepAlivesEnabled(false)
	o.srv.Start()
	return o
}

// c35Pool: long-lived origin servers re-scripted for every sequential case (binding a fresh
// listener per case is slow once many sockets sit in TIME_WAIT).
var c35Pool []*c35Origin

var c35Broken int

var (
	c35CAS  *store.CAStore
	c35CASn int
)

// c35Run executes one case on the real code and returns its transcript records (nil: malformed).
// pooled=false gives the case its own servers (cases that run concurrently).
func c35Run(c verifh.Case, tmp string, pooled bool) (recs []c35Rec, fails []string) {
	recs, fails, _ = c35Run2(c, tmp, pooled)
	return recs, fails
}

// c35Once is the destination after receiving the blob exactly once.
func c35Once(kind string, pre []byte, pos int, blob []byte) []byte {
	if kind == "plain" {
		return append(append([]byte{}, pre...), blob...)
	}
	if len(blob) == 0 {
		return pre
	}
	f := &c35MemFile{data: append([]byte{}, pre...), pos: int64(pos)}
	f.Write(blob)
	return f.data
}

// c35Run2 additionally reports whether the real code visibly broke exactly-once in this case
// (used only to stop generating early: the verdict is the driver's).
func c35Run2(c verifh.Case, tmp string, pooled bool) (recs []c35Rec, fails []string, broke bool) {
	entry, _ := c35KV(c.Cfg, "entry")
	kind, _ := c35KV(c.Cfg, "dst")
	impl, _ := c35KV(c.Cfg, "w")
	preT, _ := c35KV(c.Cfg, "pre")
	posT, _ := c35KV(c.Cfg, "pos")
	blobT, _ := c35KV(c.Cfg, "blob")
	boT, _ := c35KV(c.Cfg, "bo")
	resolve, _ := c35KV(c.Cfg, "resolve")
	pre, err1 := verifh.Unhex(preT)
	blob, err2 := verifh.Unhex(blobT)
	pos, err3 := strconv.Atoi(posT)
	bo, err4 := strconv.Atoi(boT)
	if err1 != nil || err2 != nil || err3 != nil || err4 != nil || pos < 0 || bo < 0 ||
		(entry != "cluster" && entry != "poll") || (kind != "plain" && kind != "seek") ||
		(resolve != "ok" && resolve != "err") || (kind == "plain" && pos != 0) {
		return nil, nil, false
	}
	if c35Slow(c) > 3 {
		return nil, nil, false // would sleep through the real 1s+ backoff too often
	}
	if entry == "cluster" {
		bo = 1000000 // the real backoff gives up after 15 minutes only
	}
	recs = append(recs, c35Rec{kind: "cfg", toks: []string{"entry=" + entry, "dst=" + kind, "w=" + impl,
		"pre=" + verifh.Hex(pre), "pos=" + strconv.Itoa(pos), "blob=" + verifh.Hex(blob), "bo=" + strconv.Itoa(bo), "resolve=" + resolve}})

	var origins []*c35Origin
	defer func() {
		if !pooled {
			for _, o := range origins {
				o.srv.Close()
			}
		}
	}()
	res := &c35Resolver{}
	if resolve == "err" {
		res.err = errors.New("scripted resolver failure")
	}
	download := false
	for _, op := range c.Ops {
		switch {
		case len(op) == 2 && op[0] == "origin" && !download:
			sc, ok := c35ParseScript(op[1])
			if !ok || len(origins) >= 8 {
				continue
			}
			var o *c35Origin
			if pooled {
				for len(c35Pool) <= len(origins) {
					c35Pool = append(c35Pool, c35NewOrigin())
				}
				o = c35Pool[len(origins)]
			} else {
				o = c35NewOrigin()
			}
			o.mu.Lock()
			o.script, o.blob, o.reqs, o.bad = sc, blob, 0, nil
			o.mu.Unlock()
			origins = append(origins, o)
			res.clients = append(res.clients, blobclient.New(strings.TrimPrefix(o.srv.URL, "http://")))
			recs = append(recs, c35Rec{kind: "origin", toks: []string{op[1]}})
		case len(op) == 2 && op[0] == "op" && op[1] == "download" && !download:
			download = true
			// destination
			var dst io.Writer
			var final func() ([]byte, int)
			switch {
			case kind == "plain" && impl == "writer":
				b := bytes.NewBuffer(append([]byte{}, pre...))
				dst = c35OnlyWriter{b}
				final = func() ([]byte, int) { return b.Bytes(), 0 }
			case kind == "plain":
				b := bytes.NewBuffer(append([]byte{}, pre...))
				dst = b
				final = func() ([]byte, int) { return b.Bytes(), 0 }
			case kind == "seek" && impl == "os":
				p := filepath.Join(tmp, "dst")
				if err := os.WriteFile(p, pre, 0644); err != nil {
					panic(err)
				}
				f, err := os.OpenFile(p, os.O_RDWR, 0644)
				if err != nil {
					panic(err)
				}
				defer f.Close()
				if _, err := f.Seek(int64(pos), io.SeekStart); err != nil {
					panic(err)
				}
				dst = f
				final = func() ([]byte, int) {
					at, _ := f.Seek(0, io.SeekCurrent)
					b, err := os.ReadFile(p)
					if err != nil {
						panic(err)
					}
					return b, int(at)
				}
			case kind == "seek" && impl == "castore":
				// the production destination of rw_transferer.downloadFromOrigin: an upload file of a CAStore
				if c35CAS == nil {
					c35CAS, _ = store.CAStoreFixture()
				}
				c35CASn++
				name := fmt.Sprintf("verif-c35-%d", c35CASn)
				if err := c35CAS.CreateUploadFile(name, 0); err != nil {
					panic(err)
				}
				f, err := c35CAS.GetUploadFileReadWriter(name)
				if err != nil {
					panic(err)
				}
				defer f.Close()
				if _, err := f.Write(pre); err != nil {
					panic(err)
				}
				if _, err := f.Seek(int64(pos), io.SeekStart); err != nil {
					panic(err)
				}
				dst = f
				final = func() ([]byte, int) {
					at, _ := f.Seek(0, io.SeekCurrent)
					if _, err := f.Seek(0, io.SeekStart); err != nil {
						panic(err)
					}
					b, err := io.ReadAll(f)
					if err != nil {
						panic(err)
					}
					c35CAS.DeleteUploadFile(name)
					return b, int(at)
				}
			default:
				f := &c35MemFile{data: append([]byte{}, pre...), pos: int64(pos)}
				dst = f
				final = func() ([]byte, int) { return f.data, int(f.pos) }
			}
			var err error
			p := verifh.Protect(func() {
				if entry == "cluster" {
					err = blobclient.NewClusterClient(res).DownloadBlob(context.Background(), c35Namespace, c35Digest, dst)
				} else {
					err = blobclient.Poll(res, &c35Backoff{n: bo}, c35Digest, func(cl blobclient.Client) error {
						return cl.DownloadBlob(context.Background(), c35Namespace, c35Digest, dst)
					})
				}
			})
			if p != "" {
				fails = append(fails, "panic "+verifh.Str(p))
				return recs, fails, true
			}
			var result string
			var se httputil.StatusError
			switch {
			case err == nil:
				result = "ok"
			case err == blobclient.ErrBlobNotFound:
				result = "notfound"
			case errors.As(err, &se):
				result = "status:" + strconv.Itoa(se.Status)
			case strings.HasPrefix(err.Error(), "all origins unavailable"):
				result = "unavailable"
			case strings.HasPrefix(err.Error(), "resolve clients"):
				result = "resolveerr"
			default:
				result = "other:" + verifh.Str(err.Error())
			}
			data, at := final()
			if entry == "cluster" && err == nil && !bytes.Equal(data, c35Once(kind, pre, pos, blob)) {
				broke = true
			}
			var reqs []string
			for _, o := range origins {
				o.mu.Lock()
				reqs = append(reqs, strconv.Itoa(o.reqs))
				for _, b := range o.bad {
					fails = append(fails, "bad-request "+verifh.Str(b))
				}
				o.mu.Unlock()
			}
			recs = append(recs, c35Rec{kind: "op", toks: []string{"download"},
				obs: []string{result, "dst=" + verifh.Hex(data), "pos=" + strconv.Itoa(at), "reqs=" + verifh.List(reqs)}})
		}
	}
	return recs, fails, broke
}

func c35Emit(t *verifh.T, recs []c35Rec, fails []string) {
	if len(recs) == 0 {
		return
	}
	for _, r := range recs {
		if r.kind == "cfg" {
			t.Cfg(r.toks...)
		} else {
			t.Rec(r.kind, r.toks, r.obs)
		}
	}
	for _, f := range fails {
		parts := strings.SplitN(f, " ", 2)
		t.PropFail(parts[0], parts[1:]...)
	}
	t.End()
}

// c35RunAll executes the cases in order; cases that sleep in the real backoff run concurrently
// (each has its own servers and destination) and are written afterwards in order.
func c35RunAll(t *verifh.T, cases []verifh.Case, tmp string) {
	type out struct {
		recs  []c35Rec
		fails []string
	}
	var slow []int
	for i, c := range cases {
		if c35Slow(c) > 0 {
			slow = append(slow, i)
			continue
		}
		recs, fails, broke := c35Run2(c, tmp, true)
		c35Emit(t, recs, fails)
		if broke {
			// a flood of failing cases only slows the report down: a few are enough
			if c35Broken++; c35Broken >= 8 {
				t.Comment("generation stopped after 8 cases in which the real code broke exactly-once")
				return
			}
		}
	}
	if c35Broken >= 8 {
		return
	}
	res := make([]out, len(slow))
	var wg sync.WaitGroup
	for k, i := range slow {
		wg.Add(1)
		go func(k, i int) {
			defer wg.Done()
			d := filepath.Join(tmp, fmt.Sprintf("slow%d", k))
			os.MkdirAll(d, 0755)
			recs, fails := c35Run(cases[i], d, false)
			res[k] = out{recs, fails}
		}(k, i)
	}
	wg.Wait()
	for _, o := range res {
		c35Emit(t, o.recs, o.fails)
	}
	t.Count("cases_with_real_backoff_sleep", len(slow))
}

func c35Case(entry, kind, impl string, pre []byte, pos int, blob []byte, bo int, resolve string, scripts []string) verifh.Case {
	c := verifh.Case{Cfg: []string{"entry=" + entry, "dst=" + kind, "w=" + impl, "pre=" + verifh.Hex(pre),
		"pos=" + strconv.Itoa(pos), "blob=" + verifh.Hex(blob), "bo=" + strconv.Itoa(bo), "resolve=" + resolve}}
	for _, s := range scripts {
		c.Ops = append(c.Ops, []string{"origin", s})
	}
	c.Ops = append(c.Ops, []string{"op", "download"})
	return c
}

func TestVerif_C35(t *testing.T) {
	log.SetGlobalLogger(zap.NewNop().Sugar())
	if tr, ok := http.DefaultTransport.(*http.Transport); ok {
		tr.DisableKeepAlives = true
	}
	tmp := t.TempDir()
	tr := verifh.Open("poll")
	defer tr.Close()
	cases, replayOnly := verifh.InputCases("poll")
	c35RunAll(tr, cases, tmp)
	tr.Count("corpus_or_replay_cases", len(cases))
	if replayOnly {
		return
	}
	blob := []byte("BLOB!")
	var gen []verifh.Case

	// (a1) entry=cluster, bounded-exhaustive: every assignment of one response to each of up to
	// n origins (without 202 an origin is asked once), for each destination kind.
	alpha := []string{"net", "s404", "s503", "c0", "c2", "c5", "full", "k0", "k1", "k2", "k4", "k5", "fullc"}
	type dk struct {
		kind, impl string
		pre        []byte
		pos        int
	}
	dsts := []dk{{"plain", "buf", nil, 0}, {"seek", "mem", nil, 0}, {"plain", "writer", []byte("pp"), 0},
		{"seek", "mem", []byte("0123456789"), 3}, {"seek", "os", []byte("abc"), 3}, {"seek", "castore", []byte("xy"), 1}}
	maxN := verifh.Scale(3, 4)
	var rec func(prefix []string, n int)
	rec = func(prefix []string, n int) {
		for di, d := range dsts {
			if (di >= 2 && len(prefix) > verifh.Scale(2, 3)) || (di == 1 && len(prefix) > verifh.Scale(2, 4)) {
				continue
			}
			gen = append(gen, c35Case("cluster", d.kind, d.impl, d.pre, d.pos, blob, 0, "ok", prefix))
			tr.Count("exhaustive_cluster_cases", 1)
		}
		if n == 0 {
			return
		}
		for _, a := range alpha {
			// responses after a terminal one are never requested: prune what cannot be reached
			rec(append(prefix[:len(prefix):len(prefix)], a), n-1)
		}
	}
	rec(nil, maxN)

	// (a1') a 40 KiB blob (more than one io.Copy buffer: every partial body beyond 32 KiB reaches the
	// destination in at least two Write calls) with cuts at 1, 4097, 32769, 40000, seekable destinations
	big := make([]byte, 40*1024+7)
	for i := range big {
		big[i] = byte(i*31 + i/251)
	}
	bigAlpha := []string{"c1", "c4097", "c32769", "k32769", "k40000", "c40000", "net", "s503", "full", "fullc"}
	for _, a := range bigAlpha {
		for _, b := range bigAlpha {
			for _, d := range []dk{{"seek", "mem", []byte("0123456789"), 3}, {"seek", "os", nil, 0}, {"seek", "castore", nil, 0}} {
				if (a == "full" || a == "fullc") || (d.impl != "mem" && b != "full" && b != "fullc") {
					continue
				}
				gen = append(gen, c35Case("cluster", d.kind, d.impl, d.pre, d.pos, big, 0, "ok", []string{a, b, "full"}))
				tr.Count("bigblob_cluster_cases", 1)
			}
		}
	}
	// (a1'') a close-delimited body cut short is reported as success (known finding); complete ones are fine
	for _, sc := range [][]string{{"e5"}, {"e9"}, {"c2", "e5"}, {"s503", "e5"}, {"e2"}, {"c2", "e3"}, {"e0"}} {
		for _, d := range dsts[:2] {
			gen = append(gen, c35Case("cluster", d.kind, d.impl, d.pre, d.pos, blob, 0, "ok", sc))
			tr.Count("close_delimited_cases", 1)
		}
	}

	// (a2) entry=poll (scripted backoff, no sleeping): two origins, scripts up to length 2 incl. 202
	alphaP := []string{"s202", "net", "s404", "s500", "c3", "full", "k3"}
	var scripts []string
	scripts = append(scripts, "-")
	for _, a := range alphaP {
		scripts = append(scripts, a)
		for _, b := range alphaP {
			scripts = append(scripts, a+","+b)
		}
	}
	if verifh.Thorough() {
		for _, a := range alphaP {
			scripts = append(scripts, "s202,s202,"+a)
		}
	}
	for _, s1 := range scripts {
		for _, s2 := range scripts {
			for bo := 0; bo <= verifh.Scale(1, 2); bo++ {
				kind, impl := "plain", "buf"
				if (len(s1)+len(s2)+bo)%2 == 1 {
					kind, impl = "seek", "mem"
				}
				gen = append(gen, c35Case("poll", kind, impl, nil, 0, blob, bo, "ok", []string{s1, s2}))
				tr.Count("exhaustive_poll_cases", 1)
			}
		}
	}

	// (a3) entry=cluster with 202 answers: these sleep in the real backoff (1 s, then 1.3 s), a few only
	slowScripts := [][]string{{"s202,fullc"}, {"s202,k5", "fullc"}, {"s202,full"}, {"s202,c2", "full"}, {"c2", "s202,full"}, {"s202,net", "c3", "s202,c4", "full"},
		{"s202,s202,full"}, {"s202,s404", "full"}, {"c1", "s202,s503", "c5"}, {"s202", "full"}}
	for i, sc := range slowScripts {
		d := dsts[(i+1)%len(dsts)]
		gen = append(gen, c35Case("cluster", d.kind, d.impl, d.pre, d.pos, blob, 0, "ok", sc))
	}

	// (b) seeded random: blob sizes incl. multi-buffer ones, more origins, longer scripts, odd statuses
	r := verifh.NewRand(verifh.Seed(), "c35")
	codes := []int{201, 202, 204, 400, 403, 404, 409, 416, 429, 499, 500, 501, 502, 503, 504, 599}
	nslow := 0
	for i := 0; i < verifh.Scale(1000, 40000); i++ {
		var bl []byte
		switch r.Intn(10) {
		case 0:
			bl = nil
		case 1:
			bl = r.Bytes(1)
		case 2:
			if i%50 == 2 {
				bl = r.Bytes(32*1024 + r.Intn(40000)) // more than one io.Copy buffer
			} else {
				bl = r.Bytes(r.Intn(3000))
			}
		default:
			bl = r.Bytes(1 + r.Intn(40))
		}
		entry := "cluster"
		if r.Chance(1, 3) {
			entry = "poll"
		}
		d := dk{"plain", r.Pick("buf", "writer"), nil, 0}
		if r.Chance(1, 2) {
			d = dk{"seek", r.Pick("mem", "mem", "os", "castore"), nil, 0}
		}
		if r.Chance(1, 3) {
			d.pre = r.Bytes(r.Intn(60))
			if d.kind == "seek" {
				d.pos = r.Intn(len(d.pre) + 1)
				if r.Chance(1, 8) {
					d.pos = len(d.pre) + r.Intn(5) // past the end: zero fill
				}
			}
		}
		n := r.Intn(6)
		var sc []string
		n202 := 0
		for j := 0; j < n; j++ {
			var toks []string
			for k, ln := 0, r.Intn(4); k < ln; k++ {
				switch r.Intn(8) {
				case 0:
					toks = append(toks, "net")
				case 1, 2:
					c := codes[r.Intn(len(codes))]
					if c == 202 && entry == "cluster" {
						if nslow >= verifh.Scale(12, 60) || n202 >= 2 {
							c = 503
						} else {
							n202++
						}
					}
					toks = append(toks, "s"+strconv.Itoa(c))
				case 3:
					if entry == "poll" {
						toks = append(toks, "s202")
					} else {
						toks = append(toks, "s502")
					}
				case 4, 5, 6:
					toks = append(toks, r.Pick("c", "k")+strconv.Itoa(r.Intn(len(bl)+2)))
				default:
					if r.Chance(1, 12) {
						toks = append(toks, "e"+strconv.Itoa(len(bl)+r.Intn(2)))
					} else {
						toks = append(toks, r.Pick("full", "fullc"))
					}
				}
			}
			sc = append(sc, verifh.List(toks))
		}
		resolve := "ok"
		if r.Chance(1, 40) {
			resolve = "err"
		}
		c := c35Case(entry, d.kind, d.impl, d.pre, d.pos, bl, r.Intn(4), resolve, sc)
		if c35Slow(c) > 0 {
			nslow++
		}
		gen = append(gen, c)
		tr.Count("random_cases_"+entry, 1)
		if i < 3 {
			tr.Sample(fmt.Sprint(c.Cfg[:3], " blob=", len(bl), " ", sc))
		}
	}
	c35RunAll(tr, gen, tmp)
}
