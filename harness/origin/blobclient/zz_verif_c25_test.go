//go:build verif

package blobclient_test

import (
	"errors"
	"fmt"
	"net"
	"strings"
	"testing"

	"github.com/uber/kraken/core"
	"github.com/uber/kraken/origin/blobclient"
	"github.com/uber/kraken/utils/httputil"
	"github.com/uber/kraken/utils/stringset"
	"github.com/uber/kraken/utils/verifh"
)

// C25 harness (2/3): blobclient.Locations (directly and through ClientResolver.Resolve) with a
// recording Provider.  One record per request:
//   bloc one locations <hosts> <host=o|e,…> => <ok|err|empty> <contacted in order>

type c25List struct{ hosts []string }

func (l c25List) Resolve() stringset.Set { return stringset.New(l.hosts...) }

type c25Client struct {
	blobclient.Client // nil: only Addr/Locations are used
	addr string
	p    *c25Provider
}

func (c *c25Client) Addr() string { return c.addr }

// c25DeadAddr is the address of a listener that was closed again: dialling it is refused, which the real HTTP
// client reports as a genuine httputil.NetworkError (the type cannot be constructed outside its package).
var c25DeadAddr = func() string {
	l, err := net.Listen("tcp", "127.0.0.1:0")
	if err != nil {
		panic(err)
	}
	addr := l.Addr().String()
	l.Close()
	return addr
}()

func (c *c25Client) Locations(d core.Digest) ([]string, error) {
	c.p.contacted = append(c.p.contacted, c.addr)
	if c.p.netErr[c.addr] {
		// an unreachable host: the real client against a closed port
		return blobclient.New(c25DeadAddr).Locations(d)
	}
	if st := c.p.status[c.addr]; st != 0 {
		// the origin answers with an HTTP error status (retryable: 429 / 502 / 503 / 504, or not: 404 / 500)
		return nil, httputil.StatusError{Method: "GET", URL: "http://" + c.addr + "/blobs/x/locations", Status: st}
	}
	if c.p.ok[c.addr] {
		if c.p.replicas != nil {
			return append([]string(nil), c.p.replicas...), nil
		}
		return []string{"loc-of-" + c.addr}, nil
	}
	return nil, errors.New("scripted failure")
}

func (c *c25Client) note() error {
	c.p.requests = append(c.p.requests, c.addr)
	if c.p.replicaOK[c.addr] {
		return nil
	}
	return errors.New("scripted replica failure")
}

func (c *c25Client) Stat(namespace string, d core.Digest) (*core.BlobInfo, error) {
	return core.NewBlobInfo(1), c.note()
}
func (c *c25Client) GetMetaInfo(namespace string, d core.Digest) (*core.MetaInfo, error) {
	return nil, c.note()
}
func (c *c25Client) OverwriteMetaInfo(d core.Digest, pieceLength int64) error { return c.note() }
func (c *c25Client) PrefetchBlob(namespace string, d core.Digest) error       { return c.note() }
func (c *c25Client) CheckReadiness() error                                     { return c.note() }

type c25Provider struct {
	status    map[string]int  // hosts that answer with this HTTP error status
	netErr    map[string]bool // hosts that are unreachable (network error) rather than answering with an error status
	ok        map[string]bool
	contacted []string
	replicas  []string        // what a successful Locations call answers (nil: "loc-of-<addr>")
	replicaOK map[string]bool // outcome of a request sent to a replica
	requests  []string        // replicas contacted by the request phase, in order
}

func (p *c25Provider) Provide(addr string) blobclient.Client { return &c25Client{addr: addr, p: p} }

func c25Exec(t *verifh.T, c verifh.Case) {
	d := core.DigestFixture()
	for _, op := range c.Ops {
		if len(op) == 7 && op[0] == "one" && op[1] == "request" {
			c25Request(t, d, op)
			continue
		}
		if len(op) != 4 || op[0] != "one" || (op[1] != "locations" && op[1] != "resolve") {
			continue
		}
		var hosts []string
		for _, h := range verifh.Unlist(op[2]) {
			hosts = append(hosts, h) // host tokens are used verbatim as addresses
		}
		p := &c25Provider{ok: map[string]bool{}, netErr: map[string]bool{}, status: map[string]int{}}
		for _, e := range verifh.Unlist(op[3]) {
			if i := strings.LastIndex(e, "="); i >= 0 && e[i+1:] == "o" {
				p.ok[e[:i]] = true
			} else if i >= 0 && e[i+1:] == "n" {
				p.netErr[e[:i]] = true
			} else if i >= 0 && (e[i+1:] == "r" || e[i+1:] == "f") {
				p.status[e[:i]] = c25Status(e[:i], e[i+1:])
			}
		}
		var locs []string
		var err error
		pan := verifh.Protect(func() {
			if op[1] == "resolve" {
				var cs []blobclient.Client
				cs, err = blobclient.NewClientResolver(p, c25List{hosts}).Resolve(d)
				for _, c := range cs {
					locs = append(locs, c.Addr())
				}
			} else {
				locs, err = blobclient.Locations(p, c25List{hosts}, d)
			}
		})
		if pan != "" {
			t.One(append([]string{"locations"}, op[2:]...), "panic", verifh.List(p.contacted))
			t.PropFail("panic", verifh.Str(pan))
			continue
		}
		res := "ok"
		switch {
		case err != nil && len(p.contacted) == 0:
			res = "empty"
		case err != nil:
			res = "err"
		case len(locs) != 1 || len(p.contacted) == 0 || locs[0] != "loc-of-"+p.contacted[len(p.contacted)-1]:
			res = "ok-but-wrong-locs:" + verifh.Str(fmt.Sprint(locs))
		}
		t.One(append([]string{"locations"}, op[2:]...), res, verifh.List(p.contacted))
	}
}

// c25Request drives one blobclient.ClusterClient method: location lookup on the cluster, then the replicas.
//   bloc one request <method> <hosts> <host=o|e,…> <replicas> <replica=o|e,…> => <ok|err|empty> <lookup hosts> <replicas contacted>
func c25Request(t *verifh.T, d core.Digest, op []string) {
	hosts := verifh.Unlist(op[3])
	p := &c25Provider{ok: map[string]bool{}, netErr: map[string]bool{}, status: map[string]int{}, replicaOK: map[string]bool{}, replicas: verifh.Unlist(op[5])}
	if p.replicas == nil {
		p.replicas = []string{}
	}
	for _, e := range verifh.Unlist(op[4]) {
		if i := strings.LastIndex(e, "="); i >= 0 && e[i+1:] == "o" {
			p.ok[e[:i]] = true
		} else if i >= 0 && e[i+1:] == "n" {
			p.netErr[e[:i]] = true
		} else if i >= 0 && (e[i+1:] == "r" || e[i+1:] == "f") {
			p.status[e[:i]] = c25Status(e[:i], e[i+1:])
		}
	}
	for _, e := range verifh.Unlist(op[6]) {
		if i := strings.LastIndex(e, "="); i >= 0 && e[i+1:] == "o" {
			p.replicaOK[e[:i]] = true
		}
	}
	cc := blobclient.NewClusterClient(blobclient.NewClientResolver(p, c25List{hosts}))
	var err error
	pan := verifh.Protect(func() {
		switch op[2] {
		case "Stat":
			_, err = cc.Stat("ns", d)
		case "GetMetaInfo":
			_, err = cc.GetMetaInfo("ns", d)
		case "OverwriteMetaInfo":
			err = cc.OverwriteMetaInfo(d, 4)
		case "PrefetchBlob":
			err = cc.PrefetchBlob("ns", d)
		case "CheckReadiness":
			err = cc.CheckReadiness()
		default:
			err = errors.New("unknown method")
		}
	})
	if pan != "" {
		t.One(op[1:], "panic", verifh.List(p.contacted), verifh.List(p.requests))
		t.PropFail("panic", verifh.Str(pan))
		return
	}
	res := "ok"
	if err != nil {
		res = "err"
		if len(p.contacted) == 0 {
			res = "empty"
		}
	}
	t.One(op[1:], res, verifh.List(p.contacted), verifh.List(p.requests))
}

func c25RequestCase(method string, k int, okMask uint64, nrep int, repMask uint64, fromHosts bool) verifh.Case {
	c := c25Case("locations", k, okMask)
	var reps, routs []string
	for i := 0; i < nrep; i++ {
		h := fmt.Sprintf("r%02d:80", i)
		if fromHosts && i < k {
			h = fmt.Sprintf("o%02d:80", i)
		}
		reps = append(reps, h)
		o := "e"
		if repMask>>uint(i)&1 == 1 {
			o = "o"
		}
		routs = append(routs, h+"="+o)
	}
	op := c.Ops[0]
	c.Ops[0] = []string{"one", "request", method, op[2], op[3], verifh.List(reps), verifh.List(routs)}
	return c
}

// c25Status: the HTTP status a host with outcome r (retryable) or f (not retryable) answers with; it varies with the host
func c25Status(host, kind string) int {
	n := 0
	for _, c := range host {
		n += int(c)
	}
	if kind == "r" {
		return []int{429, 502, 503, 504}[n%4]
	}
	return []int{404, 500}[n%2]
}

// c25Case3: every host's outcome is one of o (answers), e (error status), n (unreachable: network error)
func c25Case3(kind string, outs string, k int) verifh.Case {
	var hosts, os []string
	for i := 0; i < k; i++ {
		h := fmt.Sprintf("o%02d:80", i)
		hosts = append(hosts, h)
		os = append(os, h+"="+string(outs[i%len(outs)]))
	}
	return verifh.Case{Ops: [][]string{{"one", kind, verifh.List(hosts), verifh.List(os)}}}
}

func c25Case(kind string, k int, okMask uint64) verifh.Case {
	var hosts, outs []string
	for i := 0; i < k; i++ {
		h := fmt.Sprintf("o%02d:80", i)
		hosts = append(hosts, h)
		o := "e"
		if okMask>>uint(i)&1 == 1 {
			o = "o"
		}
		outs = append(outs, h+"="+o)
	}
	return verifh.Case{Ops: [][]string{{"one", kind, verifh.List(hosts), verifh.List(outs)}}}
}

func TestVerif_C25Locations(t *testing.T) {
	tr := verifh.Open("bloc")
	defer tr.Close()
	cases, replayOnly := verifh.InputCases("bloc")
	for _, c := range cases {
		c25Exec(tr, c)
		tr.Count("corpus_or_replay_cases", 1)
	}
	if replayOnly {
		return
	}
	// exhaustive: every failure pattern for 0..8 hosts (0..11 thorough)
	for k := 0; k <= verifh.Scale(8, 11); k++ {
		for m := uint64(0); m < 1<<uint(k); m++ {
			c25Exec(tr, c25Case("locations", k, m))
			tr.Count("exhaustive_patterns", 1)
		}
	}
	// genuine network errors: every pattern over {o, e, n} for up to 6 hosts (7 thorough), and all-unreachable /
	// unreachable-then-good lists of every size up to 40
	for k := 1; k <= verifh.Scale(6, 7); k++ {
		n := 1
		for i := 0; i < k; i++ {
			n *= 3
		}
		for m := 0; m < n; m++ {
			outs := ""
			for x, i := m, 0; i < k; i++ {
				outs += string("one"[x%3])
				x /= 3
			}
			c25Exec(tr, c25Case3("locations", outs, k))
			tr.Count("exhaustive_patterns_with_network_errors", 1)
		}
	}
	// HTTP error statuses, retryable (r) and not (f): every pattern over {o, r, f, n} for up to 5 hosts (6 thorough),
	// through Locations, ClientResolver.Resolve and a whole cluster-client request
	for k := 1; k <= verifh.Scale(5, 6); k++ {
		n := 1
		for i := 0; i < k; i++ {
			n *= 4
		}
		for m := 0; m < n; m++ {
			outs := ""
			for x, i := m, 0; i < k; i++ {
				outs += string("orfn"[x%4])
				x /= 4
			}
			c25Exec(tr, c25Case3("resolve", outs, k))
			if m%3 == 0 {
				c25Exec(tr, c25Case3("locations", outs, k))
			}
			tr.Count("exhaustive_patterns_with_http_statuses", 1)
		}
	}
	for k := 1; k <= 40; k++ {
		for _, outs := range []string{"r", "rrro", "rf", "nr", "rrrf"} {
			c25Exec(tr, c25Case3("resolve", outs, k))
			rc := c25RequestCase("Stat", k, 0, 2, 3, false)
			rc.Ops[0][4] = strings.ReplaceAll(rc.Ops[0][4], "=e", "="+string(outs[k%len(outs)]))
			c25Exec(tr, rc)
			tr.Count("size_sweep_http_statuses", 2)
		}
	}
	for k := 1; k <= 40; k++ {
		for _, outs := range []string{"n", "nnnno", "ne", "nnne", "en"} {
			c25Exec(tr, c25Case3("locations", outs, k))
			c25Exec(tr, c25Case3("resolve", outs, k))
			tr.Count("size_sweep_network_errors", 2)
		}
	}
	// all-failing / one-good / all-good for every size 0..40, each several times (map order varies)
	for k := 0; k <= 40; k++ {
		for rep := 0; rep < verifh.Scale(3, 20); rep++ {
			c25Exec(tr, c25Case("locations", k, 0))
			c25Exec(tr, c25Case("resolve", k, 0))
			c25Exec(tr, c25Case("locations", k, ^uint64(0)))
			if k > 0 {
				c25Exec(tr, c25Case("locations", k, 1<<uint(rep%k)))
			}
			tr.Count("size_sweep", 4)
		}
	}
	// blobclient.clusterClient request loops: every lookup pattern over <= 4 cluster hosts x every replica
	// pattern over 1..3 replicas, for each method (the replicas are hosts of their own, or cluster hosts)
	methods := []string{"Stat", "GetMetaInfo", "OverwriteMetaInfo", "PrefetchBlob", "CheckReadiness"}
	for _, m := range methods {
		for k := 0; k <= verifh.Scale(3, 4); k++ {
			for lm := uint64(0); lm < 1<<uint(k); lm++ {
				for nrep := 1; nrep <= 3; nrep++ {
					for rm := uint64(0); rm < 1<<uint(nrep); rm++ {
						c25Exec(tr, c25RequestCase(m, k, lm, nrep, rm, (lm+rm)%2 == 0))
						tr.Count("request_patterns", 1)
					}
				}
			}
		}
	}
	r := verifh.NewRand(verifh.Seed(), "c25bloc")
	for i := 0; i < verifh.Scale(1000, 50000); i++ {
		rc := c25RequestCase(methods[r.Intn(len(methods))], r.Intn(41), r.Uint64()&r.Uint64(), 1+r.Intn(5), r.Uint64(), r.Chance(1, 2))
		if r.Chance(1, 2) { // the cluster hosts that fail are unreachable instead of answering with an error status
			rc.Ops[0][4] = strings.ReplaceAll(rc.Ops[0][4], "=e", "=n")
		}
		c25Exec(tr, rc)
		tr.Count("request_random", 1)
	}
	for i := 0; i < verifh.Scale(3000, 200000); i++ {
		k := r.Intn(41)
		m := r.Uint64()
		switch r.Intn(3) {
		case 0:
			m &= r.Uint64() & r.Uint64() // mostly failing
		case 1:
			m |= r.Uint64()
		}
		kind := "locations"
		if r.Chance(1, 4) {
			kind = "resolve"
		}
		c25Exec(tr, c25Case(kind, k, m))
		tr.Count("random_cases", 1)
	}
}
