import Driver.Frame
import KrakenModel.Model.DiskCrash
/-
  Driver for C06 (machine `dk`).  Records:
    cfg reboot=<0|1> shard=<n> cap=<n> [mon=0] [crash=…]
    fs <d:path | f:path:xhex>…                 the case starts from this tree (process down)
    op <operation> => <result> <state…>         a store operation / `reboot mt=<keys>` = disk.NewStore
    plan => <call>…                             the syscalls strace saw for the previous op
    crash k=<n> ord=<files> mt=<keys> u=<keys> => fs=<tree> <recovered…> | <probes…> | <state…> | <restart…>
  The model replays the operation, compares its plan with the recorded one, and for every crash record
  applies the plan prefix to its own file system, compares the tree, runs `rebootRun` on it and
  compares everything the real constructor reported.  Monitors evaluate the property's predicates on
  the implementation's own reports (before the operation / after it / after the crash).
-/
open Driver KrakenModel.FS KrakenModel.DiskCrash

namespace C06

/-! ### tokens -/

def mdTok (m : MdId) : String := (if m.movable then "_vm" else "_vi") ++ toString m.id

def md? (t : String) : Option MdId :=
  match t.toList with
  | '_' :: 'v' :: 'm' :: ds => (String.ofList ds).toNat?.map (⟨·, true⟩)
  | '_' :: 'v' :: 'i' :: ds => (String.ofList ds).toNat?.map (⟨·, false⟩)
  | _ => none

def nameTok : Name → String
  | .data => "data"
  | .size => "_size"
  | .ban => "_eviction_banned"
  | .md m => mdTok m
  | .tmp m => mdTok m ++ "-tmp"

def name? (t : String) : Option Name :=
  if t = "data" then some .data
  else if t = "_size" then some .size
  else if t = "_eviction_banned" then some .ban
  else if t.endsWith "-tmp" then (md? (t.dropEnd 4).toString).map .tmp
  else (md? t).map .md

def pathTok (p : Path) : String := "/".intercalate p
def path? (t : String) : Path := (t.splitOn "/").filter (· ≠ "")

/-- `a/b/name` → directory and file name -/
def file? (t : String) : Option (Path × Name) :=
  let p := path? t
  match p.getLast? with
  | none => none
  | some l => (name? l).map (p.dropLast, ·)

def fileTok (p : Path) (n : Name) : String := pathTok (p ++ [nameTok n])

def callTok : Call Name → String
  | .mkdir p => s!"mkdir:{pathTok p}"
  | .creat p n => s!"creat:{fileTok p n}"
  | .openCreat p n => s!"opencreat:{fileTok p n}"
  | .openTrunc p n => s!"opentrunc:{fileTok p n}"
  | .truncate p n len => s!"trunc:{fileTok p n}:{len}"
  | .pwrite p n off b => s!"pwrite:{fileTok p n}:{off}:{bytesTok b}"
  | .rename p n q m => s!"rename:{fileTok p n}:{fileTok q m}"
  | .renameDir p q => s!"rename:{pathTok p}:{pathTok q}"
  | .unlink p n => s!"unlink:{fileTok p n}"
  | .rmdir p => s!"rmdir:{pathTok p}"
  | .link p n q m => s!"link:{fileTok p n}:{fileTok q m}"

def sortStr (xs : List String) : List String := xs.mergeSort (fun a b => !decide (b < a))

def treeToks (fs : FS Name) : List String :=
  sortStr (fs.dirs.flatMap fun (p, d) =>
    (if p = [] then [] else [s!"d:{pathTok p}"]) ++ d.map fun (n, b) => s!"f:{fileTok p n}:{bytesTok b}")

/-- build a tree from listing tokens (parents are created as needed, like the harness does) -/
def addDirs (fs : FS Name) (p : Path) : FS Name :=
  (List.range p.length).foldl (fun fs i =>
    let q := p.take (i + 1)
    if (fs.dir? q).isSome then fs else fs.setDir q []) fs

def tree? (toks : List String) : Option (FS Name) :=
  toks.foldlM (fun fs t =>
    match t.splitOn ":" with
    | ["d", p] => some (addDirs fs (path? p))
    | ["f", p, x] => do
      let (dir, n) ← file? p
      let b ← bytes? x
      let fs := addDirs fs dir
      let d ← fs.dir? dir
      pure (fs.setDir dir (aset d n b))
    | _ => none) ({} : FS Name)

def resTok : Res → String
  | .ok => "ok" | .notExist => "notexist" | .exist => "exist" | .noSpace => "nospace"
  | .mdMissing => "mdmissing" | .ioExist => "io-exist" | .ioNotExist => "io-notexist" | .panic => "panic"
  | .invalidKey => "invalidkey"

def harnessMds : List MdId := [⟨0, false⟩, ⟨0, true⟩, ⟨1, true⟩]

/-- what the harness's `observe` reports for the model state -/
def stateToks (cfg : Cfg) (m : Mem) (fs : FS Name) : List String :=
  let keys := sortStr (akeys m.blobs).eraseDups
  [s!"sz={m.size}", s!"q={listTok m.queue}"] ++ keys.filterMap fun k =>
    (aget m.blobs k).map fun b =>
      let dir := dirPath cfg b.complete k
      let data := match fs.file? dir .data with | some d => bytesTok d | none => "-"
      let mds := harnessMds.map fun md =>
        s!"{mdTok md}=" ++ (match fs.file? dir (.md md) with | some d => bytesTok d | none => "-")
      ":".intercalate ([s!"b={k}", if b.complete then "c" else "i", if b.banned then "b" else "u",
        toString b.size, data] ++ mds)

/-! ### operations -/

inductive LOp where
  | op (o : Op)
  | reboot (mt : List Key)

def op? (args : List String) : Option LOp :=
  match args with
  | ["create", k, n] => n.toNat?.map fun n => .op (.create k n)
  | ["write", k, off, x] => do pure (.op (.write k (← off.toNat?) (← bytes? x)))
  | ["mc", k] => some (.op (.markComplete k))
  | ["delete", k] => some (.op (.delete k))
  | ["ban", k] => some (.op (.ban k))
  | ["unban", k] => some (.op (.unban k))
  | ["setmd", k, m, x] => do pure (.op (.setMd k (← md? m) (← bytes? x)))
  | ["delmd", k, m] => do pure (.op (.delMd k (← md? m)))
  | ["wamd", k, m, off, x] => do pure (.op (.writeAtMd k (← md? m) (← off.toNat?) (← bytes? x)))
  | "reboot" :: rest => some (.reboot (list? ((kv? rest "mt").getD "-")))
  | _ => none

/-- the removal order a recorded plan used -/
def orderOf (plan : List String) : Order Name :=
  plan.foldl (fun o t =>
    match t.splitOn ":" with
    | ["unlink", p] => (match file? p with
        | some e => { o with files := o.files ++ [e] }
        | none => o)
    | ["rmdir", p] => { o with dirs := o.dirs ++ [path? p] }
    | _ => o) {}

def rebootTok : Except RebootErr Mem → String
  | .ok _ => "ok"
  | .error .noSpace => "err-nospace"
  | .error .panic => "panic"

/-! ### impl-side view of a blob (monitors) -/

structure IBlob where
  key : String
  complete : Bool
  banned : Bool
  size : Nat
  data : String
  mds : List String

def iblob? (t : String) : Option IBlob :=
  match t.splitOn ":" with
  | kk :: c :: b :: sz :: data :: mds =>
    if kk.startsWith "b=" then
      sz.toNat?.map fun n => ⟨(kk.drop 2).toString, c = "c", b = "b", n, data, mds⟩
    else none
  | _ => none

def iblobs (toks : List String) : List IBlob := toks.filterMap iblob?

def ifind (bs : List IBlob) (k : String) : Option IBlob := bs.find? (·.key = k)

/-- the precondition of the recovery theorems, computed from what the implementation left / reported:
what `NewStore` will count (the bytes of every complete blob, the reservation of every incomplete one when
incomplete blobs are restored) fits the capacity, so the start-up eviction has nothing to do. Above the
capacity `NewStore` may legitimately evict or refuse. -/
def fitsBlobs (cfg : Cfg) (bs : List IBlob) : Bool :=
  (bs.map fun b => if b.complete then (b.data.length - 1) / 2 else if cfg.reboot then b.size else 0).sum ≤ cfg.capacity

/-- the same on a tree (the crash tree the implementation's recorded calls produced) -/
def fitsTree (cfg : Cfg) (fs : FS Name) : Bool :=
  let fs0 := if cfg.reboot then fs else applyAll fs (rmPredicted cfg {} fs)
  ((rebootGood cfg fs0 (rebootEntries cfg fs0)).map (·.size)).sum ≤ cfg.capacity

def splitBar (toks : List String) : List (List String) :=
  toks.foldr (fun t acc => if t = "|" then [] :: acc else
    match acc with
    | h :: r => (t :: h) :: r
    | [] => [[t]]) [[]]

structure St where
  cfg : Cfg
  mon : Bool := true
  mem : Option Mem := some {}
  fs : FS Name := {}
  preMem : Option Mem := none
  preFs : FS Name := {}
  lastOp : Option LOp := none
  lastName : String := ""
  realPlan : List String := []
  planBad : Bool := false         -- the recorded plan differs from the model's: the crash records are only monitored
  planMsg : List String := []
  implCur : Option (List IBlob) := some []   -- what the implementation reported after the last operation
  monPre : Option (List IBlob) := none       -- … before / after the operation whose crash points are explored
  monPost : Option (List IBlob) := none

def init (toks : List String) : Option St :=
  let n (k : String) (d : Nat) := ((kv? toks k).bind (·.toNat?)).getD d
  some { cfg := ⟨n "reboot" 1 = 1, n "shard" 1, n "cap" 100⟩, mon := (kv? toks "mon") ≠ some "0" }

/-- the recursive removal the model predicts must be an admissible one (the theorems quantify over
admissible sequences only) -/
def rmOk (cfg : Cfg) (fs : FS Name) : Bool :=
  cfg.reboot || validRm fs (rmPredicted cfg {} fs)

def modelPlan (s : St) (o : Order Name) : List (Call Name) :=
  match s.lastOp with
  | some (.op op) => (match s.preMem with
      | some m => plan s.cfg o m s.preFs op
      | none => [])
  | some (.reboot mt) => (rebootRun s.cfg o mt (rmPredicted s.cfg o s.preFs) s.preFs).calls
  | none => []

/-- the model's answer to the harness's recovery observation on `fs` -/
def recoverToks (cfg : Cfg) (mt : List Key) (u : List Key) (fs : FS Name) : List String :=
  let r := rebootRun cfg {} mt (rmPredicted cfg {} fs) fs
  let fs1 := applyAll fs r.calls
  match r.res with
  | .error e => [rebootTok (.error e)]
  | .ok m =>
    let rec1 := "ok" :: stateToks cfg m fs1 ++ (if rmOk cfg fs then [] else ["model-rm-inadmissible"])
    -- probes: re-create and complete every key that is not complete
    let (m2, fs2, ptoks) := (sortStr u).foldl (fun (acc : Mem × FS Name × List String) k =>
      let (m, fs, out) := acc
      match aget m.blobs k with
      | some b =>
        if b.complete then (m, fs, out) else
          let r := exec cfg {} m fs (.markComplete k)
          (r.mem, applyAll fs r.calls, out ++ [s!"p={k}:mc-{resTok r.res}"])
      | none =>
        let r := exec cfg {} m fs (.create k 0)
        let fs' := applyAll fs r.calls
        if r.res ≠ .ok then (r.mem, fs', out ++ [s!"p={k}:create-{resTok r.res}"]) else
          let r2 := exec cfg {} r.mem fs' (.markComplete k)
          (r2.mem, applyAll fs' r2.calls, out ++ [s!"p={k}:create-ok/mc-{resTok r2.res}"])) (m, fs1, [])
    let r3 := rebootRun cfg {} mt (rmPredicted cfg {} fs2) fs2
    let fs3 := applyAll fs2 r3.calls
    let rec3 := match r3.res with
      | .ok m3 => "ok" :: stateToks cfg m3 fs3
      | .error e => [rebootTok (.error e)]
    rec1 ++ ["|"] ++ ptoks ++ ["|"] ++ stateToks cfg m2 fs2 ++ ["|"] ++ rec3

/-! ### monitors: the property's predicates on what the implementation reported -/

def inPair (x a b : String) : Bool := x = a || x = b

def sameView (r a b : IBlob) : Bool :=
  inPair r.data a.data b.data && (r.banned = a.banned || r.banned = b.banned) &&
  (r.mds.zip (a.mds.zip b.mds)).all (fun (x, y, z) => inPair x y z) && r.mds.length = a.mds.length

def monitors (cfg : Cfg) (pre post : List IBlob) (sections : List (List String)) (u : List String)
    (at_ : String) (opIsMC : String → Bool) : List String :=
  let pf (key detail : String) := s!"side=impl key={key}.{at_} {detail}"
  let recS := sections.getD 0 []
  let isHonest := match recS.head? with
    | some t => if t.startsWith "fs=" then (match tree? (list? (t.drop 3).toString) with
        | some fs => fitsTree cfg fs
        | none => false) else false
    | none => false
  match recS.drop 1 with            -- recS = fs=… :: (ok …) | err…
  | [] => []
  | "ok" :: recToks =>
    let rec_ := iblobs recToks
    let keys := ((pre.map (·.key)) ++ (post.map (·.key)) ++ (rec_.map (·.key)) ++ u).eraseDups
    let perKey := keys.flatMap fun k =>
      match ifind pre k, ifind post k, ifind rec_ k with
      | some a, some b, r =>
        if a.complete && b.complete then
          (match r with
           | none => if isHonest then [pf "complete-blob-lost" s!"{k} was complete before the crash and is not listed after reopening"] else []
           | some r =>
             if !r.complete then [pf "complete-blob-lost" s!"{k} was complete before the crash and is reported incomplete"]
             else if !sameView r a b then [pf "complete-blob-changed" s!"{k}: bytes, eviction ban or metadata differ from both the state before and after the operation"]
             else [])
        else if !a.complete && !b.complete then
          (match r with
           | none => if cfg.reboot && isHonest then [pf "incomplete-not-restored" s!"{k} (incomplete, reserved {a.size}) is not restored although RebootIncompleteBlobs is set"] else []
           | some r =>
             if r.complete then [pf "incomplete-reported-complete" s!"{k} was never completed"]
             else if !cfg.reboot then [pf "incomplete-not-dropped" s!"{k} is restored although RebootIncompleteBlobs is off"]
             else if r.size ≠ a.size then [pf "incomplete-wrong-size" s!"{k} reserved {a.size} restored with {r.size}"]
             else if !sameView r a b then [pf "incomplete-blob-changed" s!"{k}: bytes, eviction ban or metadata differ from both the state before and after the operation"]
             else [])
        else if !a.complete && b.complete then
          (match r with
           | none => if cfg.reboot && isHonest then [pf "incomplete-not-restored" s!"{k} vanished during MarkComplete"] else []
           | some r =>
             if r.complete && !opIsMC k then [pf "incomplete-reported-complete" s!"{k}"]
             else if !r.complete && !cfg.reboot then [pf "incomplete-not-dropped" s!"{k}"]
             else if !r.complete && r.size ≠ a.size then [pf "incomplete-wrong-size" s!"{k} reserved {a.size} restored with {r.size}"]
             else if !sameView r a b then [pf "complete-blob-changed" s!"{k} during MarkComplete"]
             else [])
        else []
      | some a, none, some r =>
        if !a.complete && r.complete then [pf "incomplete-reported-complete" s!"{k} was never completed"] else []
      | none, some b, some r =>
        if r.complete then [pf "incomplete-reported-complete" s!"{k} was being created"]
        else if !cfg.reboot then [pf "incomplete-not-dropped" s!"{k}"]
        else if r.size ≠ b.size then [pf "incomplete-wrong-size" s!"{k} reserved {b.size} restored with {r.size}"]
        else if r.data ≠ b.data then [pf "incomplete-blob-changed" s!"{k}"]
        else []
      | none, none, some _ => [pf "resurrected" s!"{k} was not in the store before the crash"]
      | _, _, _ => []
    let probes := (sections.getD 1 []).flatMap fun t =>
      match t.splitOn ":" with
      | [k, r] => if (r.splitOn "/").all (fun x => x.endsWith "-ok") then [] else
          [pf "recreate-failed" s!"{k.drop 2}: {r}"]
      | _ => []
    let st2 := iblobs (sections.getD 2 [])
    let restart := match sections.getD 3 [] with
      | "ok" :: toks =>
        let r4 := iblobs toks
        if !fitsBlobs cfg st2 then [] else
        st2.flatMap fun a =>
          if !a.complete then [] else
          match ifind r4 a.key with
          | none => [pf "restart-lost-complete-blob" s!"{a.key} (completed after the recovery) is gone after a clean restart"]
          | some r => if r.complete && r.data = a.data && r.banned = a.banned && r.mds = a.mds then [] else
              [pf "restart-changed-complete-blob" s!"{a.key} (completed after the recovery) differs after a clean restart"]
      | [] => []
      | e :: _ => if fitsBlobs cfg st2 then [pf "restart-failed" s!"clean restart after the recovery: {e}"] else []
    perKey ++ probes ++ restart
  | "err-nospace" :: _ =>
    if isHonest then [pf "reopen-failed" "NewStore: no space although what is on disk fits the capacity"] else []
  | e :: _ => if e.startsWith "planerr" then [] else [pf "reopen-failed" s!"NewStore fails after the crash: {e}"]

/-! ### the machine -/

def step (s : St) (kind : String) (args impl : List String) : Option (St × StepOut) :=
  match kind with
  | "fs" => do
    let fs ← tree? args
    pure ({ s with mem := none, fs := fs, implCur := none, monPre := none, monPost := none, lastOp := none }, { branch := "fs" })
  | "begin" => do
    -- `begin <operation> | <what the implementation returned>`: the operation whose crash points follow
    -- (it is applied to the model by the `op` record after them)
    let opToks := args.takeWhile (· ≠ "|")
    let implToks := (args.dropWhile (· ≠ "|")).drop 1
    let lop ← op? opToks
    let name := opToks.headD ""
    let live : Bool := match lop with
      | .reboot _ => implToks.headD "" == "ok"
      | .op _ => decide (implToks.length > 1)
    let lop' : Option LOp := match lop, s.mem with
      | .op _, none => none
      | l, _ => some l
    pure ({ s with preMem := s.mem, preFs := s.fs, lastOp := lop', lastName := name, realPlan := [], planBad := false,
                   planMsg := [],
                   -- a constructor run on a tree nobody reported on yet (an `fs` record): what the uninterrupted
                   -- run lists is what a run cut off anywhere, followed by another start, must list
                   monPre := (match lop, s.implCur with
                     | .reboot _, none => if live then some (iblobs (implToks.drop 1)) else none
                     | _, cur => cur),
                   monPost := if live then some (iblobs (implToks.drop 1)) else none }, { branch := "begin" })
  | "op" => do
    let lop ← op? args
    let name := args.headD ""
    match lop with
    | .reboot mt =>
      let r := rebootRun s.cfg {} mt (rmPredicted s.cfg {} s.fs) s.fs
      let fs' := applyAll s.fs r.calls
      let obs := (match r.res with
        | .ok m => "ok" :: stateToks s.cfg m fs'
        | .error e => [rebootTok (.error e)]) ++ (if rmOk s.cfg s.fs then [] else ["model-rm-inadmissible"])
      let st' := { s with mem := r.res.toOption, fs := fs',
                          implCur := if impl.headD "" = "ok" then some (iblobs (impl.drop 1)) else none }
      pure (st', { obs, branch := s!"reboot.{rebootTok r.res}" })
    | .op o =>
      match s.mem with
      | none => pure (s, { obs := ["down"], branch := "down" })
      | some m =>
        let r := exec s.cfg {} m s.fs o
        let fs' := applyAll s.fs r.calls
        let st' := { s with mem := some r.mem, fs := fs',
                            implCur := if impl.length > 1 then some (iblobs (impl.drop 1)) else none }
        pure (st', { obs := resTok r.res :: stateToks s.cfg r.mem fs', branch := s!"{name}.{resTok r.res}" })
  | "plan" =>
    -- the syscalls strace saw for the previous operation (compared at the `planchk` record)
    let o := orderOf args
    let p := modelPlan s o
    let okAll := allOk s.preFs p
    let mine := p.map callTok ++ (if okAll then [] else ["model-call-fails"])
    some ({ s with realPlan := args, planBad := mine ≠ args, planMsg := mine }, { branch := s!"plan.{s.lastName}.{p.length}" })
  | "planchk" =>
    some (s, { obs := if s.planBad then "plan-differs" :: "model:" :: s.planMsg ++ ("recorded:" :: s.realPlan) else [],
               branch := if s.planBad then "plan.differs" else "plan.same" })
  | "crash" => do
    let k ← (kv? args "k").bind (·.toNat?)
    let ordToks := list? ((kv? args "ord").getD "-")
    let mt := list? ((kv? args "mt").getD "-")
    let u := list? ((kv? args "u").getD "-")
    let real := orderOf s.realPlan
    let o : Order Name := { files := ordToks.filterMap file? ++ real.files, dirs := real.dirs }
    let p := modelPlan s o
    let fsK := applyPrefix k p s.preFs
    -- the tree: compared order-insensitively, echoed in the implementation's spelling when equal
    let implFs := (impl.headD "")
    let implTree := sortStr (list? ((implFs.drop 3).toString))
    let mine := treeToks fsK
    let fsTok := if implFs.startsWith "fs=" ∧ implTree = mine then implFs else s!"fs={listTok mine}"
    -- when the plans differ the model cannot follow the crash states: echo, and only monitor
    let obs := if s.planBad then impl else fsTok :: recoverToks s.cfg mt u fsK
    let at_ := s!"{s.lastName}.{(kv? args "at").getD "?"}"
    let isMC (key : String) : Bool := match s.lastOp with
      | some (.op (.markComplete k')) => k' = key
      | _ => false
    let pfs := match s.mon, s.monPre, s.monPost with
      | true, some pre, some post => monitors s.cfg pre post (splitBar impl) u at_ isMC
      | _, _, _ => []
    pure (s, { obs, branch := s!"crash.{s.lastName}", propfails := pfs })
  | _ => none

def machine : Machine := { σ := St, name := "dk", init := init, step := step }

end C06

def main (args : List String) : IO UInt32 := runMachines [C06.machine] args
