import Driver.Frame
import KrakenModel.Model.SchedWaiters
/- Driver for C17: replays scheduler schedules (download requests, torrent completion, completion
   notices, preemption ticks, removals, shutdown) on the model of the repaired code, compares what
   every operation sent to which waiter and the scheduler's bookkeeping after it (`st` records), and
   monitors exactly-once / success-implies-cached on what the implementation did. -/
open Driver KrakenModel.SchedWaiters

namespace C17

structure St where
  m : State := {}
  sentCount : Nat → Nat := fun _ => 0     -- impl side: results seen per waiter
  nreq : Nat := 0                          -- impl side: requests made so far
  wtor : List (Nat × Nat) := []            -- request → torrent
  evicted : List Nat := []                 -- torrents whose blob was evicted since it last became complete (impl obs)
  staleW : List Nat := []                  -- split requests created while the impl reported the blob cached
  implCa : String := ""                    -- the implementation's last `ca=` flags
  parked : List Nat := []                  -- torrents with a piece writer parked before the commit (impl obs)

def ntor : Nat := 2

def hash? (t : String) : Option Nat :=
  match t.toList with
  | 'h' :: ds => (String.ofList ds).toNat?
  | _ => none

def pref? (c : Char) (t : String) : Option Nat :=
  match t.toList with
  | c' :: ds => if c' = c then (String.ofList ds).toNat? else none
  | _ => none

def resTok : Res → String
  | .ok => "ok" | .timeout => "timeout" | .removed => "removed" | .stopped => "stopped" | .notFound => "notfound"

/-- what the step from `a` to `b` sent, in waiter order -/
def sendsOf (a b : State) : List String :=
  (List.range b.nextW).flatMap fun w =>
    ((b.results w).drop (a.results w).length).map fun x => s!"w{w}:{resTok x.res}:{boolTok x.cachedThen}"

def sendsTok (a b : State) : String := "sends=" ++ listTok (sendsOf a b)

def insertSorted (x : String) : List String → List String
  | [] => [x]
  | y :: ys => if x < y then x :: y :: ys else y :: insertSorted x ys

def sortStrs (xs : List String) : List String := xs.foldl (fun acc x => insertSorted x acc) []

def stObs (s : State) : List String :=
  let tors := (List.range ntor).map fun h =>
    match s.ctrl h with
    | none => s!"h{h}=-"
    | some c =>
      let ws := if c.waiters.isEmpty then "-" else "+".intercalate (c.waiters.map fun w => s!"w{w}")
      s!"h{h}=g{c.gen}:c{boolTok c.complete}:{ws}"
  tors ++ ["n=" ++ listTok (sortStrs (s.notices.map fun (h, g) => s!"h{h}g{g}")),
           "stopped=" ++ boolTok s.stopped,
           "ca=" ++ String.join ((List.range ntor).map fun h => boolTok (s.cached h)),
           "pc=" ++ listTok (((List.range s.nextW).filter fun w => (s.snap w).isSome).map fun w => s!"w{w}")]

/-- property predicates on the implementation's sends of one operation -/
def monitorSends (s : St) (opKind : String) (impl : List String) : St × List String :=
  let toks := match kv? impl "sends" with | some t => list? t | none => []
  toks.foldl (fun (acc : St × List String) t =>
    match t.splitOn ":" with
    | [wt, r, ca] =>
      match pref? 'w' wt with
      | some w =>
        let n := acc.1.sentCount w + 1
        let st := { acc.1 with sentCount := fun k => if k = w then n else acc.1.sentCount k }
        -- each known key is tied to its own history: stale torrent object = the application of the event of a split
        -- request whose CreateTorrent saw the blob cached; eviction = the waiters of a completed torrent answered (completion notice, or idle removal of the complete torrent) after the eviction
        let key := if w ∈ acc.1.staleW ∧ opKind = "apply" then "success-from-stale-torrent-object"
          else if (opKind = "notice" ∨ opKind = "tick") ∧ (match acc.1.wtor.find? (·.1 = w) with | some (_, h) => decide (h ∈ acc.1.evicted) | none => false) = true then "success-after-eviction"
          else "success-without-blob"
        let pf := (if n = 2 then [s!"side=impl key=waiter-answered-twice {wt} got a second result ({r})"] else []) ++
                  (if r = "ok" ∧ ca = "0" then [s!"side=impl key={key} {wt} was told ok while the blob is not in the cache"] else [])
        (st, acc.2 ++ pf)
      | none => acc
    | _ => acc) (s, [])

def monitorFin (impl : List String) : List String :=
  let toks := match kv? impl "answered" with | some t => list? t | none => []
  toks.filterMap fun t =>
    match t.splitOn ":" with
    | [wt, "0"] => some s!"side=impl key=waiter-never-answered {wt} has no result after the scheduler was stopped"
    | _ => none

def step (s : St) (kind : String) (args impl : List String) : Option (St × StepOut) :=
  if kind = "st" then
    -- "at rest ⇒ every request has exactly one result", judged on the implementation's own status: no event
    -- waits (pc=-), and it is stopped or no notice is in flight (n=-) and every control it holds is complete
    let g (k : String) := (kv? impl k).getD "-"
    let ctrlsDone := (List.range ntor).all fun h =>
      let v := g s!"h{h}"
      v = "-" ∨ (v.splitOn ":").getD 1 "" = "c1"
    let rest := g "pc" = "-" ∧ (g "stopped" = "1" ∨ (g "n" = "-" ∧ ctrlsDone))
    let pf := if rest ∧ (kv? impl "stopped").isSome then
        ((List.range s.nreq).filter fun w => s.sentCount w = 0).map fun w =>
          s!"side=impl key=waiter-unanswered-at-rest w{w} has no result although the scheduler is at rest"
      else []
    -- the completion notice of a dispatcher is enabled only by the commit of its blob: a notice in flight for the
    -- dispatcher of a control the implementation itself reports as not complete (`hN=gK:c0:…`, `n=…hNgK…`)
    let early := (List.range ntor).filterMap fun h =>
      match (g s!"h{h}").splitOn ":" with
      | gt :: "c0" :: _ => if (list? (g "n")).contains s!"h{h}{gt}" then
          some s!"side=impl key=completion-notice-before-commit h{h}: the completion notice of dispatcher {gt} is in flight while the torrent is not complete (blob not committed to the cache)"
        else none
      | _ => none
    some ({ s with implCa := g "ca" }, { obs := stObs s.m, branch := if rest then "st.rest" else "st.busy", propfails := pf ++ early })
  else if kind = "fin" then
    let ans := (List.range s.m.nextW).map fun w => s!"w{w}:{(s.m.results w).length}"
    some (s, { obs := ["answered=" ++ listTok ans], branch := "fin", propfails := monitorFin impl })
  else if kind ≠ "op" then none else
  -- API-level ghost for the two known findings (from the operations and the implementation's answers only)
  let s := match args with
    | [rq, ht] =>
      match hash? ht with
      | some h =>
        if rq = "req" ∨ rq = "creq" then
          let wasCached := (s.implCa.toList.getD h '0') = '1'
          { s with wtor := (s.nreq, h) :: s.wtor, staleW := if rq = "creq" ∧ wasCached then s.nreq :: s.staleW else s.staleW }
        else if rq = "evict" ∧ impl.head? = some "evicted" then { s with evicted := h :: s.evicted }
        else if (rq = "finish" ∨ rq = "rfinish") ∧ impl.head? = some "ok" then { s with evicted := s.evicted.filter (· ≠ h) }
        else s
      | none => s
    | _ => s
  -- applying a request's event tells success to that request only (every other waiter it answers is one of a
  -- torrent it removes: never "ok"); success for waiting requests comes from completion notices alone
  let own : Option Nat := match args with
    | ["req", _] => some s.nreq
    | ["apply", wt] => pref? 'w' wt
    | _ => none
  let foreignOk := match own with
    | none => []
    | some k => ((match kv? impl "sends" with | some t => list? t | none => []).filterMap fun (t : String) =>
        match t.splitOn ":" with
        | [wt, "ok", _] => if pref? 'w' wt = some k then none else
            some s!"side=impl key=success-told-by-another-request {wt} was told ok while the event of w{k} was applied"
        | _ => none)
  let (s, pfs) := monitorSends s (args.headD "") impl
  let pfs := pfs ++ foreignOk
  let fin (m' : State) (first : List String) (br : String) : Option (St × StepOut) :=
    some ({ s with m := m' }, { obs := first ++ [sendsTok s.m m'], branch := br, propfails := pfs })
  match args with
  | ["adv", d] => do
    let _ ← d.toNat?
    fin s.m [] "adv"
  | [rq, "hx"] =>
    if rq ≠ "req" ∧ rq ≠ "creq" then none else
    let s := { s with nreq := s.nreq + 1 }
    -- Download of a blob the tracker does not know must return ErrTorrentNotFound (the agent's HTTP handler maps
    -- exactly this value to 404)
    let want := s!"w{s.m.nextW}:notfound:0"
    let pfs := match kv? impl "sends" with
      | some t => if t = want then pfs else pfs ++ [s!"side=impl key=missing-blob-not-reported-notfound w{s.m.nextW} got {t}"]
      | none => pfs
    let fin := fun (m' : State) (first : List String) (br : String) =>
      (some ({ s with m := m' }, { obs := first ++ [sendsTok s.m m'], branch := br, propfails := pfs }) : Option (St × StepOut))
    fin (KrakenModel.SchedWaiters.step true s.m .requestMissing) [s!"w{s.m.nextW}"] "req.missing"
  | ["req", ht] => do
    let h ← hash? ht
    let br := if s.m.stopped then "req.stopped" else match s.m.ctrl h with
      | some c => if c.complete && !s.m.cached h then "req.evicted" else if c.complete then "req.complete" else "req.join"
      | none => if s.m.cached h then "req.cached" else "req.new"
    let s := { s with nreq := s.nreq + 1 }
    some ({ s with m := KrakenModel.SchedWaiters.step true s.m (.request h) },
          { obs := [s!"w{s.m.nextW}", sendsTok s.m (KrakenModel.SchedWaiters.step true s.m (.request h))], branch := br, propfails := pfs })
  | ["creq", ht] => do
    let h ← hash? ht
    let s := { s with nreq := s.nreq + 1 }
    let m' := KrakenModel.SchedWaiters.step true s.m (.create h)
    some ({ s with m := m' }, { obs := [s!"w{s.m.nextW}", sendsTok s.m m'], branch := if s.m.stopped then "creq.stopped" else "creq", propfails := pfs })
  | ["apply", wt] => do
    let w ← pref? 'w' wt
    let r := match s.m.snap w with
      | none => "none"
      | some _ => if s.m.stopped then "refused" else "applied"
    let br := match s.m.snap w with
      | none => "apply.none"
      | some (h, sc) => if s.m.stopped then "apply.refused" else match s.m.ctrl h with
        | some c => if c.complete && !sc then "apply.evicted" else if c.complete then "apply.complete" else "apply.join"
        | none => if sc && !s.m.cached h then "apply.stale-complete" else if sc then "apply.cached" else "apply.new"
    fin (KrakenModel.SchedWaiters.step true s.m (.apply w)) [r] br
  | ["evict", ht] => do
    let h ← hash? ht
    let r := if s.m.cached h then "evicted" else "none"
    let br := if s.m.cached h then (match s.m.ctrl h with | some c => if c.waiters.isEmpty then "evict.held" else "evict.window" | none => "evict.free") else "evict.none"
    fin (KrakenModel.SchedWaiters.step true s.m (.evict h)) [r] br
  | ["inc", ht] => do
    let h ← hash? ht
    if s.m.stopped then fin s.m ["stopped"] "inc.stopped" else
    fin (KrakenModel.SchedWaiters.step true s.m (.incoming h)) ["active"] (if (s.m.ctrl h).isSome then "inc.existing" else "inc.add")
  | ["pfinish", ht] => do
    -- the last two pieces are being written concurrently, one writer parked before it counts its piece: nothing is
    -- committed, so nothing changes in the model (whether the writer could be parked is the implementation's report)
    let h ← hash? ht
    let tok := impl.headD "none"
    let s := if tok = "parked" then { s with parked := h :: s.parked } else s
    some (s, { obs := [tok, sendsTok s.m s.m], branch := "pfinish." ++ tok, propfails := pfs })
  | ["rfinish", ht] => do
    -- the parked writer goes on and commits: this is the model's `finish`
    let h ← hash? ht
    if h ∉ s.parked then some (s, { obs := ["none", sendsTok s.m s.m], branch := "rfinish.none", propfails := pfs }) else
    let s := { s with parked := s.parked.filter (· ≠ h) }
    let r := match s.m.ctrl h with
      | some c => if c.complete then "dup" else if !s.m.dl h then "invalid" else "ok"
      | none => "absent"
    some ({ s with m := KrakenModel.SchedWaiters.step true s.m (.finish h) },
          { obs := [r, sendsTok s.m (KrakenModel.SchedWaiters.step true s.m (.finish h))], branch := "rfinish." ++ r, propfails := pfs })
  | ["finish", ht] => do
    let h ← hash? ht
    let r := match s.m.ctrl h with
      | some c => if c.complete then "dup" else if !s.m.dl h then "invalid" else "ok"
      | none => "absent"
    fin (KrakenModel.SchedWaiters.step true s.m (.finish h)) [r] ("finish." ++ r ++ (if s.m.stopped then ".stopped" else ""))
  | ["notice", ht, gt] => do
    let h ← hash? ht
    let g ← pref? 'g' gt
    let r := if (h, g) ∈ s.m.notices then (if s.m.stopped then "dropped" else "applied") else "none"
    let br := if r = "applied" then
        (match s.m.ctrl h with
         | some c => if c.gen = g then (if c.waiters.isEmpty then "notice.own.nowaiters" else "notice.own.waiters") else "notice.stale"
         | none => "notice.orphan")
      else "notice." ++ r
    fin (KrakenModel.SchedWaiters.step true s.m (.notice h g)) [r] br
  | ["tick"] =>
    if s.m.stopped then fin s.m ["stopped"] "tick.stopped" else
    -- the implementation's choice (which torrents its idle tests selected), validated for admissibility
    let chosen := match kv? impl "dropped" with | some t => (list? t).filterMap hash? | none => []
    let adm := chosen.filter fun h => (s.m.ctrl h).isSome
    let m' := adm.foldl (fun m h => KrakenModel.SchedWaiters.step true m (.timeout h)) s.m
    let kinds := adm.map fun h => match s.m.ctrl h with
      | some c => (if c.complete then "S" else "L") ++ (if c.waiters.isEmpty then "" else "w")
      | none => "?"
    fin m' ["dropped=" ++ listTok (adm.map fun h => s!"h{h}")] ("tick." ++ "".intercalate kinds)
  | ["rm", ht] => do
    let h ← hash? ht
    let br := if s.m.stopped then "rm.stopped" else match s.m.ctrl h with
      | some c => (if c.complete then "rm.complete" else "rm.incomplete") ++ (if c.waiters.isEmpty then "" else ".waiters")
      | none => "rm.absent"
    fin (KrakenModel.SchedWaiters.step true s.m (.rm h)) [if s.m.stopped then "stopped" else "ok"] br
  | ["stop"] =>
    fin (KrakenModel.SchedWaiters.step true s.m .shutdown) [if s.m.stopped then "stopped" else "ok"]
      (if s.m.stopped then "stop.again" else "stop")
  | _ => none

def machine : Machine := { σ := St, name := "sched", init := fun _ => some {}, step := step }

end C17

/- machine `schedlive`: started schedulers (real event loop); one-line cases: how many Download calls of each
   kind were made; every one must return, with the class of result the statement allows for its kind. -/
namespace C17L
def step (_ : Unit) (kind : String) (args impl : List String) : Option (Unit × StepOut) :=
  if kind ≠ "one" then none else do
  let n (k : String) : Option Nat := (kv? args k).bind (·.toNat?)
  let known ← n "known"
  let missing ← n "missing"
  let cached ← n "cached"
  let after ← n "after"
  let cls := [("after:stopped", after), ("cached:ok", cached), ("known:stopped", known), ("missing:notfound", missing)].filter (·.2 > 0)
  let pf := match kv? impl "hung" with
    | some "0" => []
    | some k => [s!"side=impl key=download-never-returned {k} Download calls did not return after Stop"]
    | none => []
  pure ((), { obs := ["hung=0", listTok (cls.map fun (k, v) => s!"{k}={v}")], branch := "live", propfails := pf })
def machine : Machine := { σ := Unit, name := "schedlive", init := fun _ => some (), step := step }
end C17L

def main (args : List String) : IO UInt32 := runMachines [C17.machine, C17L.machine] args
