import Driver.Frame
import KrakenModel.Model.SchedWaiters
/- Driver for C17: replays scheduler schedules (download requests, torrent completion, completion
   notices, preemption ticks, removals, shutdown) on the model of the repaired code, compares what
   every operation sent to which waiter and the scheduler's bookkeeping after it (`st` records), and
   monitors exactly-once / success-implies-cached on what the implementation did. -/
open Driver KrakenModel.SchedWaiters

namespace C17

structure St where
  m : State := {}
  sentCount : Nat → Nat := fun _ => 0     -- impl side: results seen per waiter

def ntor : Nat := 2

def hash? (t : String) : Option Nat :=
  match t.toList with
  | 'h' :: ds => (String.ofList ds).toNat?
  | _ => none

def pref? (c : Char) (t : String) : Option Nat :=
  match t.toList with
  | c' :: ds => if c' = c then (String.ofList ds).toNat? else none
  | _ => none

def resTok : Res → String
  | .ok => "ok" | .timeout => "timeout" | .removed => "removed" | .stopped => "stopped" | .notFound => "notfound"

/-- what the step from `a` to `b` sent, in waiter order -/
def sendsOf (a b : State) : List String :=
  (List.range b.nextW).flatMap fun w =>
    ((b.results w).drop (a.results w).length).map fun x => s!"w{w}:{resTok x.res}:{boolTok x.cachedThen}"

def sendsTok (a b : State) : String := "sends=" ++ listTok (sendsOf a b)

def insertSorted (x : String) : List String → List String
  | [] => [x]
  | y :: ys => if x < y then x :: y :: ys else y :: insertSorted x ys

def sortStrs (xs : List String) : List String := xs.foldl (fun acc x => insertSorted x acc) []

def stObs (s : State) : List String :=
  let tors := (List.range ntor).map fun h =>
    match s.ctrl h with
    | none => s!"h{h}=-"
    | some c =>
      let ws := if c.waiters.isEmpty then "-" else "+".intercalate (c.waiters.map fun w => s!"w{w}")
      s!"h{h}=g{c.gen}:c{boolTok c.complete}:{ws}"
  tors ++ ["n=" ++ listTok (sortStrs (s.notices.map fun (h, g) => s!"h{h}g{g}")),
           "stopped=" ++ boolTok s.stopped,
           "ca=" ++ String.join ((List.range ntor).map fun h => boolTok (s.cached h))]

/-- property predicates on the implementation's sends of one operation -/
def monitorSends (s : St) (impl : List String) : St × List String :=
  let toks := match kv? impl "sends" with | some t => list? t | none => []
  toks.foldl (fun (acc : St × List String) t =>
    match t.splitOn ":" with
    | [wt, r, ca] =>
      match pref? 'w' wt with
      | some w =>
        let n := acc.1.sentCount w + 1
        let st := { acc.1 with sentCount := fun k => if k = w then n else acc.1.sentCount k }
        let pf := (if n = 2 then [s!"side=impl key=waiter-answered-twice {wt} got a second result ({r})"] else []) ++
                  (if r = "ok" ∧ ca = "0" then [s!"side=impl key=success-without-blob {wt} was told ok while the blob is not in the cache"] else [])
        (st, acc.2 ++ pf)
      | none => acc
    | _ => acc) (s, [])

def monitorFin (impl : List String) : List String :=
  let toks := match kv? impl "answered" with | some t => list? t | none => []
  toks.filterMap fun t =>
    match t.splitOn ":" with
    | [wt, "0"] => some s!"side=impl key=waiter-never-answered {wt} has no result after the scheduler was stopped"
    | _ => none

def step (s : St) (kind : String) (args impl : List String) : Option (St × StepOut) :=
  if kind = "st" then
    some (s, { obs := stObs s.m, branch := "st" })
  else if kind = "fin" then
    let ans := (List.range s.m.nextW).map fun w => s!"w{w}:{(s.m.results w).length}"
    some (s, { obs := ["answered=" ++ listTok ans], branch := "fin", propfails := monitorFin impl })
  else if kind ≠ "op" then none else
  let (s, pfs) := monitorSends s impl
  let fin (m' : State) (first : List String) (br : String) : Option (St × StepOut) :=
    some ({ s with m := m' }, { obs := first ++ [sendsTok s.m m'], branch := br, propfails := pfs })
  match args with
  | ["adv", d] => do
    let _ ← d.toNat?
    fin s.m [] "adv"
  | ["req", "hx"] =>
    fin (KrakenModel.SchedWaiters.step true s.m .requestMissing) [s!"w{s.m.nextW}"] "req.missing"
  | ["req", ht] => do
    let h ← hash? ht
    let br := if s.m.stopped then "req.stopped" else match s.m.ctrl h with
      | some c => if c.complete then "req.complete" else "req.join"
      | none => if s.m.cached h then "req.cached" else "req.new"
    fin (KrakenModel.SchedWaiters.step true s.m (.request h)) [s!"w{s.m.nextW}"] br
  | ["finish", ht] => do
    let h ← hash? ht
    let r := match s.m.ctrl h with
      | some c => if c.complete then "dup" else "ok"
      | none => "absent"
    fin (KrakenModel.SchedWaiters.step true s.m (.finish h)) [r] ("finish." ++ r ++ (if s.m.stopped then ".stopped" else ""))
  | ["notice", ht, gt] => do
    let h ← hash? ht
    let g ← pref? 'g' gt
    let r := if (h, g) ∈ s.m.notices then (if s.m.stopped then "dropped" else "applied") else "none"
    let br := if r = "applied" then
        (match s.m.ctrl h with
         | some c => if c.gen = g then (if c.waiters.isEmpty then "notice.own.nowaiters" else "notice.own.waiters") else "notice.stale"
         | none => "notice.orphan")
      else "notice." ++ r
    fin (KrakenModel.SchedWaiters.step true s.m (.notice h g)) [r] br
  | ["tick"] =>
    if s.m.stopped then fin s.m ["stopped"] "tick.stopped" else
    -- the implementation's choice (which torrents its idle tests selected), validated for admissibility
    let chosen := match kv? impl "dropped" with | some t => (list? t).filterMap hash? | none => []
    let adm := chosen.filter fun h => (s.m.ctrl h).isSome
    let m' := adm.foldl (fun m h => KrakenModel.SchedWaiters.step true m (.timeout h)) s.m
    let kinds := adm.map fun h => match s.m.ctrl h with
      | some c => (if c.complete then "S" else "L") ++ (if c.waiters.isEmpty then "" else "w")
      | none => "?"
    fin m' ["dropped=" ++ listTok (adm.map fun h => s!"h{h}")] ("tick." ++ "".intercalate kinds)
  | ["rm", ht] => do
    let h ← hash? ht
    let br := if s.m.stopped then "rm.stopped" else match s.m.ctrl h with
      | some c => (if c.complete then "rm.complete" else "rm.incomplete") ++ (if c.waiters.isEmpty then "" else ".waiters")
      | none => "rm.absent"
    fin (KrakenModel.SchedWaiters.step true s.m (.rm h)) [if s.m.stopped then "stopped" else "ok"] br
  | ["stop"] =>
    fin (KrakenModel.SchedWaiters.step true s.m .shutdown) [if s.m.stopped then "stopped" else "ok"]
      (if s.m.stopped then "stop.again" else "stop")
  | _ => none

def machine : Machine := { σ := St, name := "sched", init := fun _ => some {}, step := step }

end C17

def main (args : List String) : IO UInt32 := runMachines [C17.machine] args
