import Driver.Frame
import KrakenModel.Model.PeerStore
/- Driver for C27: replays peer-store transcripts on `Model.PeerStore` and monitors the property
   predicates on what the implementation returned.

   cfg ttl=<seconds>
   op upd h<i> p<j> ip<k> <port> <0|1>      => ok        UpdatePeer (run to completion)
   op get h<i> <n>                          => <peers>   GetPeers; peers = sorted `p:ip:port:origin:complete` list
   op adv <seconds>                         => ok
   op ce | cg                               => ok        a whole cleanup pass, nothing interleaved
   op cebegin / scan h<i> / sweep h<i> / ceend => ok     cleanupExpiredPeerEntries with the harness
        pausing it between the read-locked scan and the write-locked sweep of group h<i>; the records
        between `scan` and `sweep` are the operations that ran in the gap. -/
open Driver KrakenModel.PeerStore

namespace C27

/-- monitor state: API-level ghost only (latest announcement and its time per torrent and peer) -/
structure Mon where
  now : Nat := 0
  anns : List ((Nat × Nat) × (Info × Nat)) := []

structure St where
  m : State
  mon : Mon := {}
  scans : Nat := 0        -- scan records seen in the current split pass
  gapOps : Nat := 0       -- other records seen since `cebegin`

def idx? (pfx : Char) (t : String) : Option Nat :=
  match t.toList with
  | c :: ds => if c = pfx ∧ !ds.isEmpty then (String.ofList ds).toNat? else none
  | _ => none

def ipIdx? (t : String) : Option Nat :=
  match t.toList with
  | 'i' :: 'p' :: ds => (String.ofList ds).toNat?
  | _ => none

def infoTok (x : Info) : String :=
  s!"p{x.id}:ip{x.ip}:{x.port}:{boolTok x.origin}:{boolTok x.complete}"

def info? (t : String) : Option Info :=
  match t.splitOn ":" with
  | [p, ip, port, o, c] => do
    let id ← idx? 'p' p
    let ipn ← ipIdx? ip
    let pt ← port.toNat?
    let ob ← bool? o
    let cb ← bool? c
    pure ⟨id, ipn, pt, ob, cb⟩
  | _ => none

def runActs (s : State) (acts : List Act) : State := acts.foldl step s

def groupOf (s : State) (h : Nat) : Option (Nat × Group) :=
  match alook s.index h with
  | some gid => (s.heap[gid]?).map (fun g => (gid, g))
  | none => none

/-- a whole entries-cleanup of the groups in `gids`, each scanned and swept at the current instant -/
def sweepAll (s : State) (gids : List Nat) : State :=
  gids.foldl (fun s gid => runActs s (ceGroupSeq s gid)) s

def ceTodo (s : State) : List Nat := match s.ce with | some c => c.todo | none => []

def cgAll (s : State) : State :=
  let s1 := step s .cgBegin
  let s2 := (s1.index.map (·.1)).foldl (fun s h => step (step s (.cgCheck h)) .cgDelete) s1
  step s2 .cgEnd

def ok (s : St) (br : String) (pf : List String := []) : Option (St × StepOut) :=
  some (s, { obs := ["ok"], branch := br, propfails := pf })

def monGet (mon : Mon) (ttl : Nat) (h : Nat) (n : Int) (r : List Info) : List String :=
  let ids := r.map (·.id)
  let known := mon.anns.filter (fun kv => kv.1.1 = h)
  let knownIds := (known.map (·.1.2)).eraseDups
  (if (r.length : Int) > max n 0 then [s!"side=impl key=too-many get h{h} {n} returned {r.length} peers"] else []) ++
  (if ids.eraseDups.length ≠ ids.length then [s!"side=impl key=duplicate-peer get h{h} returned a peer twice: {r.map infoTok}"] else []) ++
  (r.filterMap fun x =>
    match alook mon.anns (h, x.id) with
    | some (a, _) => if a = x then none else
        some s!"side=impl key=stale-announcement get h{h} returned {infoTok x}, latest announcement is {infoTok a}"
    | none => some s!"side=impl key=unknown-peer get h{h} returned {infoTok x} which never announced") ++
  (if (knownIds.length : Int) ≤ n then
    knownIds.filterMap fun p =>
      match alook mon.anns (h, p) with
      | some (a, t) => if mon.now < t + ttl ∧ p ∉ ids then
          some s!"side=impl key=fresh-forgotten get h{h} {n} misses {infoTok a} announced at {t}, now {mon.now}, ttl {ttl}"
        else none
      | none => none
   else [])

def step (s : St) (kind : String) (args impl : List String) : Option (St × StepOut) :=
  if kind ≠ "op" then none else
  let inGap := s.m.ce.isSome
  let s := if inGap then { s with gapOps := s.gapOps + 1 } else s
  match args with
  | ["upd", ht, pt, ipt, portt, ct] => do
    let h ← idx? 'h' ht
    let id ← idx? 'p' pt
    let ip ← ipIdx? ipt
    let port ← portt.toNat?
    let c ← bool? ct
    let a : Ann := ⟨ip, port, c⟩
    let br := match groupOf s.m h with
      | none => "upd.new-group"
      | some (_, g) => if id ∈ g.keys then "upd.refresh" else "upd.new-peer"
    let br := if inGap then br ++ ".in-gap" else br
    let m := runActs s.m (updateSeq 0 h id a)
    let mon := { s.mon with anns := ((h, id), ((⟨id, ip, port, false, c⟩ : Info), s.mon.now)) :: s.mon.anns }
    ok { s with m := m, mon := mon } br
  | ["race2", hat, pat, ipat, portat, cat, hbt, pbt, ipbt, portbt, cbt, dt] => do
    -- two announcements A and B with the clock advancing by d between A's clock read and B's:
    -- `a-first`: A was applied (at its clock value) before B could start; `b-first`: B overtook A
    let ha ← idx? 'h' hat
    let pa ← idx? 'p' pat
    let ipa ← ipIdx? ipat
    let porta ← portat.toNat?
    let ca ← bool? cat
    let hb ← idx? 'h' hbt
    let pb ← idx? 'p' pbt
    let ipb ← ipIdx? ipbt
    let portb ← portbt.toNat?
    let cb ← bool? cbt
    let d ← dt.toNat?
    let updA (st : St) : St :=
      { st with m := runActs st.m (updateSeq 0 ha pa ⟨ipa, porta, ca⟩),
                mon := { st.mon with anns := ((ha, pa), ((⟨pa, ipa, porta, false, ca⟩ : Info), st.mon.now)) :: st.mon.anns } }
    let updB (st : St) : St :=
      { st with m := runActs st.m (updateSeq 0 hb pb ⟨ipb, portb, cb⟩),
                mon := { st.mon with anns := ((hb, pb), ((⟨pb, ipb, portb, false, cb⟩ : Info), st.mon.now)) :: st.mon.anns } }
    let adv (st : St) : St :=
      { st with m := KrakenModel.PeerStore.step st.m (.adv d), mon := { st.mon with now := st.mon.now + d } }
    if inGap then none else
    match impl with
    | ["b-first"] => some (updA (updB (adv s)), { obs := ["b-first"], branch := if ha = hb then "race2.b-first.same-group" else "race2.b-first" })
    | _ => some (updB (adv (updA s)), { obs := ["a-first"], branch := if ha = hb then "race2.a-first.same-group" else "race2.a-first" })
  | ["get", ht, nt] => do
    let h ← idx? 'h' ht
    let n ← nt.toInt?
    let implInfos := (list? (impl.headD "-")).map info?
    if impl.length ≠ 1 ∨ implInfos.any (·.isNone) then none else
    let r := implInfos.filterMap id
    let stored : List Entry := peersOf s.m h
    let want := takeCount stored.length n
    let ids := r.map (·.id)
    let admissible := r.length = want ∧ ids.eraseDups.length = ids.length ∧
      r.all (fun x => stored.any (fun e => e.info = x))
    let obs := if admissible then impl else
      [s!"inadmissible:want-{want}-of:" ++ listTok (stored.map (fun e => infoTok e.info))]
    let br := if stored.isEmpty then "get.empty" else if n ≤ 0 then "get.nonpositive"
      else if (stored.length : Int) ≤ n then "get.all" else "get.subset"
    let br := if inGap then br ++ ".in-gap" else br
    let m := runActs s.m [.getA 0 h n, .getB 0 []]
    some ({ s with m := m }, { obs, branch := br, propfails := monGet s.mon s.m.ttl h n r })
  | ["adv", dt] => do
    let d ← dt.toNat?
    ok { s with m := KrakenModel.PeerStore.step s.m (.adv d), mon := { s.mon with now := s.mon.now + d } }
      (if inGap then "adv.in-gap" else "adv")
  | ["ce"] =>
    if inGap then ok s "ce.ignored-in-gap" else
    let s1 := KrakenModel.PeerStore.step s.m .ceBegin
    let before : Nat := (s1.heap.map (fun (g : Group) => g.list.length)).sum
    let s2 := KrakenModel.PeerStore.step (sweepAll s1 (ceTodo s1)) .ceEnd
    let after : Nat := (s2.heap.map (fun (g : Group) => g.list.length)).sum
    ok { s with m := s2 } (if after < before then "ce.removed" else "ce.noop")
  | ["cg"] =>
    if inGap then ok s "cg.ignored-in-gap" else
    let m := cgAll s.m
    ok { s with m := m } (if m.index.length < s.m.index.length then "cg.deleted" else "cg.noop")
  | ["cebegin"] =>
    if inGap then ok s "cebegin.nested-ignored" else
    ok { s with m := KrakenModel.PeerStore.step s.m .ceBegin, scans := 0, gapOps := 0 } "cebegin"
  | ["scan", ht] => do
    let h ← idx? 'h' ht
    match s.m.ce, groupOf s.m h with
    | some c, some (gid, g) =>
      if c.cur.isNone ∧ gid ∈ c.todo then
        let fl := scanExact s.m.now g.list
        some ({ s with m := KrakenModel.PeerStore.step s.m (.ceScan gid fl), scans := s.scans + 1 },
              { obs := ["ok"], branch := if fl.isEmpty then "scan.none-expired" else "scan.some-expired" })
      else some (s, { obs := ["model:group-not-scannable"], branch := "scan.bad" })
    | _, _ => some (s, { obs := ["model:no-such-group-or-pass"], branch := "scan.bad" })
  | ["sweep", ht] => do
    let h ← idx? 'h' ht
    match s.m.ce, groupOf s.m h with
    | some c, some (gid, g) =>
      match c.cur with
      | some (gid', fl) =>
        if gid' = gid then
          let m := KrakenModel.PeerStore.step s.m .ceSweep
          let removed := match m.heap[gid]? with | some g' => decide (g'.list.length < g.list.length) | none => false
          let refreshed := fl.any (fun i => match g.list[i]? with | some e => decide (s.m.now < e.exp) | none => false)
          let br := if refreshed then "sweep.skipped-refreshed" else if removed then "sweep.removed" else "sweep.noop"
          some ({ s with m := m }, { obs := ["ok"], branch := br })
        else some (s, { obs := ["model:sweep-of-other-group"], branch := "sweep.bad" })
      | none => some (s, { obs := ["model:sweep-without-scan"], branch := "sweep.bad" })
    | _, _ => some (s, { obs := ["model:no-such-group-or-pass"], branch := "sweep.bad" })
  | ["ceend"] =>
    match s.m.ce with
    | some c =>
      if c.cur.isSome then some (s, { obs := ["model:ceend-inside-gap"], branch := "ceend.bad" }) else
      -- groups the harness did not see being scanned: either the pass ran without any pause (then
      -- nothing was interleaved and they are cleaned at this instant), or they were empty when the
      -- pass reached them (nothing to do)
      let m1 := if s.scans = 0 ∧ s.gapOps ≤ 1 then sweepAll s.m c.todo else s.m
      ok { s with m := KrakenModel.PeerStore.step m1 .ceEnd } (if s.scans = 0 then "ceend.unpaused" else "ceend")
    | none => some (s, { obs := ["model:ceend-without-cebegin"], branch := "ceend.bad" })
  | _ => none

def init (cfg : List String) : Option St := do
  let ttl ← match kv? cfg "ttl" with
    | some t => t.toNat?
    | none => some 10
  if ttl = 0 then none else
  pure { m := KrakenModel.PeerStore.init ttl }

def machine : Machine := { σ := St, name := "ps", init := init, step := step }

/-- concurrent stress runs: the harness evaluates the predicates itself (propfail records); the
summary records are only counted -/
def cstep (s : Unit) (kind : String) (args impl : List String) : Option (Unit × StepOut) :=
  if kind ≠ "op" then none else
  let br := match args with
    | "race" :: rest => if rest.contains "group-replaced=1" then "race.retry-taken" else "race.announcer-first"
    | "lookups" :: rest => if rest.contains "overlapping-cleanup=1" then "lookups.overlapping-cleanup" else "lookups.no-overlap"
    | _ => "stress"
  some (s, { obs := impl, branch := br })

def cmachine : Machine := { σ := Unit, name := "psc", init := fun _ => some (), step := cstep }

end C27

def main (args : List String) : IO UInt32 := runMachines [C27.machine, C27.cmachine] args
