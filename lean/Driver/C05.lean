import Driver.Frame
import KrakenModel.Model.OriginCrash
/-
  Driver for C05 (machine `oc`).  Records:
    cfg blobs=<xhex,…> pl=<n> wps=<n> mem=<0|1> names=<hex digest,…> mis=<xhex,…> [crash=…] [mon=0] [skip=1]
    fs <tree>                                   the tree the first process starts on
    begin <op> | <result and tree>              the operation whose crash points follow
    plan <call>…                                its recorded syscalls (last access times and made-up upload names canonical)
    crash k=<n> ord=<files> at=<label> => fs=<tree> start=ok ls=<names> {| n=<name> rd= h= gm= [rf= rd2= h2= gm2=]} | fs2=<tree>
    planchk =>                                  the plan comparison
    op ustart <u> | uwrite <u> <off> <xhex> | commit <u> b<i> | persist b<i> | genmeta b<i> | refresh b<i> <xhex>
       | read b<i> | getmeta b<i> | delete b<i> | restart => <result> fs=<tree>
-/
open Driver KrakenModel.FS KrakenModel.OriginCrash

namespace C05

def nameTok : Name → String
  | .data => "data"
  | .lat => "_last_access_time"
  | .tmeta => "_torrentmeta"
  | .persist => "_persist"

def name? (t : String) : Option Name :=
  if t = "data" then some .data
  else if t = "_last_access_time" then some .lat
  else if t = "_torrentmeta" then some .tmeta
  else if t = "_persist" then some .persist
  else none

def pathTok (p : Path) : String := "/".intercalate p
def path? (t : String) : Path := (t.splitOn "/").filter (· ≠ "")

def file? (t : String) : Option (Path × Name) :=
  let p := path? t
  match p.getLast? with
  | none => none
  | some l => (name? l).map (p.dropLast, ·)

def fileTok (p : Path) (n : Name) : String := pathTok (p ++ [nameTok n])

def callTok : Call Name → String
  | .mkdir p => s!"mkdir:{pathTok p}"
  | .creat p n => s!"creat:{fileTok p n}"
  | .openCreat p n => s!"opencreat:{fileTok p n}"
  | .openTrunc p n => s!"opentrunc:{fileTok p n}"
  | .truncate p n len => s!"trunc:{fileTok p n}:{len}"
  | .pwrite p n off b => s!"pwrite:{fileTok p n}:{off}:{bytesTok b}"
  | .rename p n q m => s!"rename:{fileTok p n}:{fileTok q m}"
  | .renameDir p q => s!"rename:{pathTok p}:{pathTok q}"
  | .unlink p n => s!"unlink:{fileTok p n}"
  | .rmdir p => s!"rmdir:{pathTok p}"
  | .link p n q m => s!"link:{fileTok p n}:{fileTok q m}"

def sortStr (xs : List String) : List String := xs.mergeSort (fun a b => !decide (b < a))

/-- contents as the transcript shows them: a last access time is `LAT` (current), `OLD` or empty -/
def canonBytes (n : Name) (b : Bytes) : Bytes :=
  if n = .lat ∧ b ≠ [] ∧ b ≠ [76, 65, 84] then [79, 76, 68] else b

def treeToks (fs : FS Name) : List String :=
  sortStr (fs.dirs.flatMap fun (p, d) =>
    (if p = [] then [] else [s!"d:{pathTok p}"]) ++ d.map fun (n, b) => s!"f:{fileTok p n}:{bytesTok (canonBytes n b)}")

structure Tab where
  blobs : List Bytes := []
  names : List String := []
  mis : List Bytes := []

def Tab.idx (t : Tab) (b : Bytes) : Option Nat := t.blobs.findIdx? (· = b)

/-- the digest as far as the case knows it: the listed blobs have their names, any other byte string a
name of its own that is nobody's -/
def Tab.digest (t : Tab) (b : Bytes) : String :=
  match t.idx b with
  | some i => t.names.getD i "?"
  | none => "?" ++ bytesTok b

def Tab.genMI (t : Tab) (b : Bytes) : Bytes :=
  match t.idx b with
  | some i => t.mis.getD i []
  | none => []

def mkCfg (t : Tab) (wps : Nat) (mem : Bool) (verify : Bool := true) : Cfg :=
  { wps, lat := [76, 65, 84], mem, verify, digest := t.digest, genMI := t.genMI, metaOK := fun b => t.mis.contains b }

def blobName? (t : Tab) (tok : String) : Option String :=
  match tok.toList with
  | 'b' :: rest => (String.ofList rest).toNat?.bind (fun i => t.names[i]?)
  | _ => none

def op? (t : Tab) (args : List String) : Option Op :=
  match args with
  | ["ustart", u] => some (.ustart u)
  | ["uwrite", u, off, x] => do pure (.uwrite u (← off.toNat?) (← bytes? x))
  | ["commit", u, b] => do pure (.commit u (← blobName? t b))
  | ["persist", b] => do pure (.persist (← blobName? t b))
  | ["genmeta", b] => do pure (.genmeta (← blobName? t b))
  | ["refresh", b, x] => do pure (.refresh (← blobName? t b) (← bytes? x))
  | ["read", b] => do pure (.read (← blobName? t b))
  | ["getmeta", b] => do pure (.getmeta (← blobName? t b))
  | ["delete", b] => do pure (.delete (← blobName? t b))
  | ["restart"] => some .restart
  | _ => none

/-- the blob a name stands for -/
def blobOf (t : Tab) (n : String) : Option Bytes :=
  (t.names.findIdx? (· = n)).bind (fun i => t.blobs[i]?)

def metaTok (t : Tab) (n : String) (m : Bytes) : String :=
  if (blobOf t n).map t.genMI = some m then "valid" else s!"found={bytesTok m}"

def resToks (t : Tab) (op : Op) (r : Res) : List String :=
  match r with
  | .ok => ["ok"] | .exist => ["exist"] | .notFound => ["notfound"] | .verifyFail => ["verifyfail"]
  | .errOther => ["err-other"]
  | .persisted => ["persisted"]
  | .bytes b =>
    let n := match op with | .read n => n | _ => ""
    [s!"bytes={bytesTok b}", s!"h={boolTok (t.digest b = n)}"]
  | .found m =>
    let n := match op with | .getmeta n => n | _ => ""
    [metaTok t n m]
  | .absent => ["absent"]
  | .accepted => ["accepted"]

/-- removal order used by a recorded plan -/
def orderOf (plan : List String) : Order Name :=
  plan.foldl (fun o t =>
    match t.splitOn ":" with
    | ["unlink", p] => (match file? p with
        | some e => { o with files := o.files ++ [e] }
        | none => o)
    | ["rmdir", p] => { o with dirs := o.dirs ++ [path? p] }
    | _ => o) {}

structure St where
  tab : Tab
  cfg : Cfg
  mon : Bool := true
  mem : Mem := {}
  fs : FS Name := initFS
  preMem : Mem := {}
  preFs : FS Name := initFS
  lastOp : Option Op := none
  lastName : String := ""
  realPlan : List String := []
  planBad : Bool := false
  planMsg : List String := []

def init (toks : List String) : Option St := do
  let blobs ← (list? ((kv? toks "blobs").getD "-")).mapM bytes?
  let mis ← (list? ((kv? toks "mis").getD "-")).mapM bytes?
  let names := list? ((kv? toks "names").getD "-")
  let n (k : String) (d : Nat) := ((kv? toks k).bind (·.toNat?)).getD d
  let tab : Tab := { blobs, names, mis }
  -- with SkipHashVerification the property's premise is gone (stated assumption): compared, not monitored
  pure { tab, cfg := mkCfg tab (n "wps" 0) (n "mem" 0 = 1) (n "skip" 0 ≠ 1), mon := (kv? toks "mon") ≠ some "0" ∧ n "skip" 0 ≠ 1 }

def modelPlan (s : St) (o : Order Name) : List (Call Name) :=
  match s.lastOp with
  | some op => plan s.cfg o s.preMem s.preFs op
  | none => []

def run (cfg : Cfg) (m : Mem) (fs : FS Name) (op : Op) : Mem × FS Name × Res :=
  let r := exec cfg {} m fs op
  (r.mem, applyAll fs r.calls, r.res)

/-- the model's answer to the harness's recovery: a new process (memory cache off), the listing, every
listed blob read and its metainfo sidecar read, the on-demand regeneration, both again -/
def recoverToks (t : Tab) (cfg0 : Cfg) (fs : FS Name) : List String :=
  let t' := t
  let cfg := { cfg0 with mem := false }
  let (m0, fs0, _) := run cfg {} fs .restart
  let names := sortStr (listNames fs0)
  let (_, fsN, toks) := names.foldl (fun (acc : Mem × FS Name × List String) n =>
    let (m, fs, out) := acc
    let (m1, fs1, r1) := run cfg m fs (.read n)
    let (m2, fs2, r2) := run cfg m1 fs1 (.getmeta n)
    let rdTok (r : Res) : List String × String :=
      match resToks t (.read n) r with
      | [a, h] => ([a], (h.drop 2).toString)
      | l => (l, "-")
    let (rd, h) := rdTok r1
    let base := out ++ ["|", s!"n={n}"] ++ rd.map ("rd=" ++ ·) ++ [s!"h={h}"] ++ (resToks t (.getmeta n) r2).map ("gm=" ++ ·)
    match blobOf t n with
    | none => (m2, fs2, base)
    | some b =>
      -- the origin's metainfo request with a backend that does not hold the blob
      let (m2, fs2, rq) := run cfg m2 fs2 (.metareq n none)
      let mrToks := match rq with
        | .found t => ["mr=200", if (blobOf t' n).map t'.genMI = some t then "mv=valid" else "mv=wrong"]
        | .notFound => ["mr=404", "mv=-"]
        | .accepted => ["mr=202", "mv=-"]
        | _ => ["mr=500", "mv=-"]
      let base := base ++ mrToks
      let (m3, fs3, r3) := run cfg m2 fs2 (.refresh n b)
      let (m4, fs4, r4) := run cfg m3 fs3 (.read n)
      let (m5, fs5, r5) := run cfg m4 fs4 (.getmeta n)
      let (rd2, h2) := rdTok r4
      (m5, fs5, base ++ (resToks t (.refresh n b) r3).map ("rf=" ++ ·) ++ rd2.map ("rd2=" ++ ·) ++ [s!"h2={h2}"] ++
        (resToks t (.getmeta n) r5).map ("gm2=" ++ ·))) (m0, fs0, [])
  ["start=ok", s!"ls={listTok names}"] ++ toks ++ ["|", s!"fs2={listTok (treeToks fsN)}"]

def splitBar (toks : List String) : List (List String) :=
  toks.foldr (fun t acc => if t = "|" then [] :: acc else
    match acc with
    | h :: r => (t :: h) :: r
    | [] => [[t]]) [[]]

/-- the property on what the implementation reported after a crash -/
def crashMon (sections : List (List String)) (at_ : String) : List String :=
  let pf (key detail : String) := s!"side=impl key={key}.{at_} {detail}"
  match sections with
  | [] => []
  | s0 :: rest =>
    match s0.drop 1 with
    | [] => []
    | r :: _ =>
      if r.startsWith "planerr" then [] else
      if r ≠ "start=ok" then [pf "reopen-failed" s!"NewCAStore (or the listing) after the crash: {r}"] else
      rest.flatMap fun sec =>
        match kv? sec "n" with
        | none => []
        | some n =>
          let short := (n.take 8).toString
          let rd := (kv? sec "rd").getD "-"
          let h := (kv? sec "h").getD "-"
          let gm := (kv? sec "gm").getD "-"
          (if sec.contains "panic" then [pf "panic-after-restart" s!"blob {short}"] else []) ++
          (if rd.startsWith "bytes=" ∧ h ≠ "1" then [pf "listed-blob-wrong-hash" s!"blob {short} is served as {rd}"] else []) ++
          (if !(rd.startsWith "bytes=") ∧ rd ≠ "notfound" ∧ rd ≠ "-" then [pf "listed-blob-unreadable" s!"blob {short}: {rd}"] else []) ++
          (if gm = "err" then [pf "metainfo-unreadable" s!"blob {short}: the metainfo sidecar fails with an error that is not IsNotExist (getMetaInfo answers 500 for ever)"] else []) ++
          (if gm.startsWith "found=" then [pf "metainfo-wrong" s!"blob {short}: a metainfo that is not the blob's is served"] else []) ++
          (match kv? sec "mr" with
           | none => []
           | some mr =>
             let mv := (kv? sec "mv").getD "-"
             if rd.startsWith "bytes=" ∧ (mr ≠ "200" ∨ mv ≠ "valid") then
               [pf "metainfo-request-failed-for-cached-blob" s!"blob {short} is served, its metainfo request (backend without the blob) answers {mr} {mv}"]
             else if mr ≠ "200" ∧ mr ≠ "404" then [pf "metainfo-request-error" s!"blob {short}: the metainfo request answers {mr}"]
             else []) ++
          (match kv? sec "rf" with
           | none => []
           | some rf =>
             let rd2 := (kv? sec "rd2").getD "-"
             let h2 := (kv? sec "h2").getD "-"
             let gm2 := (kv? sec "gm2").getD "-"
             if rf ≠ "ok" then [pf "regenerate-failed" s!"blob {short}: the refresh answers {rf}"]
             else if !(rd2.startsWith "bytes=") ∨ h2 ≠ "1" then [pf "regenerate-failed" s!"blob {short} after the refresh: {rd2}"]
             else if gm2 ≠ "valid" then [pf "regenerate-failed" s!"blob {short} after the refresh: metainfo {gm2}"]
             else [])

def opMon (args impl : List String) : List String :=
  let pf (key detail : String) := s!"side=impl key={key}.{args.headD ""} {detail}"
  match args.headD "", impl with
  | "read", r :: h :: _ =>
    if r.startsWith "bytes=" ∧ h ≠ "h=1" then [pf "served-wrong-hash" s!"{r}"] else []
  | "getmeta", r :: _ =>
    if r = "err" then [pf "metainfo-unreadable" "the metainfo sidecar fails with an error that is not IsNotExist"]
    else if r.startsWith "found=" then [pf "metainfo-wrong" "a metainfo that is not the blob's is served"] else []
  | _, r :: _ => if r = "panic" then [pf "panic" ""] else []
  | _, _ => []

def addDirs (fs : FS Name) (p : Path) : FS Name :=
  (List.range p.length).foldl (fun fs i =>
    let q := p.take (i + 1)
    if (fs.dir? q).isSome then fs else fs.setDir q []) fs

def tree? (toks : List String) : Option (FS Name) :=
  toks.foldlM (fun fs t =>
    match t.splitOn ":" with
    | ["d", p] => some (addDirs fs (path? p))
    | ["f", p, x] => do
      let (dir, n) ← file? p
      let b ← bytes? x
      let fs := addDirs fs dir
      let d ← fs.dir? dir
      pure (fs.setDir dir (aset d n b))
    | _ => none) ({} : FS Name)

def step (s : St) (kind : String) (args impl : List String) : Option (St × StepOut) :=
  match kind with
  | "fs" => do
    -- the tree the first process starts on (NewCAStore wipes the upload directory)
    let fs ← tree? args
    pure ({ s with mem := {}, fs := applyAll fs (restartPlan {} fs) }, { branch := "fs" })
  | "begin" => do
    let opToks := args.takeWhile (· ≠ "|")
    let op ← op? s.tab opToks
    pure ({ s with preMem := s.mem, preFs := s.fs, lastOp := some op, lastName := opToks.headD "", realPlan := [],
                   planBad := false, planMsg := [] }, { branch := "begin" })
  | "op" => do
    let op ← op? s.tab args
    -- the final tree does not depend on the removal order
    let r := exec s.cfg (orderOf s.realPlan) s.mem s.fs op
    let fs' := applyAll s.fs r.calls
    let rt := resToks s.tab op r.res
    pure ({ s with mem := r.mem, fs := fs', realPlan := [] },
      { obs := rt ++ [s!"fs={listTok (treeToks fs')}"], branch := s!"{args.headD ""}.{rt.headD ""}".takeWhile (· ≠ '=') |>.toString,
        propfails := if s.mon then opMon args impl else [] })
  | "plan" =>
    let p := modelPlan s (orderOf args)
    let mine := p.map callTok ++ (if allOk s.preFs p then [] else ["model-call-fails"])
    some ({ s with realPlan := args, planBad := mine ≠ args, planMsg := mine }, { branch := s!"plan.{s.lastName}" })
  | "planchk" =>
    some (s, { obs := if s.planBad then "plan-differs" :: "model:" :: s.planMsg ++ ("recorded:" :: s.realPlan) else [],
               branch := if s.planBad then "plan.differs" else "plan.same" })
  | "crash" => do
    let k ← (kv? args "k").bind (·.toNat?)
    let ordToks := list? ((kv? args "ord").getD "-")
    let real := orderOf s.realPlan
    let o : Order Name := { files := ordToks.filterMap file? ++ real.files, dirs := real.dirs }
    let p := modelPlan s o
    let fsK := applyPrefix k p s.preFs
    let implFs := impl.headD ""
    let implTree := sortStr (list? ((implFs.drop 3).toString))
    let mine := treeToks fsK
    let fsTok := if implFs.startsWith "fs=" ∧ implTree = mine then implFs else s!"fs={listTok mine}"
    let obs := if s.planBad then impl else fsTok :: recoverToks s.tab s.cfg fsK
    let at_ := s!"{s.lastName}.{(kv? args "at").getD "?"}"
    pure (s, { obs, branch := s!"crash.{s.lastName}", propfails := if s.mon then crashMon (splitBar impl) at_ else [] })
  | _ => none

def machine : Machine := { σ := St, name := "oc", init := init, step := step }

end C05

/-
  Machine `ocs`: a metainfo request through the real server on a tree a crash can leave.
    one meta blob=<xhex> pl=<n> backend=<0|1> tree=<listing> name=<hex digest> mi=<xhex> cached=<0|1> => first=<200|202|404> final=<valid|code404> dl=<ok|code404>
-/
namespace C05Srv

def step (_ : Unit) (kind : String) (args impl : List String) : Option (Unit × StepOut) :=
  match kind, args with
  | "one", "meta" :: rest => do
    let blob ← bytes? ((kv? rest "blob").getD "x")
    let mi ← bytes? ((kv? rest "mi").getD "x")
    let name := (kv? rest "name").getD ""
    let tab : C05.Tab := { blobs := [blob], names := [name], mis := [mi] }
    let cfg := C05.mkCfg tab 0 false
    let fs ← C05.tree? (list? ((kv? rest "tree").getD "-"))
    let (m0, fs0, _) := C05.run cfg {} fs .restart
    let backend : Option Bytes := if (kv? rest "backend") = some "0" then none else some blob
    -- getMetaInfo: a sidecar that decodes is served; a cached blob gets its metainfo generated; else the backend
    let code (r : Res) : String := match r with
      | .found t => if t = mi then "200" else "200-wrong"
      | .accepted => "202"
      | .notFound => "404"
      | _ => "500"
    let (m1, fs1, r1) := C05.run cfg m0 fs0 (.metareq name backend)
    let first := code r1
    -- polled until it is no longer 202
    let (m3, fs3, r3) := if first = "202" then C05.run cfg m1 fs1 (.metareq name backend) else (m1, fs1, r1)
    let final := match code r3 with
      | "200" => "valid"
      | "200-wrong" => "wrong"
      | c => s!"code{c}"
    let (_, _, r4) := C05.run cfg m3 fs3 (.read name)
    let dl := match r4 with
      | .bytes b => if b = blob then "ok" else "wrong"
      | _ => "code404"
    let iFirst := (kv? impl "first").getD "-"
    let iFinal := (kv? impl "final").getD "-"
    let iDl := (kv? impl "dl").getD "-"
    let pf (key detail : String) := s!"side=impl key={key} {detail}"
    let cached := (kv? rest "cached") = some "1"
    let pfs :=
      (if iFirst ≠ "200" ∧ iFirst ≠ "202" ∧ iFirst ≠ "404" then [pf s!"metainfo-request-error.code{iFirst}" s!"the first metainfo request is answered {impl}"] else []) ++
      (if cached ∧ iFinal ≠ "valid" then [pf s!"metainfo-never-served.cached-blob-{iFinal}" s!"the blob is in the cache, its metainfo request ends with {iFinal} (backend holds it: {backend.isSome})"] else []) ++
      (if !cached ∧ backend.isSome ∧ iFinal ≠ "valid" then [pf s!"metainfo-never-served.{iFinal}" s!"the backend holds the blob, polling the metainfo request ends with {iFinal}"] else []) ++
      (if iFinal = "valid" ∧ iDl ≠ "ok" then [pf s!"blob-not-served.{iDl}" "the metainfo is served, the blob is not"] else [])
    pure ((), { obs := [s!"first={first}", s!"final={final}", s!"dl={dl}"], branch := s!"meta.{first}", propfails := pfs })
  | _, _ => none

def machine : Machine := { σ := Unit, name := "ocs", init := fun _ => some (), step := step }

end C05Srv

def main (args : List String) : IO UInt32 := runMachines [C05.machine, C05Srv.machine] args
