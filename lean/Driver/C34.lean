import Driver.Frame
import KrakenModel.Model.HttpSend
/- Driver for C34: replays httputil.Send calls against scripted servers on the HttpSend model and
   monitors the property on what the server saw and what Send returned.

   cfg  method=<M> path=<str> hdr=<K:v,…|-> kind=none|rew|plain impl=<…> body=<body token>
        accepted=<codes> extra=<codes|-> bo=none|default|<n> tls=0|1 fb=0|1 ka=0|1 [skip=<k>]
        (skip: the caller had read k bytes of the reader before Send; `body` is what was unread then)
   script <net|n<k>|refuse|s<code>,…>   what the server does with the 1st, 2nd, … connection (`-` = none):
                                        read the request then close | read k body bytes then close |
                                        close before reading anything | answer with a status
   op send => <result> <a:S|P|method|path|hdrs|body|flag|framing>…   one `a:` token per request the server saw
        body token: x<hex> (up to 64 bytes) or b<len>.<hash> ; p<k> when the server stopped after k bytes (flag p)
        flag: 0 body read completely, 1 body read error, p server stopped reading by script
        framing: cl<n> | chunked
-/
open Driver KrakenModel.HttpSend

namespace C34

structure St where
  cfg : Cfg
  bodyTok : String
  bodyLen : Nat
  ka : Bool
  skip : Nat := 0          -- bytes of the reader the caller had consumed before Send (not part of the body)
  impl : String := ""
  script : List Outcome := []

def outcome? (t : String) : Option Outcome :=
  if t = "net" then some .net else if t = "refuse" then some .refuse else
  match t.toList with
  | 's' :: ds => (String.ofList ds).toNat?.map .status
  | 'n' :: ds => (String.ofList ds).toNat?.map .netAfter
  | _ => none

def codes? (t : String) : Option (List Nat) := (list? t).mapM nat?

def hdr? (t : String) : Option (String × String) :=
  match t.splitOn ":" with
  | [k, v] => some (k, v)
  | _ => none

/-- length carried by a body token -/
def bodyLen? (t : String) : Option Nat :=
  match t.toList with
  | 'x' :: _ => (bytes? t).map List.length
  | 'b' :: rest => ((String.ofList rest).splitOn ".").head?.bind String.toNat?
  | _ => none

def init (toks : List String) : Option St := do
  let method ← kv? toks "method"
  let path ← kv? toks "path"
  let hdrs ← (list? (← kv? toks "hdr")).mapM hdr?
  let kindT ← kv? toks "kind"
  let kind ← if kindT = "none" then some BodyKind.none else if kindT = "rew" then some .rewindable
    else if kindT = "plain" then some .plain else none
  let bodyTok ← kv? toks "body"
  let bodyLen ← bodyLen? bodyTok
  let accepted ← (kv? toks "accepted").bind codes?
  let extra ← (kv? toks "extra").bind codes?
  let boT ← kv? toks "bo"
  let bo ← if boT = "none" then some 0 else if boT = "default" then some 2 else nat? boT
  let tls ← (kv? toks "tls").bind bool?
  let fb ← (kv? toks "fb").bind bool?
  let ka ← (kv? toks "ka").bind bool?
  if kind = .none ∧ bodyLen ≠ 0 then none
  if boT = "none" ∧ extra ≠ [] then none
  -- the model never looks inside the body: the token's characters stand for its bytes
  let body := if bodyLen = 0 then [] else bodyTok.toList.map Char.toNat
  pure { cfg := { req := { method, url := path, headers := hdrs, body, tls }, kind, accepted, extra, bo, fallback := fb },
         bodyTok, bodyLen, ka, skip := ((kv? toks "skip").bind nat?).getD 0, impl := (kv? toks "impl").getD "" }

def resultTok : Result → String
  | .ok c => s!"ok:{c}"
  | .netErr => "neterr"
  | .statusErr c => s!"status:{c}"

def hdrTok (hs : List (String × String)) : String := listTok (hs.map fun (k, v) => s!"{k}:{v}")

def framing (s : St) : String :=
  match s.cfg.kind with
  | .none => "cl0"
  | .rewindable => s!"cl{s.bodyLen}"
  | .plain =>
    -- net/http probes a body of unknown length of the methods that usually have none: an empty
    -- one is sent with Content-Length 0 instead of chunked
    if s.bodyLen = 0 ∧ (s.cfg.req.method = "GET" ∨ s.cfg.req.method = "DELETE") then "cl0" else "chunked"

/-- what the server records for a request it was sent, given what the script makes it do -/
def seenTok (s : St) (r : Req) (o : Outcome) : Option String :=
  let scheme := if r.tls then "S" else "P"
  let full := if r.body = [] then "x" else s.bodyTok
  let head := s!"a:{scheme}|{r.method}|{r.url}|{hdrTok r.headers}|"
  match o with
  | .refuse => none
  | .netAfter k => if k < s.bodyLen ∧ r.body ≠ [] then some (head ++ s!"p{k}|p|{framing s}") else some (head ++ s!"{full}|0|{framing s}")
  | _ => some (head ++ s!"{full}|0|{framing s}")

/-- walk the wire history along the script -/
def seenAll (s : St) : List Wire → List Outcome → List String
  | [], _ => []
  | .localErr :: ws, sc => seenAll s ws sc
  | .sent r :: ws, sc =>
    match seenTok s r (sc.headD .net) with
    | some t => t :: seenAll s ws sc.tail
    | none => seenAll s ws sc.tail

def modelObs (s : St) (plainReplays : Bool) : List String :=
  let cfg := { s.cfg with plainReplays }
  let (wires, r) := send cfg s.script
  resultTok r :: seenAll s wires s.script

/-- Walk the connections of a run (script entry i answers connection i; refused connections are not
in the server's log) and check where the attempts went: an iteration starts with an attempt in
the request's own scheme; a plain-http attempt of an https request is only allowed as the
fallback directly behind an https attempt that failed.  `atStart`: the next connection begins an
iteration.  Returns the 1-based index (among seen attempts) of the first offending attempt. -/
def schemeWalk (tlsReq : Bool) : List Outcome → List String → Bool → Nat → Option Nat
  | _, [], _, _ => none
  | sc, a :: seen, atStart, i =>
    match sc.headD .net with
    | .refuse =>
      -- unseen connection: as the start of an iteration it is a failed attempt in the request's scheme
      -- (a fallback may follow), as a fallback it ends the iteration
      if sc.isEmpty then none else schemeWalk tlsReq sc.tail (a :: seen) (!atStart) i
    | o =>
      let isS := a.startsWith "a:S"
      if atStart then
        if tlsReq ∧ !isS then some i
        else schemeWalk tlsReq sc.tail seen (!(tlsReq ∧ o.isErr)) (i + 1)
      else
        -- directly behind a failed https attempt: the fallback (http) or, without one, the next iteration
        if isS then schemeWalk tlsReq sc.tail seen (!o.isErr) (i + 1)
        else schemeWalk tlsReq sc.tail seen true (i + 1)
termination_by sc seen _ _ => sc.length + seen.length
decreasing_by
  all_goals simp_wf
  all_goals (try (cases sc <;> simp_all <;> omega))

/-- fields of an attempt token -/
def fields (a : String) : List String := a.splitOn "|"

def step (s : St) (kind : String) (args impl : List String) : Option (St × StepOut) :=
  match kind, args with
  | "script", [t] => do
    let sc ← (list? t).mapM outcome?
    let n := min sc.length 4
    pure ({ s with script := sc }, { branch := s!"script.len{n}" })
  | "op", ["send"] =>
    -- a reader without GetBody may or may not be made replayable by the implementation: the
    -- property allows both, the model follows what the implementation did
    let obs0 := modelObs s false
    let obs1 := if s.cfg.kind = .plain then modelObs s true else obs0
    let replays := obs0 ≠ impl ∧ obs1 = impl
    let obs := if replays then obs1 else obs0
    -- the property's predicates on what the server saw and what Send returned
    let seen := impl.drop 1
    let k := seen.length
    let res := impl.headD ""
    let origBody := if s.bodyLen = 0 then "x" else s.bodyTok
    let fb := s.cfg.req.tls ∧ s.cfg.fallback
    -- an attempt carries the original request: method, URI, headers, and the complete body
    -- (a request the server stopped reading by script is judged on its head only)
    let okAttempt : String → Bool := fun a =>
      match fields a with
      | [sch, m, p, h, b, fl, _] =>
        (sch = "a:P" ∨ (sch = "a:S" ∧ s.cfg.req.tls)) ∧ (sch = "a:S" ∨ ¬ s.cfg.req.tls ∨ s.cfg.fallback) ∧
        m = s.cfg.req.method ∧ p = s.cfg.req.url ∧ h = hdrTok s.cfg.req.headers ∧
        ((fl = "0" ∧ b = origBody) ∨ fl = "p")
      | _ => false
    let pf1 := (seen.zipIdx.filter fun (a, _) => !okAttempt a).map fun (a, i) =>
      s!"side=impl key=attempt-differs-from-original attempt {i + 1} carried {a.take 140}, the original request is {s.cfg.req.method} {s.cfg.req.url} {hdrTok s.cfg.req.headers} body {origBody.take 40}"
    let framings := (seen.filterMap fun a => (fields a).getLast?).eraseDups
    let pf1b := if framings.length > 1 then [s!"side=impl key=attempt-changes-framing attempts used different body framings: {framings}"] else []
    let pf2 := match seen.getLast? with
      | some a => if res.startsWith "ok:" ∧ (!okAttempt a ∨ (fields a).getD 5 "" ≠ "0") then
          ["side=impl key=success-with-incomplete-request Send reported success for an attempt that did not carry the complete original request"] else []
      | none => if res.startsWith "ok:" then ["side=impl key=success-with-incomplete-request Send reported success although no request reached the server"] else []
    let pf1c := match (if s.ka then none else schemeWalk s.cfg.req.tls s.script seen true 1) with
      | some i => [s!"side=impl key=retry-went-to-fallback-scheme attempt {i} went to plain http although it is not the fallback directly behind a failed https attempt (an https request is retried over https to the original URL)"]
      | none => []
    let maxAtt := if fb then 2 * (s.cfg.bo + 1) else s.cfg.bo + 1
    let pf3 := if k > maxAtt then [s!"side=impl key=retry-after-backoff-exhausted {k} attempts with {s.cfg.bo} backoff steps"] else []
    -- outcomes of the requests the server saw, in order (refused connections are never seen)
    let outsSeen := (s.script.filter (· ≠ .refuse))
    let outs := (List.range k).map fun i => outsSeen.getD i .net
    let retried := outs.take (k - 1)
    let pf4 := retried.filterMap fun o => match o with
      | .status c =>
        if s.cfg.accepted.contains c then
          (if s.cfg.extra.contains c then some s!"side=impl key=accepted-code-in-retrycodes accepted status {c} was retried (it is also a RetryCodes status)"
           else some s!"side=impl key=retried-accepted-status accepted status {c} was retried")
        else if !wantsRetry s.cfg o then some s!"side=impl key=retried-non-retryable status {c} was retried"
        else none
      | _ => none
    -- the next two need attempt i ↔ script entry i: no refused connections, no fallback attempts
    let aligned := ¬ s.script.contains .refuse ∧ ¬ fb ∧ impl ≠ []
    let canReplay := s.cfg.kind ≠ .plain
    let pf5 := if !aligned then [] else match outs.getLast? with
      | some o =>
        if wantsRetry s.cfg o ∧ k - 1 < s.cfg.bo ∧ canReplay then
          [s!"side=impl key=retry-not-sent attempt {k} ended retryable with backoff left and a replayable body, yet no further request was sent"] else []
      | none => ["side=impl key=retry-not-sent no request reached the server"]
    let pf6 := if !aligned then [] else match outs.getLast? with
      | some o =>
        let wantRes := resultTok (final s.cfg o)
        if res ≠ wantRes then [s!"side=impl key=result-not-of-last-attempt Send returned {res}, the last attempt ended {wantRes}"] else []
      | none => []
    let kindT := match s.cfg.kind with | .none => "none" | .rewindable => "rew" | .plain => "plain"
    let resT := ((obs.headD "").splitOn ":").headD ""
    let natt := min (obs.length - 1) 4
    let mode := if fb then "fb" else if s.cfg.req.tls then "tls" else if s.ka then "ka" else "http"
    let pfs := pf1 ++ pf1b ++ pf1c ++ pf2 ++ pf3 ++ pf4 ++ pf5 ++ pf6
    -- a seekable reader handed over mid-way whose first attempt ends retryable with backoff left
    let preAdv := s.skip > 0 ∧ s.cfg.kind = .plain ∧ (s.impl = "section" ∨ s.impl = "seeker" ∨ s.impl = "file") ∧
      s.cfg.bo > 0 ∧ wantsRetry s.cfg (s.script.headD .net)
    -- a transport error directly followed by a status answer, in a script longer than the budget allows
    let rec errThenStatus : List Outcome → Bool
      | a :: b :: rest => (a.isErr && !b.isErr) || errThenStatus (b :: rest)
      | _ => false
    let mixedLong := errThenStatus s.script ∧ s.script.length > s.cfg.bo + 1
    let br := if preAdv then "pre-advanced-seekable-body-retried" else if mixedLong then "mixed-error-then-status-script" else s!"send.{mode}.{kindT}.{resT}.att{natt}"
    some (s, { obs := obs, propfails := pfs, branch := br })
  | _, _ => none

def machine : Machine := { σ := St, name := "send", init := init, step := step }

end C34

def main (args : List String) : IO UInt32 := runMachines [C34.machine] args
