import Driver.Frame
import KrakenModel.Model.HttpSend
/- Driver for C34: replays httputil.Send calls against scripted servers on the HttpSend model and
   monitors the property on what the server saw and what Send returned.

   cfg  method=<M> path=<str> hdr=<K:v,…|-> kind=none|rew|plain impl=<…> body=<bytes>
        accepted=<codes> extra=<codes|-> bo=none|default|<n>
   script <net|s<code>,…>               what the server does with the 1st, 2nd, … request (`-` = none)
   op send => <result> <a:method|path|hdrs|body|readerr>…      one `a:` token per request the server saw
-/
open Driver KrakenModel.HttpSend

namespace C34

structure St where
  cfg : Cfg
  script : List Outcome := []

def outcome? (t : String) : Option Outcome :=
  if t = "net" then some .net else
  match t.toList with
  | 's' :: ds => (String.ofList ds).toNat?.map .status
  | _ => none

def codes? (t : String) : Option (List Nat) := (list? t).mapM nat?

def hdr? (t : String) : Option (String × String) :=
  match t.splitOn ":" with
  | [k, v] => some (k, v)
  | _ => none

def init (toks : List String) : Option St := do
  let method ← kv? toks "method"
  let path ← kv? toks "path"
  let hdrs ← (list? (← kv? toks "hdr")).mapM hdr?
  let kindT ← kv? toks "kind"
  let kind ← if kindT = "none" then some BodyKind.none else if kindT = "rew" then some .rewindable
    else if kindT = "plain" then some .plain else none
  let body ← (kv? toks "body").bind bytes?
  let accepted ← (kv? toks "accepted").bind codes?
  let extra ← (kv? toks "extra").bind codes?
  let boT ← kv? toks "bo"
  let bo ← if boT = "none" then some 0 else if boT = "default" then some 2 else nat? boT
  if kind = .none ∧ body ≠ [] then none
  if boT = "none" ∧ extra ≠ [] then none
  pure { cfg := { req := { method, url := path, headers := hdrs, body }, kind, accepted, extra, bo } }

def resultTok : Result → String
  | .ok c => s!"ok:{c}"
  | .netErr => "neterr"
  | .statusErr c => s!"status:{c}"

def hdrTok (hs : List (String × String)) : String := listTok (hs.map fun (k, v) => s!"{k}:{v}")

def reqTok (r : Req) : String := s!"a:{r.method}|{r.url}|{hdrTok r.headers}|{bytesTok r.body}|0"

def step (s : St) (kind : String) (args impl : List String) : Option (St × StepOut) :=
  match kind, args with
  | "script", [t] => do
    let sc ← (list? t).mapM outcome?
    let n := min sc.length 4
    pure ({ s with script := sc }, { branch := s!"script.len{n}" })
  | "op", ["send"] =>
    let (wires, r) := send s.cfg s.script
    let sent := wires.filterMap fun w => match w with | .sent q => some q | .localErr => none
    let obs := resultTok r :: sent.map reqTok
    -- the property's predicates on what the server saw and what Send returned
    let want := reqTok (original s.cfg)
    let seen := impl.drop 1
    let k := seen.length
    let outs := (List.range k).map fun i => s.script.getD i .net
    let res := impl.headD ""
    let pf1 := (seen.zipIdx.filter fun (a, _) => a ≠ want).map fun (a, i) =>
      s!"side=impl key=attempt-differs-from-original attempt {i + 1} carried {a.take 120}, the original request is {want.take 120}"
    let pf2 := if res.startsWith "ok:" ∧ seen.getLast? ≠ some want then
      ["side=impl key=success-with-incomplete-request Send reported success for an attempt that did not carry the original request"] else []
    let pf3 := if k > s.cfg.bo + 1 then [s!"side=impl key=retry-after-backoff-exhausted {k} attempts with {s.cfg.bo} backoff steps"] else []
    -- an outcome that is not the last one was retried
    let retried := outs.take (k - 1)
    let pf4 := retried.filterMap fun o => match o with
      | .status c =>
        if s.cfg.accepted.contains c then
          (if s.cfg.extra.contains c then some s!"side=impl key=accepted-code-in-retrycodes accepted status {c} was retried (it is also a RetryCodes status)"
           else some s!"side=impl key=retried-accepted-status accepted status {c} was retried")
        else if !wantsRetry s.cfg o then some s!"side=impl key=retried-non-retryable status {c} was retried"
        else none
      | .net => none
    -- a retry was due (retryable outcome, backoff left, body replayable) but not sent
    let pf5 := match outs.getLast? with
      | some o =>
        if wantsRetry s.cfg o ∧ k - 1 < s.cfg.bo ∧ s.cfg.kind ≠ .plain ∧ impl ≠ [] then
          [s!"side=impl key=retry-not-sent attempt {k} ended retryable with backoff left and a replayable body, yet no further request was sent"] else []
      | none => if impl ≠ [] then ["side=impl key=retry-not-sent no request reached the server"] else []
    -- the result must be that of the last attempt
    let pf6 := match outs.getLast? with
      | some o => if impl ≠ [] ∧ res ≠ resultTok (final s.cfg o) then
          let wantRes := resultTok (final s.cfg o)
          [s!"side=impl key=result-not-of-last-attempt Send returned {res}, the last attempt ended {wantRes}"] else []
      | none => []
    let kindT := match s.cfg.kind with | .none => "none" | .rewindable => "rew" | .plain => "plain"
    let resT := ((resultTok r).splitOn ":").headD ""
    let natt := min sent.length 4
    let pfs := pf1 ++ pf2 ++ pf3 ++ pf4 ++ pf5 ++ pf6
    some (s, { obs := obs, propfails := pfs, branch := s!"send.{kindT}.{resT}.att{natt}" })
  | _, _ => none

def machine : Machine := { σ := St, name := "send", init := init, step := step }

end C34

def main (args : List String) : IO UInt32 := runMachines [C34.machine] args
