import Driver.Frame
import KrakenModel.Model.ConnState
/- Driver for C16: replays connstate.State transcripts on the model and monitors the property's
   predicates on what the implementation returned.

   cfg max=<int> mutual=<int> disable=<0|1> dur=<ns>      raw Config (before applyDefaults)
   op add p<i> h<j> <nbrs>     => ok|cap|pend|act|mutual   AddPending
   op delp p<i> h<j>           => ok                       DeletePending
   op newconn c<k> h<j> p<i>   => ok                       (harness) a fresh *conn.Conn
   op close c<k>               => ok                       (harness) Conn.Close
   op move c<k>                => ok|closed|invalid        MovePendingToActive
   op dela c<k>                => ok                       DeleteActive
   op bl p<i> h<j>             => ok|already               Blacklist
   op isbl p<i> h<j>           => 0|1                      Blacklisted
   op clearbl h<j>             => ok                       ClearBlacklist
   op sat h<j>                 => 0|1                      Saturated
   op active                   => c1,c4 (sorted)           ActiveConns
   op snap                     => h0:p1:<remaining>,…      BlacklistSnapshot (sorted)
   op adv <ns>                 => ok                       clock.Mock.Add

   machine `cse` (the uses of the State in scheduler/events.go, applied to a real scheduler `state`)
   understands the records above (executed on `state.conns`) and additionally:
   op announce h<j> <p<i>|self,…>  => ok        announceResultEvent{h, peers}.apply(state)
   op dialled h<j>                 => <sorted>   (harness) peers newly pending after that announce,
                                                 read back by probing state.conns before and after
   op connclosed c<k>              => ok        connClosedEvent{c}.apply(state)
   op failout p<i> h<j>            => ok        failedOutgoingHandshakeEvent.apply(state)
   op failin p<i> h<j>             => ok        failedIncomingHandshakeEvent.apply(state)
   op incoming p<i> h<j> <nbrs>    => ok|rejected  incomingHandshakeEvent{pc}.apply(state), pc from a real
                                                 handshake whose remote bitfields name <nbrs>
   op outgoing c<k> / inconn c<k>  => ok|failed   outgoingConnEvent / incomingConnEvent .apply(state)
                                                 (ok = the conn became active)
   op complete h<j>                => ok         the torrent is completed, dispatcherCompleteEvent.apply(state)
   op padd … / pdelp …                           like add / delp, made by the harness itself (probes)
-/
open Driver KrakenModel.ConnState

namespace C16

def pfx? (c : Char) (t : String) : Option Nat :=
  match t.toList with
  | c' :: ds => if c' = c ∧ !ds.isEmpty then (String.ofList ds).toNat? else none
  | _ => none

def peer? := pfx? 'p'
def hash? := pfx? 'h'
def conn? := pfx? 'c'

def peers? (t : String) : Option (List Nat) := (list? t).mapM peer?

def insertSorted (x : Nat) : List Nat → List Nat
  | [] => [x]
  | y :: ys => if x ≤ y then x :: y :: ys else y :: insertSorted x ys

def sortNat (xs : List Nat) : List Nat := xs.foldr insertSorted []

def lexLe (a b : Nat × Nat × Int) : Bool := a.1 < b.1 || (a.1 == b.1 && a.2.1 ≤ b.2.1)

def insertSnap (x : Nat × Nat × Int) : List (Nat × Nat × Int) → List (Nat × Nat × Int)
  | [] => [x]
  | y :: ys => if lexLe x y then x :: y :: ys else y :: insertSnap x ys

/-- ghost state built from the API calls and the implementation's answers only -/
structure Mon where
  now : Int := 0
  occ : List (Nat × Nat × Option Nat) := []    -- (hash, peer, none = pending | some conn)
  bl : List (Nat × Nat × Int) := []            -- (hash, peer, expiration) of successful Blacklist calls
  blDial : List (Nat × Nat × Int) := []        -- the same, but kept across the torrent's completion (a
                                               -- completed torrent must not dial although its blacklist is cleared)
  guarded : List (Nat × Nat × Nat) := []       -- (hash, peer, conn): conn survived a DeleteActive of another conn

structure St where
  cfg : Config
  m : State := {}
  reg : List (Nat × Conn) := []    -- the connections created so far (closed flag updated by `close`)
  mon : Mon := {}

def Mon.status (g : Mon) (h p : Nat) : Option (Option Nat) :=
  (g.occ.find? fun e => e.1 == h && e.2.1 == p).map (·.2.2)

def Mon.remove (g : Mon) (h p : Nat) : Mon :=
  { g with occ := g.occ.filter fun e => !(e.1 == h && e.2.1 == p) }

def Mon.count (g : Mon) (h : Nat) : Nat := (g.occ.filter (·.1 == h)).length

def Mon.mutual (g : Mon) (h : Nat) (nbrs : List Nat) : Nat :=
  (nbrs.filter fun q => (g.status h q).isSome).length

def Mon.blLive (g : Mon) (h p : Nat) : Bool :=
  g.bl.any fun e => e.1 == h && e.2.1 == p && g.now < e.2.2

def Mon.blDialLive (g : Mon) (h p : Nat) : Bool :=
  g.blDial.any fun e => e.1 == h && e.2.1 == p && g.now < e.2.2

def Mon.setBl (g : Mon) (h p : Nat) (exp : Int) : Mon :=
  { g with bl := (h, p, exp) :: g.bl.filter (fun e => !(e.1 == h && e.2.1 == p)),
           blDial := (h, p, exp) :: g.blDial.filter (fun e => !(e.1 == h && e.2.1 == p)) }

def addTok : AddRes → String
  | .ok => "ok" | .atCapacity => "cap" | .alreadyPending => "pend" | .alreadyActive => "act" | .tooManyMutual => "mutual"

def init (toks : List String) : Option St := do
  let max ← (kv? toks "max").bind int?
  let mut_ ← (kv? toks "mutual").bind int?
  let disable ← (kv? toks "disable").bind bool?
  let dur ← (kv? toks "dur").bind int?
  let raw : Config := ⟨max, mut_, disable, dur⟩
  pure { cfg := raw.applyDefaults }

def findConn (s : St) (k : Nat) : Option Conn := (s.reg.find? (·.1 == k)).map (·.2)

/-- monitors + ghost update for an `AddPending` the implementation answered with `impl` -/
def monAdd (s : St) (p h : Nat) (nbrs : List Nat) (impl : List String) : Mon × List String :=
  let g := s.mon
  if impl = ["ok"] then
    let pf :=
      (if (g.count h : Int) ≥ s.cfg.max ∧ s.cfg.max ≥ 0 then
        [s!"side=impl key=over-capacity AddPending p{p} h{h} admitted with {g.count h} conns already pending/active, max {s.cfg.max}"] else []) ++
      (match g.status h p with
        | some none => [s!"side=impl key=double-entry AddPending p{p} h{h} admitted while the peer is pending"]
        | some (some c) => [s!"side=impl key=double-entry AddPending p{p} h{h} admitted while the peer is active (conn c{c})"]
        | none => []) ++
      (if (g.mutual h nbrs.eraseDups : Int) > s.cfg.maxMutual then
        [s!"side=impl key=mutual-not-refused AddPending p{p} h{h} admitted with {g.mutual h nbrs.eraseDups} distinct connected neighbours, max mutual {s.cfg.maxMutual}"] else [])
    ({ (g.remove h p) with occ := (g.remove h p).occ ++ [(h, p, none)] }, pf)
  else (g, [])

def monMove (s : St) (c : Conn) (impl : List String) : Mon × List String :=
  let g := s.mon
  if impl = ["ok"] then
    let pf := match g.status c.hash c.peer with
      | some none => []
      | some (some c') => [s!"side=impl key=active-without-pending MovePendingToActive c{c.id} accepted while h{c.hash}/p{c.peer} is active with c{c'}"]
      | none => [s!"side=impl key=active-without-pending MovePendingToActive c{c.id} accepted while h{c.hash}/p{c.peer} holds no pending entry"]
    ({ (g.remove c.hash c.peer) with occ := (g.remove c.hash c.peer).occ ++ [(c.hash, c.peer, some c.id)],
                                     guarded := g.guarded.filter fun e => !(e.1 == c.hash && e.2.1 == c.peer) }, pf)
  else (g, [])

def monDeleteActive (g : Mon) (c : Conn) : Mon :=
  match g.status c.hash c.peer with
  | some (some c') =>
    if c' = c.id then { (g.remove c.hash c.peer) with guarded := g.guarded.filter fun e => !(e.1 == c.hash && e.2.1 == c.peer) }
    else { g with guarded := (c.hash, c.peer, c') :: g.guarded }
  | _ => g

def monDeletePending (g : Mon) (p h : Nat) : Mon :=
  match g.status h p with
  | some none => g.remove h p
  | _ => g

def monBlacklist (s : St) (p h : Nat) (impl : List String) : Mon :=
  let g := s.mon
  if impl = ["ok"] ∧ !s.cfg.disableBlacklist then g.setBl h p (g.now + s.cfg.blacklistDuration)
  else g

def monIsBl (s : St) (p h : Nat) (impl : List String) : List String :=
  if impl = ["0"] ∧ !s.cfg.disableBlacklist ∧ s.mon.blLive h p then
    [s!"side=impl key=blacklist-expired-early Blacklisted p{p} h{h} is false at t={s.mon.now} although a Blacklist call succeeded less than {s.cfg.blacklistDuration}ns ago"]
  else []

def step (s : St) (kind : String) (args impl : List String) : Option (St × StepOut) :=
  if kind ≠ "op" then none else
  match args with
  | ["add", pt, ht, nt] => do
    let p ← peer? pt; let h ← hash? ht; let nbrs ← peers? nt
    let (m', r) := addPending s.cfg s.m p h nbrs
    let (mon, pf) := monAdd s p h nbrs impl
    pure ({ s with m := m', mon }, { obs := [addTok r], branch := s!"add.{addTok r}", propfails := pf })
  | ["delp", pt, ht] => do
    let p ← peer? pt; let h ← hash? ht
    let br := match lookup s.m h p with | some .pending => "delp.pending" | some _ => "delp.active" | none => "delp.absent"
    pure ({ s with m := deletePending s.m p h, mon := monDeletePending s.mon p h }, { obs := ["ok"], branch := br })
  | ["newconn", ct, ht, pt] => do
    let k ← conn? ct; let h ← hash? ht; let p ← peer? pt
    if (findConn s k).isSome then none else
    pure ({ s with reg := (k, ⟨k, h, p, false⟩) :: s.reg }, { obs := ["ok"], branch := "newconn" })
  | ["close", ct] => do
    let k ← conn? ct
    let c ← findConn s k
    pure ({ s with reg := s.reg.map fun e => if e.1 == k then (k, { c with closed := true }) else e },
          { obs := ["ok"], branch := "close" })
  | ["move", ct] => do
    let k ← conn? ct
    let c ← findConn s k
    let (m', r) := movePendingToActive s.m c
    let tok := match r with | .ok => "ok" | .closed => "closed" | .invalidTransition => "invalid"
    let (mon, pf) := monMove s c impl
    pure ({ s with m := m', mon }, { obs := [tok], branch := s!"move.{tok}", propfails := pf })
  | ["dela", ct] => do
    let k ← conn? ct
    let c ← findConn s k
    let br := match lookup s.m c.hash c.peer with
      | some (.active id) => if id = c.id then "dela.own" else "dela.replaced"
      | some .pending => "dela.pending"
      | none => "dela.absent"
    pure ({ s with m := deleteActive s.m c, mon := monDeleteActive s.mon c }, { obs := ["ok"], branch := br })
  | ["bl", pt, ht] => do
    let p ← peer? pt; let h ← hash? ht
    let (m', r) := blacklistOp s.cfg s.m p h
    let tok := match r with | .ok => "ok" | .already => "already"
    pure ({ s with m := m', mon := monBlacklist s p h impl },
          { obs := [tok], branch := if s.cfg.disableBlacklist then "bl.disabled" else s!"bl.{tok}" })
  | ["isbl", pt, ht] => do
    let p ← peer? pt; let h ← hash? ht
    let b := blacklisted s.m p h
    pure (s, { obs := [boolTok b], branch := s!"isbl.{boolTok b}", propfails := monIsBl s p h impl })
  | ["clearbl", ht] => do
    let h ← hash? ht
    pure ({ s with m := clearBlacklist s.m h,
                   mon := { s.mon with bl := s.mon.bl.filter (·.1 != h), blDial := s.mon.blDial.filter (·.1 != h) } },
          { obs := ["ok"], branch := "clearbl" })
  | ["sat", ht] => do
    let h ← hash? ht
    let b := saturated s.cfg s.m h
    pure (s, { obs := [boolTok b], branch := s!"sat.{boolTok b}" })
  | ["active"] =>
    let ids := sortNat (activeConns s.m)
    let implIds := (impl.head?.map list?).getD [] |>.filterMap conn?
    let pf := s.mon.guarded.filterMap fun (h, p, c) =>
      if c ∈ implIds then none else
        some s!"side=impl key=replaced-conn-removed conn c{c} (h{h}/p{p}) is no longer active after DeleteActive of an older connection to the same peer"
    some (s, { obs := [listTok (ids.map (s!"c{·}"))], branch := s!"active.{min ids.length 3}", propfails := pf })
  | ["snap"] =>
    let xs := (snapshot s.m).foldr insertSnap []
    some (s, { obs := [listTok (xs.map fun (h, p, r) => s!"h{h}:p{p}:{r}")], branch := s!"snap.{min xs.length 3}" })
  | ["adv", dt] => do
    let d ← nat? dt
    pure ({ s with m := KrakenModel.ConnState.step s.cfg s.m (.advance d), mon := { s.mon with now := s.mon.now + d } },
          { obs := ["ok"], branch := "adv" })
  | _ => none

def machine : Machine := { σ := St, name := "cs", init := init, step := step }

/-! ### scheduler events -/

/-- the reserved peer number standing for the scheduler's own peer id -/
def selfPeer : Nat := 999

structure ESt where
  base : St
  lastDial : List (Nat × List Nat × List Nat) := []   -- per hash: model's dialled list, announced peers

def peerOrSelf? (t : String) : Option Nat := if t = "self" then some selfPeer else peer? t

/-- ghost effect of a `Blacklist` call made inside an event handler (its error is only logged) -/
def ghostBlacklist (s : St) (p h : Nat) : Mon :=
  if s.cfg.disableBlacklist ∨ s.mon.blLive h p then s.mon
  else s.mon.setBl h p (s.mon.now + s.cfg.blacklistDuration)

def estep (es : ESt) (kind : String) (args impl : List String) : Option (ESt × StepOut) :=
  if kind ≠ "op" then none else
  let s := es.base
  match args with
  | ["announce", ht, lt] => do
    let h ← hash? ht
    let peers ← (list? lt).mapM peerOrSelf?
    let (m', dl) := announceResult s.cfg s.m selfPeer h peers
    let full := (count s.m h : Int) = s.cfg.max
    let br := if s.m.completed.contains h then "announce.complete" else
      if dl.isEmpty then (if full then "announce.full" else "announce.none")
      else if dl.length < (peers.filter (fun p => p ≠ selfPeer ∧ !blacklisted s.m p h ∧ (lookup s.m h p).isNone)).eraseDups.length
      then "announce.cut-at-capacity" else "announce.all"
    pure ({ es with base := { s with m := m' }, lastDial := (h, dl, peers) :: es.lastDial.filter (·.1 != h) },
          { obs := ["ok"], branch := br })
  | ["dialled", ht] => do
    let h ← hash? ht
    let (dl, peers) := ((es.lastDial.find? (·.1 == h)).map (·.2)).getD ([], [])
    let implDl := (impl.head?.map list?).getD [] |>.filterMap peer?
    let g := s.mon
    let pf : List String :=
      (implDl.flatMap fun q =>
        (if !s.cfg.disableBlacklist ∧ g.blDialLive h q then
          [s!"side=impl key=dialled-blacklisted announce result for h{h} dialled p{q} at t={g.now}, less than {s.cfg.blacklistDuration}ns after it was blacklisted"] else []) ++
        (if q ∉ peers then
          [s!"side=impl key=dialled-unannounced p{q} became pending for h{h} although the announce result did not list it"] else [])) ++
      (if s.cfg.max ≥ 0 ∧ ((g.count h + (implDl.filter fun q => (g.status h q).isNone).length : Nat) : Int) > s.cfg.max then
        [s!"side=impl key=over-capacity announce result for h{h} dialled {implDl.length} peers on top of {g.count h} pending/active conns, max {s.cfg.max}"] else [])
    let occ := implDl.foldl (fun occ q => if occ.any (fun e => e.1 == h && e.2.1 == q) then occ else occ ++ [(h, q, none)]) g.occ
    pure ({ es with base := { s with mon := { g with occ } } },
          { obs := [listTok ((sortNat dl).map (s!"p{·}"))], branch := s!"dialled.{min dl.length 3}", propfails := pf })
  | ["connclosed", ct] => do
    let k ← conn? ct
    let c ← findConn s k
    let br := match lookup s.m c.hash c.peer with
      | some (.active id) => if id = c.id then "connclosed.own" else "connclosed.replaced"
      | _ => "connclosed.stale"
    let mon1 := monDeleteActive s.mon c
    let mon := ghostBlacklist { s with mon := mon1 } c.peer c.hash
    pure ({ es with base := { s with m := connClosed s.cfg s.m c, mon } }, { obs := ["ok"], branch := br })
  | ["failout", pt, ht] => do
    let p ← peer? pt; let h ← hash? ht
    let mon1 := monDeletePending s.mon p h
    let mon := ghostBlacklist { s with mon := mon1 } p h
    pure ({ es with base := { s with m := failedOutgoing s.cfg s.m p h, mon } }, { obs := ["ok"], branch := "failout" })
  | ["incoming", pt, ht, nt] => do
    -- incomingHandshakeEvent: AddPending with the neighbours taken from the handshake's remote bitfields
    let p ← peer? pt; let h ← hash? ht; let nbrs ← peers? nt
    let (m', r) := addPending s.cfg s.m p h nbrs
    let tok := if r = .ok then "ok" else "rejected"
    let (mon, pf) := monAdd s p h nbrs (if impl = ["ok"] then ["ok"] else ["rejected"])
    pure ({ es with base := { s with m := m', mon } }, { obs := [tok], branch := s!"incoming.{addTok r}", propfails := pf })
  | [ev, ct] => do
    if ev = "outgoing" ∨ ev = "inconn" then
      -- outgoingConnEvent / incomingConnEvent: addOutgoingConn / addIncomingConn = MovePendingToActive first
      let k ← conn? ct
      let c ← findConn s k
      let (m', r) := movePendingToActive s.m c
      let tok := if r = .ok then "ok" else "failed"
      let (mon, pf) := monMove s c (if impl = ["ok"] then ["ok"] else ["failed"])
      pure ({ es with base := { s with m := m', mon } },
            { obs := [tok], branch := s!"{ev}.{match r with | .ok => "ok" | .closed => "closed" | .invalidTransition => "invalid"}", propfails := pf })
    else if ev = "complete" then
      -- dispatcherCompleteEvent: clears the torrent's blacklist; the torrent is complete from now on
      let h ← hash? ct
      pure ({ es with base := { s with m := dispatcherComplete s.m h, mon := { s.mon with bl := s.mon.bl.filter (·.1 != h) } } },
            { obs := ["ok"], branch := "complete" })
    else do
      let args' := match args with
        | "padd" :: rest => "add" :: rest
        | "pdelp" :: rest => "delp" :: rest
        | _ => args
      let (s', out) ← step s kind args' impl
      pure ({ es with base := s' }, out)
  | ["failin", pt, ht] => do
    let p ← peer? pt; let h ← hash? ht
    pure ({ es with base := { s with m := deletePending s.m p h, mon := monDeletePending s.mon p h } },
          { obs := ["ok"], branch := "failin" })
  | _ => do
    -- `padd` / `pdelp`: AddPending / DeletePending calls made by the harness itself (sentinel, probes)
    let args' := match args with
      | "padd" :: rest => "add" :: rest
      | "pdelp" :: rest => "delp" :: rest
      | _ => args
    let (s', out) ← step s kind args' impl
    pure ({ es with base := s' }, out)

def eventsMachine : Machine :=
  { σ := ESt, name := "cse", init := fun toks => (init toks).map fun s => { base := s }, step := estep }

end C16

def main (args : List String) : IO UInt32 := runMachines [C16.machine, C16.eventsMachine] args
