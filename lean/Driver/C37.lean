import Driver.Frame
import KrakenModel.Model.BackendSpec
import KrakenModel.Model.ShadowBackend
import KrakenModel.Model.SqlBackend
/- Driver for C37: replays backend.Client histories on the storage-contract specification
   (`Model.BackendSpec`, keyed by blob path / S3 key) instantiated with the matching relation,
   size tracking and pagination behaviour of the backend named in the cfg record, and monitors
   the contract on what the implementation returned (against the uploads it acknowledged).

   cfg  be=testfs|sql|s3|shadow [active=… shadow=…] pather=identity|docker_tag|none root=<r>
        match=dir|str|repo sizes=0|1 paged=1|err|ignore emptylist=ok|err [listmax=<n> cap=<n>]
   op upload[@active|@shadow] <name> <bytes> [r=plain] => ok | err:<class>
   op download <name> [w=at]    => bytes <b> | notfound | err:<class>
   op stat <name>               => size <n> | notfound | err:<class>
   op list <prefix>             => names <sorted names> | err:<class>
   op page <prefix> <k> <tok|-> => names <names in order> next=<tok|-> | err:<class>
   op put-raw <key> <bytes>     => ok        (s3 only: an object stored under a key by someone else)
   op download@shadow|download@active <name>   (shadow only: read one wrapped backend directly)

   The answers come from the models the theorems of Spec/C37 are about: `BackendSpec` (store, server
   pager, `clientPage` = the page loop of s3backend.List with its convertible-key filter),
   `ShadowBackend` (two wrapped stores, seekable sources) and `SqlBackend` (table, upsert, the two
   ORDER BY queries); key mapping and matching relation per backend are computed here.
-/
open Driver KrakenModel KrakenModel.BackendSpec

namespace C37

def slt (a b : String) : Bool := decide (a < b)

structure Cfg where
  be : String
  shadowed : Bool
  pather : String
  root : String
  mtch : String
  sizes : Bool
  paged : String
  emptyErr : Bool
  listmax : Nat
  cap : Nat

structure Mon where
  ups : List (String × Bytes) := []      -- name ↦ bytes of the last upload the client acknowledged
  direct : Bool := false                 -- a wrapped client was written directly: contract monitors muted
  sess : List (String × List String × Nat) := []   -- open pagination sessions: "prefix k" ↦ names so far, uploads seen at start
  nups : Nat := 0

structure St where
  cfg : Cfg
  sh : ShadowBackend.State String := {}  -- the (active) store; the shadow side for be=shadow
  tbl : SqlBackend.Table String String := []   -- be=sql: the tags table
  names : List (String × String) := []   -- key ↦ name
  mon : Mon := {}

def St.act (s : St) : Store String := s.sh.active

/-- keys of the backend in key order (for be=sql: "repo:tag" in (repo, tag) order) -/
def St.allKeys (s : St) : List String :=
  if s.cfg.be = "sql" then
    (SqlBackend.catalogQuery slt s.tbl).flatMap fun r => (SqlBackend.tagsQuery slt s.tbl r).map fun t => r ++ ":" ++ t
  else keys s.act

def init (toks : List String) : Option St := do
  let be ← kv? toks "be"
  let pather ← kv? toks "pather"
  let root ← kv? toks "root"
  let mtch ← kv? toks "match"
  let sizes ← (kv? toks "sizes").bind bool?
  let paged ← kv? toks "paged"
  let el ← kv? toks "emptylist"
  let listmax := ((kv? toks "listmax").bind nat?).getD 250
  let cap := ((kv? toks "cap").bind nat?).getD 0
  if ¬ (be = "testfs" ∨ be = "sql" ∨ be = "s3" ∨ be = "shadow") then none
  if ¬ (pather = "identity" ∨ pather = "docker_tag" ∨ pather = "none") then none
  if ¬ (mtch = "dir" ∨ mtch = "str" ∨ mtch = "repo") then none
  pure { cfg := { be, shadowed := be = "shadow", pather, root, mtch, sizes, paged, emptyErr := el = "err", listmax,
                  cap := if cap = 0 then 1000 else cap } }

/-- `repo:tag` with both parts non-empty -/
def repoTag? (name : String) : Option (String × String) :=
  match name.splitOn ":" with
  | [r, t] => if r.isEmpty ∨ t.isEmpty then none else some (r, t)
  | _ => none

def stripSlash (s : String) : String := if s.startsWith "/" then (s.drop 1).toString else s

/-- the root as `path.Join` leaves it: no trailing slash, `/` alone is empty -/
def cleanRoot (r : String) : String :=
  let cs := (r.toList.reverse.dropWhile (· = '/')).reverse
  String.ofList cs

def basePath (c : Cfg) : String :=
  if c.pather = "docker_tag" then cleanRoot c.root ++ "/docker/registry/v2/repositories" else cleanRoot c.root

/-- storage key of a name (`none`: the client rejects the name) -/
def key? (c : Cfg) (name : String) : Option String :=
  if c.pather = "identity" then some (stripSlash (cleanRoot c.root ++ "/" ++ name))
  else match repoTag? name with
    | none => none
    | some (r, t) =>
      if c.pather = "none" then some name
      else some (stripSlash (basePath c ++ "/" ++ r ++ "/_manifests/tags/" ++ t ++ "/current/link"))

def prefixPath (c : Cfg) (p : String) : String :=
  stripSlash (if p.isEmpty then basePath c else basePath c ++ "/" ++ p)

def sqlRepo (p : String) : String :=
  let t := if p.endsWith "/_manifests/tags" then (p.dropEnd "/_manifests/tags".length).toString else p
  stripSlash t

def matchesP (c : Cfg) (p : String) (key : String) : Bool :=
  if c.mtch = "dir" then key.startsWith (prefixPath c p ++ "/")
  else if c.mtch = "str" then key.startsWith (prefixPath c p)
  else match repoTag? key with
    | some (r, _) => r = sqlRepo p
    | none => false

def nameOf (s : St) (key : String) : String := ((s.names.find? (·.1 = key)).map (·.2)).getD key

def sortStr (xs : List String) : List String := xs.mergeSort (fun a b => decide (a ≤ b))

def dedup (xs : List String) : List String := xs.eraseDups

def namesTok (xs : List String) : String := listTok xs

/-- a key the client can convert back to a name (keys written by someone else cannot) -/
def conv (s : St) (k : String) : Bool := s.names.any (·.1 = k)

/-- unpaginated List of the active backend, in the backend's own order (`none`: the error class) -/
def listNames (s : St) (p : String) : Except String (List String) :=
  let c := s.cfg
  if c.be = "sql" then
    if p.isEmpty then .ok ((SqlBackend.catalogQuery slt s.tbl).map (· ++ ":dummy"))
    else
      let repo := sqlRepo p
      .ok ((SqlBackend.tagsQuery slt s.tbl repo).map fun t => repo ++ ":" ++ t)
  else if c.mtch = "repo" then
    if p.isEmpty then
      .ok ((sortStr (dedup ((keys s.act).filterMap fun k => (repoTag? k).map (·.1)))).map (· ++ ":dummy"))
    else .ok ((list (matchesP c p) s.act).map (nameOf s))
  else if c.mtch = "dir" then
    let under := list (matchesP c p) s.act
    if under.isEmpty ∧ c.emptyErr ∧ ¬ (keys s.act).contains (prefixPath c p) then .error "err:status500"
    else .ok (under.map (nameOf s))
  else
    -- s3backend.List without pagination: the page loop reads every server page
    let ks := list (matchesP c p) s.act
    .ok ((clientPage slt (conv s) ks c.listmax c.cap none (ks.length + 1) none []).1.map (nameOf s))

/-- the harness reports an unpaginated listing sorted -/
def listObs (s : St) (p : String) : List String :=
  match listNames s p with
  | .ok ns => ["names", namesTok (sortStr ns)]
  | .error e => [e]

def tokKey? (t : String) : Option (Option String) :=
  if t = "-" then some none else
  match t.toList with
  | 'k' :: rest => (unhexAux rest []).map fun bs => some (String.ofList (bs.map Char.ofNat))
  | _ => none

def tokOf (k : String) : String := "k" ++ hexOf (k.toList.map Char.toNat)

def pageObs (s : St) (p : String) (k : Nat) (tok : String) : List String :=
  let c := s.cfg
  if c.paged = "err" then ["err:nopagination"]
  else if c.paged = "ignore" then
    match listNames s p with
    | .ok ns => ["names", namesTok ns, "next=-"]
    | .error e => [e]
  else match tokKey? tok with
    | none => ["err:other"]
    | some t =>
      let ks := list (matchesP c p) s.act
      let (pg, next) := clientPage slt (conv s) ks k c.cap (some k) (ks.length + 1) t []
      ["names", namesTok (pg.map (nameOf s)), "next=" ++ (match next with | none => "-" | some x => tokOf x)]

def ghostNames (s : St) (p : String) : List String :=
  sortStr ((s.mon.ups.filter fun (n, _) => match key? s.cfg n with | some k => matchesP s.cfg p k | none => false).map (·.1))

def step (s : St) (kind : String) (args impl : List String) : Option (St × StepOut) :=
  if kind ≠ "op" then none else
  let c := s.cfg
  let mute := s.mon.direct
  match args with
  | ["download", nameT] | ["download", nameT, "w=at"] =>
    let obs := match key? c nameT with
      | none => ["err:badname"]
      | some k =>
        let r := if c.be = "sql" then
            (match repoTag? nameT with
              | some (rp, tg) => (match SqlBackend.first s.tbl rp tg with | some b => DownloadResult.bytes b | none => .notFound)
              | none => .notFound)
          else if c.shadowed then ShadowBackend.sdownload s.sh k else download s.act k
        match r with
        | .bytes b => ["bytes", bytesTok b]
        | .notFound => ["notfound"]
    let ghost := (s.mon.ups.find? (·.1 = nameT)).map (·.2)
    let pf : List String := if mute then [] else
      match impl, ghost with
      | ["bytes", bt], some g => if bytes? bt ≠ some g then
          [s!"side=impl key=download-not-last-upload download of {nameT} returned {(bt.take 40)}, last acknowledged upload was {((bytesTok g).take 40)}"] else []
      | ["bytes", _], none => [s!"side=impl key=download-of-never-uploaded download of {nameT} returned bytes, the name was never uploaded"]
      | ["notfound"], some _ => [s!"side=impl key=uploaded-blob-not-found download of {nameT} says not found after an acknowledged upload"]
      | _, _ => []
    some (s, { obs, propfails := pf, branch := s!"download.{c.be}.{obs.headD ""}" })
  | ["stat", nameT] =>
    let obs := match key? c nameT with
      | none => ["err:badname"]
      | some k =>
        let sz : Option Nat := if c.be = "sql" then
            (match repoTag? nameT with
              | some (rp, tg) => (SqlBackend.first s.tbl rp tg).map List.length
              | none => none)
          else if c.shadowed then ShadowBackend.sstat s.sh k else stat s.act k
        match sz with
        | some n => ["size", toString (if c.sizes then n else 0)]
        | none => ["notfound"]
    let ghost := (s.mon.ups.find? (·.1 = nameT)).map (·.2)
    let pf : List String := if mute then [] else
      match impl, ghost with
      | ["size", n], some g => if c.sizes ∧ nat? n ≠ some g.length then
          [s!"side=impl key=stat-size-not-last-upload stat of {nameT} says {n}, last acknowledged upload had {g.length} bytes"] else []
      | ["size", _], none => [s!"side=impl key=stat-of-never-uploaded stat of {nameT} succeeded, the name was never uploaded"]
      | ["notfound"], some _ => [s!"side=impl key=uploaded-blob-not-found stat of {nameT} says not found after an acknowledged upload"]
      | _, _ => []
    some (s, { obs, propfails := pf, branch := s!"stat.{c.be}.{obs.headD ""}" })
  | ["list", pT] => do
    let p ← str? pT
    let obs := listObs s p
    let want := ghostNames s p
    let pf : List String :=
      if mute ∨ (c.mtch = "repo" ∧ p.isEmpty) then [] else
      match impl with
      | ["names", ns] => if sortStr (list? ns) ≠ want then
          [s!"side=impl key=listing-not-exactly-the-stored-names list returned {list? ns}, stored under the prefix: {want}"] else []
      | _ => []
    pure (s, { obs, propfails := pf, branch := s!"list.{c.be}.{obs.headD ""}" })
  | ["download@shadow", nameT] | ["download@active", nameT] =>
    if ¬ c.shadowed then none else
    let side := if args.head? = some "download@shadow" then s.sh.shadow else s.sh.active
    let obs := match key? c nameT with
      | none => ["err:badname"]
      | some k => match download side k with
        | .bytes b => ["bytes", bytesTok b]
        | .notFound => ["notfound"]
    -- both wrapped backends hold what the shadow client was given
    let ghost := (s.mon.ups.find? (·.1 = nameT)).map (·.2)
    let pf : List String := if mute then [] else
      match impl, ghost with
      | ["bytes", bt], some g => if bytes? bt ≠ some g then
          [s!"side=impl key=shadow-side-not-last-upload a wrapped backend holds {(bt.take 40)} for {nameT}, the shadow client was given {((bytesTok g).take 40)}"] else []
      | ["notfound"], some _ => [s!"side=impl key=shadow-side-not-last-upload a wrapped backend does not hold {nameT} after an acknowledged upload"]
      | _, _ => []
    some (s, { obs, propfails := pf, branch := s!"download-side.shadow.{obs.headD ""}" })
  | ["put-raw", keyT, bT] => do
    let key ← str? keyT
    let b ← bytes? bT
    if c.be ≠ "s3" ∨ conv s key then none
    pure ({ s with sh := ShadowBackend.step slt s.sh (.uploadActive key b) }, { obs := ["ok"], branch := "put-raw.s3" })
  | opn :: nameT :: bT :: rest => do
    -- upload variants
    if ¬ (opn = "upload" ∨ opn = "upload@active" ∨ opn = "upload@shadow") then
      -- page <prefix> <k> <tok>
      if opn = "page" ∧ rest = [] ∨ opn = "page" ∧ rest.length = 1 then
        let p ← str? nameT
        let k ← nat? bT
        let tok ← rest.head?
        let obs := pageObs s p k tok
        -- pagination session bookkeeping on the implementation's answers
        let sessKey := nameT ++ " " ++ bT
        let prior := s.mon.sess.find? (·.1 = sessKey)
        let (pf, sess') : List String × List (String × List String × Nat) :=
          match impl with
          | ["names", ns, nx] =>
            let got := list? ns
            let accStart : Option (List String × Nat) :=
              if tok = "-" then some ([], s.mon.nups) else prior.map (·.2)
            match accStart with
            | none => ([], s.mon.sess)
            | some (acc, n0) =>
              let acc' := acc ++ got
              let others := s.mon.sess.filter (·.1 ≠ sessKey)
              if nx = "next=-" then
                let want := ghostNames s p
                let bad := ¬ mute ∧ c.paged = "1" ∧ n0 = s.mon.nups ∧ sortStr acc' ≠ want
                (if bad then [s!"side=impl key=paginated-listing-not-exactly-once pages gave {acc'}, stored under the prefix: {want}"] else [], others)
              else (if got.isEmpty ∧ c.paged = "1" ∧ ¬ mute then ["side=impl key=empty-page-with-token a page without names carries a continuation token"] else [],
                    (sessKey, acc', n0) :: others)
          | _ => ([], s.mon.sess)
        pure ({ s with mon := { s.mon with sess := sess' } }, { obs, propfails := pf, branch := s!"page.{c.be}.{obs.headD ""}" })
      else none
    else
    let b ← bytes? bT
    let plain := rest = ["r=plain"]
    if rest ≠ [] ∧ ¬ plain then none
    if opn ≠ "upload" ∧ ¬ c.shadowed then none
    let obs : String :=
      if opn = "upload" ∧ c.shadowed ∧ (ShadowBackend.upload slt s.sh "" { data := b, seekable := !plain }).2 = .refused then "err:refused"
      else match key? c nameT with
        | none => "err:badname"
        | some _ => "ok"
    let s1 : St :=
      if obs ≠ "ok" then s else
      match key? c nameT with
      | none => s
      | some k =>
        let nm := if s.names.any (·.1 = k) then s.names else (k, nameT) :: s.names
        if c.be = "sql" then
          match repoTag? nameT with
          | some (rp, tg) => { s with tbl := SqlBackend.upsert s.tbl rp tg b, names := nm }
          | none => s
        else if opn = "upload" ∧ c.shadowed then
          { s with sh := ShadowBackend.step slt s.sh (.upload k { data := b, seekable := !plain }), names := nm }
        else if opn = "upload@shadow" then { s with sh := ShadowBackend.step slt s.sh (.uploadShadow k b), names := nm }
        else { s with sh := ShadowBackend.step slt s.sh (.uploadActive k b), names := nm }
    let mon1 : Mon :=
      if opn ≠ "upload" then { s.mon with direct := true }
      else if impl = ["ok"] then { s.mon with ups := (nameT, b) :: s.mon.ups.filter (·.1 ≠ nameT), nups := s.mon.nups + 1 }
      else s.mon
    pure ({ s1 with mon := mon1 }, { obs := [obs], branch := s!"{opn}.{c.be}.{obs}" })
  | _ => none

def machine : Machine := { σ := St, name := "be", init := init, step := step }

end C37

def main (args : List String) : IO UInt32 := runMachines [C37.machine] args
