import Driver.Frame
import KrakenModel.Model.FileModel
/- Driver for C12.  Machines `brw` (base.BufferReadWriter), `memf` (memory.File, several handles on one
   blob), `bfr` (store.NewBufferFileReader = bytes.Reader, read-only).  Every record carries what the
   subject returned AND what a real os.File subjected to the same operation returned:

     cfg handles=<k> [init=x<hex>]
     op write <h> x<hex> | writeat <h> x<hex> <off> | read <h> <n> | readat <h> <n> <off>
        | seek <h> <whence 0|1|2|other> <delta> | size | evict
        => S <obs> sz=<size> pos=<offset of h> O <obs> sz=<size> pos=<offset of h>
     obs: n=<count> | x<hex bytes read> | off=<n> | size=<n> | err | evicted

   The model replays the subject model and the POSIX file model side by side (so the POSIX model
   itself is validated against the real file system), and the monitor compares the two halves of the
   implementation's observation on the property's domain. -/
open Driver KrakenModel.FileModel

namespace C12

inductive Kind where | brw | memf | bfr
  deriving DecidableEq

structure St where
  kind : Kind
  subj : State
  os : State
  inDom : Bool := true     -- the history so far stayed within the property's domain (Spec.C12.DomRun)

def obsTok : Obs → String
  | .count n => s!"n={n}"
  | .data b => bytesTok b
  | .off n => s!"off={n}"
  | .size n => s!"size={n}"
  | .err => "err"
  | .evicted => "evicted"
  | .badHandle => "badhandle"

def whence? (t : String) : Whence :=
  if t = "0" then .start else if t = "1" then .current else if t = "2" then .end_ else .bad

def parseOp (args : List String) : Option (Op × Nat) :=
  match args with
  | ["write", h, p] => do pure (.write (← h.toNat?) (← bytes? p), ← h.toNat?)
  | ["writeat", h, p, o] => do pure (.writeAt (← h.toNat?) (← bytes? p) (← o.toInt?), ← h.toNat?)
  | ["read", h, n] => do pure (.read (← h.toNat?) (← n.toNat?), ← h.toNat?)
  | ["readat", h, n, o] => do pure (.readAt (← h.toNat?) (← n.toNat?) (← o.toInt?), ← h.toNat?)
  | ["seek", h, w, d] => do pure (.seek (← h.toNat?) (whence? w) (← d.toInt?), ← h.toNat?)
  | ["size"] => some (.size, 0)
  | ["evict"] => some (.evict, 0)
  | _ => none

def subjStep (k : Kind) : State → Op → State × Obs :=
  match k with
  | .brw => bufStep
  | .memf => memStep
  | .bfr => osStep

def tail (s : State) (h : Nat) : List String :=
  [match s.content with | some c => s!"sz={c.length}" | none => "sz=-1", s!"pos={(s.offs[h]?).getD 0}"]

/-- the property's domain for this operation (evaluated on the OS-file model state) -/
def inDomain (k : Kind) (s : State) (op : Op) : Bool :=
  if k ≠ .memf then op ≠ .evict else     -- Spec.C12.buf_step_eq needs no restriction at all
  match op with
  | .evict => false
  | .readAt _ _ off => off ≥ 0
  | .writeAt _ _ off => off ≥ 0
  | .seek h w d =>
    match s.content, s.offs[h]? with
    | some c, some o =>
      match seekTarget c o w d with
      | some t => t ≤ c.length
      | none => true
    | _, _ => true
  | _ => true

def init (k : Kind) (cfg : List String) : Option St := do
  let hs := ((kv? cfg "handles").bind (·.toNat?)).getD 1
  let initB ← match kv? cfg "init" with
    | some t => bytes? t
    | none => some []
  let s : State := { content := some initB, offs := List.replicate hs 0 }
  pure { kind := k, subj := s, os := s }

def step (s : St) (kind : String) (args impl : List String) : Option (St × StepOut) :=
  if kind ≠ "op" then none else do
  let (op, h) ← parseOp args
  let evictedBefore := s.subj.content.isNone
  let dom := s.inDom && inDomain s.kind s.os op && !evictedBefore
  let (subj', so) := subjStep s.kind s.subj op
  let (os', oo) := if op = .evict then (s.os, Obs.count 0) else osStep s.os op
  let obs := ["S", obsTok so] ++ tail subj' h ++ ["O", obsTok oo] ++ tail os' h
  -- monitor: the two halves of the implementation's own observation
  let implS := impl.takeWhile (· ≠ "O")
  let implO := (impl.dropWhile (· ≠ "O")).drop 1
  let pf := if dom ∧ implS.drop 1 ≠ implO ∧ !implO.isEmpty then
      [s!"side=impl key=differs-from-os-file {sp args}: buffer returned {sp (implS.drop 1)}, os.File returned {sp implO}"]
    else []
  let br := (args.headD "") ++ (if dom then "" else ".outdom") ++
    (match so with | .data [] => ".empty" | .err => ".err" | .evicted => ".evicted" | _ => "")
  pure ({ s with subj := subj', os := os', inDom := dom }, { obs, branch := br, propfails := pf })

def machine (k : Kind) (name : String) : Machine := { σ := St, name := name, init := init k, step := step }

end C12

def main (args : List String) : IO UInt32 :=
  runMachines [C12.machine .brw "brw", C12.machine .memf "memf", C12.machine .bfr "bfr"] args
