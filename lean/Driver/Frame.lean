import Driver.Tok
import Std.Data.HashMap
/-
  Generic transcript-replay frame for the model drivers (core Lean + Std only).

  Transcript (one record per line, space separated tokens, first token = machine name):
    <m> cfg <toks…>                 start of a case, (re)initialises the model
    <m> op  <toks…> => <obs…>       an operation and what the real code returned
    <m> <kind> <toks…> [=> <obs…>]  any other record kind is handed to `step` as well
    <m> propfail key=<K> <detail…>  predicate failure seen by the Go harness on the real code
    <m> end                         end of the case
    <m> one <toks…> => <obs…>       a self-contained one-line case (init [] ; step "one" ; end)
    # …                             comment

  Output: one line per problem and a `CASE n FAIL first=<line> last=<line>` line per failed case,
  then `SUMMARY …` and `BRANCH <id> <count>` lines.
-/
namespace Driver

structure StepOut where
  obs : List String := []
  branch : String := ""
  /-- predicate failures detected by the model driver; each is `side=model|impl key=<K> detail…` -/
  propfails : List String := []

structure Machine where
  σ : Type
  name : String
  init : List String → Option σ
  /-- `step s kind args implObs` ; `none` = unparsable record -/
  step : σ → String → List String → List String → Option (σ × StepOut)

structure Stats where
  cases : Nat := 0
  failed : Nat := 0
  ops : Nat := 0
  diffs : Nat := 0
  propfails : Nat := 0
  badlines : Nat := 0
  branches : Std.HashMap String Nat := {}
  seen : Std.HashSet UInt64 := {}   -- hashes of the case transcripts seen so far
  distinct : Nat := 0               -- distinct cases with at least one replayed record
  dumped : Nat := 0                 -- failed cases echoed with CASELINE records
  complete : Bool := false          -- the harness wrote its `# complete` trailer
  seenKeys : Std.HashSet String := {}   -- PROPFAIL keys whose case has been echoed

structure Cur (σ : Type) where
  st : Option σ := none      -- none: no open case
  first : Nat := 0
  dead : Bool := false       -- after a DIFF the model no longer follows the implementation
  bad : Bool := false
  hash : UInt64 := 7
  nrec : Nat := 0
  lines : List String := []  -- the case's lines, newest first (kept for the failure echo)
  keys : List String := []   -- PROPFAIL keys raised in this case
  diffed : Bool := false     -- a DIFF was already reported for this case (later ones are not repeated)

def bump (m : Std.HashMap String Nat) (k : String) : Std.HashMap String Nat :=
  if k.isEmpty then m else m.insert k (m.getD k 0 + 1)

def sp (xs : List String) : String := " ".intercalate xs

/-- the `key=<K>` of a PROPFAIL text ("" when absent) -/
def keyOf (pf : String) : String :=
  ((pf.splitOn " ").findSome? fun t => if t.startsWith "key=" then some (t.drop 4).toString else none).getD ""

def mixHash (a b : UInt64) : UInt64 := (a ^^^ b) * 1099511628211 + 0x9e3779b97f4a7c15

partial def loop (M : Machine) (h : IO.FS.Stream) (ln : Nat) (cur : Cur M.σ) (stats : Stats) : IO Stats := do
  let line ← h.getLine
  if line.isEmpty then
    -- end of input; an unterminated case counts as bad
    if cur.st.isSome ∨ cur.dead then
      IO.println s!"CASE {stats.cases} BADLINE line={ln} unterminated-case"
      return { stats with badlines := stats.badlines + 1, failed := stats.failed + 1 }
    return stats
  let ln := ln + 1
  let toks := (line.trimAscii.toString.splitOn " ").filter (· ≠ "")
  match toks with
  | [] => loop M h ln cur stats
  | t0 :: rest =>
    if t0.startsWith "#" then
      loop M h ln cur (if rest = ["complete"] then { stats with complete := true } else stats)
    else
    let tline := line.trimAscii.toString
    let cur := { cur with hash := mixHash cur.hash (hash tline), lines := tline :: cur.lines }
    if t0 ≠ M.name then
      IO.println s!"CASE {stats.cases} BADLINE line={ln} machine={t0}"
      loop M h ln { cur with bad := true } { stats with badlines := stats.badlines + 1 }
    else
    let endCase (cur : Cur M.σ) (stats : Stats) (last : Nat) : IO (Cur M.σ × Stats) := do
      let fresh := cur.nrec > 0 ∧ !stats.seen.contains cur.hash
      let stats := if fresh then { stats with seen := stats.seen.insert cur.hash, distinct := stats.distinct + 1 } else stats
      if cur.bad then
        IO.println s!"CASE {stats.cases} FAIL first={cur.first} last={last}"
        let mut stats := stats
        -- echo the case: the first 25 failed cases, and any later one that shows a new PROPFAIL key
        let newKey := cur.keys.any (fun k => !stats.seenKeys.contains k)
        if stats.dumped < 25 ∨ (newKey ∧ stats.dumped < 400) then
          for l in cur.lines.reverse do IO.println s!"CASELINE {stats.cases} {l}"
          stats := { stats with dumped := stats.dumped + 1,
                                seenKeys := cur.keys.foldl (fun acc k => acc.insert k) stats.seenKeys }
        pure ({}, { stats with cases := stats.cases + 1, failed := stats.failed + 1 })
      else
        pure ({}, { stats with cases := stats.cases + 1 })
    let doStep (cur : Cur M.σ) (stats : Stats) (s : M.σ) (kind : String) (args : List String) :
        IO (Cur M.σ × Stats) := do
      let (lhs, rhs) := splitArrow args
      let hasObs := args.contains "=>"
      match M.step s kind lhs rhs with
      | none =>
        IO.println s!"CASE {stats.cases} BADLINE line={ln} {sp toks}"
        pure ({ cur with bad := true }, { stats with badlines := stats.badlines + 1 })
      | some (s', out) =>
        let mut stats := { stats with ops := stats.ops + 1, branches := bump stats.branches out.branch }
        let mut cur := { cur with st := some s', nrec := cur.nrec + 1 }
        for pf in out.propfails do
          IO.println s!"CASE {stats.cases} PROPFAIL line={ln} {pf}"
          stats := { stats with propfails := stats.propfails + 1 }
          cur := { cur with bad := true, keys := keyOf pf :: cur.keys }
        if hasObs ∧ out.obs ≠ rhs ∧ !cur.diffed then
          -- The model no longer follows the implementation. The first disagreement of a case is
          -- reported; the case is still replayed to its end so that the monitors, which judge the
          -- implementation's observations, keep running (later DIFFs of the case are not repeated).
          IO.println s!"CASE {stats.cases} DIFF line={ln} op={sp (kind :: lhs)} model={sp out.obs} impl={sp rhs}"
          stats := { stats with diffs := stats.diffs + 1 }
          cur := { cur with bad := true, diffed := true }
        pure (cur, stats)
    match rest with
    | "cfg" :: args =>
      let (cur, stats) ← if cur.st.isSome ∨ cur.dead then endCase cur stats (ln - 1) else pure (cur, stats)
      match M.init args with
      | some s => loop M h ln { st := some s, first := ln, hash := mixHash 7 (hash tline), lines := [tline] } stats
      | none =>
        IO.println s!"CASE {stats.cases} BADLINE line={ln} {sp toks}"
        loop M h ln { st := none, first := ln, dead := true, bad := true, lines := [tline] }
          { stats with badlines := stats.badlines + 1 }
    | ["end"] =>
      let (cur, stats) ← endCase cur stats ln
      loop M h ln cur stats
    | "propfail" :: args =>
      IO.println s!"CASE {stats.cases} PROPFAIL line={ln} side=impl {sp args}"
      loop M h ln { cur with bad := true, keys := keyOf (sp args) :: cur.keys } { stats with propfails := stats.propfails + 1 }
    | "one" :: args =>
      match M.init [] with
      | none =>
        IO.println s!"CASE {stats.cases} BADLINE line={ln} no-default-init"
        loop M h ln cur { stats with badlines := stats.badlines + 1 }
      | some s =>
        let (cur', stats) ← doStep { first := ln, hash := hash tline, lines := [tline] } stats s "one" args
        let (_, stats) ← endCase cur' stats ln
        loop M h ln cur stats
    | kind :: args =>
      if cur.dead then loop M h ln cur stats
      else match cur.st with
        | none =>
          -- record outside a case: open an implicit case with the default configuration
          match M.init [] with
          | none =>
            IO.println s!"CASE {stats.cases} BADLINE line={ln} record-outside-case"
            loop M h ln { cur with bad := true } { stats with badlines := stats.badlines + 1 }
          | some s =>
            let (cur, stats) ← doStep { cur with first := ln } stats s kind args
            loop M h ln cur stats
        | some s =>
          let (cur, stats) ← doStep cur stats s kind args
          loop M h ln cur stats
    | [] =>
      IO.println s!"CASE {stats.cases} BADLINE line={ln} {sp toks}"
      loop M h ln { cur with bad := true } { stats with badlines := stats.badlines + 1 }

/-- pick the machine named by the first command line argument (default: the first one) -/
def pick (ms : List Machine) (args : List String) : Option Machine :=
  match args with
  | [] => ms.head?
  | a :: _ => ms.find? (·.name = a)

def runMachine (M : Machine) : IO UInt32 := do
  let stdin ← IO.getStdin
  let stats ← loop M stdin 0 {} {}
  IO.println s!"SUMMARY machine={M.name} cases={stats.cases} distinct={stats.distinct} failed={stats.failed} ops={stats.ops} diffs={stats.diffs} propfails={stats.propfails} badlines={stats.badlines} complete={if stats.complete then 1 else 0}"
  for (k, v) in stats.branches.toList do
    IO.println s!"BRANCH {k} {v}"
  return 0

def runMachines (ms : List Machine) (args : List String) : IO UInt32 :=
  match pick ms args with
  | some M => runMachine M
  | none => do IO.eprintln s!"unknown machine {args}"; return 2

end Driver
