import Driver.Frame
import KrakenModel.Model.PassiveHealth
/- Driver for C24: replays healthcheck.PassiveFilter / Passive transcripts on the model and
   monitors the failure-window rule on what the implementation returned.

   cfg fails=<int> timeout=<ns>                     raw PassiveFilterConfig (before applyDefaults)
   op failed a<i>        => ok                      PassiveFilter.Failed
   op pfailed a<i>       => ok                      Passive.Failed (must reach PassiveFilter.Failed)
   op run <addrs|->      => <sorted healthy>        PassiveFilter.Run
   op resolve <addrs|->  => <sorted hosts>          Passive.Resolve over that host list
   op adv <ns>           => ok                      clock advance
-/
open Driver KrakenModel.PassiveHealth

namespace C24

def host? (t : String) : Option Nat :=
  match t.toList with
  | 'a' :: ds => if ds.isEmpty then none else (String.ofList ds).toNat?
  | _ => none

def hostTok (h : Nat) : String := s!"a{h}"

def insertSorted (x : Nat) : List Nat → List Nat
  | [] => [x]
  | y :: ys => if x ≤ y then x :: y :: ys else y :: insertSorted x ys

def sortNat (xs : List Nat) : List Nat := xs.foldr insertSorted []

structure St where
  cfg : Config
  m : State := {}
  glog : List (Nat × Int) := []   -- ghost: the Failed calls made, with the clock at that time
  gnow : Int := 0

def init (toks : List String) : Option St := do
  let f ← (kv? toks "fails").bind int?
  let t ← (kv? toks "timeout").bind int?
  pure { cfg := (Config.mk f t).applyDefaults }

/-- the rule evaluated for the listed hosts against the implementation's answer -/
def monRun (s : St) (addrs : List Nat) (implOut : List Nat) : List String :=
  if s.cfg.failTimeout < 0 then [] else
  (addrs.eraseDups.flatMap fun a =>
    let want := shouldFilter s.cfg s.glog s.gnow a
    let got := !implOut.contains a
    if want = got then []
    else if want then
      [s!"side=impl key=filter-missed {hostTok a} is returned at t={s.gnow} although {s.cfg.fails} of its failures {failTimes s.glog a} fall within {s.cfg.failTimeout} of a failure no older than that"]
    else
      [s!"side=impl key=filter-spurious {hostTok a} is filtered out at t={s.gnow} although no failure within {s.cfg.failTimeout} has {s.cfg.fails} failures in its window (failures {failTimes s.glog a})"]) ++
  ((implOut.filter (fun a => !addrs.contains a)).map fun a => s!"side=impl key=filter-unlisted {hostTok a} is returned but was not in the list")

def failedStep (s : St) (ht : String) : Option (St × StepOut) := do
    let h ← host? ht
    let before := (s.m.recs h).unhealthy
    let m' := failed s.cfg s.m h
    let marked := (m'.recs h).unhealthy == some s.m.now
    let br := if marked then (if before.isSome then "failed.remark" else "failed.mark") else
      s!"failed.count{min (m'.recs h).failures.length 3}"
    pure ({ s with m := m', glog := s.glog ++ [(h, s.gnow)] }, { obs := ["ok"], branch := br })

def step (s : St) (kind : String) (args impl : List String) : Option (St × StepOut) :=
  if kind ≠ "op" then none else
  match args with
  | ["failed", ht] => failedStep s ht
  | ["pfailed", ht] => failedStep s ht   -- Passive.Failed, the call site clients use
  | ["run", lt] => do
    let addrs ← (list? lt).mapM host?
    let (m', out) := runF s.cfg s.m addrs
    let implOut := (impl.head?.map list?).getD [] |>.filterMap host?
    let expired := addrs.any fun a => (s.m.recs a).unhealthy.isSome && !(filteredRec s.cfg s.m.now (s.m.recs a))
    pure ({ s with m := m' },
          { obs := [listTok ((sortNat out.eraseDups).map hostTok)],
            branch := s!"run.f{min (addrs.eraseDups.length - out.eraseDups.length) 3}{if expired then ".expired" else ""}",
            propfails := monRun s addrs implOut })
  | ["resolve", lt] => do
    let addrs ← (list? lt).mapM host?
    let (m', out) := resolve s.cfg s.m addrs
    let implOut := (impl.head?.map list?).getD [] |>.filterMap host?
    let healthy := (runF s.cfg s.m addrs).2
    let pfEmpty := if !addrs.isEmpty ∧ implOut.isEmpty ∧ impl.length = 1 then
      [s!"side=impl key=resolve-empty Passive.Resolve returned no host for a list of {addrs.eraseDups.length}"] else []
    -- when some host passes the rule, Resolve is Run's answer (the all-filtered fallback to the
    -- whole list is compared with the model only)
    let anyHealthy := addrs.any fun a => !shouldFilter s.cfg s.glog s.gnow a
    let pf := if anyHealthy then monRun s addrs implOut else []
    pure ({ s with m := m' },
          { obs := [listTok ((sortNat out.eraseDups).map hostTok)],
            branch := if addrs.isEmpty then "resolve.empty" else if healthy.isEmpty then "resolve.fallback" else "resolve.healthy",
            propfails := pfEmpty ++ pf })
  | ["adv", dt] => do
    let d ← nat? dt
    pure ({ s with m := KrakenModel.PassiveHealth.step s.cfg s.m (.advance d), gnow := s.gnow + d }, { obs := ["ok"], branch := "adv" })
  | _ => none

def machine : Machine := { σ := St, name := "ph", init := init, step := step }

/-- Machine `phc` (concurrent callers of one filter) carries no model replay: the harness judges the
implementation with the rule itself (`propfail` records) and reports what it ran. -/
def echoStep (_ : Unit) (kind : String) (args impl : List String) : Option (Unit × StepOut) :=
  if kind ≠ "op" then none else some ((), { obs := impl, branch := s!"{args.headD "?"}" })

def concMachine : Machine := { σ := Unit, name := "phc", init := fun _ => some (), step := echoStep }

end C24

def main (args : List String) : IO UInt32 := runMachines [C24.machine, C24.concMachine] args
