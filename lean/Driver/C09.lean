import Driver.Frame
import Driver.BlobStoreM
import KrakenModel.Model.Tiered
import Driver.C09Check
/-
  Driver for C09 (machine `ts`): replays schedules of client operations and flush-worker steps of
  tiered.Store on `Model.Tiered`, compares every result and the state of both tiers and of the
  flusher after every action, and evaluates the property's predicates on what the implementation
  answered.

  Records
    cfg mcap=<n> dcap=<n> [buf=<n>]    buf: size of the copy buffer used through the ioCopy seam (0: io.Copy's own)
    op create/open/has/list/stat/complete/delete/setmd/getmd/delmd …      client operations
    op openk k sc => ok h<i> | op hread h<i> n | op hreadat h<i> n off | op hsize h<i> | op hclose h<i>
                                       tiered.File handles kept across worker steps and evictions
    step => <point> <key|-> [sfx]      the worker was released and is now parked at <point>:
                                       idle open opened created copy copyeof copied mdsnap md mdwrite
                                       mdcheck fail1 fail2 unban   (or: panic <message>)
    begin <op…> / cpoint => <c-point> <key> / cstep => …
                                       a client operation taken apart at the points between its store
                                       calls (`Tiered.cseg`), with worker steps (`cstep`) in between; the
                                       `op` record that follows closes it with the result
    probe => mem= memc= disk= diskc= f=<key:d|m:dirty+…> q=
  The `md` point carries the suffix the implementation chose from its dirtyMD map (iteration order
  of a Go map): the model checks that it is in its snapshot and follows that choice.
  Suffix tokens: m<j> movable, i<j> immovable, u<j> a suffix no metadata factory is registered for
  (only DeleteMetadata / GetMetadata may name it: see the assumptions of the property).

  Monitors (ghost state built from the implementation's answers only: which keys are live, the bytes
  at MarkComplete, the last successful metadata update, where the worker is parked):
    a completed, not deleted, not disk-evicted blob must open (scope any/complete) with its bytes and
    report its last metadata update; a deleted key must not be visible nor block Create.
  A failure is attributed to a known schedule class when the ghost state shows it:
    recreate-during-flush           the key was re-created while the worker held a flush of it
    md-update-before-unban          its metadata changed while the worker was parked before UnbanEviction
    resurface-during-aborted-flush  it was deleted while the worker was between memOpen and the re-check
  otherwise it is reported under a generic key (lost-blob, corrupt-blob, lost-metadata-update,
  deleted-key-resurfaced, recreate-blocked, handle-lost, handle-bytes, worker-panic).
-/
open Driver KrakenModel.BlobStore KrakenModel.Tiered
open BlobStoreM (key? keyTok keysTok keys? scope? errTok outToks sortNat pf handle?)

namespace C09

/-- `m<j>` ↦ 2j, `i<j>` ↦ 2j+1, `u<j>` ↦ 1000+2j (no factory) -/
def sfx? (t : String) : Option Nat :=
  match t.toList with
  | 'm' :: ds => (String.ofList ds).toNat?.map (2 * ·)
  | 'i' :: ds => (String.ofList ds).toNat?.map (2 * · + 1)
  | 'u' :: ds => (String.ofList ds).toNat?.map (1000 + 2 * ·)
  | _ => none

def sfxTok (n : Nat) : String :=
  if n ≥ 1000 then s!"u{(n - 1000) / 2}" else if n % 2 = 0 then s!"m{n / 2}" else s!"i{n / 2}"

def registered (sfx : Nat) : Bool := sfx < 1000

/-- what the clients were told about an open handle: key, the bytes it must deliver (none: no claim —
    the blob was not complete at Open, or its key has been deleted since), ghost offset -/
structure GHandle where
  key : Nat
  want : Option (List Nat)
  off : Nat := 0

structure Ghost where
  live : List Nat := []                          -- created and not deleted since
  content : List (Nat × List Nat) := []          -- bytes written at Create
  done : List (Nat × List Nat) := []             -- bytes at the successful MarkComplete
  md : List ((Nat × Nat) × Option (List Nat)) := []  -- last successful update per (key, suffix)
  wpoint : String := "idle"                      -- where the implementation's worker is parked
  wkey : Option Nat := none
  recreated : List Nat := []
  mdLate : List Nat := []
  delInFlight : List Nat := []
  handles : List GHandle := []
  mdFailed : List Nat := []      -- keys whose metadata flush failed on the disk store: dropped from disk by the flusher

structure St where
  t : TState := tinit 4 64 1
  g : Ghost := {}
  pendingSfx : Option Nat := none   -- suffix announced at the last `md` park
  gs : GState := ginit 4 64 1       -- the model with the ghost variables of the Lean statements
  inClass : Bool := true            -- the schedule so far satisfies `pre` (no re-creation while a flush is pending)
  buf : Nat := 0                    -- chunk length of the copy loop (0: everything at once)
  files : List TFile := []          -- open tiered.File handles, by handle number
  pending : Option (List String × COp × Nat) := none   -- a client operation in progress: tokens, op, next segment
  faults : List (Nat × Nat) := []   -- (key, suffix): the disk store's write of this sidecar fails (planted directory)

def lookupA {β : Type} (l : List (Nat × β)) (k : Nat) : Option β := (l.find? (·.1 = k)).map (·.2)
def eraseA {β : Type} (l : List (Nat × β)) (k : Nat) : List (Nat × β) := l.filter (·.1 ≠ k)

def mdOf (g : Ghost) (k sfx : Nat) : Option (List Nat) :=
  match g.md.find? (fun e => e.1 = (k, sfx)) with
  | some e => e.2
  | none => none

def setMdG (g : Ghost) (k sfx : Nat) (v : Option (List Nat)) : Ghost :=
  { g with md := ((k, sfx), v) :: g.md.filter (fun e => e.1 ≠ (k, sfx)) }

/-- name of the scheduling point at which a worker with this pc is parked (none: not a point) -/
def seamOf (w : Worker) : Option String :=
  match w.pc with
  | .idle => some "idle"
  | .fOpen => some "open"
  | .fCreate => some "opened"
  | .fCreated => some "created"
  | .fCopy => some "copy"
  | .fCopyEof => some "copyeof"
  | .fCopied _ => some "copied"
  | .mdSnap => some "mdsnap"
  | .mdRead (_ :: _) => some "md"
  | .mdWrite sfx (some _) _ => if registered sfx then some "mdwrite" else none   -- no factory: the worker skips the suffix
  | .mdCheck => some "mdcheck"
  | .fail1 => some "fail1"
  | .fail2 => some "fail2"
  | .unban => some "unban"
  | _ => none

def worker0 (t : TState) : Worker := t.workers.headD {}

/-- release worker 0: one step, then on through the pcs that are not scheduling points -/
def runWorker (t : TState) (pick : Nat) : Nat → TState
  | 0 => t
  | fuel + 1 =>
    let t' := tstep t (.work 0 pick)
    match seamOf (worker0 t') with
    | some _ => t'
    | none => runWorker t' 0 fuel

/-- the same on the ghost-instrumented model, checking the invariant after every atomic step -/
def runWorkerG (gs : GState) (pick : Nat) : Nat → GState × String
  | 0 => (gs, "")
  | fuel + 1 =>
    let gs' := gstep gs (.work 0 pick)
    let bad := C09Check.invFail gs'
    if bad ≠ "" then (gs', bad) else
    match seamOf (worker0 gs'.t) with
    | some _ => (gs', "")
    | none => runWorkerG gs' 0 fuel

def inFlight (g : Ghost) (k : Nat) : Bool := g.wpoint ≠ "idle" ∧ g.wkey = some k

/-- attribute a failure on key `k` to a known schedule class if the ghost state shows one **and** the
    failing observation has the signature of that class: after a re-creation during a flush the new
    blob is never flushed — it is lost, opens as the empty incomplete file the stale worker created,
    its metadata updates are lost, its key lingers on disk; wrong non-empty bytes are not that -/
def classify (g : Ghost) (k : Nat) (generic : String) (impl : List String := []) : String :=
  if k ∈ g.recreated ∧ (generic = "lost-blob" ∨ generic = "lost-metadata-update" ∨ generic = "recreate-blocked" ∨
      generic = "deleted-key-resurfaced" ∨ generic = "handle-lost" ∨
      ((generic = "corrupt-blob" ∨ generic = "handle-bytes") ∧ (impl = ["ok", "x"] ∨ impl = ["eof"] ∨ impl = ["0"]))) then
    "recreate-during-flush"
  else if generic = "lost-metadata-update" ∧ k ∈ g.mdLate then "md-update-before-unban"
  else if (generic = "deleted-key-resurfaced" ∨ generic = "recreate-blocked") ∧ k ∈ g.delInFlight then
    "resurface-during-aborted-flush"
  else generic

def fentryTok (t : TState) (e : Nat × Nat) : String :=
  match lookupEnt t.ents e.2 with
  | some fe =>
    let d := sortNat fe.dirtyMD
    s!"{keyTok e.1}:{if fe.dataDirty then "d" else "m"}:{if d.isEmpty then "-" else "+".intercalate (d.map sfxTok)}"
  | none => s!"{keyTok e.1}:?"

def probeToks (t : TState) : List String :=
  let ck (s : State) : List Nat := (s.blobs.filter (·.2.complete)).map (·.1)
  let fm := t.fmap.mergeSort (fun a b => decide (a.1 ≤ b.1))
  [s!"mem={keysTok t.mem.blobs.keys}", s!"memc={keysTok (ck t.mem)}",
   s!"disk={keysTok t.disk.blobs.keys}", s!"diskc={keysTok (ck t.disk)}",
   s!"f={listTok (fm.map (fentryTok t))}", s!"q={listTok (t.queue.map keyTok)}"]

/-- the property's predicates on the implementation's answer to a client operation -/
def opFails (s : St) (name : String) (k : Nat) (sc : Scope) (sfx : Nat) (impl : List String) : List String :=
  let g := s.g
  let exempt := k ∈ s.t.diskEvicted
  match name with
  | "open" =>
    match lookupA g.done k with
    | some bytes =>
      if exempt ∨ sc = .incomplete then [] else
      if impl = ["ok", bytesTok bytes] then []
      else if impl.head? = some "ok" then
        [pf (classify g k "corrupt-blob" impl) s!"open {keyTok k}: completed with {bytesTok bytes}, implementation returned {sp impl}"]
      else [pf (classify g k "lost-blob") s!"open {keyTok k}: completed with {bytesTok bytes}, implementation returned {sp impl}"]
    | none => []
  | "getmd" =>
    -- after a failed metadata flush the flusher drops the blob from disk: it may be gone, it must not
    -- come back with a value older than the last acknowledged update
    if k ∈ g.mdFailed ∧ (lookupA g.done k).isSome ∧ sc ≠ .incomplete then
      let want := match mdOf g k sfx with | some v => ["ok", bytesTok v] | none => ["absent"]
      if impl = want ∨ impl = ["notexist"] then []
      else [pf "stale-metadata-after-failed-flush" s!"getmd {keyTok k} {sfxTok sfx}: last acknowledged update {sp want}, its flush to disk failed, implementation returned {sp impl}"]
    else
    if (lookupA g.done k).isNone ∨ exempt ∨ sc = .incomplete then [] else
    let want := match mdOf g k sfx with | some v => ["ok", bytesTok v] | none => ["absent"]
    if impl = want then []
    else [pf (classify g k "lost-metadata-update") s!"getmd {keyTok k} {sfxTok sfx}: last update {sp want}, implementation returned {sp impl}"]
  | "has" =>
    if k ∉ g.live ∧ impl.head? = some "1" then
      [pf (classify g k "deleted-key-resurfaced") s!"has {keyTok k} = {sp impl} although the key was deleted"] else []
  | "stat" =>
    if k ∉ g.live ∧ impl.head? = some "ok" then
      [pf (classify g k "deleted-key-resurfaced") s!"stat {keyTok k} = {sp impl} although the key was deleted"] else []
  | "create" =>
    if k ∉ g.live ∧ impl = ["exist"] then
      [pf (classify g k "recreate-blocked") s!"create {keyTok k} answered exist although the key was deleted"] else []
  | _ => []

def listFails (s : St) (impl : List String) : List String :=
  match impl with
  | [l] =>
    let ks := (keys? l).getD []
    (ks.filter (· ∉ s.g.live)).map fun k =>
      pf (classify s.g k "deleted-key-resurfaced") s!"list shows {keyTok k} although the key was deleted"
  | _ => []

/-- ghost update from the implementation's answer -/
def ghostOp (s : St) (name : String) (k : Nat) (sfx : Nat) (data : List Nat) (impl : List String) : Ghost :=
  let g := s.g
  let ok := impl.head? = some "ok"
  match name with
  | "create" =>
    if !ok then g else
    { g with live := k :: g.live.filter (· ≠ k), content := (k, data) :: eraseA g.content k,
             done := eraseA g.done k, md := g.md.filter (fun e => e.1.1 ≠ k),
             recreated := if inFlight g k then k :: g.recreated else g.recreated.filter (· ≠ k),
             mdLate := g.mdLate.filter (· ≠ k), delInFlight := g.delInFlight.filter (· ≠ k),
             mdFailed := g.mdFailed.filter (· ≠ k) }
  | "complete" =>
    if !ok ∨ k ∉ g.live ∨ (lookupA g.done k).isSome then g else
    -- immovable metadata (odd suffix ids) is dropped at completion
    { g with done := (k, (lookupA g.content k).getD []) :: g.done,
             md := g.md.map (fun e => if e.1.1 = k ∧ e.1.2 % 2 = 1 then (e.1, none) else e) }
  | "delete" =>
    if !ok then g else
    { g with live := g.live.filter (· ≠ k), done := eraseA g.done k, content := eraseA g.content k,
             md := g.md.filter (fun e => e.1.1 ≠ k),
             delInFlight := if inFlight g k then k :: g.delInFlight else g.delInFlight.filter (· ≠ k),
             recreated := if inFlight g k then g.recreated else g.recreated.filter (· ≠ k),
             mdLate := g.mdLate.filter (· ≠ k), mdFailed := g.mdFailed.filter (· ≠ k) }
  | "setmd" =>
    if !ok then g else
    let g := setMdG g k sfx (some data)
    if g.wpoint = "unban" ∧ g.wkey = some k then { g with mdLate := k :: g.mdLate } else g
  | "delmd" =>
    if !ok then g else
    let g := setMdG g k sfx none
    if g.wpoint = "unban" ∧ g.wkey = some k then { g with mdLate := k :: g.mdLate } else g
  | _ => g

/-- parse a client operation of the model -/
def cop? (args : List String) : Option (String × Nat × Scope × Nat × List Nat × COp) :=
  match args with
  | ["create", kt, nt, dt] => do
    let k ← key? kt
    let n ← nat? nt
    let d ← bytes? dt
    some ("create", k, .any, 0, d, .create k n d)
  | ["open", kt, sct] => do
    let k ← key? kt
    let sc ← scope? sct
    some ("open", k, sc, 0, [], .open k sc)
  | ["has", kt, sct] => do
    let k ← key? kt
    let sc ← scope? sct
    some ("has", k, sc, 0, [], .has k sc)
  | ["list", sct] => do
    let sc ← scope? sct
    some ("list", 0, sc, 0, [], .list sc)
  | ["stat", kt, sct] => do
    let k ← key? kt
    let sc ← scope? sct
    some ("stat", k, sc, 0, [], .stat k sc)
  | ["complete", kt] => do
    let k ← key? kt
    some ("complete", k, .any, 0, [], .markComplete k)
  | ["delete", kt, sct] => do
    let k ← key? kt
    let sc ← scope? sct
    some ("delete", k, sc, 0, [], .delete k sc)
  | ["setmd", kt, sct, st, vt] => do
    let k ← key? kt
    let sc ← scope? sct
    let sfx ← sfx? st
    let v ← bytes? vt
    -- a metadata type without a factory is outside the domain (assumption of the property)
    if !registered sfx then none else
    some ("setmd", k, sc, sfx, v, .setMd k sc { sfx := sfx, movable := sfx % 2 = 0, val := v })
  | ["getmd", kt, sct, st] => do
    let k ← key? kt
    let sc ← scope? sct
    let sfx ← sfx? st
    some ("getmd", k, sc, sfx, [], .getMd k sc sfx)
  | ["delmd", kt, sct, st] => do
    let k ← key? kt
    let sc ← scope? sct
    let sfx ← sfx? st
    some ("delmd", k, sc, sfx, [], .delMd k sc sfx)
  | _ => none

/-- the branch label of a client operation (which path of the code the model takes) -/
def branchOf (s : St) (name : String) (k : Nat) (co : COp) : String :=
  let cls (o : Out) : String := match o with
    | .err e => errTok e
    | .absent => "absent"
    | _ => "ok"
  let where_ : String :=
    (if inStore s.t.mem k then "m" else "") ++ (if inStore s.t.disk k then "d" else "") ++
    (if (fget s.t.fmap k).isSome then "f" else "")
  let r := capply s.t co
  match name with
  | "create" =>
    (match r.2 with
      | .ok => if inStore r.1.mem k then "mem" else "disk-fallback"
      | o => cls o) ++ (match co with | .create _ 0 _ => "+empty" | _ => "") ++ (if inFlight s.g k then "+inflight" else "")
  | "has" => "".intercalate (outToks r.2)
  | "list" => match co with | .list .any => "any" | .list .complete => "c" | _ => "i"
  | "stat" => cls r.2
  | "complete" =>
    if isComplete s.t.mem k ∨ isComplete s.t.disk k then "noop" else
    if inStore s.t.mem k then "mem-dirty" else if inStore s.t.disk k then "disk" else "notexist"
  | "delete" => cls r.2 ++ "." ++ where_ ++ (if inFlight s.g k then "+inflight" else "")
  | "setmd" => cls r.2 ++ "." ++ where_ ++ (if s.g.wpoint = "unban" ∧ s.g.wkey = some k then "+unban" else "")
  | _ => cls r.2 ++ "." ++ where_

def hookName (name : String) (i : Nat) : String :=
  if name = "create" then "c-create" else s!"c-{name}{i}"

/-- the handles of a deleted key carry no claim any more -/
def dropClaims (g : Ghost) (k : Nat) : Ghost :=
  { g with handles := g.handles.map fun h => if h.key = k then { h with want := none } else h }

def stepOp (s : St) (args impl : List String) : Option (St × StepOut) := do
  -- the split annotation `@a,b` (worker steps at the points of the operation) is for the harness only
  let args := args.filter (fun a => !a.startsWith "@")
  let (name, k, sc, sfx, data, co) ← cop? args
  let extra := if name = "list" then listFails s impl else []
  match s.pending with
  | some (pargs, pco, stage) =>
    -- the operation was begun and has passed `stage` points: run what is left of it
    if pargs ≠ args ∨ pco ≠ co then none else
    let r := if stage = 0 then capply s.t co else crun s.t co stage 4
    let obs := outToks r.2
    let generic := if obs = impl then [] else [pf s!"result-{name}" s!"{name} (in {stage + 1} parts): reference {sp obs} implementation {sp impl}"]
    let fails := opFails s name k sc sfx impl ++ extra
    let g := ghostOp s name k sfx data impl
    -- a handle's claim ends when its key is deleted — or created again, which can only succeed once the
    -- blob is gone from both tiers (evicted from disk: the property makes no claim any more)
    let g := if (name = "delete" ∨ name = "create") ∧ impl = ["ok"] then dropClaims g k else g
    some ({ s with t := r.1, g := g, pending := none, inClass := s.inClass && stage = 0 },
          { obs := obs, branch := s!"{name}.split{stage}", propfails := if fails.isEmpty then generic else fails })
  | none =>
    let r := capply s.t co
    let obs := outToks r.2
    let generic := if obs = impl then [] else [pf s!"result-{name}" s!"{name}: reference {sp obs} implementation {sp impl}"]
    let fails := opFails s name k sc sfx impl ++ extra
    -- the invariant of the Lean proof, evaluated on the model (only inside the schedule class it is about)
    let inClass := s.inClass && C09Check.preB s.gs (.client co)
    let gs := if s.inClass then gstep s.gs (.client co) else s.gs
    let bad := if inClass then C09Check.invFail gs else ""
    let mfail := if bad = "" then [] else [s!"side=model key=model-invariant after {name}: {bad}"]
    let g := ghostOp s name k sfx data impl
    -- a handle's claim ends when its key is deleted — or created again, which can only succeed once the
    -- blob is gone from both tiers (evicted from disk: the property makes no claim any more)
    let g := if (name = "delete" ∨ name = "create") ∧ impl = ["ok"] then dropClaims g k else g
    some ({ s with t := r.1, g := g, gs := gs, inClass := inClass },
          { obs := obs, branch := s!"{name}.{branchOf s name k co}{if inClass then "" else "~"}",
            propfails := (if fails.isEmpty then generic else fails) ++ mfail })

/-- `begin <op…>`: a client operation that will be taken apart starts -/
def stepBegin (s : St) (args : List String) : Option (St × StepOut) := do
  let args := args.filter (fun a => !a.startsWith "@")
  let (name, _, _, _, _, co) ← cop? args
  if s.pending.isSome then none else
  some ({ s with pending := some (args, co, 0) }, { obs := [], branch := s!"begin.{name}" })

/-- `cpoint => <name> <key>`: the operation in progress has reached its next point -/
def stepCPoint (s : St) (impl : List String) : Option (St × StepOut) := do
  let (pargs, co, stage) ← s.pending
  let name := pargs.headD "?"
  let k := match pargs with | _ :: kt :: _ => (key? kt).getD 0 | _ => 0
  let r := cseg s.t co stage
  match r.2 with
  | none =>
    let obs := [hookName name (stage + 1), keyTok k]
    let fails := if obs = impl then [] else [pf "result-cpoint" s!"{name}: reference reaches {sp obs}, implementation {sp impl}"]
    some ({ s with t := r.1, pending := some (pargs, co, stage + 1), inClass := false },
          { obs := obs, branch := s!"cpoint.{hookName name (stage + 1)}", propfails := fails })
  | some out =>
    -- the model's operation ends here: the implementation went another way
    some (s, { obs := ["none"] ++ outToks out, branch := "cpoint.none",
               propfails := [pf "result-cpoint" s!"{name}: reference ends with {sp (outToks out)}, implementation reached {sp impl}"] })

/-! handles -/

def foutToks : FOut → List String
  | .data b => ["ok", bytesTok b]
  | .eof => ["eof"]
  | .n v => [toString v]
  | .badSwitch => ["badswitch"]
  | .unknown => ["?"]
  | .err e => [errTok e]

def setAt {α : Type} (l : List α) (i : Nat) (a : α) : List α := l.set i a

/-- the property on what a handle delivered: a handle opened on a completed blob keeps delivering that
    blob's bytes, whatever the flusher and the eviction from memory do, until the key is deleted or
    evicted from disk -/
def handleFails (s : St) (i : Nat) (what : String) (n off : Nat) (impl : List String) : List String × Ghost :=
  match s.g.handles[i]? with
  | none => ([], s.g)
  | some h =>
    match h.want with
    | none => ([], s.g)
    | some bytes =>
      if h.key ∈ s.t.diskEvicted then ([], { s.g with handles := setAt s.g.handles i { h with want := none } }) else
      let at_ := if what = "hread" then h.off else off
      let wantOut : List String :=
        if what = "hsize" then [toString bytes.length]
        else if n = 0 then ["ok", "x"]
        else if bytes.length ≤ at_ then ["eof"]
        else
          let out := (bytes.drop at_).take n
          if what = "hreadat" ∧ out.length < n then ["ok", bytesTok out, "eof"] else ["ok", bytesTok out]
      let adv := if what = "hread" ∧ bytes.length > at_ then ((bytes.drop at_).take n).length else 0
      let g' := { s.g with handles := setAt s.g.handles i { h with off := h.off + adv } }
      if impl = wantOut then ([], g') else
      let generic := if impl.head? = some "ok" ∨ what = "hsize" ∨ impl = ["eof"] then "handle-bytes" else "handle-lost"
      ([pf (classify s.g h.key generic impl)
          s!"{what} h{i} ({keyTok h.key}, completed with {bytesTok bytes}): expected {sp wantOut}, implementation returned {sp impl}"], g')

def stepHandle (s : St) (args impl : List String) : Option (St × StepOut) :=
  match args with
  | ["openk", kt, sct] => do
    let k ← key? kt
    let sc ← scope? sct
    let r := tOpenFile s.t k sc
    let i := s.files.length
    let obs := match r.2.1 with
      | some _ => ["ok", s!"h{i}"]
      | none => outToks r.2.2
    let opened := impl.head? = some "ok"
    -- the same predicates as for `open`: a completed blob must open
    let fails := if opened then [] else
      match lookupA s.g.done k with
      | some bytes =>
        if k ∈ s.t.diskEvicted ∨ sc = .incomplete then [] else
        [pf (classify s.g k "lost-blob" impl) s!"open {keyTok k}: completed with {bytesTok bytes}, implementation returned {sp impl}"]
      | none => []
    let generic := if obs = impl then [] else [pf "result-openk" s!"openk: reference {sp obs} implementation {sp impl}"]
    let gh : GHandle := { key := k, want := if k ∈ s.g.live ∧ sc ≠ .incomplete then lookupA s.g.done k else none }
    let files := match r.2.1 with | some f => s.files ++ [f] | none => if opened then s.files ++ [{ key := k }] else s.files
    let g := if opened then { s.g with handles := s.g.handles ++ [gh] } else s.g
    let inClass := s.inClass && C09Check.preB s.gs (.client (.open k sc))
    let gs := if s.inClass then gstep s.gs (.client (.open k sc)) else s.gs
    some ({ s with t := r.1, files := files, g := g, gs := gs, inClass := inClass },
          { obs := obs, branch := s!"openk.{if (r.2.1.bind (·.mem)).isSome then "mem" else if r.2.1.isSome then "disk" else "fail"}",
            propfails := if fails.isEmpty then generic else fails })
  | ["hread", ht, nt] => do
    let i ← handle? ht
    let n ← nat? nt
    let f ← s.files[i]?
    let r := tfRead s.t f n
    let obs := foutToks r.2.2
    let (fails, g) := handleFails s i "hread" n 0 impl
    let known := r.2.2 ≠ .unknown
    let generic := if !known ∨ obs = impl then [] else [pf "result-hread" s!"hread h{i}: reference {sp obs} implementation {sp impl}"]
    let switched := f.sw = .notYet ∧ r.2.1.sw ≠ .notYet
    some ({ s with t := r.1, files := setAt s.files i r.2.1, g := g, inClass := s.inClass && !switched },
          { obs := if known then obs else impl,
            branch := s!"hread.{if !known then "unlinked" else if r.2.1.sw = .bad then "badswitch" else if switched then (if f.moff > 0 then "switch+mid" else "switch") else if f.sw ≠ .notYet then "disk" else "mem"}",
            propfails := if fails.isEmpty then generic else fails })
  | ["hreadat", ht, nt, ot] => do
    let i ← handle? ht
    let n ← nat? nt
    let off ← nat? ot
    let f ← s.files[i]?
    let r := tfReadAt s.t f n off
    let obs := foutToks r.2.2.1 ++ (if r.2.2.2 then ["eof"] else [])
    let (fails, g) := handleFails s i "hreadat" n off impl
    let known := r.2.2.1 ≠ .unknown
    let generic := if !known ∨ obs = impl then [] else [pf "result-hreadat" s!"hreadat h{i}: reference {sp obs} implementation {sp impl}"]
    let switched := f.sw = .notYet ∧ r.2.1.sw ≠ .notYet
    some ({ s with t := r.1, files := setAt s.files i r.2.1, g := g, inClass := s.inClass && !switched },
          { obs := if known then obs else impl,
            branch := s!"hreadat.{if !known then "unlinked" else if r.2.1.sw = .bad then "badswitch" else if switched then (if f.moff > 0 then "switch+mid" else "switch") else if f.sw ≠ .notYet then "disk" else "mem"}",
            propfails := if fails.isEmpty then generic else fails })
  | ["hsize", ht] => do
    let i ← handle? ht
    let f ← s.files[i]?
    let r := tfSize s.t f
    let obs := foutToks r.2.2
    let (fails, g) := handleFails s i "hsize" 0 0 impl
    let known := r.2.2 ≠ .unknown
    let generic := if !known ∨ obs = impl then [] else [pf "result-hsize" s!"hsize h{i}: reference {sp obs} implementation {sp impl}"]
    let switched := f.sw = .notYet ∧ r.2.1.sw ≠ .notYet
    some ({ s with t := r.1, files := setAt s.files i r.2.1, g := g, inClass := s.inClass && !switched },
          { obs := if known then obs else impl,
            branch := s!"hsize.{if !known then "unlinked" else if r.2.1.sw = .bad then "badswitch" else if switched then (if f.moff > 0 then "switch+mid" else "switch") else if f.sw ≠ .notYet then "disk" else "mem"}",
            propfails := if fails.isEmpty then generic else fails })
  | ["mdfault", kt, st] => do
    let k ← key? kt
    let sfx ← sfx? st
    some ({ s with faults := (k, sfx) :: s.faults }, { obs := ["ok"], branch := "mdfault" })
  | ["mdunfault", kt, st] => do
    let k ← key? kt
    let sfx ← sfx? st
    some ({ s with faults := s.faults.filter (· ≠ (k, sfx)) }, { obs := ["ok"], branch := "mdunfault" })
  | ["hclose", ht] => do
    let i ← handle? ht
    let _ ← s.files[i]?
    some ({ s with g := { s.g with handles := setAt s.g.handles i { key := 0, want := none } } },
          { obs := ["ok"], branch := "hclose" })
  | _ => none

def stepWorker (s : St) (impl : List String) : Option (St × StepOut) :=
  let w := worker0 s.t
  -- the suffix announced at the last `md` park selects the snapshot entry flushed now; a copy step
  -- moves one buffer
  let pick := match w.pc, s.pendingSfx with
    | .mdRead todo, some sfx => todo.idxOf sfx
    | .fCopy, _ => s.buf
    | .fCopyEof, _ => s.buf
    | _, _ => 0
  -- the disk store cannot write this sidecar (a directory sits where its tmp file goes): flushMetadata
  -- fails, the failure handler takes over — it drops the blob from disk like an eviction from disk
  let faulted := match w.pc with
    | .mdWrite sfx (some (some _)) _ => s.faults.contains (w.key, sfx)
    | _ => false
  let t' := if faulted then
      { s.t with workers := s.t.workers.set 0 { w with pc := .fail1 }, diskEvicted := w.key :: s.t.diskEvicted }
    else runWorker s.t pick 64
  let (gs', bad) := if s.inClass ∧ !faulted then runWorkerG s.gs pick 64 else (s.gs, "")
  let mfail := if bad = "" then [] else [s!"side=model key=model-invariant after a worker step: {bad}"]
  let w' := worker0 t'
  let name := (seamOf w').getD "?"
  -- at an `md` point adopt the implementation's choice if it is in the model's snapshot
  let implSfx := match impl with | ["md", _, st] => sfx? st | _ => none
  let (obs, pend, bad) := match w'.pc with
    | .mdRead todo =>
      match implSfx with
      | some sfx => if sfx ∈ todo then (["md", keyTok w'.key, sfxTok sfx], some sfx, false)
                    else (["md", keyTok w'.key, listTok (todo.map sfxTok)], none, true)
      | none => (["md", keyTok w'.key, sfxTok (todo.headD 0)], none, false)
    | .mdWrite sfx _ _ => (["mdwrite", keyTok w'.key, sfxTok sfx], none, false)
    | .idle => (["idle", "-"], none, false)
    | _ => ([name, keyTok w'.key], none, false)
  let g := { s.g with wpoint := impl.headD "?", wkey := match impl with | _ :: kt :: _ => key? kt | _ => none }
  -- a worker that went back to idle keeps no key
  -- once the worker has gone past its re-check the "deleted in flight" attribution ends
  let g := if g.wpoint = "idle" then { g with delInFlight := [] } else g
  let fails :=
    if impl.head? = some "panic" then
      [pf "worker-panic" s!"the flush worker panicked (a panic on its goroutine takes the process down): {sp impl}; the reference parks at {sp obs}"]
    else if bad then [pf "md-flush-not-dirty" s!"worker flushes {sp impl}, dirty snapshot is {sp obs}"] else
    if obs ≠ impl then [pf "result-step" s!"worker: reference parks at {sp obs}, implementation at {sp impl}"] else []
  let g := if faulted then { g with mdFailed := w.key :: g.mdFailed } else g
  -- the failure handler removes the blob's directory on disk, the planted directory with it
  let faults := if faulted then s.faults.filter (·.1 ≠ w.key) else s.faults
  some ({ s with t := t', g := g, pendingSfx := pend, gs := gs', inClass := s.inClass && !faulted, faults := faults },
        { obs := obs, branch := s!"step.{name}{if faulted then "+mdfault" else ""}{if s.pending.isSome then "+split" else ""}", propfails := fails ++ mfail })

def stepProbe (s : St) (impl : List String) : Option (St × StepOut) :=
  let obs := probeToks s.t
  let fails := if obs = impl then [] else
    [pf "state-view" s!"reference {sp obs} implementation {sp impl}"]
  some (s, { obs := obs, branch := "probe", propfails := fails })

def step (s : St) (kind : String) (args impl : List String) : Option (St × StepOut) :=
  if kind = "op" then
    match args.head? with
    | some "openk" | some "hread" | some "hreadat" | some "hsize" | some "hclose" | some "mdfault" | some "mdunfault" =>
      stepHandle s args impl
    | _ => stepOp s args impl
  else if kind = "step" ∨ kind = "cstep" then stepWorker s impl
  else if kind = "probe" then stepProbe s impl
  else if kind = "begin" then stepBegin s args
  else if kind = "cpoint" then stepCPoint s impl
  else if kind = "one" ∧ args.head? = some "free" then
    -- one uncontrolled run (default workers, real goroutines): its predicates are evaluated by the
    -- harness on what the implementation answered (PROPFAIL lines); the record carries its parameters
    some (s, { obs := ["ok"], branch := "free" })
  else none

def initSt (cfg : List String) : Option St := do
  let mcap ← match kv? cfg "mcap" with | some c => nat? c | none => some 4
  let dcap ← match kv? cfg "dcap" with | some c => nat? c | none => some 64
  let buf ← match kv? cfg "buf" with | some c => nat? c | none => some 0
  some { t := tinit mcap dcap 1, gs := ginit mcap dcap 1, buf := buf }

def machine : Machine := { σ := St, name := "ts", init := initSt, step := step }

end C09

def main (args : List String) : IO UInt32 := Driver.runMachines [C09.machine] args
