import Driver.Frame
import Driver.BlobStoreM
import KrakenModel.Model.Tiered
import Driver.C09Check
/-
  Driver for C09 (machine `ts`): replays schedules of client operations and flush-worker steps of
  tiered.Store on `Model.Tiered`, compares every result and the state of both tiers and of the
  flusher after every action, and evaluates the property's predicates on what the implementation
  answered.

  Records
    cfg mcap=<n> dcap=<n>
    op create/open/has/list/stat/complete/delete/setmd/getmd/delmd …      client operations
    step => <point> <key|-> [sfx]      the worker was released and is now parked at <point>:
                                       idle open opened created copy copyeof copied md unban
    probe => mem= memc= disk= diskc= f=<key:d|m:dirty+…> q=
  The `md` point carries the suffix the implementation chose from its dirtyMD map (iteration order
  of a Go map): the model checks that it is in its snapshot and follows that choice.

  Monitors (ghost state built from the implementation's answers only: which keys are live, the bytes
  at MarkComplete, the last successful metadata update, where the worker is parked):
    a completed, not deleted, not disk-evicted blob must open (scope any/complete) with its bytes and
    report its last metadata update; a deleted key must not be visible nor block Create.
  A failure is attributed to a known schedule class when the ghost state shows it:
    recreate-during-flush           the key was re-created while the worker held a flush of it
    md-update-before-unban          its metadata changed while the worker was parked before UnbanEviction
    resurface-during-aborted-flush  it was deleted while the worker was between memOpen and the re-check
  otherwise it is reported under a generic key (lost-blob, corrupt-blob, lost-metadata-update,
  deleted-key-resurfaced, recreate-blocked).
-/
open Driver KrakenModel.BlobStore KrakenModel.Tiered
open BlobStoreM (key? keyTok keysTok keys? scope? sfx? sfxTok errTok outToks sortNat pf)

namespace C09

structure Ghost where
  live : List Nat := []                          -- created and not deleted since
  content : List (Nat × List Nat) := []          -- bytes written at Create
  done : List (Nat × List Nat) := []             -- bytes at the successful MarkComplete
  md : List ((Nat × Nat) × Option (List Nat)) := []  -- last successful update per (key, suffix)
  wpoint : String := "idle"                      -- where the implementation's worker is parked
  wkey : Option Nat := none
  recreated : List Nat := []
  mdLate : List Nat := []
  delInFlight : List Nat := []

structure St where
  t : TState := tinit 4 64 1
  g : Ghost := {}
  pendingSfx : Option Nat := none   -- suffix announced at the last `md` park
  gs : GState := ginit 4 64 1       -- the model with the ghost variables of the Lean statements
  inClass : Bool := true            -- the schedule so far satisfies `pre` (no re-creation while a flush is pending)

def lookupA {β : Type} (l : List (Nat × β)) (k : Nat) : Option β := (l.find? (·.1 = k)).map (·.2)
def eraseA {β : Type} (l : List (Nat × β)) (k : Nat) : List (Nat × β) := l.filter (·.1 ≠ k)

def mdOf (g : Ghost) (k sfx : Nat) : Option (List Nat) :=
  match g.md.find? (fun e => e.1 = (k, sfx)) with
  | some e => e.2
  | none => none

def setMdG (g : Ghost) (k sfx : Nat) (v : Option (List Nat)) : Ghost :=
  { g with md := ((k, sfx), v) :: g.md.filter (fun e => e.1 ≠ (k, sfx)) }

/-- name of the scheduling point at which a worker with this pc is parked (none: not a point) -/
def seamOf (w : Worker) : Option String :=
  match w.pc with
  | .idle => some "idle"
  | .fOpen => some "open"
  | .fCreate => some "opened"
  | .fCreated => some "created"
  | .fCopy => some "copy"
  | .fCopyEof => some "copyeof"
  | .fCopied _ => some "copied"
  | .mdRead (_ :: _) => some "md"
  | .unban => some "unban"
  | _ => none

def worker0 (t : TState) : Worker := t.workers.headD {}

/-- release worker 0: one step, then on through the pcs that are not scheduling points -/
def runWorker (t : TState) (pick : Nat) : Nat → TState
  | 0 => t
  | fuel + 1 =>
    let t' := tstep t (.work 0 pick)
    match seamOf (worker0 t') with
    | some _ => t'
    | none => runWorker t' 0 fuel

/-- the same on the ghost-instrumented model, checking the invariant after every atomic step -/
def runWorkerG (gs : GState) (pick : Nat) : Nat → GState × String
  | 0 => (gs, "")
  | fuel + 1 =>
    let gs' := gstep gs (.work 0 pick)
    let bad := C09Check.invFail gs'
    if bad ≠ "" then (gs', bad) else
    match seamOf (worker0 gs'.t) with
    | some _ => (gs', "")
    | none => runWorkerG gs' 0 fuel

def inFlight (g : Ghost) (k : Nat) : Bool := g.wpoint ≠ "idle" ∧ g.wkey = some k

/-- attribute a failure on key `k` to a known schedule class if the ghost state shows one -/
def classify (g : Ghost) (k : Nat) (generic : String) : String :=
  if k ∈ g.recreated then "recreate-during-flush"
  else if generic = "lost-metadata-update" ∧ k ∈ g.mdLate then "md-update-before-unban"
  else if (generic = "deleted-key-resurfaced" ∨ generic = "recreate-blocked") ∧ k ∈ g.delInFlight then
    "resurface-during-aborted-flush"
  else generic

def fentryTok (t : TState) (e : Nat × Nat) : String :=
  match lookupEnt t.ents e.2 with
  | some fe =>
    let d := sortNat fe.dirtyMD
    s!"{keyTok e.1}:{if fe.dataDirty then "d" else "m"}:{if d.isEmpty then "-" else "+".intercalate (d.map sfxTok)}"
  | none => s!"{keyTok e.1}:?"

def probeToks (t : TState) : List String :=
  let ck (s : State) : List Nat := (s.blobs.filter (·.2.complete)).map (·.1)
  let fm := t.fmap.mergeSort (fun a b => decide (a.1 ≤ b.1))
  [s!"mem={keysTok t.mem.blobs.keys}", s!"memc={keysTok (ck t.mem)}",
   s!"disk={keysTok t.disk.blobs.keys}", s!"diskc={keysTok (ck t.disk)}",
   s!"f={listTok (fm.map (fentryTok t))}", s!"q={listTok (t.queue.map keyTok)}"]

/-- the property's predicates on the implementation's answer to a client operation -/
def opFails (s : St) (name : String) (k : Nat) (sc : Scope) (sfx : Nat) (impl : List String) : List String :=
  let g := s.g
  let exempt := k ∈ s.t.diskEvicted
  match name with
  | "open" =>
    match lookupA g.done k with
    | some bytes =>
      if exempt ∨ sc = .incomplete then [] else
      if impl = ["ok", bytesTok bytes] then []
      else if impl.head? = some "ok" then
        [pf (classify g k "corrupt-blob") s!"open {keyTok k}: completed with {bytesTok bytes}, implementation returned {sp impl}"]
      else [pf (classify g k "lost-blob") s!"open {keyTok k}: completed with {bytesTok bytes}, implementation returned {sp impl}"]
    | none => []
  | "getmd" =>
    if (lookupA g.done k).isNone ∨ exempt ∨ sc = .incomplete then [] else
    let want := match mdOf g k sfx with | some v => ["ok", bytesTok v] | none => ["absent"]
    if impl = want then []
    else [pf (classify g k "lost-metadata-update") s!"getmd {keyTok k} {sfxTok sfx}: last update {sp want}, implementation returned {sp impl}"]
  | "has" =>
    if k ∉ g.live ∧ impl.head? = some "1" then
      [pf (classify g k "deleted-key-resurfaced") s!"has {keyTok k} = {sp impl} although the key was deleted"] else []
  | "stat" =>
    if k ∉ g.live ∧ impl.head? = some "ok" then
      [pf (classify g k "deleted-key-resurfaced") s!"stat {keyTok k} = {sp impl} although the key was deleted"] else []
  | "create" =>
    if k ∉ g.live ∧ impl = ["exist"] then
      [pf (classify g k "recreate-blocked") s!"create {keyTok k} answered exist although the key was deleted"] else []
  | _ => []

def listFails (s : St) (impl : List String) : List String :=
  match impl with
  | [l] =>
    let ks := (keys? l).getD []
    (ks.filter (· ∉ s.g.live)).map fun k =>
      pf (classify s.g k "deleted-key-resurfaced") s!"list shows {keyTok k} although the key was deleted"
  | _ => []

/-- ghost update from the implementation's answer -/
def ghostOp (s : St) (name : String) (k : Nat) (sfx : Nat) (data : List Nat) (impl : List String) : Ghost :=
  let g := s.g
  let ok := impl.head? = some "ok"
  match name with
  | "create" =>
    if !ok then g else
    { g with live := k :: g.live.filter (· ≠ k), content := (k, data) :: eraseA g.content k,
             done := eraseA g.done k, md := g.md.filter (fun e => e.1.1 ≠ k),
             recreated := if inFlight g k then k :: g.recreated else g.recreated.filter (· ≠ k),
             mdLate := g.mdLate.filter (· ≠ k), delInFlight := g.delInFlight.filter (· ≠ k) }
  | "complete" =>
    if !ok ∨ k ∉ g.live ∨ (lookupA g.done k).isSome then g else
    -- immovable metadata (odd suffix ids) is dropped at completion
    { g with done := (k, (lookupA g.content k).getD []) :: g.done,
             md := g.md.map (fun e => if e.1.1 = k ∧ e.1.2 % 2 = 1 then (e.1, none) else e) }
  | "delete" =>
    if !ok then g else
    { g with live := g.live.filter (· ≠ k), done := eraseA g.done k, content := eraseA g.content k,
             md := g.md.filter (fun e => e.1.1 ≠ k),
             delInFlight := if inFlight g k then k :: g.delInFlight else g.delInFlight.filter (· ≠ k),
             recreated := if inFlight g k then g.recreated else g.recreated.filter (· ≠ k),
             mdLate := g.mdLate.filter (· ≠ k) }
  | "setmd" =>
    if !ok then g else
    let g := setMdG g k sfx (some data)
    if g.wpoint = "unban" ∧ g.wkey = some k then { g with mdLate := k :: g.mdLate } else g
  | "delmd" =>
    if !ok then g else
    let g := setMdG g k sfx none
    if g.wpoint = "unban" ∧ g.wkey = some k then { g with mdLate := k :: g.mdLate } else g
  | _ => g

def stepOp (s : St) (args impl : List String) : Option (St × StepOut) :=
  let fin (name : String) (k : Nat) (sc : Scope) (sfx : Nat) (data : List Nat) (co : COp) (br : String)
      (extra : List String := []) : Option (St × StepOut) :=
    let r := capply s.t co
    let obs := outToks r.2
    let generic := if obs = impl then [] else [pf s!"result-{name}" s!"{name}: reference {sp obs} implementation {sp impl}"]
    let fails := opFails s name k sc sfx impl ++ extra
    -- the invariant of the Lean proof, evaluated on the model (only inside the schedule class it is about)
    let inClass := s.inClass && C09Check.preB s.gs (.client co)
    let gs := gstep s.gs (.client co)
    let bad := if inClass then C09Check.invFail gs else ""
    let mfail := if bad = "" then [] else [s!"side=model key=model-invariant after {name}: {bad}"]
    some ({ s with t := r.1, g := ghostOp s name k sfx data impl, gs := gs, inClass := inClass },
          { obs := obs, branch := s!"{name}.{br}{if inClass then "" else "~"}",
            propfails := (if fails.isEmpty then generic else fails) ++ mfail })
  let cls (o : Out) : String := match o with
    | .err e => errTok e
    | .absent => "absent"
    | _ => "ok"
  let where_ (k : Nat) : String :=
    (if inStore s.t.mem k then "m" else "") ++ (if inStore s.t.disk k then "d" else "") ++
    (if (fget s.t.fmap k).isSome then "f" else "")
  match args with
  | ["create", kt, nt, dt] => do
    let k ← key? kt
    let n ← nat? nt
    let d ← bytes? dt
    let co : COp := .create k n d
    let r := tCreate s.t k n d
    let br := match r.2 with
      | .ok => if inStore r.1.mem k then "mem" else "disk-fallback"
      | o => cls o
    fin "create" k .any 0 d co (br ++ (if inFlight s.g k then "+inflight" else ""))
  | ["open", kt, sct] => do
    let k ← key? kt
    let sc ← scope? sct
    let r := tOpen s.t k sc
    fin "open" k sc 0 [] (.open k sc) (cls r.2 ++ "." ++ where_ k)
  | ["has", kt, sct] => do
    let k ← key? kt
    let sc ← scope? sct
    let r := tHas s.t k sc
    fin "has" k sc 0 [] (.has k sc) (sp (outToks r.2))
  | ["list", sct] => do
    let sc ← scope? sct
    fin "list" 0 sc 0 [] (.list sc) sct (listFails s impl)
  | ["stat", kt, sct] => do
    let k ← key? kt
    let sc ← scope? sct
    let r := tStat s.t k sc
    fin "stat" k sc 0 [] (.stat k sc) (cls r.2)
  | ["complete", kt] => do
    let k ← key? kt
    let br := if isComplete s.t.mem k ∨ isComplete s.t.disk k then "noop" else
      if inStore s.t.mem k then "mem-dirty" else if inStore s.t.disk k then "disk" else "notexist"
    fin "complete" k .any 0 [] (.markComplete k) br
  | ["delete", kt, sct] => do
    let k ← key? kt
    let sc ← scope? sct
    let r := tDelete s.t k sc
    fin "delete" k sc 0 [] (.delete k sc) (cls r.2 ++ "." ++ where_ k ++ (if inFlight s.g k then "+inflight" else ""))
  | ["setmd", kt, sct, st, vt] => do
    let k ← key? kt
    let sc ← scope? sct
    let sfx ← sfx? st
    let v ← bytes? vt
    let r := tSetMd s.t k sc { sfx := sfx, movable := sfx % 2 = 0, val := v }
    fin "setmd" k sc sfx v (.setMd k sc { sfx := sfx, movable := sfx % 2 = 0, val := v }) (cls r.2 ++ "." ++ where_ k ++ (if s.g.wpoint = "unban" ∧ s.g.wkey = some k then "+unban" else ""))
  | ["getmd", kt, sct, st] => do
    let k ← key? kt
    let sc ← scope? sct
    let sfx ← sfx? st
    let r := tGetMd s.t k sc sfx
    fin "getmd" k sc sfx [] (.getMd k sc sfx) (cls r.2 ++ "." ++ where_ k)
  | ["delmd", kt, sct, st] => do
    let k ← key? kt
    let sc ← scope? sct
    let sfx ← sfx? st
    let r := tDelMd s.t k sc sfx
    fin "delmd" k sc sfx [] (.delMd k sc sfx) (cls r.2 ++ "." ++ where_ k)
  | _ => none

def stepWorker (s : St) (impl : List String) : Option (St × StepOut) :=
  let w := worker0 s.t
  -- the suffix announced at the last `md` park selects the snapshot entry flushed now
  let pick := match w.pc, s.pendingSfx with
    | .mdRead todo, some sfx => todo.idxOf sfx
    | _, _ => 0
  let t' := runWorker s.t pick 64
  let (gs', bad) := if s.inClass then runWorkerG s.gs pick 64 else (s.gs, "")
  let mfail := if bad = "" then [] else [s!"side=model key=model-invariant after a worker step: {bad}"]
  let w' := worker0 t'
  let name := (seamOf w').getD "?"
  -- at an `md` point adopt the implementation's choice if it is in the model's snapshot
  let implSfx := match impl with | ["md", _, st] => sfx? st | _ => none
  let (obs, pend, bad) := match w'.pc with
    | .mdRead todo =>
      match implSfx with
      | some sfx => if sfx ∈ todo then (["md", "-", sfxTok sfx], some sfx, false)
                    else (["md", "-", listTok (todo.map sfxTok)], none, true)
      | none => (["md", "-", sfxTok (todo.headD 0)], none, false)
    | .idle => (["idle", "-"], none, false)
    | _ => ([name, keyTok w'.key], none, false)
  let g := { s.g with wpoint := impl.headD "?", wkey := match impl with | _ :: kt :: _ => key? kt | _ => none }
  -- a worker that went back to idle (or parks at md: key not reported) keeps the last key it announced
  let g := if g.wpoint = "md" then { g with wkey := some w'.key } else g
  -- once the worker has gone past its re-check the "deleted in flight" attribution ends
  let g := if g.wpoint = "idle" then { g with delInFlight := [] } else g
  let fails := if bad then [pf "md-flush-not-dirty" s!"worker flushes {sp impl}, dirty snapshot is {sp obs}"] else
    if obs ≠ impl then [pf "result-step" s!"worker: reference parks at {sp obs}, implementation at {sp impl}"] else []
  some ({ s with t := t', g := g, pendingSfx := pend, gs := gs' },
        { obs := obs, branch := s!"step.{name}", propfails := fails ++ mfail })

def stepProbe (s : St) (impl : List String) : Option (St × StepOut) :=
  let obs := probeToks s.t
  let fails := if obs = impl then [] else
    [pf "state-view" s!"reference {sp obs} implementation {sp impl}"]
  some (s, { obs := obs, branch := "probe", propfails := fails })

def step (s : St) (kind : String) (args impl : List String) : Option (St × StepOut) :=
  if kind = "op" then stepOp s args impl
  else if kind = "step" then stepWorker s impl
  else if kind = "probe" then stepProbe s impl
  else none

def initSt (cfg : List String) : Option St := do
  let mcap ← match kv? cfg "mcap" with | some c => nat? c | none => some 4
  let dcap ← match kv? cfg "dcap" with | some c => nat? c | none => some 64
  some { t := tinit mcap dcap 1, gs := ginit mcap dcap 1 }

def machine : Machine := { σ := St, name := "ts", init := initSt, step := step }

end C09

def main (args : List String) : IO UInt32 := Driver.runMachines [C09.machine] args
