import Driver.Frame
import KrakenModel.Model.BlobStore
/-
  Replay machine shared by C07 (disk blob store, machine `ds`) and C08 (memory blob store, machine
  `ms`): replays store operations on `Model.BlobStore`, compares every result, and classifies what the
  implementation did against the clauses of the properties (monitors).

  Records
    cfg cap=<n> [shard=… rib=…]
    op create k<i> <size> x<data>        => ok | exist | nospace
    op open   k<i> <scope>               => ok x<content> | notexist | oos      (ms: registers a handle)
    op write  k<i> <scope> <off> x<p>    => ok | notexist | oos                 (ds only)
    op stat/has/complete/delete/ban/unban/setmd/getmd/delmd/listmd/wamd/list/clean …
    op hread/hreadat/hseek/hsize/hwrite/hwriteat/hoff h<j> …                    (ms only)
    probe => keys=<live> ckeys=<complete> q=<eviction queue> size=<reserved>
  scope = any | c | i ; metadata suffix m<j> (movable) / i<j> (immovable).

  Monitors.  The frame stops replaying a case at the first DIFF, so at every step the model state is
  the API-level ghost state implied by what the implementation has answered so far.  Each monitor
  evaluates one clause of the property on the implementation's answer (op records) or on its
  observable state (probe records) and names the violated clause in its key.
-/
open Driver KrakenModel.BlobStore

namespace BlobStoreM

/-- `k<i>` ↦ i; `kb<j>` ↦ 9000+j: a key the disk store must reject (empty, ".", "..", with a separator) -/
def key? (t : String) : Option Nat :=
  match t.toList with
  | 'k' :: 'b' :: ds => (String.ofList ds).toNat?.map (9000 + ·)
  | 'k' :: ds => (String.ofList ds).toNat?
  | _ => none

def keyTok (k : Nat) : String := if k ≥ 9000 then s!"kb{k - 9000}" else s!"k{k}"

def badKey (k : Nat) : Bool := k ≥ 9000

def sortNat (l : List Nat) : List Nat := l.mergeSort (fun a b => decide (a ≤ b))

def keysTok (ks : List Nat) : String := listTok ((sortNat ks).map keyTok)

def keys? (t : String) : Option (List Nat) := (list? t).mapM key?

def scope? : String → Option Scope
  | "any" => some .any
  | "c" => some .complete
  | "i" => some .incomplete
  | _ => none

/-- `m<j>` ↦ suffix 2j (movable), `i<j>` ↦ 2j+1 (immovable); `x<j>` ↦ 2000+j: a suffix the disk store
    must reject (empty, "..", with a separator, the name of the data file or of one of its own sidecars) -/
def sfx? (t : String) : Option Nat :=
  match t.toList with
  | 'm' :: ds => (String.ofList ds).toNat?.map (2 * ·)
  | 'i' :: ds => (String.ofList ds).toNat?.map (2 * · + 1)
  | 'x' :: ds => (String.ofList ds).toNat?.map (2000 + ·)
  | _ => none

def sfxTok (n : Nat) : String :=
  if n ≥ 2000 then s!"x{n - 2000}" else if n % 2 = 0 then s!"m{n / 2}" else s!"i{n / 2}"

def badSfx (n : Nat) : Bool := n ≥ 2000

def handle? (t : String) : Option Nat :=
  match t.toList with
  | 'h' :: ds => (String.ofList ds).toNat?
  | _ => none

def errTok : Err → String
  | .notExist => "notexist"
  | .exist => "exist"
  | .outOfScope => "oos"
  | .noSpace => "nospace"
  | .mdNotExist => "mdnotexist"
  | .badArg => "badarg"
  | .panic => "panic"

def outToks : Out → List String
  | .ok => ["ok"]
  | .err e => [errTok e]
  | .created _ _ => ["ok"]
  | .opened _ d => ["ok", bytesTok d]
  | .bytes b => ["ok", bytesTok b]
  | .absent => ["absent"]
  | .has a b => [boolTok a, boolTok b]
  | .num n => ["ok", toString n]
  | .keys ks => [keysTok ks]
  | .sfxs l => ["ok", listTok ((sortNat l).map sfxTok)]
  | .cleaned u e d => [match e with | none => "ok" | some x => errTok x, toString u, keysTok d]

def hOutToks : HOut → List String
  | .evicted => ["evicted"]
  | .eof => ["eof"]
  | .data b e => ["ok", bytesTok b, boolTok e]
  | .n v => ["ok", toString v]
  | .minus1 => ["-1"]
  | .invalid => ["invalid"]

/-- what the probe step needs to know about the operation before it -/
structure Pend where
  name : String := ""
  key : Option Nat := none
  size : Nat := 0
  implOk : Bool := false
  target : Nat := 0          -- clean: target size
  respect : Bool := true

structure St where
  mem : Bool := false
  m : State := init 0
  prev : State := init 0
  pend : Pend := {}
  hs : List Handle := []     -- ms: handles in creation order (h0, h1, …)
  planted : List (Nat × String) := []   -- ds: files planted in the store's tree (key, what)

def completeKeys (s : State) : List Nat := (s.blobs.filter (·.2.complete)).map (·.1)

def declSize (s : State) (k : Nat) : Nat := match s.blobs.get k with | some b => b.size | none => 0

def pf (key detail : String) : String := s!"side=impl key={key} {detail}"

/-- classification of a result disagreement on a store operation -/
def judge (name : String) (model impl : List String) : List String :=
  if model = impl then [] else
  let d := s!"{name}: reference {sp model} implementation {sp impl}"
  let mh := model.headD ""
  let ih := impl.headD ""
  if mh = "oos" ∨ ih = "oos" then [pf "scope-filter" d]
  else if name = "create" ∧ mh = "nospace" ∧ (ih = "ok" ∨ ih = "panic") then [pf "admitted-over-capacity" d]
  else if name = "create" ∧ mh = "ok" ∧ ih = "nospace" then [pf "refused-with-space" d]
  else if (name = "open" ∨ name = "stat") ∧ mh = "ok" ∧ ih = "ok" then [pf "blob-content" d]
  else if name = "getmd" ∧ (mh = "ok" ∨ mh = "absent") ∧ (ih = "ok" ∨ ih = "absent") then [pf "metadata-value" d]
  else if name = "has" ∧ model.take 1 = impl.take 1 then [pf "scope-filter" d]
  else if name = "list" then [pf "list-view" d]
  else [pf s!"result-{name}" d]

def judgeH (name : String) (model impl : List String) : List String :=
  if model = impl then [] else
  let d := s!"{name}: reference {sp model} implementation {sp impl}"
  let mh := model.headD ""
  let ih := impl.headD ""
  if (mh = "evicted" ∨ mh = "-1") then [pf "stale-handle-served" d]
  else if (ih = "evicted" ∨ ih = "-1") then [pf "live-handle-evicted" d]
  else if mh = "ok" ∧ ih = "ok" then [pf "handle-bytes" d]
  else [pf s!"result-{name}" d]

def isPrefixSet (xs : List Nat) (q : List Nat) : Bool :=
  let p := q.take xs.length
  xs.all (· ∈ p)

/-- monitors of a probe record: `keys`, `ckeys`, `q`, `size` are the implementation's state as seen
    through `List`, `ScopeComplete().List`, the eviction queue and the `size` field -/
def probeFails (s : St) (keys ckeys q : List Nat) (size : Nat) : List String :=
  let prev := s.prev
  let p := s.pend
  let prevKeys := prev.blobs.keys
  let vanished := prevKeys.filter (· ∉ keys)
  let appeared := keys.filter (· ∉ prevKeys)
  let decl (k : Nat) : Nat := if p.name = "create" ∧ p.key = some k ∧ k ∉ prevKeys then p.size else declSize prev k
  let total := (keys.map decl).sum
  -- P1: reserved space is the sum of the live blob sizes; admission never exceeds capacity
  (if size ≠ total then [pf "size-accounting" s!"after {p.name}: reserved {size}, live blobs {keysTok keys} sum to {total}"] else []) ++
  (if p.name = "create" ∧ p.implOk ∧ total > prev.cap then
     [pf "admitted-over-capacity" s!"after create: live blobs {keysTok keys} reserve {total} > capacity {prev.cap}"] else []) ++
  -- P2: only complete, not banned blobs are evicted, least recently used first, no more than needed
  (if p.name = "create" then
     let unev := vanished.filter (· ∉ prev.queue)
     (if unev ≠ [] then [pf "evicted-unevictable" s!"create removed {keysTok unev} (incomplete or banned from eviction)"]
      else if !isPrefixSet vanished prev.queue then
        [pf "evicted-not-lru" s!"create evicted {keysTok vanished}, eviction queue was {listTok (prev.queue.map keyTok)}"]
      else
        let need := (ensureFree prev p.size).2.2
        if p.implOk ∧ vanished.length > need.length then
          [pf "evicted-needlessly" s!"create evicted {keysTok vanished}, evicting {keysTok need} was enough"] else [])
   else if p.name = "delete" then
     let extra := vanished.filter (fun k => !(p.implOk ∧ p.key = some k))
     (if extra ≠ [] then [pf "lost-blob" s!"delete removed {keysTok extra} as well"] else []) ++
     (match p.key with
      | some k => if p.implOk ∧ k ∈ keys then [pf "delete-kept" s!"{keyTok k} still listed after delete"] else []
      | none => [])
   else if p.name = "clean" then
     let banned := vanished.filter (isBanned prev)
     (if p.respect ∧ banned ≠ [] then [pf "clean-deleted-banned" s!"clean(respectEvictionBan) deleted {keysTok banned}"] else []) ++
     (if vanished.any (· ∉ prev.queue) ∧ prev.queue.any (· ∈ keys) then
        [pf "clean-order" s!"clean deleted {keysTok vanished} while evictable {keysTok (prev.queue.filter (· ∈ keys))} were kept"] else []) ++
     (if banned ≠ [] ∧ keys.any (fun k => !isBanned prev k) then
        [pf "clean-order" s!"clean deleted banned {keysTok banned} before all other blobs"] else []) ++
     (let deletable := keys.filter (fun k => !(p.respect ∧ isBanned prev k))
      if p.implOk ∧ total > p.target ∧ deletable ≠ [] then
        [pf "clean-target-missed" s!"clean left {total} > target {p.target} with {keysTok deletable} deletable"] else [])
   else if vanished ≠ [] then [pf "lost-blob" s!"{p.name} removed {keysTok vanished}"] else []) ++
  (let ok := if p.name = "create" ∧ p.implOk then appeared.all (fun k => p.key = some k) else appeared.isEmpty
   if !ok then [pf "phantom-blob" s!"{p.name} made {keysTok appeared} appear"] else []) ++
  -- the eviction queue is exactly the complete, not banned blobs, least recently used first
  (let mq := s.m.queue
   if q = mq then []
   else if sortNat q = sortNat mq then
     [pf "queue-order" s!"after {p.name}: eviction queue {listTok (q.map keyTok)}, LRU order is {listTok (mq.map keyTok)}"]
   else [pf "queue-membership" s!"after {p.name}: eviction queue {listTok (q.map keyTok)}, evictable blobs are {listTok (mq.map keyTok)}"]) ++
  (if sortNat ckeys ≠ sortNat (completeKeys s.m) then
     [pf "complete-view" s!"after {p.name}: complete scope lists {keysTok ckeys}, complete blobs are {keysTok (completeKeys s.m)}"] else [])

def nth? (l : List α) (i : Nat) : Option α := l[i]?

def setNth (l : List α) (i : Nat) (a : α) : List α := l.set i a

def stepOp (s : St) (args impl : List String) : Option (St × StepOut) :=
  let implOk := impl.head? = some "ok"
  let fin (name : String) (key : Option Nat) (r : State × Out) (br : String) (extra : List String := [])
      (pend : Pend := {}) : Option (St × StepOut) :=
    let obs := outToks r.2
    some ({ s with m := r.1, prev := s.m, pend := { pend with name := name, key := key, implOk := implOk } },
          { obs := obs, branch := s!"{name}.{br}", propfails := judge name obs impl ++ extra })
  let cls (o : Out) : String := match o with
    | .err e => errTok e
    | .absent => "absent"
    | _ => "ok"
  -- a metadata call (disk store) with a suffix that does not name a sidecar file of its own: refused
  -- after the lookup and the scope filter, nothing changes
  let badSfxOp (name : String) (k : Nat) (sc : Scope) : Option (St × StepOut) :=
    if s.mem then none else
    let obs := match lookup s.m k sc with
      | .error e => [errTok e]
      | .ok _ => ["invalidsfx"]
    some ({ s with prev := s.m, pend := { name := name, key := some k } },
          { obs := obs, branch := s!"{name}.{obs.headD ""}",
            propfails := if obs = impl then [] else
              if obs = ["invalidsfx"] then [pf "invalid-suffix-accepted" s!"{name} {keyTok k}: the suffix does not name a sidecar file of its own, implementation returned {sp impl}"]
              else judge name obs impl })
  match args with
  | ["create", kt, nt, dt] => do
    let k ← key? kt
    let n ← nat? nt
    let d ← bytes? dt
    -- the disk store rejects a key that does not name a directory of its own: nothing happens
    if badKey k then
      (if s.mem then none else
       some ({ s with prev := s.m, pend := { name := "create", key := some k, size := n } },
             { obs := ["invalidkey"], branch := "create.invalidkey",
               propfails := if impl = ["invalidkey"] then [] else
                 [pf "invalid-key-accepted" s!"create {kt}: the key does not name a directory of its own, implementation returned {sp impl}"] }))
    else
    -- a file planted where the blob's directory or data file goes: the creation fails on the file
    -- system after admission (and after the evictions admission took); the reservation is released
    if !s.mem ∧ s.planted.any (fun p => p.1 = k ∧ (p.2 = "data" ∨ p.2 = "dirfile")) then
      let r := createFailing s.m k n
      let obs := match r.2 with | .err .badArg => ["ioerr"] | o => outToks o
      let br := match r.2 with
        | .err .badArg => if r.1.queue.length < s.m.queue.length then "ioerr-evict" else "ioerr"
        | o => cls o
      some ({ s with m := r.1, prev := s.m, pend := { name := "create", key := some k, size := n, implOk := false } },
            { obs := obs, branch := s!"create.{br}", propfails := judge "create" obs impl })
    else
    let r := create s.m k n d
    let ev := match r.2 with | .created _ ev => ev | _ => []
    let br := match r.2 with
      | .created _ [] => "ok" | .created _ _ => "ok-evict"
      | .err .noSpace => if r.1.queue.length < s.m.queue.length then "nospace-evict" else "nospace"
      | o => cls o
    let _ := ev
    let hs := match r.2 with | .created inc _ => s.hs ++ [{ key := k, inc := inc, off := d.length }] | _ => s.hs
    (fin "create" (some k) r br [] { size := n }).map fun (st, o) => ({ st with hs := if s.mem then hs else st.hs }, o)
  | ["open", kt, sct] => do
    let k ← key? kt
    let sc ← scope? sct
    let r := openB s.m k sc
    let br := match r.2 with | .opened _ _ => if k ∈ s.m.queue then "ok-touch" else "ok" | o => cls o
    let hs := match r.2 with | .opened inc _ => s.hs ++ [{ key := k, inc := inc, off := 0 }] | _ => s.hs
    (fin "open" (some k) r br).map fun (st, o) => ({ st with hs := if s.mem then hs else st.hs }, o)
  | ["write", kt, sct, offt, pt] => do
    let k ← key? kt
    let sc ← scope? sct
    let off ← nat? offt
    let p ← bytes? pt
    if s.mem then none else
    fin "write" (some k) (write s.m k sc off p) (cls (write s.m k sc off p).2)
  | ["stat", kt, sct] => do
    let k ← key? kt
    let sc ← scope? sct
    fin "stat" (some k) (stat s.m k sc) (cls (stat s.m k sc).2)
  | ["has", kt, sct] => do
    let k ← key? kt
    let sc ← scope? sct
    let r := has s.m k sc
    fin "has" (some k) r (sp (outToks r.2))
  | ["plant", kt, what] => do
    let k ← key? kt
    if s.mem ∨ !(what = "data" ∨ what = "dirfile" ∨ what = "cdir") then none else
    some ({ s with planted := (k, what) :: s.planted, prev := s.m, pend := { name := "plant" } },
          { obs := ["ok"], branch := s!"plant.{what}" })
  | ["unplant", kt, what] => do
    let k ← key? kt
    if s.mem then none else
    some ({ s with planted := s.planted.filter (· ≠ (k, what)), prev := s.m, pend := { name := "unplant" } },
          { obs := ["ok"], branch := "unplant" })
  | ["complete", kt] => do
    let k ← key? kt
    -- a non-empty directory planted where the complete blob goes: the rename fails, nothing changes
    if !s.mem && s.planted.any (· = (k, "cdir")) && (match s.m.blobs.get k with | some b => !b.complete | none => false) then
      some ({ s with prev := s.m, pend := { name := "complete", key := some k } },
            { obs := ["ioerr"], branch := "complete.ioerr", propfails := judge "complete" ["ioerr"] impl })
    else
    let r := markComplete s.m k
    let br := match s.m.blobs.get k with
      | none => "notexist"
      | some b => if b.complete then "noop" else if b.banned then "banned" else
          if b.mds.any (!·.movable) then "enqueue-dropmd" else "enqueue"
    fin "complete" (some k) r br
  | ["delete", kt, sct] => do
    let k ← key? kt
    let sc ← scope? sct
    let r := delete s.m k sc
    let br := match r.2 with | .ok => if k ∈ s.m.queue then "ok-queued" else "ok" | o => cls o
    fin "delete" (some k) r br
  | ["ban", kt, sct] => do
    let k ← key? kt
    let sc ← scope? sct
    let r := ban s.m k sc
    let br := match r.2 with
      | .ok => if isBanned s.m k then "noop" else if k ∈ s.m.queue then "ok-dequeue" else "ok"
      | o => cls o
    fin "ban" (some k) r br
  | ["unban", kt, sct] => do
    let k ← key? kt
    let sc ← scope? sct
    let r := unban s.m k sc
    let br := match r.2 with
      | .ok => if !isBanned s.m k then "noop" else if k ∈ r.1.queue then "ok-enqueue" else "ok"
      | o => cls o
    fin "unban" (some k) r br
  | ["setmd", kt, sct, st, vt] => do
    let k ← key? kt
    let sc ← scope? sct
    let sfx ← sfx? st
    let v ← bytes? vt
    if badSfx sfx then badSfxOp "setmd" k sc else
    let r := setMd s.m k sc { sfx := sfx, movable := sfx % 2 = 0, val := v }
    fin "setmd" (some k) r (cls r.2)
  | ["getmd", kt, sct, st] => do
    let k ← key? kt
    let sc ← scope? sct
    let sfx ← sfx? st
    if badSfx sfx then badSfxOp "getmd" k sc else
    let r := getMd s.m k sc sfx
    -- P5: immovable metadata is gone once the blob is complete
    let extra := match s.m.blobs.get k with
      | some b => if b.complete ∧ sfx % 2 = 1 ∧ implOk then
          [pf "immovable-survived" s!"getmd {kt} {st} returned a value on a complete blob"] else []
      | none => []
    fin "getmd" (some k) r (cls r.2) (if outToks r.2 = impl then [] else extra)
  | ["delmd", kt, sct, st] => do
    let k ← key? kt
    let sc ← scope? sct
    let sfx ← sfx? st
    if badSfx sfx then badSfxOp "delmd" k sc else
    let r := delMd s.m k sc sfx
    fin "delmd" (some k) r (cls r.2)
  | ["listmd", kt, sct] => do
    let k ← key? kt
    let sc ← scope? sct
    let r := listMd s.m k sc
    let extra := match s.m.blobs.get k, impl with
      | some b, ["ok", l] =>
        if b.complete ∧ (list? l).any (fun t => (sfx? t).any (· % 2 = 1)) then
          [pf "immovable-survived" s!"listmd {kt} lists {l} on a complete blob"] else []
      | _, _ => []
    fin "listmd" (some k) r (cls r.2) (if outToks r.2 = impl then [] else extra)
  | ["wamd", kt, sct, st, pt, offt] => do
    let k ← key? kt
    let sc ← scope? sct
    let sfx ← sfx? st
    let p ← bytes? pt
    let off ← nat? offt
    if s.mem then none else
    if badSfx sfx then badSfxOp "wamd" k sc else
    let r := writeAtMd s.m k sc sfx p off
    fin "wamd" (some k) r (cls r.2)
  | ["list", sct] => do
    let sc ← scope? sct
    let r := list s.m sc
    fin "list" none r sct
  | ["clean", pt, rt] => do
    let pct ← int? pt
    let respect ← bool? rt
    if s.mem then none else
    -- the implementation's choice (Go map order) is read off its answer: the deleted keys, smallest
    -- first, then all other keys; the model checks that this choice is admissible by following it
    let deleted := match impl with | [_, _, d] => (keys? d).getD [] | _ => []
    let bySize := deleted.mergeSort (fun a b => decide (declSize s.m a ≤ declSize s.m b))
    let ord := bySize ++ (s.m.blobs.keys.filter (· ∉ deleted))
    let r := clean s.m pct respect ord
    let target := (s.m.cap * pct.toNat % U64) / 100
    let br := match r.2 with
      | .cleaned _ (some .badArg) _ => "badarg"
      | .cleaned _ _ d => if d.isEmpty then "nothing" else
          if d.all (· ∈ s.m.queue) then "evict-only" else if d.any (isBanned s.m) then "banned-too" else "incomplete-too"
      | _ => "?"
    (fin "clean" none r br [] { target := target, respect := respect }).map fun (st, o) =>
      ({ st with pend := { st.pend with implOk := impl.head? = some "ok" } }, o)
  -- memory.File handle operations
  | "hread" :: ht :: [nt] => do
    let i ← handle? ht
    let n ← nat? nt
    let h ← nth? s.hs i
    if !s.mem then none else
    let (h', o) := hRead s.m h n
    let obs := hOutToks o
    some ({ s with hs := setNth s.hs i h', prev := s.m, pend := { name := "hread" } },
          { obs, branch := s!"hread.{obs.headD ""}", propfails := judgeH "hread" obs impl })
  | ["hreadat", ht, nt, offt] => do
    let i ← handle? ht
    let n ← nat? nt
    let off ← int? offt
    let h ← nth? s.hs i
    if !s.mem then none else
    let obs := hOutToks (hReadAt s.m h n off)
    some ({ s with prev := s.m, pend := { name := "hreadat" } },
          { obs, branch := s!"hreadat.{obs.headD ""}", propfails := judgeH "hreadat" obs impl })
  | ["hseek", ht, offt, wt] => do
    let i ← handle? ht
    let off ← int? offt
    let w ← nat? wt
    let h ← nth? s.hs i
    if !s.mem then none else
    let (h', o) := hSeek s.m h off w
    let obs := hOutToks o
    some ({ s with hs := setNth s.hs i h', prev := s.m, pend := { name := "hseek" } },
          { obs, branch := s!"hseek.{obs.headD ""}", propfails := judgeH "hseek" obs impl })
  | ["hsize", ht] => do
    let i ← handle? ht
    let h ← nth? s.hs i
    if !s.mem then none else
    let obs := hOutToks (hSize s.m h)
    some ({ s with prev := s.m, pend := { name := "hsize" } },
          { obs, branch := s!"hsize.{obs.headD ""}", propfails := judgeH "hsize" obs impl })
  | ["hoff", ht] => do
    let i ← handle? ht
    let h ← nth? s.hs i
    if !s.mem then none else
    let obs := [toString h.off]
    some ({ s with prev := s.m, pend := { name := "hoff" } },
          { obs, branch := "hoff", propfails := judgeH "hoff" obs impl })
  | ["hwrite", ht, pt] => do
    let i ← handle? ht
    let p ← bytes? pt
    let h ← nth? s.hs i
    if !s.mem then none else
    let (m', h', o) := hWrite s.m h p
    let obs := hOutToks o
    some ({ s with m := m', hs := setNth s.hs i h', prev := s.m, pend := { name := "hwrite" } },
          { obs, branch := s!"hwrite.{obs.headD ""}", propfails := judgeH "hwrite" obs impl })
  | ["hwriteat", ht, pt, offt] => do
    let i ← handle? ht
    let p ← bytes? pt
    let off ← int? offt
    let h ← nth? s.hs i
    if !s.mem then none else
    let (m', o) := hWriteAt s.m h p off
    let obs := hOutToks o
    some ({ s with m := m', prev := s.m, pend := { name := "hwriteat" } },
          { obs, branch := s!"hwriteat.{obs.headD ""}", propfails := judgeH "hwriteat" obs impl })
  | _ => none

def stepProbe (s : St) (impl : List String) : Option (St × StepOut) := do
  let keys ← (kv? impl "keys").bind keys?
  let ckeys ← (kv? impl "ckeys").bind keys?
  let q ← (kv? impl "q").bind keys?
  let size ← (kv? impl "size").bind nat?
  let obs := [s!"keys={keysTok s.m.blobs.keys}", s!"ckeys={keysTok (completeKeys s.m)}",
              s!"q={listTok (s.m.queue.map keyTok)}", s!"size={s.m.size}"]
  -- the harness writes the sets sorted; compare in canonical form
  let implCanon := [s!"keys={keysTok keys}", s!"ckeys={keysTok ckeys}", s!"q={listTok (q.map keyTok)}", s!"size={size}"]
  let fails := probeFails s keys ckeys q size
  -- a disagreement on the probe that none of the clauses names is still a failure of "same results"
  let fails := if fails.isEmpty ∧ obs ≠ implCanon then [pf "state-view" s!"after {s.pend.name}: reference {sp obs} implementation {sp implCanon}"] else fails
  some ({ s with prev := s.m, pend := { name := "probe" } },
        { obs := if obs = implCanon then impl else obs, branch := "probe", propfails := fails })

def step (s : St) (kind : String) (args impl : List String) : Option (St × StepOut) :=
  if kind = "op" then stepOp s args impl
  else if kind = "probe" then stepProbe s impl
  else if kind = "one" ∧ args.head? = some "stress" then
    -- one bounded stress record (C08): after the races every operation through every handle of the
    -- removed incarnation answered the evicted result (`ok`); the Go side reports a revived handle
    -- with a `propfail key=stale-handle-revived` record carrying the parameters
    some (s, { obs := ["ok"], branch := "stress" })
  else if kind = "one" ∧ args.head? = some "conc" then
    -- summary line of one concurrent round (C08, thorough tier); its predicate is evaluated by the
    -- Go side on every handle operation and reported with `propfail` records
    some (s, { obs := ["ok"], branch := "conc" })
  else none

def initSt (mem : Bool) (cfg : List String) : Option St := do
  let cap ← match kv? cfg "cap" with | some c => nat? c | none => some 10
  some { mem := mem, m := init cap, prev := init cap }

def disk : Machine := { σ := St, name := "ds", init := initSt false, step := step }
def memory : Machine := { σ := St, name := "ms", init := initSt true, step := step }

end BlobStoreM
