import Driver.Frame
import KrakenModel.Model.RegistryPaths
/- Driver for C38, machine `rp` (package lib/dockerregistry):
     one path <str> [kind=<k> repo=<str> tag=<str> hex=<str> uuid=<str> algo=<str> off=<str>]
        => parse=<type>:<subtype>|err repo=ok:<str>|err tag=ok:<str>:<0|1>|err mdig=ok:<hex>|err|bad
           ldig=… bdig=… uuid=ok:<str>|err ao=ok:<algo>:<off>|err
   The optional `kind=…` tokens say which layout entry the path was built from and with which components;
   the monitor then checks that the implementation recovered exactly those.
-/
open Driver KrakenModel.RegistryPaths KrakenModel.Codec

namespace C38

def S (cs : List Char) : String := String.ofList cs

def ptypeTok : PType → String
  | .manifests => "_manifests" | .uploads => "_uploads" | .layers => "_layers" | .blobs => "blobs"

/-- render a result; `unsupported` echoes the implementation's token -/
def resTok {α : Type} (r : Res α) (f : α → String) (implTok : String) : String :=
  match r with
  | .ok a => "ok:" ++ f a
  | .noMatch => "err"
  | .unsupported => implTok

def digTok (r : DigestRes) (implTok : String) : String :=
  match r with
  | .ok h => "ok:" ++ S h
  | .noMatch => "err"
  | .badDigest => "bad"
  | .unsupported => implTok

/-- expected extractor results for a path built from a layout entry -/
def expected (kind : String) (get : String → String) : List (String × String) :=
  let repo := ("repo", "ok:" ++ get "repo")
  let tagC := ("tag", "ok:" ++ get "tag" ++ ":1")
  let tagI := ("tag", "ok:" ++ get "tag" ++ ":0")
  let uuid := ("uuid", "ok:" ++ get "uuid")
  match kind with
  | "tagsdir" => [("parse", "ok:_manifests:tags"), repo]
  | "revsdir" => [("parse", "ok:_manifests:revisions"), repo]
  | "tagcurrent" => [("parse", "ok:_manifests:tags"), repo, tagC]
  | "tagindex" => [("parse", "ok:_manifests:tags"), repo, tagI, ("mdig", "ok:" ++ get "hex")]
  | "revision" => [("parse", "ok:_manifests:revisions"), repo, ("mdig", "ok:" ++ get "hex")]
  | "layerlink" => [("parse", "ok:_layers:link"), repo, ("ldig", "ok:" ++ get "hex")]
  | "layerdata" => [("parse", "ok:_layers:data"), repo, ("ldig", "ok:" ++ get "hex")]
  | "blob" => [("parse", "ok:blobs:data"), ("bdig", "ok:" ++ get "hex")]
  | "updata" => [("parse", "ok:_uploads:data"), repo, uuid]
  | "upstarted" => [("parse", "ok:_uploads:startedat"), repo, uuid]
  | "uphash" => [("parse", "ok:_uploads:hashstates"), repo, uuid]
  | "uphashoff" => [("parse", "ok:_uploads:hashstates"), repo, uuid, ("ao", "ok:" ++ get "algo" ++ ":" ++ get "off")]
  | _ => []

def step (_ : Unit) (kind : String) (args impl : List String) : Option (Unit × StepOut) :=
  if kind ≠ "one" then none else
  match args with
  | "path" :: t :: extra => do
    let p ← str? t
    let path := p.toList
    let it (k : String) : String := (kv? impl k).getD "?"
    let obs := [
      "parse=" ++ resTok (parsePath path) (fun (ty, st) => ptypeTok ty ++ ":" ++ S st) (it "parse"),
      "repo=" ++ resTok (getRepo path) (fun r => strTok (S r)) (it "repo"),
      "tag=" ++ resTok (getManifestTag path) (fun (tg, c) => strTok (S tg) ++ ":" ++ boolTok c) (it "tag"),
      "mdig=" ++ digTok (getManifestDigest path) (it "mdig"),
      "ldig=" ++ digTok (getLayerDigest path) (it "ldig"),
      "bdig=" ++ digTok (getBlobDigest path) (it "bdig"),
      "uuid=" ++ resTok (getUploadUUID path) (fun u => strTok (S u)) (it "uuid"),
      "ao=" ++ resTok (getUploadAlgoAndOffset path) (fun (a, o) => S a ++ ":" ++ S o) (it "ao") ]
    -- monitor: a path built from valid components is classified as built and gives the components back
    let okClass (tok : String) : String := if tok.startsWith "ok:" then "ok" else tok
    let pf : List String := match kv? extra "kind" with
      | none =>
        -- arbitrary / mutated path: each function accepts exactly when its pattern (as modelled) matches
        (["parse", "repo", "tag", "mdig", "ldig", "bdig", "uuid", "ao"].zip obs).filterMap fun (key, mtok) =>
          let m := (mtok.drop (key.length + 1)).toString
          let i := it key
          if m = i then none
          else if okClass i = "ok" ∧ okClass m ≠ "ok" then some s!"side=impl key={key}-accepts-malformed path {t}: {key} is {i}, the pattern does not match"
          else if okClass i ≠ "ok" ∧ okClass m = "ok" then some s!"side=impl key={key}-rejects-wellformed path {t}: {key} is {i}, the pattern gives {m}"
          else some s!"side=impl key={key}-wrong-component path {t}: {key} is {i}, the pattern gives {m}"
      | some k =>
        (expected k (fun key => (kv? extra key).getD "")).filterMap fun (key, want) =>
          if it key ≠ want then
            some s!"side=impl key={if key = "repo" then "getrepo-mismatch" else "component-mismatch"} {k} path {t}: {key} is {it key}, built from {want}"
          else none
    -- layout monitors: the registry layout itself (not the regexps) judges the implementation's classification
    let lk := layoutKinds path
    let lkToks := lk.map fun (ty, st) => "ok:" ++ ptypeTok ty ++ ":" ++ S st
    let ip := it "parse"
    let layoutPf : List String :=
      if ip.startsWith "ok:" ∧ ¬ lkToks.contains ip then
        (if lk.isEmpty then
          let kindOf := ((ip.drop 3).toString.splitOn ":").headD ""
          [s!"side=impl key=accepted-non-layout-{kindOf.replace "_" ""} path {t} is no instance of a layout entry, ParsePath gave {ip}"]
         else [s!"side=impl key=misclassified-layout-path path {t} is {lkToks}, ParsePath gave {ip}"])
      else if ip = "err" ∧ ¬ lk.isEmpty then [s!"side=impl key=layout-path-rejected path {t} is {lkToks}, ParsePath rejected it"]
      else []
    -- GetRepo: what it returns must be followed by a whole marker element after a `repositories` element
    let els := splitOn '/' path
    let repoPf : List String := match (it "repo").dropPrefix? "ok:" with
      | some r =>
        match str? r.toString with
        | some rs =>
          let ok := (List.range els.length).any fun i =>
            els.getD i [] == sRepositories && (List.range (els.length + 1)).any fun j =>
              decide (i + 1 < j) && joinSlash ((els.take j).drop (i + 1)) == rs.toList && isMarker (els.getD j [])
          if ok then [] else [s!"side=impl key=getrepo-accepts-non-layout path {t}: GetRepo gave {rs}, no repositories/<that>/<marker> in the path"]
        | none => []
      | none => []
    let br := if (kv? extra "kind").isSome then "built." ++ (kv? extra "kind").getD "" else match parsePath path with
      | .ok (ty, st) => "parse." ++ ptypeTok ty ++ "." ++ S st
      | .noMatch => "parse.err"
      | .unsupported => "parse.unsupported"
    pure ((), { obs := obs, branch := br, propfails := pf.take 3 ++ layoutPf ++ repoPf })
  | _ => none

def machine : Machine := { σ := Unit, name := "rp", init := fun _ => some (), step := step }

end C38

def main (args : List String) : IO UInt32 := runMachines [C38.machine] args
