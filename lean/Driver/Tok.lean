/-
  Token helpers for the line protocol (core Lean only).
  Byte strings are `x` + lowercase hex; strings are percent-encoded; `-` is "absent".
-/
namespace Driver

def hexDigit? (c : Char) : Option Nat :=
  if '0' ≤ c ∧ c ≤ '9' then some (c.toNat - '0'.toNat)
  else if 'a' ≤ c ∧ c ≤ 'f' then some (c.toNat - 'a'.toNat + 10)
  else if 'A' ≤ c ∧ c ≤ 'F' then some (c.toNat - 'A'.toNat + 10)
  else none

def hexChar (n : Nat) : Char :=
  if n < 10 then Char.ofNat ('0'.toNat + n) else Char.ofNat ('a'.toNat + n - 10)

/-- decode pairs of hex digits -/
def unhexAux : List Char → List Nat → Option (List Nat)
  | [], acc => some acc.reverse
  | [_], _ => none
  | a :: b :: rest, acc =>
    match hexDigit? a, hexDigit? b with
    | some x, some y => unhexAux rest ((16 * x + y) :: acc)
    | _, _ => none

/-- `x68656c` → bytes -/
def bytes? (tok : String) : Option (List Nat) :=
  match tok.toList with
  | 'x' :: rest => unhexAux rest []
  | _ => none

def hexOf (bs : List Nat) : String :=
  String.ofList (bs.flatMap fun b => [hexChar (b / 16 % 16), hexChar (b % 16)])

def bytesTok (bs : List Nat) : String := "x" ++ hexOf bs

/-- percent-decoding of a token into a string given as a list of bytes (UTF-8 kept as raw bytes) -/
def pctAux : List Char → List Nat → Option (List Nat)
  | [], acc => some acc.reverse
  | '%' :: a :: b :: rest, acc =>
    match hexDigit? a, hexDigit? b with
    | some x, some y => pctAux rest ((16 * x + y) :: acc)
    | _, _ => none
  | '%' :: _, _ => none
  | c :: rest, acc => pctAux rest (c.toNat :: acc)

/-- percent-decoded token as a `String` (ASCII/Latin-1 view: one char per byte) -/
def str? (tok : String) : Option String :=
  if tok = "%" then some ""   -- the empty string is written as a lone `%`
  else (pctAux tok.toList []).map fun bs => String.ofList (bs.map Char.ofNat)

def needsPct (c : Char) : Bool :=
  !(c.isAlphanum || c = '_' || c = '-' || c = '.' || c = '/' || c = ':' || c = '@' || c = '+' || c = '~')

def strTok (s : String) : String :=
  if s.isEmpty then "%" else
  String.ofList (s.toList.flatMap fun c =>
    if needsPct c ∧ c.toNat < 256 then ['%', hexChar (c.toNat / 16), hexChar (c.toNat % 16)] else [c])

def nat? (tok : String) : Option Nat := tok.toNat?
def int? (tok : String) : Option Int := tok.toInt?

def bool? (tok : String) : Option Bool :=
  if tok = "1" ∨ tok = "true" then some true
  else if tok = "0" ∨ tok = "false" then some false else none

def boolTok (b : Bool) : String := if b then "1" else "0"

/-- comma-separated list token; `-` is the empty list -/
def list? (tok : String) : List String :=
  if tok = "-" ∨ tok = "" then [] else tok.splitOn ","

def listTok (xs : List String) : String :=
  if xs.isEmpty then "-" else ",".intercalate xs

/-- `k=v` token lookup -/
def kv? (toks : List String) (k : String) : Option String :=
  toks.findSome? fun t =>
    match t.splitOn "=" with
    | k' :: rest => if k' = k ∧ !rest.isEmpty then some ("=".intercalate rest) else none
    | _ => none

/-- split a token list at the first `=>` -/
def splitArrow (toks : List String) : List String × List String :=
  let l := toks.takeWhile (· ≠ "=>")
  let r := (toks.dropWhile (· ≠ "=>")).drop 1
  (l, r)

end Driver
