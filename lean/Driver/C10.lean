import Driver.Frame
import KrakenModel.Model.FileCleanup
import KrakenModel.Model.ForceCleanup
import KrakenModel.Model.CommitWB
/- Driver for C10.  Machine `fstore`: a cache file store with an LRU file map and the cleanup manager
   (lib/store, lib/store/base).  Machine `forceclean`: origin/blobserver's forced cleanup (`maybeDelete`).

   Monitors (implementation observations: the directory snapshots taken by the harness after every
   operation, plus the API-level clock):
   * persisted-file-removed     a file whose `_persist` sidecar said true in the previous snapshot is gone
   * cleanup-removed-non-idle / cleanup-kept-idle
                                a normal pass (no lower threshold, no LRU eviction possible) did not delete
                                exactly the unprotected files past the idle limit or the TTL
   * deleted-non-idle-file / kept-idle-file
                                the same rule judged against the accesses made *through the API* (ghost: per file
                                the time of its last create / read / metadata write, as the transcript shows them):
                                the on-disk last-access time may lag an access by less than the map's time
                                resolution (+1 s of sidecar granularity), so a pass must not delete an unprotected,
                                non-expired file accessed within TTI − resolution − 1 s, and must not keep an
                                unprotected file whose last possible access is more than TTI ago
   * policy-order-violated      the usage-driven pass deleted a file while an unprotected candidate that the
                                policy ranks strictly before it was kept
   * policy-stopped-early       … or stopped before the byte budget was met while candidates remained
   * deleted-before-writeback   (forceclean) a persisted blob was deleted although a write-back task found
                                for it was not executed successfully first -/
open Driver KrakenModel KrakenModel.FileCleanup

namespace C10

structure Snap where
  name : String
  size : Nat
  mtime : Int
  persist : Option Bool
  lat : Option Int
  deriving BEq

def snapTok (n : String) (f : File) : String :=
  s!"{n}:{f.size}:{f.mtime}:" ++ (match f.persist with | none => "-" | some true => "1" | some false => "0") ++ ":" ++
    (match f.lat with | none => "-" | some l => toString l)

def snap? (tok : String) : Option Snap :=
  match tok.splitOn ":" with
  | [n, sz, mt, p, l] => do
    let sz ← sz.toNat?
    let mt ← mt.toInt?
    let p ← if p = "-" then some none else if p = "1" then some (some true) else if p = "0" then some (some false) else none
    let l ← if l = "-" then some none else (l.toInt?).map some
    pure { name := n, size := sz, mtime := mt, persist := p, lat := l }
  | _ => none

structure St where
  m : State
  clock : Int                    -- API-level ghost clock: cfg now + ticks
  prev : List Snap := []         -- previous directory snapshot (implementation)
  lastOp : List String := []
  lo : List (String × Int) := [] -- per file: time of the last certain access through the API
  hi : List (String × Int) := [] -- per file: latest time at which an access may have refreshed the sidecar
  manip : List String := []      -- files whose sidecar was written explicitly (setlat): ghost not applicable

def init (toks : List String) : Option St := do
  let cap ← (kv? toks "cap").bind nat?
  let now ← (kv? toks "now").bind int?
  pure { m := FileCleanup.init cap now, clock := now }

def resTok : Res → String
  | .ok => "ok" | .notExist => "notexist" | .exist => "exist" | .persisted => "persisted"

def usage? (total used : String) : Option Usage := do
  let t ← nat? total
  let u ← nat? used
  pure { total := t, used := u }

def fileOf (s : Snap) : File := { size := s.size, mtime := s.mtime, persist := s.persist, lat := s.lat }

/-- the pass a `job` record stands for, by the documented configuration rules (TTI default 6 h, aggressive
TTL default 1 h; usage-driven policy above the aggressive threshold when a lower threshold is set) -/
def jobAsPass (args : List String) : List String :=
  match args with
  | ["job", _, tti, ttl, athr, attl, lower, util, total, used] =>
    match tti.toInt?, athr.toNat?, attl.toInt?, lower.toNat?, util.toNat? with
    | some ttiV, some athrV, some attlV, some lowerV, some utilV =>
      let ttiE := if ttiV = 0 then toString (6 * 3600 * sec) else tti
      let attlE := if attlV = 0 then toString (3600 * sec) else attl
      let aggro := athrV ≠ 0 ∧ utilV ≥ athrV
      if aggro ∧ lowerV ≠ 0 then ["cleanuppolicy", lower, total, used]
      else if aggro then ["cleanupttl", ttiE, attlE, "0", total, used]
      else ["cleanupttl", ttiE, ttl, "0", total, used]
    | _, _, _, _, _ => args
  | _ => args

def fsMonitors (s0 : St) (next : List Snap) : List String :=
  let s := { s0 with lastOp := jobAsPass s0.lastOp }
  let gone := s.prev.filter (fun p => !(next.any (·.name == p.name)))
  let pf1 := (gone.filter (fun p => p.persist == some true)).map fun p =>
    s!"side=impl key=persisted-file-removed {p.name} was marked persist=true and is gone after {sp s.lastOp}"
  let evictable := s.m.cap > 0 ∧ s.prev.length > s.m.cap
  let pf2 : List String := match s.lastOp with
    | ["cleanupttl", tti, ttl, "0", _, _] =>
      match tti.toInt?, ttl.toInt? with
      | some tti, some ttl =>
        if evictable then [] else
        -- a file without LAT sidecar gets one (= now) when the pass loads it: never idle
        let idle (p : Snap) : Bool := p.persist != some true && ready s.clock (fileOf p) tti ttl
        ((gone.filter (fun p => !idle p)).map fun p =>
            s!"side=impl key=cleanup-removed-non-idle {p.name} (mtime {p.mtime}, lat {p.lat}, persist {p.persist}) removed by a pass at {s.clock} with tti {tti} ttl {ttl}") ++
        (((s.prev.filter idle).filter (fun p => next.any (·.name == p.name))).map fun p =>
            s!"side=impl key=cleanup-kept-idle {p.name} (mtime {p.mtime}, lat {p.lat}) kept by a pass at {s.clock} with tti {tti} ttl {ttl}")
      | _, _ => []
    | ["cleanuppolicy", pct, total, _] =>
      match pct.toNat?, total.toNat? with
      | some pct, some total =>
        if evictable then [] else
        let info (p : Snap) : Option FInfo := p.lat.map fun l => { name := p.name, access := l, download := p.mtime, size := p.size }
        let cands := s.prev.filter (fun p => p.persist != some true)
        let deleted := (cands.filter (fun p => !(next.any (·.name == p.name)))).filterMap info
        let kept := (cands.filter (fun p => next.any (·.name == p.name))).filterMap info
        let order := deleted.flatMap fun d => (kept.filter (fun k => policyCmp k d < 0)).map fun k =>
          s!"side=impl key=policy-order-violated {d.name} deleted while {k.name}, ranked before it by the policy, was kept"
        let budget : Int := (total : Int) - ((total * pct % two64 / 100 : Nat) : Int)
        let freed : Int := ((deleted.map (·.size)).sum : Nat)
        let early := if budget > freed ∧ !kept.isEmpty then
            [s!"side=impl key=policy-stopped-early freed {freed} of {budget} bytes although {kept.map (·.name)} could still be deleted"] else []
        order ++ early
      | _, _ => []
    | _ => []
  let pf3 : List String := match s.lastOp with
    | ["cleanupttl", tti, ttl, pct, _, _] =>
      match tti.toInt?, ttl.toInt? with
      | some tti, some ttl =>
        if evictable then [] else
        let ttlExpired (p : Snap) : Bool := ttl > 0 && s.clock - p.mtime > ttl
        let open_ (p : Snap) : Bool := p.persist != some true && !(s.manip.contains p.name)
        ((gone.filter open_).filterMap fun p =>
          match s.lo.find? (·.1 == p.name) with
          | some (_, a) =>
            if !ttlExpired p ∧ s.clock - a ≤ tti - s.m.res - sec then
              some s!"side=impl key=deleted-non-idle-file {p.name} was accessed through the API at {a}, {s.clock - a} ns before a pass with tti {tti} (time resolution {s.m.res}) deleted it; on-disk last access time {p.lat}"
            else none
          | none => none) ++
        (if pct ≠ "0" then [] else
          ((s.prev.filter open_).filter (fun p => next.any (·.name == p.name))).filterMap fun p =>
            match s.hi.find? (·.1 == p.name) with
            | some (_, a) =>
              if s.clock - a > tti then
                some s!"side=impl key=kept-idle-file {p.name} was last accessed through the API at {a}, {s.clock - a} ns before a pass with tti {tti} that kept it"
              else none
            | none => none)
      | _, _ => []
    | _ => []
  pf1 ++ pf2 ++ pf3

def step (s : St) (kind : String) (args impl : List String) : Option (St × StepOut) :=
  if kind ≠ "op" then none else
  -- ghost of API accesses, from the implementation's results
  let setK (l : List (String × Int)) (n : String) (t : Int) := (n, t) :: l.filter (·.1 != n)
  let ok := impl.head? = some "ok"
  let (lo, hi, manip) : List (String × Int) × List (String × Int) × List String :=
    match args with
    | ["create", n, _] =>
      if ok then (setK s.lo n s.clock, setK s.hi n s.clock, s.manip.filter (· != n))
      else (s.lo, setK s.hi n s.clock, s.manip)          -- `exist`: the entry may have been touched
    | ["read", n] => if ok then (setK s.lo n s.clock, setK s.hi n s.clock, s.manip) else (s.lo, s.hi, s.manip)
    | ["persist", n, _] => if ok then (setK s.lo n s.clock, setK s.hi n s.clock, s.manip) else (s.lo, s.hi, s.manip)
    | ["unpersist", n] => if ok then (setK s.lo n s.clock, setK s.hi n s.clock, s.manip) else (s.lo, s.hi, s.manip)
    | ["setlat", n, _] => (s.lo, s.hi, n :: s.manip)
    | ["delete", n] => if ok then (s.lo.filter (·.1 != n), s.hi.filter (·.1 != n), s.manip) else (s.lo, s.hi, s.manip)
    | _ => (s.lo, s.hi, s.manip)
  let fin (m : State) (obs : List String) (br : String) (clock : Int := s.clock) : Option (St × StepOut) :=
    some ({ s with m, clock, lastOp := args, lo, hi, manip }, { obs, branch := br })
  match args with
  | ["create", n, size] => do
    let size ← nat? size
    let (m, r) := create s.m n size
    let ev := s.m.cap > 0 ∧ m.map.length ≤ s.m.map.length ∧ r = .ok
    fin m [resTok r] (s!"create.{resTok r}" ++ if ev then ".evict" else "")
  | ["setmtime", n, t] => do
    let t ← int? t
    fin (FileCleanup.step s.m (.setMtime n t)) ["ok"] "setmtime"
  | ["read", n] =>
    let (m, r) := access s.m n
    let reloaded := !KV.has s.m.map n ∧ r = .ok
    let touched := (KV.get m.files n).bind (·.lat) ≠ (KV.get s.m.files n).bind (·.lat)
    fin m [resTok r] (s!"read.{resTok r}" ++ (if reloaded then ".reload" else "") ++ (if touched then ".touch" else ""))
  | ["stat", n] =>
    let (m, r) := peek s.m n
    fin m [resTok r] s!"stat.{resTok r}"
  | ["persist", n, b] => do
    let b ← bool? b
    let (m, r) := setPersist s.m n b
    fin m [resTok r] s!"persist.{resTok r}"
  | ["unpersist", n] =>
    let (m, r) := unpersist s.m n
    fin m [resTok r] s!"unpersist.{resTok r}"
  | ["setlat", n, t] => do
    let t ← int? t
    let (m, r) := setLat s.m n t
    fin m [resTok r] s!"setlat.{resTok r}"
  | ["delete", n] =>
    let (m, r) := delete s.m n
    fin m [resTok r] s!"delete.{resTok r}"
  | ["tick", dt] => do
    let dt ← nat? dt
    fin { s.m with now := s.m.now + dt } ["ok"] "tick" (s.clock + dt)
  | ["cleanupttl", tti, ttl, pct, total, used] => do
    let tti ← int? tti
    let ttl ← int? ttl
    let pct ← nat? pct
    let u ← usage? total used
    let (m, scanned) := cleanupTTL s.m tti ttl pct u
    let n := s.m.files.length - m.files.length
    fin m [toString scanned] (s!"cleanupttl.{if pct = 0 then "normal" else "aggro"}.{if n = 0 then "none" else "deleted"}")
  | ["cleanuppolicy", pct, total, used] => do
    let pct ← nat? pct
    let u ← usage? total used
    let (m, usage) := cleanupPolicy s.m pct u
    let n := s.m.files.length - m.files.length
    fin m [toString usage] (s!"cleanuppolicy.{if n = 0 then "none" else "deleted"}")
  | ["job", interval, tti, ttl, athr, attl, lower, util, total, used] => do
    let interval ← nat? interval
    let tti ← int? tti
    let ttl ← int? ttl
    let athr ← nat? athr
    let attl ← int? attl
    let lower ← nat? lower
    let util ← nat? util
    let u ← usage? total used
    let c : JobCfg := { tti, ttl, aggrThr := athr, aggrTTL := attl, lower }
    let (m, _) := jobCleanup { s.m with now := s.m.now + interval } c util u
    let mode := if (athr ≠ 0 ∧ util ≥ athr) ∧ lower ≠ 0 then "policy" else if athr ≠ 0 ∧ util ≥ athr then "aggro-ttl" else "normal"
    let n := s.m.files.length - m.files.length
    fin m ["ran"] (s!"job.{mode}.{if n = 0 then "none" else "deleted"}") (s.clock + interval)
  | ["fs"] =>
    let mine := (listNames s.m).filterMap fun n => (KV.get s.m.files n).map (snapTok n)
    match (impl.head?.map list?).getD [] |>.mapM snap? with
    | none => none
    | some next =>
      let pf := fsMonitors s next
      let alive (n : String) : Bool := next.any (·.name == n)
      some ({ s with prev := next, lo := s.lo.filter (fun p => alive p.1), hi := s.hi.filter (fun p => alive p.1) },
            { obs := [listTok mine], branch := "fs", propfails := pf })
  | _ => none

def machine : Machine := { σ := St, name := "fstore", init := init, step := step }

end C10

namespace C10Force
open KrakenModel.ForceCleanup

structure St where
  dummy : Unit := ()

def boolsTok (bs : List Bool) : String := if bs.isEmpty then "-" else ",".intercalate (bs.map boolTok)

/-- `one maybedelete expired=0|1 owns=0|1 persist=-|0|1 tasks=1,0,… => <result> executed=<n> present=0|1` -/
def step (s : St) (kind : String) (args impl : List String) : Option (St × StepOut) :=
  if kind ≠ "one" then none else
  match args with
  | "maybedelete" :: rest => do
    -- `age` = (now − ModTime) − ttl in ns: expired iff positive (strict >); `expired=` is accepted for old replays
    let expired ← match (kv? rest "age").bind int? with
      | some a => some (decide (a > 0))
      | none => (kv? rest "expired").bind bool?
    let owns ← (kv? rest "owns").bind bool?
    let persist ← (kv? rest "persist").bind fun p =>
      if p = "-" then some none else (bool? p).map some
    let tasks ← (kv? rest "tasks").bind fun t => (list? t).mapM bool?
    let findFails : Bool := (kv? rest "finderr") == some "1"
    let inp : Input := { expired, owns, persist, tasks, findFails }
    let out := maybeDelete inp
    -- a second, fresh and owned blob is never a candidate
    let flagTok := match out.persistAfter with | none => "-" | some true => "1" | some false => "0"
    let delTok := match deleteAfter out with | .ok => "ok" | .persisted => "persisted" | .notExist => "notexist"
    -- `flag` / `del`: the blob's persist sidecar and the answer of a DeleteCacheFile attempt after the request
    let obs := [outTok out.result, s!"executed={out.executed}", s!"present={boolTok (!out.deleted)}", "other=1",
      s!"flag={flagTok}", s!"del={delTok}"]
    -- predicate on the implementation's answer
    let pf : List String :=
      match impl with
      | [_, ex, pr, oth, fl, dl] =>
        let failed := findFails ∨ tasks.any (· == false)
        if (expired || !owns) ∧ persist = some true ∧ failed ∧ (fl ≠ "flag=1" ∨ dl = "del=ok" ∨ dl = "del=notexist") then
          [s!"side=impl key=protection-lost-after-failed-writeback the write-back of the persisted blob failed (tasks {boolsTok tasks}, find error {findFails}) but afterwards {fl}, {pr} and a delete request answers {dl}"] else
        if oth = "other=0" then [s!"side=impl key=deleted-not-candidate a fresh blob owned by this origin was deleted by the forced cleanup"] else
        if findFails ∧ pr = "present=0" ∧ persist = some true then [s!"side=impl key=deleted-before-writeback the persisted blob was deleted although the write-back tasks could not be looked up"] else
        let gone := pr = "present=0"
        let executed := ((kv? [ex] "executed").bind nat?).getD 0
        if gone ∧ persist = some true ∧ (executed < tasks.length ∨ tasks.any (· == false)) then
          [s!"side=impl key=deleted-before-writeback the persisted blob was deleted with tasks {boolsTok tasks} (1 = SyncExec succeeds), {executed} executed"]
        else if gone ∧ !(expired || !owns) then
          [s!"side=impl key=deleted-not-candidate the blob was deleted although it is neither expired nor foreign"]
        else []
      | _ => []
    pure (s, { obs, branch := s!"maybedelete.{outTok out.result}", propfails := pf })
  | "commit" :: rest => do
    -- `one commit dup=0|1 addfail=0|1 len=N => ok|fail called=0|1 flagq=-|0|1 delq=-|persisted|ok|notexist flag=… present=…`
    -- an upload commit over HTTP; `flagq` / `delq`: the blob's persist flag and the answer of a DeleteCacheFile
    -- attempt at the moment the write-back task is handed to the manager (inside its Add)
    let addfail ← (kv? rest "addfail").bind bool?
    let s1 := KrakenModel.CommitWB.step {} (.prog true)
    let called := s1.pc == .marked
    let s1d := KrakenModel.CommitWB.step s1 .delete
    let s2 := KrakenModel.CommitWB.step s1d (.prog (!addfail))
    let obs := [if s2.pc == .done then "ok" else "fail", s!"called={boolTok called}", s!"flagq={boolTok s1.persist}",
      s!"delq={if s1d.present then "persisted" else "ok"}", s!"flag={boolTok s2.persist}", s!"present={boolTok s2.present}"]
    let pf : List String :=
      match impl with
      | [_, cl, fq, dq, _, pr] =>
        if cl = "called=1" ∧ (fq ≠ "flagq=1" ∨ dq ≠ "delq=persisted") then
          [s!"side=impl key=task-queued-before-protected at the moment the write-back task was handed to the manager the blob had {fq} and a delete request answered {dq} (afterwards {pr})"]
        else []
      | _ => []
    pure (s, { obs, branch := if addfail then "commit.addfail" else "commit.queued", propfails := pf })
  | _ => none

def machine : Machine := { σ := St, name := "forceclean", init := fun _ => some {}, step := step }

end C10Force

/-! ### inside an eviction (lib/store/base, harness with a parking entry factory) -/
namespace C10Evict

structure ESnap where
  name : String
  data : Bool
  persist : Option Bool
  deriving BEq

def esnap? (tok : String) : Option ESnap :=
  match tok.splitOn ":" with
  | [n, sz, p, _] => do
    let p ← if p = "-" then some none else if p = "1" then some (some true) else if p = "0" then some (some false) else none
    pure { name := n, data := sz != "nodata", persist := p }
  | _ => none

def esnapTok (n : String) (f : File) : String :=
  s!"{n}:{f.size}:" ++ (match f.persist with | none => "-" | some true => "1" | some false => "0") ++ ":" ++
    (match f.lat with | none => "-" | some l => toString l)

structure St where
  m : State
  prev : List ESnap := []
  acked : List String := []       -- names whose persist=true was acknowledged by the last record
  cleared : List String := []     -- names whose flag the last record may have cleared or that it deleted on request

def init (toks : List String) : Option St := do
  let cap ← (kv? toks "cap").bind nat?
  let now ← (kv? toks "now").bind int?
  pure { m := FileCleanup.init cap now }

def resTok : Res → String
  | .ok => "ok" | .notExist => "notexist" | .exist => "exist" | .persisted => "persisted"

/-- one plain operation `kind name` on the model -/
def simple (m : State) (kind n : String) : Option (State × Res) :=
  match kind with
  | "read" => some (access m n)
  | "stat" => some (peek m n)
  | "persist1" => some (setPersist m n true)
  | "persist0" => some (setPersist m n false)
  | "delete" => some (FileCleanup.delete m n)
  | _ => none

def winClass (kind : String) (r : String) : String :=
  if kind = "delete" ∧ (r = "ok" ∨ r = "notexist") then "done" else r

def wop? (tok : String) : Option (String × String) :=
  match tok.splitOn ":" with
  | [k, n] => some (k, n)
  | _ => none

/-- names whose persist=true was acknowledged according to the implementation's results -/
def ackedOf (args impl : List String) : List String :=
  match args with
  | ["persist1", n] => if impl = ["ok"] then [n] else []
  | ["evictwin", _, _, _, _, w] =>
    let ws := (list? w).filterMap wop?
    let rs := ((kv? impl "w").map list?).getD []
    (ws.zip rs).filterMap fun ((k, n), r) => if k = "persist1" ∧ r = "ok" then some n else none
  | _ => []

def clearedOf (args : List String) : List String :=
  match args with
  | ["persist0", n] => [n]
  | ["delete", n] => [n]
  | ["evictwin", _, _, _, _, w] => ((list? w).filterMap wop?).filterMap fun (k, n) => if k = "persist0" ∨ k = "delete" then some n else none
  | _ => []

def step (s : St) (kind : String) (args impl : List String) : Option (St × StepOut) :=
  if kind ≠ "op" then none else
  let fin (m : State) (obs : List String) (br : String) : Option (St × StepOut) :=
    some ({ s with m, acked := ackedOf args impl, cleared := clearedOf args }, { obs, branch := br })
  match args with
  | ["create", n, size] => do
    let size ← nat? size
    let (m, r) := create s.m n size
    fin m [resTok r] s!"create.{resTok r}"
  | ["tick", dt] => do
    let dt ← nat? dt
    fin { s.m with now := s.m.now + dt } ["ok"] "tick"
  | ["evictwin", _mode, trigger, size, evictee, w] => do
    let size ← nat? size
    let ws ← (list? w).mapM wop?
    let armed : Bool := match KV.get s.m.files evictee with | some f => !isPersisted f | none => true
    let fresh : Bool := !KV.has s.m.map trigger && !KV.has s.m.files trigger
    let s1 := createInsert s.m trigger size
    let parks : Bool := armed && fresh && s1.cap != 0 && decide (s1.map.length > s1.cap) && (s1.map.getLast?.map (·.1)) == some evictee
    if !parks then
      -- no window: the creation (with whatever eviction it causes) completes, then the operations run one by one
      let (m0, r0) := create s.m trigger size
      let (m, rs) ← ws.foldlM (fun (acc : State × List String) (kn : String × String) => do
          let (m', r) ← simple acc.1 kn.1 kn.2
          pure (m', acc.2 ++ [winClass kn.1 (resTok r)])) (m0, [])
      fin m ["nopark", s!"create={resTok r0}", s!"w={listTok rs}"] "evictwin.nopark"
    else
      -- the eviction holds the evictee's entry lock: operations on it wait and then find the entry gone;
      -- operations on other names run on the state before the file is removed
      let (m, rs) ← ws.foldlM (fun (acc : State × List String) (kn : String × String) => do
          if kn.2 = evictee then
            pure (acc.1, acc.2 ++ [if kn.1 = "delete" then "done" else "notexist"])
          else
            let (m', r) ← simple acc.1 kn.1 kn.2
            pure (m', acc.2 ++ [winClass kn.1 (resTok r)])) (s1, [])
      let x := xrun .unmapLast { s := m, ev := .locked evictee } [.check, .finish]
      let onEvictee := ws.any (·.2 = evictee)
      fin x.s ["parked", "create=ok", s!"w={listTok rs}"] (if onEvictee then "evictwin.parked.contended" else "evictwin.parked")
  | [k, n] =>
    if k = "fs" then none else do
    let (m, r) ← simple s.m k n
    fin m [resTok r] s!"{k}.{resTok r}"
  | ["fs"] =>
    let mine := (listNames s.m).filterMap fun n => (KV.get s.m.files n).map (esnapTok n)
    match (impl.head?.map list?).getD [] |>.mapM esnap? with
    | none => none
    | some next =>
      let hasData (n : String) : Bool := next.any (fun e => e.name == n && e.data)
      let pf1 := (s.acked.filter (fun n => !hasData n)).map fun n =>
        s!"side=impl key=persist-acked-without-data the persist flag of {n} was set and acknowledged, but its data file is not on disk afterwards"
      let pf2 := ((s.prev.filter (fun p => p.data && p.persist == some true && !(s.cleared.contains p.name))).filter
          (fun p => !hasData p.name)).map fun p =>
        s!"side=impl key=persisted-file-removed {p.name} was marked persist=true and its data is gone"
      some ({ s with prev := next, acked := [], cleared := [] }, { obs := [listTok mine], branch := "fs", propfails := pf1 ++ pf2 })
  | _ => none

def machine : Machine := { σ := St, name := "evict", init := init, step := step }

end C10Evict

def main (args : List String) : IO UInt32 := runMachines [C10.machine, C10Force.machine, C10Evict.machine] args
