import Driver.Frame
import KrakenModel.Model.PathModel
/- Driver for C11.

   machine `pathfn` (pure functions, one record each):
     one clean <s> => <out>                 filepath.Clean
     one join <a> <b> [<c>] => <out>        filepath.Join
     one unescape <s> => ok <out> | err     url.PathUnescape
     one local <dir> <name> => ok <path> | invalid     localFileEntryFactory.Create(name).GetPath()
     one cas <dir> <name> => ok <path>                 casFileEntryFactory.Create(name).GetPath()

   machine `tagsrv` (build-index tag server under httptest, real SimpleStore):
     op put <raw segment> => <class> <changes outside the store dirs | ->
     op get <raw segment> => <class> <changes | ->
   machine `origin` (origin blob server under httptest, real CAStore):
     op start <k> => ok                      a legitimate upload (uid named @k in later records)
     op patch <raw segment | @k> <k> => <class> <changes | ->
     op commit <raw segment | @k> <k> => <class> <changes | ->
   class: ok | badreq | notfound | conflict | error.  The model predicts the class only as far as the
   name handling goes (malformed escape → badreq, name rejected by the store → error); file-system
   level outcomes (ENAMETOOLONG, ENOTDIR, …) follow the implementation. -/
open Driver KrakenModel.PathModel

namespace C11

def toStr (s : String) : Str := s.toList
def tok (s : Str) : String := strTok (String.ofList s)

def stepFn (_ : Unit) (kind : String) (args impl : List String) : Option (Unit × StepOut) :=
  match kind, args with
  | "one", ["clean", st] => do
    let s ← str? st
    pure ((), { obs := [tok (clean (toStr s))], branch := "clean" })
  | "one", ["join", a, b] => do
    let a ← str? a; let b ← str? b
    pure ((), { obs := [tok (join [toStr a, toStr b])], branch := "join2" })
  | "one", ["join", a, b, c] => do
    let a ← str? a; let b ← str? b; let c ← str? c
    pure ((), { obs := [tok (join [toStr a, toStr b, toStr c])], branch := "join3" })
  | "one", ["unescape", st] => do
    let s ← str? st
    match pathUnescape (toStr s) with
    | some o => pure ((), { obs := ["ok", tok o], branch := "unescape.ok" })
    | none => pure ((), { obs := ["err"], branch := "unescape.err" })
  | "one", ["escape", st] => do
    let s ← str? st
    pure ((), { obs := [tok (escapePath (toStr s))], branch := "escape" })
  | "one", ["local", dt, nt] => do
    let d ← str? dt; let n ← str? nt
    let dir := toStr d; let name := toStr n
    if localNameOK name then
      let p := localPath dir name
      -- predicate on the implementation's answer
      let pf := match impl with
        | ["ok", pt] => match str? pt with
          | some ip =>
            if isRooted dir ∧ ¬ decide (Within dir (toStr ip)) then
              [s!"side=impl key=escapes-store-dir entry {nt} in {dt} is stored at {pt}"] else []
          | none => []
        | _ => []
      pure ((), { obs := ["ok", tok p], branch := "local.ok", propfails := pf })
    else
      let pf := match impl with
        | ["ok", pt] => match str? pt with
          | some ip =>
            if isRooted dir ∧ ¬ decide (Within dir (toStr ip)) then
              [s!"side=impl key=escapes-store-dir entry {nt} in {dt} is stored at {pt}"] else []
          | none => []
        | _ => []
      pure ((), { obs := ["invalid"], branch := "local.invalid", propfails := pf })
  | "one", ["cas", dt, nt] => do
    let d ← str? dt; let n ← str? nt
    let dir := toStr d; let name := toStr n
    let p := casPath dir name
    let pf := match impl with
      | ["ok", pt] => match str? pt with
        | some ip =>
          if validSHA256 name ∧ isRooted dir ∧ ¬ decide (Within dir (toStr ip)) then
            [s!"side=impl key=cas-escapes-store-dir blob {nt} in {dt} is stored at {pt}"] else []
        | none => []
      | _ => []
    pure ((), { obs := ["ok", tok p], branch := if validSHA256 name then "cas.hex" else "cas.other", propfails := pf })
  | _, _ => none

def fnMachine : Machine := { σ := Unit, name := "pathfn", init := fun _ => some (), step := stepFn }

/-- what the name handling alone decides about a request -/
inductive NameVerdict where
  | badreq | invalid | good (name : Str)

def verdict (seg : String) : Option NameVerdict := do
  let s ← str? seg
  match parseParam (toStr s) with
  | none => pure .badreq
  | some n => if localNameOK n then pure (.good n) else pure .invalid

def outsideMon (what seg : String) (changes : String) : List String :=
  if changes = "-" then [] else
    [s!"side=impl key=outside-store-dir {what} {seg} changed files outside the store directories: {changes}"]

structure TagSt where
  stored : List Str := []      -- tags a PUT has stored (decoded names)

def stepTag (s : TagSt) (kind : String) (args impl : List String) : Option (TagSt × StepOut) :=
  match kind, args, impl with
  | "op", ["put", seg], [cls, changes] => do
    let v ← verdict seg
    let pf := outsideMon "PUT /tags/" seg changes
    match v with
    | .badreq => pure (s, { obs := ["badreq", "-"], branch := "put.badreq", propfails := pf })
    | .invalid => pure (s, { obs := ["error", "-"], branch := "put.invalid", propfails := pf })
    | .good n =>
      -- empty decoded name cannot happen (clean "" = "."), FS-level failures follow the implementation
      let cls' := if cls = "ok" ∨ cls = "error" then cls else "ok"
      let s' := if cls = "ok" then { s with stored := n :: s.stored } else s
      pure (s', { obs := [cls', "-"], branch := "put." ++ cls', propfails := pf })
  | "op", ["get", seg], [cls, changes] => do
    let v ← verdict seg
    let pf := outsideMon "GET /tags/" seg changes
    match v with
    | .badreq => pure (s, { obs := ["badreq", "-"], branch := "get.badreq", propfails := pf })
    | .invalid =>
      let pf2 := if cls = "ok" then [s!"side=impl key=phantom-tag GET /tags/{seg} served a digest for a name the store must reject"] else []
      pure (s, { obs := ["error", "-"], branch := "get.invalid", propfails := pf ++ pf2 })
    | .good n =>
      if s.stored.contains n then
        pure (s, { obs := ["ok", "-"], branch := "get.stored", propfails := pf })
      else
        let pf2 := if cls = "ok" then [s!"side=impl key=phantom-tag GET /tags/{seg} served a digest although no request stored that tag"] else []
        let cls' := if cls = "notfound" ∨ cls = "error" then cls else "notfound"
        pure (s, { obs := [cls', "-"], branch := "get." ++ cls', propfails := pf ++ pf2 })
  | _, _, _ => none

def tagMachine : Machine := { σ := TagSt, name := "tagsrv", init := fun _ => some {}, step := stepTag }

structure OrgSt where
  live : List String := []     -- ids k of started, uncommitted uploads
  done : List String := []     -- blobs k committed to the cache (PATCH answers 409 before looking at the uid)

def stepOrigin (s : OrgSt) (kind : String) (args impl : List String) : Option (OrgSt × StepOut) :=
  match kind, args, impl with
  | "op", ["start", k], _ => some ({ s with live := k :: s.live }, { obs := ["ok"], branch := "start" })
  | "op", [verb, seg, k], [cls, changes] =>
    if verb ≠ "patch" ∧ verb ≠ "commit" then none else
    if seg.startsWith "@" then
      -- a legitimate upload id: outcome follows the implementation, only the containment is monitored
      let id := (seg.drop 1).toString
      let s' := if verb = "commit" ∧ cls = "ok" then { s with live := s.live.filter (· ≠ id), done := k :: s.done } else s
      some (s', { obs := [cls, "-"], branch := s!"{verb}.legit.{cls}", propfails := outsideMon s!"{verb} upload" seg changes })
    else do
      let v ← verdict seg
      let pf := outsideMon s!"{verb} upload" seg changes
      match v with
      | .badreq => pure (s, { obs := ["badreq", "-"], branch := s!"{verb}.badreq", propfails := pf })
      | .invalid =>
        if verb = "patch" ∧ s.done.contains k then
          pure (s, { obs := ["conflict", "-"], branch := "patch.invalid.blob-exists", propfails := pf })
        else pure (s, { obs := ["error", "-"], branch := s!"{verb}.invalid", propfails := pf })
      | .good _ =>
        -- a well-formed name that is not an upload id of ours: not found (or an FS level error)
        let pf2 := if cls = "ok" then [s!"side=impl key=phantom-upload {verb} with upload id {seg} succeeded although no such upload was started"] else []
        let cls' := if cls = "notfound" ∨ cls = "error" ∨ cls = "conflict" then cls else "notfound"
        pure (s, { obs := [cls', "-"], branch := s!"{verb}.unknown.{cls'}", propfails := pf ++ pf2 })
  | _, _, _ => none

def originMachine : Machine := { σ := OrgSt, name := "origin", init := fun _ => some {}, step := stepOrigin }

end C11

def main (args : List String) : IO UInt32 := runMachines [C11.fnMachine, C11.tagMachine, C11.originMachine] args
