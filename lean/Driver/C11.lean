import Driver.Frame
import KrakenModel.Model.PathModel
/- Driver for C11.

   machine `pathfn` (pure functions, one record each):
     one clean <s> => <out>                 filepath.Clean
     one join <a> <b> [<c>] => <out>        filepath.Join
     one unescape <s> => ok <out> | err     url.PathUnescape
     one local <dir> <name> => ok <path> | invalid     localFileEntryFactory.Create(name).GetPath()
     one cas <dir> <name> => ok <path>                 casFileEntryFactory.Create(name).GetPath()

   machine `tagsrv` (build-index tag server under httptest, real SimpleStore):
     op put <raw segment> => <class> <changes outside the store dirs | ->
     op get <raw segment> => <class> <changes | ->
   machine `origin` (origin blob server under httptest, real CAStore):
     op start <k> => ok                      a legitimate upload (uid named @k in later records)
     op patch <raw segment | @k> <k> => <class> <changes | ->
     op commit <raw segment | @k> <k> => <class> <changes | ->
   class: ok | badreq | notfound | conflict | error.  The model predicts the class only as far as the
   name handling goes (malformed escape → badreq, name rejected by the store → error); file-system
   level outcomes (ENAMETOOLONG, ENOTDIR, …) follow the implementation. -/
open Driver KrakenModel.PathModel

namespace C11

def toStr (s : String) : Str := s.toList
def tok (s : Str) : String := strTok (String.ofList s)

def stepFn (_ : Unit) (kind : String) (args impl : List String) : Option (Unit × StepOut) :=
  match kind, args with
  | "one", ["clean", st] => do
    let s ← str? st
    pure ((), { obs := [tok (clean (toStr s))], branch := "clean" })
  | "one", ["join", a, b] => do
    let a ← str? a; let b ← str? b
    pure ((), { obs := [tok (join [toStr a, toStr b])], branch := "join2" })
  | "one", ["join", a, b, c] => do
    let a ← str? a; let b ← str? b; let c ← str? c
    pure ((), { obs := [tok (join [toStr a, toStr b, toStr c])], branch := "join3" })
  | "one", ["unescape", st] => do
    let s ← str? st
    match pathUnescape (toStr s) with
    | some o => pure ((), { obs := ["ok", tok o], branch := "unescape.ok" })
    | none => pure ((), { obs := ["err"], branch := "unescape.err" })
  | "one", ["escape", st] => do
    let s ← str? st
    pure ((), { obs := [tok (escapePath (toStr s))], branch := "escape" })
  | "one", ["local", dt, nt] => do
    let d ← str? dt; let n ← str? nt
    let dir := toStr d; let name := toStr n
    if localNameOK name then
      let p := localPath dir name
      -- predicate on the implementation's answer
      let pf := match impl with
        | ["ok", pt] => match str? pt with
          | some ip =>
            if isRooted dir ∧ ¬ decide (Within dir (toStr ip)) then
              [s!"side=impl key=escapes-store-dir entry {nt} in {dt} is stored at {pt}"] else []
          | none => []
        | _ => []
      pure ((), { obs := ["ok", tok p], branch := "local.ok", propfails := pf })
    else
      let pf := match impl with
        | ["ok", pt] => match str? pt with
          | some ip =>
            if isRooted dir ∧ ¬ decide (Within dir (toStr ip)) then
              [s!"side=impl key=escapes-store-dir entry {nt} in {dt} is stored at {pt}"] else []
          | none => []
        | _ => []
      pure ((), { obs := ["invalid"], branch := "local.invalid", propfails := pf })
  | "one", ["upath", kindT, nt] => do
    -- the upload / cache store of a SimpleStore / CAStore asked through its OWN file ops where the entry
    -- named `nt` lives (root of the test tree written as /R)
    let n ← str? nt
    let name := toStr n
    let dir := toStr (if kindT = "simple-cache" then "/R/store/cache" else "/R/store/upload")
    let esc := match impl with
      | ["ok", pt] => match str? pt with
        | some ip => if ¬ decide (Within dir (toStr ip)) then
            [s!"side=impl key=escapes-store-dir {kindT}: entry {nt} is stored at {pt}"] else []
        | none => []
      | _ => []
    if localNameOK name then
      -- file-system level refusals (NUL, name too long, a path component that is a file) follow the implementation
      let obs := match impl with
        | ["fserr"] => ["fserr"]
        | _ => ["ok", tok (localPath dir name)]
      pure ((), { obs, branch := "upath.ok." ++ kindT, propfails := esc })
    else
      -- a rejected name may also fail earlier at file-system level (the temporary upload entry of CreateCacheFile)
      let obs := match impl with
        | ["fserr"] => ["fserr"]
        | _ => ["invalid"]
      pure ((), { obs, branch := "upath.invalid." ++ kindT, propfails := esc })
  | "one", ["cas", dt, nt] => do
    let d ← str? dt; let n ← str? nt
    let dir := toStr d; let name := toStr n
    let p := casPath dir name
    -- the monitor trusts the REAL validator's verdict (`valid=1`: core.ValidateSHA256 accepted the name), not the
    -- model's: every name the code would let through to the CAS layout must stay inside the directory
    let implValid := kv? impl "valid" == some "1"
    let pf := match impl with
      | "ok" :: pt :: _ => match str? pt with
        | some ip =>
          if implValid ∧ isRooted dir ∧ ¬ decide (Within dir (toStr ip)) then
            [s!"side=impl key=cas-escapes-store-dir ValidateSHA256 accepts {nt}, which the CAS layout stores at {pt}, outside {dt}"] else []
        | none => []
      | _ => []
    pure ((), { obs := ["ok", tok p, "valid=" ++ boolTok (validSHA256 name)],
                branch := if validSHA256 name then "cas.hex" else "cas.other", propfails := pf })
  | _, _ => none

def fnMachine : Machine := { σ := Unit, name := "pathfn", init := fun _ => some (), step := stepFn }

/-- what the name handling alone decides about a request -/
inductive NameVerdict where
  | badreq | invalid (name : Str) | good (name : Str)

def verdict (seg : String) : Option NameVerdict := do
  let s ← str? seg
  match parseParam (toStr s) with
  | none => pure .badreq
  | some n => if localNameOK n then pure (.good n) else pure (.invalid n)

/-- One changed path (relative to the test root, sign stripped) is legitimate when it lies in one of the
    entry directories the request may touch (`dirs`: exact path, below it, or an ancestor directory of it
    inside the same store directory) or starts with one of the temporary-name prefixes (`pfx`). -/
def allowedPath (dirs pfx : List String) (p : String) : Bool :=
  dirs.any (fun a => p == a || p.startsWith (a ++ "/") ||
    (a.startsWith (p ++ "/") && (p.startsWith "store/cache/" || p.startsWith "store/upload/"))) ||
  pfx.any (fun a => p.startsWith a ||
    (a.startsWith (p ++ "/") && (p.startsWith "store/cache/" || p.startsWith "store/upload/")))

/-- the changes the harness saw anywhere under the test root (store directories included), minus the
    ones the request is entitled to -/
def foreignChanges (changes : String) (dirs pfx : List String) : List String :=
  (list? changes).filter fun e =>
    match str? e with
    | some d => !allowedPath dirs pfx ((d.drop 1).toString)
    | none => true

def sentinels : List String :=
  ["data", "store/data", "store/upload/data", "store/cache/data", "outer-sentinel", "store/sentinel"]

/-- The property's predicate on the changed paths of one request: every path lies inside one of the store
    directories that correspond to the request (`stores`, e.g. ["store/upload", "store/cache"]) and no planted
    sentinel was touched.  (Which entry directory inside the store is used is the store's layout: compared
    with the model as a DIFF, not judged here.) -/
def outsideMon (what seg : String) (changes : String) (stores dirs pfx : List String) (bare : Bool := false) :
    List String × String :=
  -- in the bare layouts nothing is planted inside or next to the store roots
  let sentinels := if bare then ["data", "outer-sentinel"] else sentinels
  let entries := (list? changes).filterMap fun e => (str? e).map fun d => (e, (d.drop 1).toString)
  let outside := entries.filter fun (_, p) =>
    sentinels.contains p || !(stores.any fun st => p == st || p.startsWith (st ++ "/"))
  -- the store directories themselves must survive every request
  let roots := (list? changes).filterMap fun e => (str? e).bind fun d =>
    if d.startsWith "-" ∧ (d.drop 1).toString ∈ ["store/upload", "store/cache", "store"] then some e else none
  let pf := (if outside.isEmpty then [] else
    [s!"side=impl key=outside-store-dir {what} {seg} touched files outside its store directory: {listTok (outside.map (·.1))}"]) ++
    (if roots.isEmpty then [] else
    [s!"side=impl key=store-root-removed {what} {seg} removed a store directory itself: {listTok roots}"])
  let strictBad := foreignChanges changes dirs pfx
  (pf, if strictBad.isEmpty then changes else listTok ((list? changes).filter (!strictBad.contains ·)))

def nameStr (n : Str) : String := String.ofList n

structure TagSt where
  stored : List Str := []      -- tags a PUT has stored (decoded names)
  nonclean : Bool := false     -- cfg layout=bare-*: store roots configured in non-Clean form, nothing but the store dirs around them

/-- directories a tag request may touch for the decoded name `n` -/
def tagDirs (n : Str) : List String × List String :=
  (["store/cache/" ++ nameStr n], ["store/upload/" ++ nameStr n ++ "."])

def stepTag (s : TagSt) (kind : String) (args impl : List String) : Option (TagSt × StepOut) :=
  match kind, args, impl with
  | "op", [verb, seg], [cls, changes] => do
    if !(["put", "dupput", "get", "head", "replicate"].contains verb) then none else
    let v ← verdict seg
    let isPut := verb = "put" ∨ verb = "dupput"
    -- CreateCacheFile first writes a temporary upload entry `<name>.<uuid>`; for a name the cache rejects that
    -- temporary name may still be a valid upload name (e.g. "a/" gives "a/.<uuid>"), inside the upload directory
    let (dirs, pfx) := match v with
      | .good n => if isPut then tagDirs n else ((tagDirs n).1, [])
      | .invalid n => if isPut then ([], (tagDirs n).2) else ([], [])
      | .badreq => ([], [])
    let stores := if isPut then ["store/upload", "store/cache"] else if verb = "head" then [] else ["store/cache"]
    let (pf, chTok) := outsideMon s!"{verb} /tags/" seg changes stores dirs pfx s.nonclean
    match v with
    | .badreq => pure (s, { obs := ["badreq", chTok], branch := verb ++ ".badreq", propfails := pf })
    | .invalid _ =>
      if verb = "head" then
        -- HEAD only asks the backend: no store name check is involved
        pure (s, { obs := [cls, chTok], branch := "head.invalid", propfails := pf })
      else
        let pf2 := if cls = "ok" then [s!"side=impl key=phantom-tag {verb} /tags/{seg} succeeded for a name the store must reject"] else []
        pure (s, { obs := ["error", chTok], branch := verb ++ ".invalid", propfails := pf ++ pf2 })
    | .good n =>
      if isPut then
        -- FS-level failures (ENAMETOOLONG, ENOTDIR, NUL) follow the implementation
        let cls' := if cls = "ok" ∨ cls = "error" then cls else "ok"
        let s' := if cls = "ok" then { s with stored := n :: s.stored } else s
        -- a nested name (the temporary upload entry is created and DELETED below a sub-directory) under a root that
        -- is not in filepath.Clean form
        let br := verb ++ "." ++ cls' ++ (if s.nonclean ∧ n.contains '/' then ".nested.nonclean" else "")
        pure (s', { obs := [cls', chTok], branch := br, propfails := pf })
      else if verb = "head" then
        pure (s, { obs := [cls, chTok], branch := "head.good", propfails := pf })
      else if s.stored.contains n then
        let cls' := if verb = "get" then "ok" else (if cls = "ok" ∨ cls = "error" then cls else "ok")
        pure (s, { obs := [cls', chTok], branch := verb ++ ".stored", propfails := pf })
      else
        let pf2 := if cls = "ok" then [s!"side=impl key=phantom-tag {verb} /tags/{seg} succeeded although no request stored that tag"] else []
        let cls' := if cls = "notfound" ∨ cls = "error" then cls else "notfound"
        pure (s, { obs := [cls', chTok], branch := verb ++ "." ++ cls', propfails := pf ++ pf2 })
  | _, _, _ => none

def tagMachine : Machine :=
  { σ := TagSt, name := "tagsrv", step := stepTag,
    init := fun cfg => some { nonclean := cfg.any (fun t => t.startsWith "layout=bare") } }

structure OrgSt where
  live : List String := []     -- ids k of started, uncommitted uploads
  done : List String := []     -- blobs k committed to the cache (PATCH answers 409 before looking at the uid)

/-- verbs: patch/commit (internal transfer routes), ppatch/pcommit (public /namespace/… routes),
    dcommit (internal duplicate commit) -/
def stepOrigin (s : OrgSt) (kind : String) (args impl : List String) : Option (OrgSt × StepOut) :=
  match kind, args, impl with
  | "op", ["start", k], _ => some ({ s with live := k :: s.live }, { obs := ["ok"], branch := "start" })
  | "op", ["pstart", k], _ => some ({ s with live := k :: s.live }, { obs := ["ok"], branch := "pstart" })
  | "op", [verb, seg], [cls, changes] =>
    -- CAS-name routes: bget = GET /namespace/ns/blobs/{digest}, bhead = HEAD /internal/namespace/ns/blobs/{digest}?local=true,
    -- bdel = DELETE /internal/blobs/{digest}; `#k` = the digest of blob k, anything else a raw path segment
    if !(["bget", "bhead", "bdel"].contains verb) then none else
    if seg.startsWith "#" then
      let (pf, chTok) := outsideMon s!"{verb} blob" seg changes ["store/cache"] ["store/cache/" ++ seg, "store/cache/#shard"] []
      some (s, { obs := [cls, chTok], branch := s!"{verb}.legit.{cls}", propfails := pf })
    else do
      let raw ← str? seg
      let (pf, chTok) := outsideMon s!"{verb} blob" seg changes ["store/cache"] [] []
      let param := parseParam (toStr raw)
      let pre : Str := "sha256:".toList
      let digestOK := match param with
        | some d => pre.isPrefixOf d && validSHA256 (d.drop pre.length)
        | none => false
      let served := cls = "ok" ∨ (verb = "bdel" ∧ cls = "accepted")
      if digestOK then
        -- a well-formed digest of a blob nobody uploaded: not found (or a backend / FS level error)
        let pf2 := if served then [s!"side=impl key=phantom-blob {verb} {seg} succeeded although no such blob was uploaded"] else []
        pure (s, { obs := [cls, chTok], branch := s!"{verb}.unknown-digest", propfails := pf ++ pf2 })
      else
        let pf2 := if served then [s!"side=impl key=phantom-blob {verb} {seg} succeeded for a parameter that is not a sha256 digest"] else []
        pure (s, { obs := ["badreq", chTok], branch := s!"{verb}.not-a-digest", propfails := pf ++ pf2 })
  | "op", [verb, seg, k], [cls, changes] =>
    if !(["patch", "commit", "ppatch", "pcommit", "dcommit"].contains verb) then none else
    let isPatch := verb = "patch" ∨ verb = "ppatch"
    -- the cache entry of the (validated) digest of the request may always change (conflict handling writes
    -- its metadata); an upload directory only when the request names an upload the server issued
    let cacheDir := "store/cache/#" ++ k
    -- a PATCH belongs to the upload store (plus the cache entry of its validated digest: conflict handling);
    -- a commit moves the upload into the cache
    let stores := if isPatch then ["store/upload", cacheDir, "store/cache/#shard"] else ["store/upload", "store/cache"]
    if seg.startsWith "@" then
      let id := (seg.drop 1).toString
      let (pf, chTok) := outsideMon s!"{verb} upload" seg changes stores [cacheDir, "store/cache/#shard", "store/upload/@" ++ id] []
      let s' := if !isPatch ∧ cls = "ok" then { s with live := s.live.filter (· ≠ id), done := k :: s.done } else s
      some (s', { obs := [cls, chTok], branch := s!"{verb}.legit.{cls}", propfails := pf })
    else do
      let v ← verdict seg
      let (pf, chTok) := outsideMon s!"{verb} upload" seg changes stores [cacheDir, "store/cache/#shard"] []
      match v with
      | .badreq => pure (s, { obs := ["badreq", chTok], branch := s!"{verb}.badreq", propfails := pf })
      | .invalid _ =>
        if isPatch ∧ s.done.contains k then
          pure (s, { obs := ["conflict", chTok], branch := s!"{verb}.invalid.blob-exists", propfails := pf })
        else pure (s, { obs := ["error", chTok], branch := s!"{verb}.invalid", propfails := pf })
      | .good _ =>
        -- a well-formed name that is not an upload id of ours: not found (or an FS level error)
        let pf2 := if cls = "ok" then [s!"side=impl key=phantom-upload {verb} with upload id {seg} succeeded although no such upload was started"] else []
        let cls' := if cls = "notfound" ∨ cls = "error" ∨ cls = "conflict" then cls else "notfound"
        pure (s, { obs := [cls', chTok], branch := s!"{verb}.unknown.{cls'}", propfails := pf ++ pf2 })
  | _, _, _ => none

def originMachine : Machine := { σ := OrgSt, name := "origin", init := fun _ => some {}, step := stepOrigin }

end C11

def main (args : List String) : IO UInt32 := runMachines [C11.fnMachine, C11.tagMachine, C11.originMachine] args
