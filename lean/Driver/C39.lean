import Driver.Frame
import KrakenModel.Model.IdCodec
/- Driver for C39: pure-function differential of the identifier / metadata codecs, with round-trip
   monitors evaluated on the implementation's own outputs.

   machine `ids` (package core, public API)
     one digest <str>      => ok hex=<str> str=<str> | err empty|parts|algo|length|hex
     one digesthex <str>   => ok hex=<str> str=<str> | err length|hex
     one infohash <str>    => ok <xbytes> hex=<str> | err length|hex
     one peerid <str>      => ok <xbytes> str=<str> | err length|hex
     one ihbytes <xbytes>  => <str>            (InfoHash value → Hex)
     one pidbytes <xbytes> => <str>            (PeerID value → String)
     one dlist <xbytes>    => ok nil|empty|<hex,…> reser=<xbytes> | err
     one dlistval nil|empty|<hex,…> => <xbytes>
   machine `md` (package lib/store/metadata)
     one lat <int>         => ok <xbytes> back=<int> | panic
     one latde <xbytes>    => ok <int> | err
     one persist 0|1       => <str> back=0|1
     one persistde <xbytes> => ok 0|1 | err
   machine `ps` (package agentstorage)
     one pser <list 0|1|2> => <xbytes> back=<list>
     one pde <xbytes>      => <list>
   machine `hs` (package conn)
     one hs pid=<x> ih=<x> d=<str> bf=<len>:<idx.idx…> remote=<pidhex>:<len>:<idx.…>;… ns=<str>
         => ok pid=<str> name=<str> ih=<str> bf=<xbytes> remote=<pidhex>:<xbyteshex>;… back=ok|<class>
     one hsde pid=<str> ih=<str> name=<str> bf=<xbytes> remote=<str>:<hexbytes>;… ns=<str>
         => ok bf=<len>:<w.w…> remote=<pidhex>:<len>:<w.…>;… | err peerid|infohash|name|bitfield|remotepeer|remotebitfield
-/
open Driver KrakenModel.IdCodec KrakenModel.Codec

namespace C39

def ofBytes (bs : List Nat) : List Char := bs.map Char.ofNat
def toBytes (cs : List Char) : List Nat := cs.map Char.toNat
def S (cs : List Char) : String := String.ofList cs

def digestErrTok : DigestErr → String
  | .empty => "empty" | .parts => "parts" | .algo => "algo" | .length => "length" | .hex => "hex"

def idErrTok : IdErr → String
  | .length => "length" | .hex => "hex" | .invariant => "invariant"

def digestOkObs (d : Digest) : List String := ["ok", "hex=" ++ strTok (S d.hex), "str=" ++ strTok (S d.raw)]

def hexList? (t : String) : Option (Option (List Digest)) :=
  if t = "nil" then some none
  else if t = "empty" then some (some [])
  else some (some ((t.splitOn ",").map fun h => ({ hex := h.toList } : Digest)))

def hexListTok : Option (List Digest) → String
  | none => "nil"
  | some [] => "empty"
  | some l => ",".intercalate (l.map fun d => S d.hex)

/-! a lenient reader of a JSON array of strings (whitespace, escapes), independent of the implementation -/

def isWs (c : Char) : Bool := c == ' ' || c == '\n' || c == '\t' || c == '\r'

def skipWs (s : List Char) : List Char := s.dropWhile isWs

def hex4? (s : List Char) : Option (Nat × List Char) :=
  match s with
  | a :: b :: c :: d :: rest =>
    match hexDigit? a, hexDigit? b, hexDigit? c, hexDigit? d with
    | some w, some x, some y, some z => some (((w * 16 + x) * 16 + y) * 16 + z, rest)
    | _, _, _, _ => none
  | _ => none

/-- after the opening quote: the decoded string and the rest; `none` = not handled / invalid -/
def jsonStringBody : Nat → List Char → List Char → Option (List Char × List Char)
  | 0, _, _ => none
  | _ + 1, [], _ => none
  | fuel + 1, c :: cs, acc =>
    if c == '"' then some (acc, cs)
    else if c == '\\' then
      match cs with
      | 'u' :: rest =>
        match hex4? rest with
        | some (v, rest') => if v < 128 ∧ v ≥ 32 then jsonStringBody fuel rest' (acc ++ [Char.ofNat v]) else none
        | none => none
      | e :: rest =>
        if e == '"' ∨ e == '\\' ∨ e == '/' then jsonStringBody fuel rest (acc ++ [e]) else none
      | [] => none
    else if c.toNat < 32 then none
    else jsonStringBody fuel cs (acc ++ [c])

def jsonStringsTail : Nat → List Char → List (List Char) → Option (List (List Char))
  | 0, _, _ => none
  | fuel + 1, s, acc =>
    match skipWs s with
    | ']' :: rest => if (skipWs rest).isEmpty then some acc else none
    | ',' :: rest =>
      match skipWs rest with
      | '"' :: body =>
        match jsonStringBody (body.length + 1) body [] with
        | some (str, rest') => jsonStringsTail fuel rest' (acc ++ [str])
        | none => none
      | _ => none
    | _ => none

/-- `some none` = null, `some (some l)` = an array of strings, `none` = anything else (not judged) -/
def jsonStrings? (s : List Char) : Option (Option (List (List Char))) :=
  match skipWs s with
  | 'n' :: 'u' :: 'l' :: 'l' :: rest => if (skipWs rest).isEmpty then some none else none
  | '[' :: rest =>
    match skipWs rest with
    | ']' :: rest' => if (skipWs rest').isEmpty then some (some []) else none
    | '"' :: body =>
      match jsonStringBody (body.length + 1) body [] with
      | some (str, rest') => (jsonStringsTail (rest'.length + 1) rest' [str]).map some
      | none => none
    | _ => none
  | _ => none

/-- the digest language: `sha256:` + 64 hexadecimal characters -/
def inDigestLang (s : List Char) : Bool :=
  match lit sha256Prefix s with
  | some h => h.length == 64 && h.all isHex
  | none => false

def stepIds (_ : Unit) (kind : String) (args impl : List String) : Option (Unit × StepOut) :=
  if kind ≠ "one" then none else
  match args with
  | ["digest", t] => do
    let s ← str? t
    -- monitor: whatever was accepted prints back to the input and is `sha256:` + 64 hex
    let pf := match impl with
      | ["ok", h, p] =>
        match (kv? [h] "hex").bind str?, (kv? [p] "str").bind str? with
        | some hx, some pr =>
          (if pr ≠ s then [s!"side=impl key=digest-print-parse parsed {t} prints as {pr}"] else []) ++
          (if ¬ (hx.length = 64 ∧ hx.toList.all isHex ∧ s = "sha256:" ++ hx) then
            [s!"side=impl key=digest-accepts-malformed accepted {t} with hex {hx}"] else [])
        | _, _ => []
      | "err" :: _ =>
        let hx := s.toList.drop 7
        if s.startsWith "sha256:" ∧ hx.length = 64 ∧ hx.all isHex then
          [s!"side=impl key=digest-rejects-wellformed {t} was rejected"] else []
      | _ => []
    match parseSHA256Digest s.toList with
    | .ok d => pure ((), { obs := digestOkObs d, branch := "digest.ok", propfails := pf })
    | .error e => pure ((), { obs := ["err", digestErrTok e], branch := "digest.err." ++ digestErrTok e, propfails := pf })
  | ["digesthex", t] => do
    let s ← str? t
    let pf := match impl with
      | "ok" :: _ => if ¬ (s.length = 64 ∧ s.toList.all isHex) then [s!"side=impl key=digest-accepts-malformed hex {t} accepted"] else []
      | "err" :: _ => if s.length = 64 ∧ s.toList.all isHex then [s!"side=impl key=digest-rejects-wellformed hex {t} was rejected"] else []
      | _ => []
    match newSHA256DigestFromHex s.toList with
    | .ok d => pure ((), { obs := digestOkObs d, branch := "digesthex.ok", propfails := pf })
    | .error e => pure ((), { obs := ["err", digestErrTok e], branch := "digesthex.err." ++ digestErrTok e, propfails := pf })
  | ["infohash", t] => do
    let s ← str? t
    let pf := match impl with
      | ["ok", b, h] =>
        match bytes? b, (kv? [h] "hex").bind str? with
        | some bs, some hx =>
          if hx.toList ≠ hexEncode bs ∨ hexDecode s.toList ≠ some bs then
            [s!"side=impl key=infohash-roundtrip parsed {t} to {b} printing {hx}"] else []
        | _, _ => []
      | "err" :: _ => if s.length = 40 ∧ s.toList.all isHex then [s!"side=impl key=infohash-rejects-wellformed {t} was rejected"] else []
      | _ => []
    match newInfoHashFromHex s.toList with
    | .ok bs => pure ((), { obs := ["ok", bytesTok bs, "hex=" ++ strTok (S (hexEncode bs))], branch := "infohash.ok", propfails := pf })
    | .error e => pure ((), { obs := ["err", idErrTok e], branch := "infohash.err." ++ idErrTok e, propfails := pf })
  | ["peerid", t] => do
    let s ← str? t
    let pf := match impl with
      | ["ok", b, h] =>
        match bytes? b, (kv? [h] "str").bind str? with
        | some bs, some hx =>
          if hx.toList ≠ hexEncode bs ∨ hexDecode s.toList ≠ some bs then
            [s!"side=impl key=peerid-roundtrip parsed {t} to {b} printing {hx}"] else []
        | _, _ => []
      | "err" :: _ => if s.length = 40 ∧ s.toList.all isHex then [s!"side=impl key=peerid-rejects-wellformed {t} was rejected"] else []
      | _ => []
    match newPeerID s.toList with
    | .ok bs => pure ((), { obs := ["ok", bytesTok bs, "str=" ++ strTok (S (hexEncode bs))], branch := "peerid.ok", propfails := pf })
    | .error e => pure ((), { obs := ["err", idErrTok e], branch := "peerid.err." ++ idErrTok e, propfails := pf })
  | [k, t] =>
    if k = "ihbytes" ∨ k = "pidbytes" then do
      let bs ← bytes? t
      let pf := match impl with
        | [h] => match str? h with
          | some hx =>
            let back := if k = "ihbytes" then newInfoHashFromHex hx.toList else newPeerID hx.toList
            if back ≠ .ok bs then [s!"side=impl key={k}-print-parse {t} prints as {hx} which does not parse back"] else []
          | none => []
        | _ => []
      pure ((), { obs := [strTok (S (hexEncode bs))], branch := k, propfails := pf })
    else if k = "dlist" then do
      let bs ← bytes? t
      let s := ofBytes bs
      let rt : List String := match impl with
        | ["ok", l, r] =>
          match hexList? l, (kv? [r] "reser").bind bytes? with
          | some lst, some rs =>
            if parseDigestList (ofBytes rs) ≠ some lst then
              [s!"side=impl key=digestlist-roundtrip list {l} re-serialises to {S (ofBytes rs)}"] else []
          | _, _ => []
        | _ => []
      match parseDigestList s with
      | some l => pure ((), { obs := ["ok", hexListTok l, "reser=" ++ t], branch := "dlist.ok", propfails := rt })
      | none =>
        -- not the canonical text: decode the JSON independently and judge acceptance by the digest language
        match jsonStrings? s with
        | some dec =>
          let wellFormed := match dec with | none => true | some els => els.all inDigestLang
          let want : Option (List Digest) := dec.map fun els => els.map fun e => ({ hex := e.drop 7 } : Digest)
          let acc : List String := match impl with
            | "ok" :: l :: _ =>
              if !wellFormed then [s!"side=impl key=digestlist-accepts-malformed {S s} was accepted as {l}"]
              else if hexList? l ≠ some want then [s!"side=impl key=digestlist-wrong-element {S s} was read as {l}"] else []
            | ["err"] => if wellFormed then [s!"side=impl key=digestlist-rejects-wellformed {S s} was rejected"] else []
            | _ => []
          let obs := if wellFormed then ["ok", hexListTok want, "reser=" ++ bytesTok (toBytes (digestListJSON want))] else ["err"]
          pure ((), { obs := obs, branch := if wellFormed then "dlist.decoded.ok" else "dlist.decoded.err", propfails := rt ++ acc })
        | none =>
          pure ((), { obs := impl, branch := if impl.head? = some "ok" then "dlist.undecoded.accepted" else "dlist.undecoded.rejected", propfails := rt })
    else if k = "dlistval" then do
      let l ← hexList? t
      let pf := match impl with
        | [b] => match bytes? b with
          | some js => if parseDigestList (ofBytes js) ≠ some l then [s!"side=impl key=digestlist-roundtrip {t} serialises to {S (ofBytes js)}"] else []
          | none => []
        | _ => []
      pure ((), { obs := [bytesTok (toBytes (digestListJSON l))], branch := "dlistval", propfails := pf })
    else none
  | _ => none

def machineIds : Machine := { σ := Unit, name := "ids", init := fun _ => some (), step := stepIds }

/-! ### metadata -/

def inInt64 (x : Int) : Bool := decide (-(2^63 : Int) ≤ x) && decide (x < 2^63)

def stepMd (_ : Unit) (kind : String) (args impl : List String) : Option (Unit × StepOut) :=
  if kind ≠ "one" then none else
  match args with
  | ["lat", t] => do
    let x ← t.toInt?
    if !inInt64 x then none else
    let pf := match impl with
      | ["panic"] => [s!"side=impl key=lat-serialize-panic Serialize panicked for unix={x}"]
      | ["ok", b, back] =>
        match bytes? b with
        | some bs =>
          (if latDeserialize bs ≠ some x then [s!"side=impl key=lat-roundtrip unix={x} serialised to {b}, which reads as {latDeserialize bs}"] else []) ++
          (if kv? [back] "back" ≠ some (toString x) then [s!"side=impl key=lat-roundtrip unix={x} came back as {back}"] else [])
        | none => []
      | _ => []
    match latSerialize x with
    | .panic => pure ((), { obs := ["panic"], branch := "lat.panic", propfails := pf })
    | .ok b =>
      let br := if (putUvarint (zigzag x)).length > 8 then "lat.ok.long" else "lat.ok"
      pure ((), { obs := ["ok", bytesTok b, s!"back={x}"], branch := br, propfails := pf })
  | ["latde", t] => do
    let bs ← bytes? t
    match latDeserialize bs with
    | some x => pure ((), { obs := ["ok", toString x], branch := "latde.ok" })
    | none => pure ((), { obs := ["err"], branch := "latde.err" })
  | ["persist", t] => do
    let v ← bool? t
    let pf := match impl with
      | [s, back] => match str? s with
        | some str => if parseBool str.toList ≠ some v ∨ kv? [back] "back" ≠ some (boolTok v) then
            [s!"side=impl key=persist-roundtrip {t} serialised to {s} came back as {back}"] else []
        | none => []
      | _ => []
    pure ((), { obs := [strTok (S (formatBool v)), "back=" ++ boolTok v], branch := "persist", propfails := pf })
  | ["persistde", t] => do
    let bs ← bytes? t
    -- monitor: only the twelve strconv spellings are accepted, with their meaning
    let spell : List (String × String) := [("1","1"),("t","1"),("T","1"),("TRUE","1"),("true","1"),("True","1"),
      ("0","0"),("f","0"),("F","0"),("FALSE","0"),("false","0"),("False","0")]
    let pf := match impl with
      | ["ok", v] => if (spell.find? fun p => p.1.toList = ofBytes bs ∧ p.2 = v).isNone then
          [s!"side=impl key=persist-accepts-malformed {t} accepted as {v}"] else []
      | _ => []
    match parseBool (ofBytes bs) with
    | some v => pure ((), { obs := ["ok", boolTok v], branch := "persistde.ok", propfails := pf })
    | none => pure ((), { obs := ["err"], branch := "persistde.err", propfails := pf })
  | _ => none

def machineMd : Machine := { σ := Unit, name := "md", init := fun _ => some (), step := stepMd }

/-! ### piece status -/

def status? (t : String) : Option Status :=
  if t = "0" then some .empty else if t = "1" then some .complete else if t = "2" then some .dirty else none

def statusTok : Status → String
  | .empty => "0" | .complete => "1" | .dirty => "2"

def statusList? (t : String) : Option (List Status) := (list? t).mapM status?

def stepPs (_ : Unit) (kind : String) (args impl : List String) : Option (Unit × StepOut) :=
  if kind ≠ "one" then none else
  match args with
  | ["pser", t] => do
    let ps ← statusList? t
    let want := ps.map fun p => if p = .dirty then Status.empty else p
    let pf := match impl with
      | [_, back] =>
        if kv? [back] "back" ≠ some (listTok (want.map statusTok)) ∧ ps.all (· ≠ .dirty) then
          [s!"side=impl key=status-roundtrip {t} came back as {back}"] else []
      | _ => []
    let b := statusSerialize ps
    pure ((), { obs := [bytesTok b, "back=" ++ listTok ((statusDeserialize b).map statusTok)],
                branch := if ps.any (· = .dirty) then "pser.dirty" else "pser", propfails := pf })
  | ["pde", t] => do
    let bs ← bytes? t
    -- monitor: reading never yields anything but empty/complete, keeps the length, and keeps every 0/1 byte
    let pf := match impl with
      | [l] =>
        let xs := list? l
        if xs.length ≠ bs.length ∨ xs.any (fun x => x ≠ "0" ∧ x ≠ "1") ∨
           (xs.zip bs).any (fun (x, b) => (b = 0 ∧ x ≠ "0") ∨ (b = 1 ∧ x ≠ "1")) then
          [s!"side=impl key=status-deserialize {t} read as {l}"] else []
      | _ => []
    pure ((), { obs := [listTok ((statusDeserialize bs).map statusTok)],
                branch := if bs.any (fun b => b > 1) then "pde.unknown" else "pde", propfails := pf })
  | _ => none

def machinePs : Machine := { σ := Unit, name := "ps", init := fun _ => some (), step := stepPs }

/-! ### handshake -/

def dotNats? (t : String) : Option (List Nat) :=
  if t = "" ∨ t = "-" then some [] else (t.splitOn ".").mapM String.toNat?

def dotNatsTok (l : List Nat) : String := if l.isEmpty then "-" else ".".intercalate (l.map toString)

/-- bitset of `len` bits with the listed indices set (indices ≥ len are ignored by the harness too) -/
def mkBitSet (len : Nat) (idx : List Nat) : BitSet :=
  let nw := wordsNeeded len
  { length := len, words := (List.range nw).map fun w =>
      (idx.filter (fun i => i / 64 = w ∧ i < len)).eraseDups.foldl (fun acc i => acc + 2 ^ (i % 64)) 0 }

def bitSpec? (t : String) : Option BitSet :=
  match t.splitOn ":" with
  | [l, idx] => do let len ← l.toNat?; let is ← dotNats? idx; pure (mkBitSet len is)
  | _ => none

def remoteSpec? (t : String) : Option (List (Bytes × BitSet)) :=
  if t = "-" then some [] else
  (t.splitOn ";").mapM fun e =>
    match e.splitOn ":" with
    | [p, l, idx] => do
      let pid ← hexDecode p.toList
      let len ← l.toNat?
      let is ← dotNats? idx
      pure (pid, mkBitSet len is)
    | _ => none

def remoteBytesTok (r : List (List Char × Bytes)) : String :=
  if r.isEmpty then "-" else ";".intercalate (r.map fun (p, b) => S p ++ ":" ++ hexOf b)

def remoteBytes? (t : String) : Option (List (List Char × Bytes)) :=
  if t = "-" then some [] else
  (t.splitOn ";").mapM fun e =>
    match e.splitOn ":" with
    | [p, b] => do
      let ps ← str? p
      let bs ← bytes? ("x" ++ b)
      pure (ps.toList, bs)
    | _ => none

def bitSetTok (b : BitSet) : String := s!"{b.length}:{dotNatsTok b.words}"

def hsErrTok : HsErr → String
  | .peerID => "peerid" | .infoHash => "infohash" | .name => "name" | .bitfield => "bitfield"
  | .remotePeer => "remotepeer" | .remoteBitfield => "remotebitfield"

def stepHs (_ : Unit) (kind : String) (args impl : List String) : Option (Unit × StepOut) :=
  if kind ≠ "one" then none else
  match args with
  | "hs" :: rest => do
    let pid ← (kv? rest "pid").bind bytes?
    let ih ← (kv? rest "ih").bind bytes?
    let d ← (kv? rest "d").bind str?
    let bf ← (kv? rest "bf").bind bitSpec?
    let remote ← (kv? rest "remote").bind remoteSpec?
    let ns ← (kv? rest "ns").bind str?
    let h : Handshake := { peerID := pid, digest := { hex := d.toList }, infoHash := ih, bitfield := bf, remote := remote, ns := ns.toList }
    let m := toMsg h
    let back := match fromMsg m with
      | .ok h' => if h' = h then "ok" else "differs"
      | .error e => hsErrTok e
    -- monitor: the implementation's own message must parse (by the model's reader) to the handshake it was built from
    let pf : List String := match (kv? impl "pid").bind str?, (kv? impl "name").bind str?, (kv? impl "ih").bind str?,
        (kv? impl "bf").bind bytes?, (kv? impl "remote").bind remoteBytes? with
      | some p, some n, some i, some b, some r =>
        let m' : BitfieldMsg := { peerID := p.toList, name := n.toList, infoHash := i.toList, bitfieldBytes := b, remoteBytes := r, ns := ns.toList }
        (if fromMsg m' ≠ .ok h then [s!"side=impl key=handshake-roundtrip the bitfield message does not parse back to the handshake it was built from"] else []) ++
        (if kv? impl "wire" ≠ some "ok" then [s!"side=impl key=handshake-roundtrip the bitfield message did not survive sendMessage/readMessage: {kv? impl "wire"}"] else []) ++
        (if kv? impl "back" ≠ some "ok" then [s!"side=impl key=handshake-roundtrip handshakeFromP2PMessage(toP2PMessage(h)) = {kv? impl "back"}"] else [])
      | _, _, _, _, _ => []
    let wfOk := pid.length = 20 ∧ ih.length = 20 ∧ d.length = 64 ∧ d.toList.all isHex
    let obs := ["ok", "pid=" ++ strTok (S m.peerID), "name=" ++ strTok (S m.name), "ih=" ++ strTok (S m.infoHash),
        "bf=" ++ bytesTok m.bitfieldBytes, "remote=" ++ remoteBytesTok m.remoteBytes, "wire=ok", "back=" ++ back]
    pure ((), { obs := obs, branch := if remote.isEmpty then "hs" else "hs.remote", propfails := if wfOk then pf else [] })
  | "hsde" :: rest => do
    let p ← (kv? rest "pid").bind str?
    let i ← (kv? rest "ih").bind str?
    let n ← (kv? rest "name").bind str?
    let b ← (kv? rest "bf").bind bytes?
    let r ← (kv? rest "remote").bind remoteBytes?
    let ns ← (kv? rest "ns").bind str?
    let m : BitfieldMsg := { peerID := p.toList, name := n.toList, infoHash := i.toList, bitfieldBytes := b, remoteBytes := r, ns := ns.toList }
    match fromMsg m with
    | .ok h =>
      let rem := if h.remote.isEmpty then "-" else ";".intercalate (h.remote.map fun (pid, bs) => S (hexEncode pid) ++ ":" ++ bitSetTok bs)
      pure ((), { obs := ["ok", "bf=" ++ bitSetTok h.bitfield, "remote=" ++ rem], branch := "hsde.ok" })
    | .error e =>
      -- with several bad remote entries Go's map order decides which error is reported first
      let obs := if (e = .remotePeer ∨ e = .remoteBitfield) ∧ (impl = ["err", "remotepeer"] ∨ impl = ["err", "remotebitfield"]) ∧ r.length > 1
        then impl else ["err", hsErrTok e]
      pure ((), { obs := obs, branch := "hsde.err." ++ hsErrTok e })
  | _ => none

def machineHs : Machine := { σ := Unit, name := "hs", init := fun _ => some (), step := stepHs }

end C39

def main (args : List String) : IO UInt32 :=
  runMachines [C39.machineIds, C39.machineMd, C39.machinePs, C39.machineHs] args
