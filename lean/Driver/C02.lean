import Driver.Frame
import KrakenModel.Model.MetaInfo
import KrakenModel.Model.MetaInfoGen
import KrakenModel.Model.RefreshPL
/- Driver for C02: replays metainfo generation / (de)serialisation / piece-length-table records on
   the model and evaluates the property's predicates on what the implementation returned.

   machine `mi` (package core):
     one gen pl=<int> d=<str> data=<xbytes> rd=bytes|stream|short<k>|fail<k> crcs=<list>
         => err piecelength | err read
          | ok len=<n> pl=<int> sums=nil|empty|<list> name=<str> dg=<str> gpl=<list> ser=<xbytes> benc=<xbytes> rt=ok|errname|errjson
       `crcs` = core.PieceSum of each consecutive piece (the checksum is a parameter of the model;
       its values come from Go).  `gpl` = GetPieceLength(i) for i = -1 … numPieces+1.
     one deser <xbytes> => err json | err name
          | ok pl=<int> sums=… name=<str> len=<int> benc=<xbytes> reser=<xbytes>
   machine `plt` (package lib/metainfogen):
     one get tbl=<k:v,…> size=<int> => errcfg | panic | ok <int>
     one generate tbl=<k:v,…> d=<str> data=<xbytes> crcs=<list>
         => err <class> | ok len=<n> pl=<int> sums=… name=<str> gpl=<list>
-/
open Driver KrakenModel.MetaInfo KrakenModel.Codec

namespace C02

def chars (s : String) : List Char := s.toList
def ofBytes (bs : List Nat) : List Char := bs.map Char.ofNat
def toBytes (cs : List Char) : List Nat := cs.map Char.toNat

def sumsTok : Option (List Nat) → String
  | none => "nil"
  | some [] => "empty"
  | some l => ",".intercalate (l.map toString)

def sumsTok? (t : String) : Option (Option (List Nat)) :=
  if t = "nil" then some none
  else if t = "empty" then some (some [])
  else ((t.splitOn ",").mapM String.toNat?).map some

def intList? (t : String) : Option (List Int) :=
  if t = "-" then some [] else (t.splitOn ",").mapM String.toInt?

def natList? (t : String) : Option (List Nat) :=
  if t = "-" then some [] else (t.splitOn ",").mapM String.toNat?

def intListTok (l : List Int) : String := if l.isEmpty then "-" else ",".intercalate (l.map toString)

/-- the checksum function given by the oracle row: piece bytes ↦ value reported by Go -/
def crcOf (tbl : List (Bytes × Nat)) (b : Bytes) : Nat :=
  match tbl.find? (·.1 == b) with
  | some (_, v) => v
  | none => 0

/-- GetPieceLength over i = -1 … numPieces+1 -/
def gplList (info : Info) : List Int :=
  (List.range (info.sums.length + 3)).map fun (k : Nat) => getPieceLength info ((k : Int) - 1)

/-- the property's own description of generated metainfo, evaluated on the implementation's answer -/
def describeFails (pl : Int) (d : String) (data : Bytes) (tbl : List (Bytes × Nat)) (impl : List String) : List String :=
  let n := pl.toNat
  let cs := chunks n data
  let want := cs.map (crcOf tbl)
  let len := (kv? impl "len").bind (·.toNat?)
  let sums := (kv? impl "sums").bind sumsTok?
  let gpl := (kv? impl "gpl").bind intList?
  let name := (kv? impl "name").bind str?
  let dg := (kv? impl "dg").bind str?
  (if len ≠ some data.length then [s!"side=impl key=length-mismatch metainfo length {len} for a blob of {data.length} bytes"] else []) ++
  (match sums with
    | some s =>
      let l := match s with | none => [] | some l => l
      if l.length ≠ cs.length then [s!"side=impl key=piece-count {l.length} piece sums for {cs.length} pieces (len {data.length}, piece length {pl})"]
      else if l ≠ want then [s!"side=impl key=piece-sums sums {l} are not the checksums {want} of the consecutive pieces"]
      else []
    | none => []) ++
  (match gpl with
    | some g =>
      let wantG : List Int := (0 : Int) :: (cs.map fun c => (c.length : Int)) ++ [0, 0]
      if g ≠ wantG then [s!"side=impl key=piece-length GetPieceLength(-1..n+1) = {g}, pieces have lengths {wantG}"] else []
    | none => []) ++
  (if name ≠ some d ∨ (dg.isSome ∧ dg ≠ some d) then [s!"side=impl key=digest-mismatch name/digest {name}/{dg} for digest {d}"] else [])

/-- round trip on the implementation's own serialisation: the model parser must read back exactly
the fields the implementation reported -/
def roundTripFails (impl : List String) (serKey : String) : List String :=
  match (kv? impl serKey).bind bytes? with
  | none => []
  | some ser =>
    let pl := (kv? impl "pl").bind (·.toInt?)
    let len := (kv? impl "len").bind (·.toInt?)
    let sums := (kv? impl "sums").bind sumsTok?
    let name := (kv? impl "name").bind str?
    match parseInfo (ofBytes ser), pl, len, sums, name with
    | some i, some pl, some len, some sums, some name =>
      if i.pieceLength = pl ∧ i.length = len ∧ i.pieceSums = sums ∧ i.name = name.toList then []
      else [s!"side=impl key=roundtrip serialisation {String.ofList (ofBytes ser)} does not describe pl={pl} len={len} sums={sumsTok sums} name={name}"]
    | none, some _, some _, some _, some _ =>
      [s!"side=impl key=roundtrip serialisation {String.ofList (ofBytes ser)} is not the canonical JSON of a well-formed info"]
    | _, _, _, _, _ => []

def okObs (mi : MetaInfo) (sha1 : List Char → Nat) : List String :=
  let ser := serializeInfo mi.info
  let rt := match deserialize sha1 ser with
    | .ok _ => "ok" | .errName => "errname" | .noncanon => "errjson"
  [ s!"len={mi.info.length}", s!"pl={mi.info.pieceLength}", s!"sums={sumsTok mi.info.pieceSums}",
    s!"name={strTok (String.ofList mi.info.name)}", s!"dg={strTok (String.ofList mi.digest)}",
    s!"gpl={intListTok (gplList mi.info)}", s!"ser={bytesTok (toBytes ser)}",
    s!"benc={bytesTok (toBytes (bencode mi.info))}", s!"rt={rt}" ]

def stepMi (_ : Unit) (kind : String) (args impl : List String) : Option (Unit × StepOut) :=
  if kind ≠ "one" then none else
  match args with
  | "gen" :: rest => do
    let pl ← (kv? rest "pl").bind (·.toInt?)
    let d ← (kv? rest "d").bind str?
    let data ← (kv? rest "data").bind bytes?
    let rd ← kv? rest "rd"
    let crcs ← (kv? rest "crcs").bind natList?
    let cs := if pl > 0 then chunks pl.toNat data else []
    if cs.length ≠ crcs.length then none else
    let tbl := cs.zip crcs
    let crc := crcOf tbl
    let sha1 : List Char → Nat := fun _ => 0
    let failing := rd.startsWith "fail"
    let res := if rd = "bytes" then newMetaInfoFromBytes sha1 crc d.toList data pl
      else newMetaInfo sha1 crc d.toList data pl failing
    let implOk := impl.head? = some "ok"
    -- a truncated record (harness killed mid-line) is unparsable, not a property failure
    if implOk ∧ (kv? impl "rt").isNone then none else
    let pf := if implOk ∧ pl > 0 ∧ !failing then describeFails pl d data tbl impl ++
        (if validSHA256Hex d.toList then
          roundTripFails impl "ser" ++
          (if kv? impl "rt" ≠ some "ok" then [s!"side=impl key=roundtrip DeserializeMetaInfo(Serialize(mi)) = {kv? impl "rt"}"] else [])
         else [])
      else if implOk ∧ failing then ["side=impl key=read-error-swallowed metainfo generated from a failing reader"]
      else []
    match res with
    | .errPieceLength => pure ((), { obs := ["err", "piecelength"], branch := "gen.errPieceLength", propfails := pf })
    | .errRead => pure ((), { obs := ["err", "read"], branch := "gen.errRead", propfails := pf })
    | .outOfFuel => pure ((), { obs := ["model-out-of-fuel"], branch := "gen.outOfFuel", propfails := pf })
    | .ok mi =>
      let br := if rd = "bytes" then "gen.bytes" else "gen.stream"
      let shape := if mi.info.pieceSums.isNone then ".empty"
        else if data.length % pl.toNat = 0 then ".exact" else ".short-last"
      pure ((), { obs := "ok" :: okObs mi sha1, branch := br ++ shape, propfails := pf })
  | ["deser", tok] => do
    let bs ← bytes? tok
    let sha1 : List Char → Nat := fun _ => 0
    match deserialize sha1 (ofBytes bs) with
    | .noncanon =>
      -- no claim about the decoder outside the canonical form; the round trip on its outputs still applies
      let pf := if impl.head? = some "ok" then
          roundTripFails impl "reser" ++
          (match (kv? impl "name").bind str? with
           | some n => if validSHA256Hex n.toList then [] else [s!"side=impl key=bad-name-accepted name {n} accepted"]
           | none => [])
        else []
      pure ((), { obs := impl, branch := if impl.head? = some "ok" then "deser.noncanon.accepted" else "deser.noncanon.rejected", propfails := pf })
    | .errName => pure ((), { obs := ["err", "name"], branch := "deser.errName" })
    | .ok mi =>
      let obs := ["ok", s!"pl={mi.info.pieceLength}", s!"sums={sumsTok mi.info.pieceSums}",
        s!"name={strTok (String.ofList mi.info.name)}", s!"len={mi.info.length}",
        s!"benc={bytesTok (toBytes (bencode mi.info))}", s!"reser={tok}"]
      let pf := if impl.head? = some "ok" then roundTripFails impl "reser" else []
      pure ((), { obs, branch := "deser.ok", propfails := pf })
  | _ => none

def machineMi : Machine := { σ := Unit, name := "mi", init := fun _ => some (), step := stepMi }

/-! ### piece-length table -/

def pair? (t : String) : Option (Nat × Nat) :=
  match t.splitOn ":" with
  | [k, v] => do let k ← k.toNat?; let v ← v.toNat?; pure (k, v)
  | _ => none

def table? (t : String) : Option (List (Nat × Nat)) :=
  if t = "-" then some [] else (t.splitOn ",").mapM pair?

/-- the property's statement, computed directly from the configuration map (no sorting): the value
of the largest threshold ≤ size, else the value of the smallest threshold -/
def specGet (m : List (Int × Int)) (size : Int) : Option Int :=
  let le := m.filter (·.1 ≤ size)
  let best (l : List (Int × Int)) (better : Int → Int → Bool) : Option (Int × Int) :=
    l.foldl (fun acc kv => match acc with
      | none => some kv
      | some b => if better kv.1 b.1 then some kv else some b) none
  match best le (fun a b => a > b) with
  | some kv => some kv.2
  | none => (best m (fun a b => a < b)).map (·.2)

def stepPlt (_ : Unit) (kind : String) (args impl : List String) : Option (Unit × StepOut) :=
  if kind ≠ "one" then none else
  match args with
  | "get" :: rest => do
    let m ← (kv? rest "tbl").bind table?
    let size ← (kv? rest "size").bind (·.toInt?)
    if ¬ (m.map (·.1)).Nodup then none else
    match mkTable m with
    | none => pure ((), { obs := ["errcfg"], branch := "get.errcfg" })
    | some t =>
      let mi := m.map fun kv => (toInt64 kv.1, toInt64 kv.2)
      let pf := match impl, specGet mi size with
        | ["ok", v], some w => if v.toInt? ≠ some w then [s!"side=impl key=table-lookup size {size} in {mi} gave {v}, the largest threshold not above it has {w}"] else []
        | _, _ => []
      match get t size with
      | .panic => pure ((), { obs := ["panic"], branch := "get.panic", propfails := pf })
      | .ok v =>
        let br := if (t.filter (fun r => r.fileSize ≤ size)).isEmpty then "get.fallback-first"
          else if t.any (fun r => r.fileSize = size) then "get.at-threshold" else "get.between"
        pure ((), { obs := ["ok", toString v], branch := br, propfails := pf })
  | "generate" :: rest => do
    let m ← (kv? rest "tbl").bind table?
    let d ← (kv? rest "d").bind str?
    let data ← (kv? rest "data").bind bytes?
    let crcs ← (kv? rest "crcs").bind natList?
    if ¬ (m.map (·.1)).Nodup then none else
    let t ← mkTable m
    match get t data.length with
    | .panic => pure ((), { obs := ["panic"], branch := "generate.panic" })
    | .ok pl =>
      let cs := if pl > 0 then chunks pl.toNat data else []
      if cs.length ≠ crcs.length then none else
      let tbl := cs.zip crcs
      let sha1 : List Char → Nat := fun _ => 0
      -- the stored metainfo must use the piece length the CURRENT table gives for the blob's size, whatever
      -- sidecar existed before (`pre=` says what the harness put there first)
      let want := specGet (m.map fun kv => (toInt64 kv.1, toInt64 kv.2)) data.length
      let pfPl := match impl.head?, (kv? impl "pl").bind String.toInt?, want with
        | some "ok", some ipl, some w =>
          if ipl ≠ w then [s!"side=impl key=stale-piece-length after Generate the stored metainfo has piece length {ipl}, the table gives {w} for a blob of {data.length} bytes (pre={(kv? rest "pre").getD "none"})"] else []
        | _, _, _ => []
      let pf := pfPl ++ (if impl.head? = some "ok" ∧ pl > 0 then describeFails pl d data tbl impl else [])
      let preKind := (((kv? rest "pre").getD "none").splitOn ":").headD "none"
      let old : Option (List Char) := if preKind = "none" then none else some ['?']
      match KrakenModel.MetaInfoGen.generate sha1 (crcOf tbl) t d.toList data old with
      | (.ok, some ser) =>
        -- Generate stores the serialisation and the observation is the parsed-back metadata
        match deserialize sha1 ser with
        | .ok mi' =>
          let i2 := mi'.info
          let obs := ["ok", "len=" ++ toString i2.length, "pl=" ++ toString i2.pieceLength, "sums=" ++ sumsTok i2.pieceSums,
              "name=" ++ strTok (String.ofList i2.name), "gpl=" ++ intListTok (gplList i2)]
          pure ((), { obs := obs, branch := if preKind = "none" then "generate.ok" else "generate.over-" ++ preKind, propfails := pf })
        | _ => pure ((), { obs := ["err", "readback"], branch := "generate.readback", propfails := pf })
      | (.errCreate, _) => pure ((), { obs := ["err", "create"], branch := "generate.errPieceLength", propfails := pf })
      | _ => pure ((), { obs := ["err", "other"], branch := "generate.err", propfails := pf })
  | _ => none

def machinePlt : Machine := { σ := Unit, name := "plt", init := fun _ => some (), step := stepPlt }

/-! ### refresh from a backend (lib/blobrefresh): which table entry the stored metainfo uses -/

/-- `one refresh tbl=… stat=<n> data=<x> mem=0|1 max=<n> => ok pl=<p> len=<l> inmem=0|1`
monitor `piece-length-not-for-blob-size`: the stored piece length is not the one configured for the largest
threshold not above the *blob's* size (computed from the configuration map directly) -/
def stepRefresh (_ : Unit) (kind : String) (args impl : List String) : Option (Unit × StepOut) :=
  if kind ≠ "one" then none else
  match args with
  | "refresh" :: rest => do
    let m ← (kv? rest "tbl").bind table?
    let stat ← (kv? rest "stat").bind (·.toNat?)
    let data ← (kv? rest "data").bind bytes?
    let mem ← (kv? rest "mem").bind bool?
    let max ← (kv? rest "max").bind (·.toNat?)
    if ¬ (m.map (·.1)).Nodup then none else
    match mkTable m with
    | none => pure ((), { obs := ["errcfg"], branch := "refresh.errcfg" })
    | some t =>
      let mi := m.map fun kv => (toInt64 kv.1, toInt64 kv.2)
      let pf := match kv? impl "pl", specGet mi data.length with
        | some v, some w =>
          if v.toInt? ≠ some w then
            [s!"side=impl key=piece-length-not-for-blob-size blob of {data.length} bytes (backend Stat said {stat}) is stored with piece length {v}; the table {mi} gives {w} for its size"]
          else []
        | _, _ => []
      -- through the memory cache only when the reservation fits and the stream has the reserved length
      let inmem := mem ∧ stat ≤ max ∧ stat = data.length
      match KrakenModel.RefreshPL.refreshPL t stat data.length with
      | .panic => pure ((), { obs := ["panic"], branch := "refresh.panic", propfails := pf })
      | .ok pl =>
        let br := if stat = data.length then (if inmem then "refresh.mem" else "refresh.disk") else "refresh.stat-differs"
        pure ((), { obs := ["ok", s!"pl={pl}", s!"len={data.length}", s!"inmem={boolTok inmem}"], branch := br, propfails := pf })
  | _ => none

def machineRefresh : Machine := { σ := Unit, name := "refresh", init := fun _ => some (), step := stepRefresh }

end C02

def main (args : List String) : IO UInt32 := runMachines [C02.machineMi, C02.machinePlt, C02.machineRefresh] args
