import Driver.Frame
import KrakenModel.Model.TagRepl
/- Driver for C33: replays Exec runs of the tag-replication executor against scripted remote
   endpoints on `Model.TagRepl.exec` and checks the ordering predicate on the implementation's own
   request log. -/
open Driver KrakenModel.TagRepl

namespace C33

def resp? : String → Option Resp
  | "ok" => some .ok | "acc" => some .accepted | "cli" => some .client
  | "srv" => some .server | "net" => some .netErr | _ => none

def respTok : Resp → String
  | .ok => "ok" | .accepted => "acc" | .client => "cli" | .server => "srv" | .netErr => "net"

def dig? (t : String) : Option Nat :=
  match t.toList with
  | 'd' :: ds => (String.ofList ds).toNat?
  | _ => none

def ep? (t : String) : Option Endpoint :=
  match t.splitOn "." with
  | ["has"] => some .has
  | ["origin"] => some .origin
  | ["put"] => some .put
  | ["rep", d, o] => do pure (.rep (← dig? d) (← o.toNat?))
  | _ => none

def epTok : Endpoint → String
  | .has => "has" | .origin => "origin" | .put => "put"
  | .rep d o => s!"rep.d{d}.{o}"

def evTok (e : Ev) : String := epTok e.ep ++ ":" ++ respTok e.resp

def ev? (t : String) : Option Ev :=
  match t.splitOn ":" with
  | [e, r] => do pure ⟨← ep? e, ← resp? r⟩
  | _ => none

structure St where
  cfg : Cfg := {}
  sc : Scripts := []
  stored : Option (Nat × List Nat × Bool) := none   -- the stored task: image digest, dependencies, failed?
  everAdded : Bool := false
  -- impl-side ghost: the (image digest, dependencies) pairs the harness handed to Add in this case
  added : List (Nat × List Nat) := []

def parseCfg (toks : List String) : Option St := do
  let reps := ((kv? toks "reps").bind nat?).getD 1
  let bo := ((kv? toks "bo").bind nat?).getD 0
  let sc ← toks.filterMapM fun t =>
    match t.splitOn "=" with
    | [k, v] =>
      if k = "reps" ∨ k = "bo" ∨ k = "real" then some none else do
        let e ← ep? k
        let rs ← (if v = "-" then some [] else (v.splitOn "/").mapM resp?)
        pure (some (e, rs))
    | _ => none
  pure { cfg := { replicas := List.range reps, bo := bo }, sc := sc }

/-- the property's predicate on a request log: a PUT only after a 200 replicate answer for every
dependency of the image that is PUT (`depSets`: the dependency lists that image was added with; `none`:
the image is not one that was added), and a reported success only if the remote has the tag or accepted
the PUT -/
def check (depSets : Option (List (List Nat))) (putd : String) (ok : Bool) (tr : List Ev) : List String :=
  let rec go (es : List Ev) (conf : List Nat) (acc : List String) : List String :=
    match es with
    | [] => acc
    | e :: es =>
      match e.ep, e.resp with
      | .rep d _, .ok => go es (d :: conf) acc
      | .put, _ =>
        match depSets with
        | none => go es conf (acc ++ [s!"side=impl key=put-of-unknown-digest the tag was PUT to the remote index with image {putd}, which no Add handed to the store"])
        | some sets =>
          if sets.any (fun deps => deps.all (· ∈ conf)) then go es conf acc else
          let missing := (sets.headD []).filter (· ∉ conf)
          go es conf (acc ++ [s!"side=impl key=put-before-blobs the tag was PUT to the remote index with image {putd} before its dependencies {missing.map (s!"d{·}")} were confirmed (200) by the origin cluster"])
      | _, _ => go es conf acc
  let pf := go tr [] []
  let hasOk := tr.head? == some ⟨.has, .ok⟩
  let putOk := tr.getLast? == some ⟨.put, .ok⟩
  pf ++ (if ok ∧ ¬ hasOk ∧ ¬ putOk then
    ["side=impl key=success-without-tag Exec reported success although the remote index neither has the tag nor accepted the PUT"] else [])

def img? (t : String) : Option Nat :=
  match t.toList with
  | 'g' :: ds => (String.ofList ds).toNat?
  | _ => none

def depsTok (deps : List Nat) : String := if deps = [] then "none" else ".".intercalate (deps.map (s!"d{·}"))

def rowTok : Option (Nat × List Nat × Bool) → String
  | none => "row=-"
  | some (g, deps, failed) => s!"row=g{g}:{depsTok deps}:{if failed then "f" else "p"}"

/-- the stored task the implementation shows must be a task that was added: its image digest together
with the dependency list it was added with -/
def rowMonitor (added : List (Nat × List Nat)) (impl : List String) : List String :=
  (list? ((kv? impl "row").getD "-")).filterMap fun r =>
    match r.splitOn ":" with
    | [g, dl, _] =>
      let deps := if dl = "none" then some [] else (dl.splitOn ".").mapM dig?
      match img? g, deps with
      | some gi, some ds =>
        if (gi, ds) ∈ added then none else
        some s!"side=impl key=payload-changed the stored task is image {g} with dependencies {dl}; the tasks added were {added.map fun (a, b) => s!"g{a}:{depsTok b}"}"
      | _, _ => some s!"side=impl key=payload-changed unreadable stored task {r}"
    | _ => some s!"side=impl key=payload-changed unreadable stored task {r}"

def step (s : St) (kind : String) (args impl : List String) : Option (St × StepOut) :=
  if kind ≠ "op" then none else
  let doAdd (s : St) (g : Nat) (deps : List Nat) (failed : Bool) : St × Bool :=
    let s := { s with everAdded := true, added := if (g, deps) ∈ s.added then s.added else s.added ++ [(g, deps)] }
    match s.stored with
    | some _ => (s, false)                              -- ErrTaskExists: no further effect
    | none => ({ s with stored := some (g, deps, failed) }, true)
  let doExec (s : St) : Option (St × StepOut) :=
    match s.stored with
    | none => pure (s, { obs := ["gone", "trace=-", "putd=-", "row=-"], branch := "exec.gone" })
    | some (g, deps, _) =>
      let r := exec s.cfg ⟨deps⟩ s.sc
      let s' := { s with sc := r.scripts, stored := if r.ok then none else some (g, deps, true) }
      let put := r.trace.any (·.ep == .put)
      let obs := [if r.ok then "ok" else "err", "trace=" ++ listTok (r.trace.map evTok),
        "putd=" ++ (if put then s!"g{g}" else "-"), rowTok s'.stored]
      let implTr := ((kv? impl "trace").map list?).getD []
      let putd := (kv? impl "putd").getD "-"
      let depSets : Option (List (List Nat)) := match img? putd with
        | some gi => let l := (s.added.filter (·.1 = gi)).map (·.2); if l = [] then none else some l
        | none => none
      let pf := match implTr.mapM ev? with
        | some tr => check depSets putd (impl.head? == some "ok") tr
        | none => [s!"side=impl key=unexpected-request the executor made a request outside its protocol: {implTr}"]
      let retag := s.added.length > 1
      let br := (if r.trace.length = 1 then "exec.has"
        else if put then (if r.ok then "exec.put.ok" else "exec.put.fail")
        else if r.trace.length = 2 ∧ deps ≠ [] then "exec.origin.fail"
        else if r.trace.any (fun e => e.resp == .accepted) then "exec.rep.fail.202" else "exec.rep.fail") ++ (if retag then ".retagged" else "")
      pure (s', { obs, branch := br, propfails := pf ++ rowMonitor s.added impl })
  match args with
  | "add" :: gt :: dt :: rest => do
    let g ← img? gt
    let deps ← ((kv? [dt] "deps").map list?)
    let deps ← deps.mapM dig?
    let failed := rest == ["st=f"]
    if rest ≠ [] ∧ ¬ failed then none else
    let (s', fresh) := doAdd s g deps failed
    pure (s', { obs := [if fresh then "ok" else "exists", rowTok s'.stored],
                branch := if fresh then (if failed then "add.failed" else "add.pending")
                          else if s.stored.map (·.1) == some g then "add.exists.same-image" else "add.exists.other-image",
                propfails := rowMonitor s'.added impl })
  | ["exec"] => doExec s
  | ["exec", dt] => do
    let deps ← ((kv? [dt] "deps").map list?)
    let deps ← deps.mapM dig?
    -- the plain form adds the task (image g0) when nothing was added in the case yet
    let s := if s.everAdded then s else (doAdd s 0 deps false).1
    doExec s
  | _ => none

def machine : Machine := { σ := St, name := "tagrepl", init := parseCfg, step := step }

/-! origin side: replicateToRemote on the real origin server -/

structure OSt where
  o : Origin := {}
  up : Bool := true
  prevCache : List String := []     -- impl: blobs cached before this op
  tags : List (String × Nat) := []  -- tags the remote build-index was asked to store, with their blob
  parked : List (String × Nat) := [] -- executions whose upload to the remote origin is in flight (tag, blob)

def blob? (t : String) : Option Nat :=
  match t.toList with
  | 'b' :: ds => (String.ofList ds).toNat?
  | _ => none

def ssort (xs : List String) : List String := (xs.toArray.qsort (· < ·)).toList

def odump (o : Origin) : List String :=
  ["c=" ++ listTok (ssort (o.cache.map fun d => s!"b{d}")), "r=" ++ listTok (ssort (o.remote.map fun d => s!"b{d}"))]

/-- the order property at the remote build-index, on the implementation's record: whenever it is asked to
store a tag, the remote origin cluster holds the tag's blob at that moment -/
def tagMonitor (impl : List String) : List String :=
  (list? ((kv? impl "tags").getD "-")).filterMap fun t =>
    match t.splitOn ":" with
    | [tag, b, has] => if has = "1" ∨ has = "true" then none else
        some s!"side=impl key=tag-stored-before-dependency-present the remote build-index was asked to store {tag} while the remote origin cluster did not hold its blob {b}"
    | _ => none

def ostep (s : OSt) (kind : String) (args impl : List String) : Option (OSt × StepOut) :=
  if kind ≠ "op" then none else
  let cachedNow := list? ((kv? impl "c").getD "-")
  let xdump (tags parked : List (String × Nat)) : List String :=
    ["tags=" ++ listTok (ssort (tags.map fun (t, b) => s!"{t}:b{b}:1")), "p=" ++ listTok (parked.map (·.1))]
  let finX (o : Origin) (tags parked : List (String × Nat)) (obs : List String) (br : String) : Option (OSt × StepOut) :=
    some ({ s with o, prevCache := cachedNow, tags, parked },
          { obs := obs ++ odump o ++ xdump tags parked, branch := br, propfails := tagMonitor impl })
  let fin (o : Origin) (up : Bool) (obs : List String) (br : String) (pf : List String := []) : Option (OSt × StepOut) :=
    some ({ s with o, up, prevCache := cachedNow }, { obs := obs ++ odump o ++ xdump s.tags s.parked, branch := br, propfails := pf ++ tagMonitor impl })
  let addRemote (o : Origin) (b : Nat) : Origin := { o with remote := if b ∈ o.remote then o.remote else o.remote ++ [b] }
  match args with
  | [x, tt, bt] => do
    if x ≠ "exec" ∧ x ≠ "execb" then none
    let b ← blob? bt
    if b ∉ s.o.cache then finX s.o s.tags s.parked ["uncached"] "x.uncached" else
    if (x = "exec" ∧ s.parked ≠ []) ∨ s.parked.any (·.1 = tt) then finX s.o s.tags s.parked ["busy"] "x.busy" else
    if x = "exec" then
      -- replicate the blob (the upload runs to its end), then the tag is PUT
      if s.up then finX (addRemote s.o b) (s.tags ++ [(tt, b)]) s.parked ["ok"] "x.exec.ok"
      else finX s.o s.tags s.parked ["err"] "x.exec.remote-down"
    else
      finX s.o s.tags (s.parked ++ [(tt, b)]) ["paused"]
        (if s.parked.any (·.2 = b) then "overlapping-replication-of-shared-blob" else "x.execb.paused")
  | ["grel", oc] =>
    if oc ≠ "ok" ∧ oc ≠ "fail" then none else
    let ok := oc = "ok"
    let o' := if ok then s.parked.foldl (fun o p => addRemote o p.2) s.o else s.o
    let tags' := if ok then s.tags ++ s.parked else s.tags
    finX o' tags' [] ["res=" ++ listTok (s.parked.map fun p => s!"{p.1}:{if ok then "ok" else "err"}")]
      (if s.parked = [] then "x.grel.none" else if ok then "x.grel.ok" else "x.grel.fail")
  | ["fetch", bt] => do
    let b ← blob? bt
    fin { s.o with cache := if b ∈ s.o.cache then s.o.cache else s.o.cache ++ [b] } s.up ["ok"] "o.fetch"
  | ["seed", bt] => do
    let b ← blob? bt
    fin { s.o with backend := if b ∈ s.o.backend then s.o.backend else s.o.backend ++ [b] } s.up ["ok"] "o.seed"
  | ["rdown"] => fin s.o false ["ok"] "o.rdown"
  | ["rup"] => fin s.o true ["ok"] "o.rup"
  | ["rep", bt] => do
    let b ← blob? bt
    if s.parked ≠ [] then fin s.o s.up ["busy"] "o.rep.busy" else
    let (o', r) := replicateToRemote s.o b s.up
    let res := impl.headD ""
    let rem := list? ((kv? impl "r").getD "-")
    let pf := (if res = "ok" ∧ bt ∉ rem then
        [s!"side=impl key=replicate-200-without-remote-upload the origin answered 200 to a replicate request for {bt} and the remote cluster does not hold it: {rem}"] else []) ++
      (if res = "ok" ∧ bt ∉ s.prevCache then
        [s!"side=impl key=replicate-200-for-uncached-blob the origin answered 200 to a replicate request for {bt}, which it did not have"] else [])
    fin o' s.up [match r with | .ok => "ok" | .accepted => "202" | .client => "404" | _ => "err"]
      (match r with | .ok => "o.rep.ok" | .accepted => "o.rep.202" | .client => "o.rep.404" | _ => "o.rep.remote-down") pf
  | _ => none

def omachine : Machine := { σ := OSt, name := "originrep", init := fun _ => some {}, step := ostep }

/-! build-index side: a tag matching several remotes is queued for every one of them -/

structure TSt where
  stored : List Nat := []                 -- tags the local index holds
  queue : List (Nat × String) := []       -- replication tasks queued (tag, destination)
  prevQ : List String := []               -- impl: the queue as dumped after the previous op

def matching (t : Nat) : List String :=
  ["r0"] ++ (if t = 1 ∨ t = 2 then ["r1"] else []) ++ (if t = 2 then ["r2"] else [])

def tstep (s : TSt) (kind : String) (args impl : List String) : Option (TSt × StepOut) :=
  if kind ≠ "op" then none else
  match args with
  | [op, tt] => do
    let t ← (match tt.toList with | 't' :: ds => (String.ofList ds).toNat? | _ => none)
    if op ≠ "put" ∧ op ≠ "repl" then none
    let known := op = "put" ∨ t ∈ s.stored
    let s' : TSt := if known then
        { s with stored := if t ∈ s.stored then s.stored else t :: s.stored,
                 queue := s.queue ++ (matching t).map fun r => (t, r) } else s
    let qTok (q : List (Nat × String)) : String := "q=" ++ listTok (ssort (q.map fun (t, r) => s!"t{t}:{r}:1"))
    -- impl side: after an acknowledged request every matching remote has one more queued task for the
    -- tag than before, and nothing is queued for a remote that does not match
    let implQ := list? ((kv? impl "q").getD "-")
    let count (q : List String) (r : String) : Nat := (q.filter fun e => (e.splitOn ":").take 2 == [tt, r]).length
    let pf := if impl.headD "" ≠ "ok" then [] else
      ((matching t).filterMap fun r =>
        if count implQ r < count s.prevQ r + 1 then
          some s!"side=impl key=remote-never-replicated {tt} matches remote {r} and no replication task for it is queued after {op} {tt} was acknowledged: queue {implQ}"
        else none) ++
      (implQ.filterMap fun e =>
        match e.splitOn ":" with
        | tg :: r :: _ =>
          (match tg.toList with
           | 't' :: ds => (match (String.ofList ds).toNat? with
              | some tn => if r ∈ matching tn then none else some s!"side=impl key=replicated-to-unmatched-remote a replication task {e} is queued for a remote the tag does not match"
              | none => none)
           | _ => none)
        | _ => none)
    pure ({ s' with prevQ := implQ },
          { obs := [if known then "ok" else "notfound", qTok s'.queue],
            branch := if ¬ known then "t.notfound" else if (matching t).length > 1 then "replicate-to-multiple-remotes" else "t.single-remote",
            propfails := pf })
  | _ => none

def tmachine : Machine := { σ := TSt, name := "tagremotes", init := fun _ => some {}, step := tstep }

end C33

def main (args : List String) : IO UInt32 := runMachines [C33.machine, C33.omachine, C33.tmachine] args
