import Driver.Frame
import KrakenModel.Model.TagRepl
/- Driver for C33: replays Exec runs of the tag-replication executor against scripted remote
   endpoints on `Model.TagRepl.exec` and checks the ordering predicate on the implementation's own
   request log. -/
open Driver KrakenModel.TagRepl

namespace C33

def resp? : String → Option Resp
  | "ok" => some .ok | "acc" => some .accepted | "cli" => some .client
  | "srv" => some .server | "net" => some .netErr | _ => none

def respTok : Resp → String
  | .ok => "ok" | .accepted => "acc" | .client => "cli" | .server => "srv" | .netErr => "net"

def dig? (t : String) : Option Nat :=
  match t.toList with
  | 'd' :: ds => (String.ofList ds).toNat?
  | _ => none

def ep? (t : String) : Option Endpoint :=
  match t.splitOn "." with
  | ["has"] => some .has
  | ["origin"] => some .origin
  | ["put"] => some .put
  | ["rep", d, o] => do pure (.rep (← dig? d) (← o.toNat?))
  | _ => none

def epTok : Endpoint → String
  | .has => "has" | .origin => "origin" | .put => "put"
  | .rep d o => s!"rep.d{d}.{o}"

def evTok (e : Ev) : String := epTok e.ep ++ ":" ++ respTok e.resp

def ev? (t : String) : Option Ev :=
  match t.splitOn ":" with
  | [e, r] => do pure ⟨← ep? e, ← resp? r⟩
  | _ => none

structure St where
  cfg : Cfg := {}
  sc : Scripts := []
  deps : Option (List Nat) := none   -- the dependencies the task was stored with (first execution of the case)
  done : Bool := false               -- the task was executed successfully and removed from the table

def parseCfg (toks : List String) : Option St := do
  let reps := ((kv? toks "reps").bind nat?).getD 1
  let bo := ((kv? toks "bo").bind nat?).getD 0
  let sc ← toks.filterMapM fun t =>
    match t.splitOn "=" with
    | [k, v] =>
      if k = "reps" ∨ k = "bo" ∨ k = "real" then some none else do
        let e ← ep? k
        let rs ← (if v = "-" then some [] else (v.splitOn "/").mapM resp?)
        pure (some (e, rs))
    | _ => none
  pure { cfg := { replicas := List.range reps, bo := bo }, sc := sc }

/-- the property's predicate on a request log: a PUT only after a 200 replicate answer for every
dependency, and a reported success only if the remote has the tag or accepted the PUT -/
def check (deps : List Nat) (ok : Bool) (tr : List Ev) : List String :=
  let rec go (es : List Ev) (conf : List Nat) (acc : List String) : List String :=
    match es with
    | [] => acc
    | e :: es =>
      match e.ep, e.resp with
      | .rep d _, .ok => go es (d :: conf) acc
      | .put, _ =>
        let missing := deps.filter (· ∉ conf)
        go es conf (if missing = [] then acc else
          acc ++ [s!"side=impl key=put-before-blobs the tag was PUT to the remote index before dependencies {missing.map (s!"d{·}")} were confirmed (200) by the origin cluster"])
      | _, _ => go es conf acc
  let pf := go tr [] []
  let hasOk := tr.head? == some ⟨.has, .ok⟩
  let putOk := tr.getLast? == some ⟨.put, .ok⟩
  pf ++ (if ok ∧ ¬ hasOk ∧ ¬ putOk then
    ["side=impl key=success-without-tag Exec reported success although the remote index neither has the tag nor accepted the PUT"] else [])

def step (s : St) (kind : String) (args impl : List String) : Option (St × StepOut) :=
  if kind ≠ "op" then none else
  match args with
  | ["exec", dt] => do
    let deps ← ((kv? [dt] "deps").map list?)
    let deps ← deps.mapM dig?
    -- the task is stored once; retries run the stored task
    let deps := s.deps.getD deps
    if s.done then pure (s, { obs := ["gone", "trace=-"], branch := "exec.gone" }) else
    let r := exec s.cfg ⟨deps⟩ s.sc
    let obs := [if r.ok then "ok" else "err", "trace=" ++ listTok (r.trace.map evTok)]
    let implTr := ((kv? impl "trace").map list?).getD []
    let pf := match implTr.mapM ev? with
      | some tr => check deps (impl.head? == some "ok") tr
      | none => [s!"side=impl key=unexpected-request the executor made a request outside its protocol: {implTr}"]
    let br := if r.trace.length = 1 then "exec.has"
      else if r.trace.any (·.ep == .put) then (if r.ok then "exec.put.ok" else "exec.put.fail")
      else if r.trace.length = 2 ∧ deps ≠ [] then "exec.origin.fail"
      else if r.trace.any (fun e => e.resp == .accepted) then "exec.rep.fail.202" else "exec.rep.fail"
    pure ({ s with sc := r.scripts, deps := some deps, done := r.ok }, { obs, branch := br, propfails := pf })
  | _ => none

def machine : Machine := { σ := St, name := "tagrepl", init := parseCfg, step := step }

/-! origin side: replicateToRemote on the real origin server -/

structure OSt where
  o : Origin := {}
  up : Bool := true
  prevCache : List String := []     -- impl: blobs cached before this op

def blob? (t : String) : Option Nat :=
  match t.toList with
  | 'b' :: ds => (String.ofList ds).toNat?
  | _ => none

def ssort (xs : List String) : List String := (xs.toArray.qsort (· < ·)).toList

def odump (o : Origin) : List String :=
  ["c=" ++ listTok (ssort (o.cache.map fun d => s!"b{d}")), "r=" ++ listTok (ssort (o.remote.map fun d => s!"b{d}"))]

def ostep (s : OSt) (kind : String) (args impl : List String) : Option (OSt × StepOut) :=
  if kind ≠ "op" then none else
  let cachedNow := list? ((kv? impl "c").getD "-")
  let fin (o : Origin) (up : Bool) (obs : List String) (br : String) (pf : List String := []) : Option (OSt × StepOut) :=
    some ({ o, up, prevCache := cachedNow }, { obs := obs ++ odump o, branch := br, propfails := pf })
  match args with
  | ["fetch", bt] => do
    let b ← blob? bt
    fin { s.o with cache := if b ∈ s.o.cache then s.o.cache else s.o.cache ++ [b] } s.up ["ok"] "o.fetch"
  | ["seed", bt] => do
    let b ← blob? bt
    fin { s.o with backend := if b ∈ s.o.backend then s.o.backend else s.o.backend ++ [b] } s.up ["ok"] "o.seed"
  | ["rdown"] => fin s.o false ["ok"] "o.rdown"
  | ["rup"] => fin s.o true ["ok"] "o.rup"
  | ["rep", bt] => do
    let b ← blob? bt
    let (o', r) := replicateToRemote s.o b s.up
    let res := impl.headD ""
    let rem := list? ((kv? impl "r").getD "-")
    let pf := (if res = "ok" ∧ bt ∉ rem then
        [s!"side=impl key=replicate-200-without-remote-upload the origin answered 200 to a replicate request for {bt} and the remote cluster does not hold it: {rem}"] else []) ++
      (if res = "ok" ∧ bt ∉ s.prevCache then
        [s!"side=impl key=replicate-200-for-uncached-blob the origin answered 200 to a replicate request for {bt}, which it did not have"] else [])
    fin o' s.up [match r with | .ok => "ok" | .accepted => "202" | .client => "404" | _ => "err"]
      (match r with | .ok => "o.rep.ok" | .accepted => "o.rep.202" | .client => "o.rep.404" | _ => "o.rep.remote-down") pf
  | _ => none

def omachine : Machine := { σ := OSt, name := "originrep", init := fun _ => some {}, step := ostep }

end C33

def main (args : List String) : IO UInt32 := runMachines [C33.machine, C33.omachine] args
