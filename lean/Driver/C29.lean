import Driver.Frame
import KrakenModel.Model.Dedup
/- Driver for C29: replays utils/dedup transcripts (RequestCache `rc`, IntervalTrap `it`, Limiter `lim`)
   on `Model.Dedup` and monitors the property predicates on what the implementation did.

   rc:  cfg errttl= nfttl= clean= workers= busy=     (seconds)
        op start r<j>            => ok | pending | cached:e<k> | blocked
        op finish r<j> ok|e<k>|nf<k>  => done [unblocked=ok]
        op adv <s>               => ok [unblocked=busy]
        op probe                 => pending=<ids> workers=<n>
   it:  cfg interval=
        op trap                  => ran | skip
        op tbegin g<i>           => running | skip | blocked
        op tend                  => ok [g<i>=skip|running …]
        op adv <s>               => ok
   lim: op call c<i> k<j>        => looked-up
        op enter c<i>            => cached:<out> | running | waiting | looked-up
        op finish c<i> <out> <ttl> => c<i>=<out>,…   (the callers that returned)
        op adv <s>               => ok -/
open Driver KrakenModel.Dedup

namespace C29

def idx? (pfx : Char) (t : String) : Option Nat :=
  match t.toList with
  | c :: ds => if c = pfx ∧ !ds.isEmpty then (String.ofList ds).toNat? else none
  | _ => none

def isort (xs : List Nat) : List Nat := xs.foldr (fun x acc => (acc.takeWhile (· < x)) ++ x :: acc.dropWhile (· < x)) []

/-! ### RequestCache -/
namespace RCM
open RC

structure Mon where
  now : Nat := 0
  inflight : List Nat := []
  errs : List (Nat × (Nat × Nat)) := []      -- id ↦ (class, expiresAt) of the last failed execution
  blocked : List Nat := []

structure St where
  m : State
  busy : Nat
  blocked : List (Nat × Nat × Nat) := []   -- Starts waiting for a worker: thread, id, deadline (arrival order)
  nextT : Nat := 0
  mon : Mon := {}

def errTok (e : Nat) : String := if e ≥ 100 then s!"nf{e - 100}" else s!"e{e}"

def err? (t : String) : Option (Nat × Bool) :=
  match t.toList with
  | 'n' :: 'f' :: ds => (String.ofList ds).toNat?.map (fun n => (n + 100, true))
  | 'e' :: ds => if ds.isEmpty then none else (String.ofList ds).toNat?.map (fun n => (n, false))
  | _ => none

def ok (s : St) (obs : List String) (br : String) (pf : List String := []) : Option (St × StepOut) :=
  some (s, { obs := obs, branch := br, propfails := pf })

/-- `unblocked=r1:ok,r2:busy` -/
def unblockedOf (impl : List String) : List (Nat × String) :=
  match kv? impl "unblocked" with
  | some l => (list? l).filterMap (fun t => match t.splitOn ":" with
      | [r, res] => (idx? 'r' r).map (fun i => (i, res))
      | _ => none)
  | none => []

/-- the monitor: predicates of the property evaluated on the implementation's answers only; its
ghost state is updated from those answers, never from the model -/
def monStep (mon : Mon) (cfg : Cfg) (args impl : List String) : Mon × List String :=
  let ub := unblockedOf impl
  let afterUnblock (m : Mon) : Mon :=
    { m with inflight := (ub.filter (·.2 = "ok")).map (·.1) ++ m.inflight,
             blocked := m.blocked.filter (fun b => !(ub.any (·.1 = b))) }
  match args with
  | ["start", rt] =>
    match idx? 'r' rt with
    | none => (mon, [])
    | some id =>
      let cachedLive := match alook mon.errs id with
        | some (e, exp) => if mon.now ≤ exp then some e else none
        | none => none
      match impl with
      | ["ok"] =>
        ({ mon with inflight := id :: mon.inflight },
         (if id ∈ mon.inflight ∨ id ∈ mon.blocked then [s!"side=impl key=concurrent-request start r{id} ran the request while r{id} is in flight or reserved"] else []) ++
         (match cachedLive with
          | some e => [s!"side=impl key=cached-error-ignored start r{id} ran the request although error {errTok e} is cached and not expired"]
          | none => []))
      | ["blocked"] =>
        ({ mon with blocked := mon.blocked ++ [id] },
         (if id ∈ mon.inflight ∨ id ∈ mon.blocked then [s!"side=impl key=concurrent-request start r{id} reserved the key while r{id} is in flight or reserved"] else []) ++
         (match cachedLive with
          | some e => [s!"side=impl key=cached-error-ignored start r{id} reserved the key although error {errTok e} is cached and not expired"]
          | none => []))
      | ["pending"] =>
        (mon, if id ∉ mon.inflight ∧ id ∉ mon.blocked then
          [s!"side=impl key=stale-pending start r{id} reported pending but nothing is in flight or reserved for r{id}"] else [])
      | [c] =>
        (mon, if c.startsWith "cached:" then
          (match err? (c.drop 7).toString with
           | some (e, _) => if (alook mon.errs id).map (·.1) ≠ some e then
               [s!"side=impl key=wrong-cached-error start r{id} reported {c} which is not the error of its last execution"] else []
           | none => []) ++
          (if id ∈ mon.inflight ∨ id ∈ mon.blocked then [s!"side=impl key=pending-not-reported start r{id} reported {c} while r{id} is in flight or reserved"] else [])
        else [])
      | _ => (mon, [])
  | ["finish", rt, res] =>
    match idx? 'r' rt with
    | none => (mon, [])
    | some id =>
      let cleared : Mon := { mon with inflight := mon.inflight.erase id }
      let m1 : Mon := match res, err? res with
        | "ok", _ => { cleared with errs := mon.errs.filter (·.1 ≠ id) }
        | _, some (e, nf) => { cleared with errs := (id, (e, mon.now + (if nf then cfg.nfTTL else cfg.errTTL))) :: mon.errs }
        | _, none => cleared
      let pf := (ub.filter (fun u => u.2 = "ok" ∧ u.1 ∈ m1.inflight)).map
        (fun u => s!"side=impl key=concurrent-request the blocked start of r{u.1} ran while r{u.1} is in flight")
      (afterUnblock m1, pf)
  | ["adv", dt] =>
    let m1 : Mon := { mon with now := mon.now + (dt.toNat?.getD 0) }
    (afterUnblock m1, [])
  | ["probe"] =>
    let implPending : List Nat := match kv? impl "pending" with
      | some t => (list? t).filterMap (idx? 'r')
      | none => []
    (mon, (implPending.filter (fun i => i ∉ mon.inflight ∧ i ∉ mon.blocked)).map
      (fun i => s!"side=impl key=stale-pending r{i} is pending but nothing is in flight or reserved for it") ++
      ((mon.inflight ++ mon.blocked).filter (fun i => i ∉ implPending)).map
      (fun i => s!"side=impl key=pending-lost r{i} is in flight or reserved but not pending") ++
      (match (kv? impl "workers").bind String.toNat? with
       | some w => if w > cfg.workers then [s!"side=impl key=too-many-workers {w} of {cfg.workers}"] else []
       | none => []))
  | _ => (mon, [])

def step (s0 : St) (kind : String) (args impl : List String) : Option (St × StepOut) :=
  if kind ≠ "op" then none else
  let (mon', pf) := monStep s0.mon s0.m.cfg args impl
  let s : St := { s0 with mon := mon' }
  match args with
  | ["start", rt] => do
    let id ← idx? 'r' rt
    let t := s.nextT
    let out := reserveOut s.m id
    let m1 := RC.step s.m (.reserve t id)
    match out with
    | .pending =>
      let br := if s.blocked.any (·.2.1 = id) then "start.pending.reserved-without-worker" else "start.pending"
      ok { s with m := m1, nextT := t + 1 } ["pending"] br pf
    | .cached e => ok { s with m := m1, nextT := t + 1 } [s!"cached:{errTok e}"] "start.cached" pf
    | .ok =>
      if nworkers m1 < m1.cfg.workers then
        let m2 := RC.step m1 (.workerOk t)
        let br := if (alook s.m.errors id).isSome then "start.ok.after-expired-error" else "start.ok"
        ok { s with m := m2, nextT := t + 1 } ["ok"] br pf
      else
        let br := if s.blocked.isEmpty then "start.blocked" else "start.blocked.second"
        ok { s with m := m1, nextT := t + 1, blocked := s.blocked ++ [(t, id, s.m.now + s.busy)] } ["blocked"] br pf
  | ["finish", rt, res] => do
    let id ← idx? 'r' rt
    if id ∉ s.m.execs then none else
    let m1 ← match res with
      | "ok" => some (RC.step s.m (.finishOk id))
      | _ => do
        let (e, nf) ← err? res
        some (RC.step s.m (.finishErr id e nf))
    let m2 := RC.step m1 .releaseWorker
    -- one of the waiting Starts gets the freed slot: the transcript says which (any of them is admissible)
    let chosen : Option (Nat × Nat × Nat) :=
      match (unblockedOf impl).head? with
      | some (i, _) => (s.blocked.find? (·.2.1 = i)).orElse (fun _ => s.blocked.head?)
      | none => s.blocked.head?
    match chosen with
    | some (t, bid, dl) =>
      let m3 := RC.step m2 (.workerOk t)
      let br := if s.blocked.length > 1 then "finish.unblocks.one-of-several" else "finish.unblocks"
      ok { s with m := m3, blocked := s.blocked.filter (· ≠ (t, bid, dl)) } ["done", s!"unblocked=r{bid}:ok"] br pf
    | none => ok { s with m := m2 } ["done"] (if res = "ok" then "finish.ok" else "finish.err") pf
  | ["adv", dt] => do
    let d ← dt.toNat?
    let m1 := RC.step s.m (.adv d)
    let due := s.blocked.filter (fun b => b.2.2 ≤ m1.now)
    if due.isEmpty then ok { s with m := m1 } ["ok"] (if s.blocked.isEmpty then "adv" else "adv.still-blocked") pf else
    let m2 := due.foldl (fun m b => RC.step (RC.step m (.workerBusy b.1)) (.release b.1)) m1
    let toks := (isort (due.map (·.2.1))).map (fun i => s!"r{i}:busy")
    ok { s with m := m2, blocked := s.blocked.filter (fun b => !(b.2.2 ≤ m1.now)) } ["ok", "unblocked=" ++ listTok toks]
      (if due.length > 1 then "adv.busy.several" else "adv.busy") pf
  | ["probe"] =>
    let obs := [s!"pending={listTok ((isort s.m.pending).map (fun i => s!"r{i}"))}", s!"workers={nworkers s.m}"]
    ok s obs "probe" pf
  | _ => none

def init (cfg : List String) : Option St := do
  let g := fun (k : String) (d : Nat) => match kv? cfg k with | some t => t.toNat? | none => some d
  let errTTL ← g "errttl" 15
  let nfTTL ← g "nfttl" 15
  let clean ← g "clean" 5
  let workers ← g "workers" 2
  let busy ← g "busy" 5
  if errTTL = 0 ∨ nfTTL = 0 ∨ clean = 0 ∨ workers = 0 ∨ busy = 0 then none else
  pure { m := RC.init ⟨errTTL, nfTTL, clean, workers⟩, busy }

def machine : Machine := { σ := St, name := "rc", init := init, step := step }
end RCM

/-! ### IntervalTrap -/
namespace ITM
open IT

structure St where
  m : State
  running : Option Nat := none       -- goroutine inside the task
  waitW : List Nat := []             -- goroutines waiting for a lock (FIFO)
  parked : List Nat := []            -- goroutines parked inside the `ready` check (read lock held)
  lastRun : Option Nat := none       -- monitor ghost: start of the last task run
  mnow : Nat := 0
  mrunning : Bool := false

def monRan (s : St) : List String :=
  (match s.lastRun with
   | some r => if s.mnow ≤ r + s.m.interval then
       [s!"side=impl key=trap-too-soon task ran at {s.mnow}, previous run started at {r}, interval {s.m.interval}"] else []
   | none => []) ++
  (if s.mrunning then ["side=impl key=concurrent-trap task started while a run is in progress"] else [])

/-- monitor update for what the implementation reported: any goroutine that entered the task -/
def monImpl (s : St) (impl : List String) : St × List String :=
  let started := impl.any (fun t => t = "running" ∨ t = "ran" ∨ t.endsWith "=running")
  if started then
    ({ s with lastRun := some s.mnow, mrunning := impl.any (fun t => t = "running" ∨ t.endsWith "=running") }, monRan s)
  else (s, [])

/-- goroutine `t` goes for the write lock (after its check if it has not done it yet) -/
def trapOf (m : State) (t : Nat) : State × Bool :=
  let m1 := IT.step m (.check t)
  match IT.tget m1 t with
  | .checked =>
    let m2 := IT.step m1 (.fireBegin t)
    match IT.tget m2 t with
    | .running => (m2, true)
    | _ => (m2, false)
  | _ => (m1, false)

/-- the waiting goroutines proceed in order until one runs the task -/
def cascade (m : State) (ws : List Nat) : State × Option Nat × List Nat × List (Nat × String) :=
  ws.foldl (fun (acc : State × Option Nat × List Nat × List (Nat × String)) w =>
    let (m, run, rest, outs) := acc
    if run.isSome then (m, run, rest ++ [w], outs) else
    let (m', ran) := trapOf m w
    if ran then (m', some w, rest, outs ++ [(w, "running")]) else (m', none, rest, outs ++ [(w, "skip")])) (m, none, [], [])

def step (s0 : St) (kind : String) (args impl : List String) : Option (St × StepOut) :=
  if kind ≠ "op" then none else
  let (s, pf) := monImpl s0 impl
  match args with
  | ["adv", dt] => do
    let d ← dt.toNat?
    some ({ s with m := IT.step s.m (.adv d), mnow := s.mnow + d }, { obs := ["ok"], branch := "adv", propfails := pf })
  | ["trap"] =>
    if s.running.isSome ∨ !s.parked.isEmpty ∨ !s.waitW.isEmpty then none else
    let (m1, ran) := trapOf s.m 0
    let m2 := if ran then IT.step m1 (.fireEnd 0) else m1
    some ({ s with m := m2, mrunning := false }, { obs := [if ran then "ran" else "skip"], branch := if ran then "trap.ran" else "trap.skip", propfails := pf })
  | ["tbegin", gt] => do
    let g ← idx? 'g' gt
    if !s.parked.isEmpty ∨ !s.waitW.isEmpty then none else
    if s.running.isSome then
      some ({ s with waitW := s.waitW ++ [g] }, { obs := ["blocked"], branch := "tbegin.blocked", propfails := pf })
    else
      let (m1, ran) := trapOf s.m g
      if ran then some ({ s with m := m1, running := some g }, { obs := ["running"], branch := "tbegin.running", propfails := pf })
      else some ({ s with m := m1 }, { obs := ["skip"], branch := "tbegin.skip", propfails := pf })
  | ["tcheck", gt] => do
    let g ← idx? 'g' gt
    if s.running.isSome ∨ !s.waitW.isEmpty then none else
    some ({ s with m := IT.step s.m (.check g), parked := s.parked ++ [g] }, { obs := ["checking"], branch := "tcheck", propfails := pf })
  | ["tgo", gt] => do
    let g ← idx? 'g' gt
    if g ∉ s.parked then none else
    let parked := s.parked.erase g
    let sawReady := IT.tget s.m g = .checked
    if !parked.isEmpty then
      if sawReady then
        some ({ s with parked := parked, waitW := s.waitW ++ [g] }, { obs := ["blocked"], branch := "tgo.waits-for-readers", propfails := pf })
      else some ({ s with parked := parked }, { obs := ["skip"], branch := "tgo.skip", propfails := pf })
    else
      -- the last reader leaves: earlier waiters go first, then this goroutine
      let (m1, run1, rest1, outs1) := cascade s.m s.waitW
      let earlier := outs1.map (fun p => s!"g{p.1}={p.2}")
      if !sawReady then
        some ({ s with m := m1, parked := parked, waitW := rest1, running := run1 },
              { obs := "skip" :: earlier, branch := "tgo.skip", propfails := pf })
      else if run1.isSome then
        some ({ s with m := m1, parked := parked, waitW := rest1 ++ [g], running := run1 },
              { obs := "blocked" :: earlier, branch := "tgo.blocked-behind-run", propfails := pf })
      else
        let (m2, ran) := trapOf m1 g
        some ({ s with m := m2, parked := parked, waitW := rest1, running := if ran then some g else none },
              { obs := (if ran then "running" else "skip") :: earlier,
                branch := if ran then "tgo.running" else "tgo.skip-after-recheck", propfails := pf })
  | ["tend"] =>
    match s.running with
    | none => none
    | some g =>
      let m1 := IT.step s.m (.fireEnd g)
      let (m2, run2, rest2, outs2) := cascade m1 s.waitW
      let res := (isort (outs2.map (·.1))).filterMap (fun w => (outs2.find? (·.1 = w)).map (fun p => s!"g{p.1}={p.2}"))
      some ({ s with m := m2, running := run2, waitW := rest2, mrunning := impl.any (fun t => t.endsWith "=running") },
            { obs := "ok" :: res, branch := if res.isEmpty then "tend" else "tend.releases-waiters", propfails := pf })
  | _ => none

def init (cfg : List String) : Option St := do
  let i ← match kv? cfg "interval" with | some t => t.toNat? | none => some 60
  if i = 0 then none else pure { m := IT.init i 0 }

def machine : Machine := { σ := St, name := "it", init := init, step := step }
end ITM

/-! ### Limiter -/
namespace LM
open Lim

structure Mon where
  now : Nat := 0
  inflight : List (Nat × Nat) := []          -- (caller, key) inside the runner
  keyOf : List (Nat × Nat) := []             -- caller ↦ key of its current call
  done : List (Nat × (Nat × Nat)) := []      -- key ↦ (output, expiresAt) of finished executions (all kept)

structure St where
  m : State
  trapPrev : Nat
  mon : Mon := {}

def gcInterval : Nat := 60

def gcAll (m : State) : State := (m.index.map (·.1)).foldl (fun m k => Lim.step m (.gc k)) m

def waitersOf (m : State) (tk : Nat) : List Nat :=
  ((m.thr.map (·.1)).eraseDups).filter (fun t => match Lim.tget m t with | .waiting _ tk' _ => tk' = tk | _ => false)

def step (s : St) (kind : String) (args impl : List String) : Option (St × StepOut) :=
  if kind ≠ "op" then none else
  match args with
  | ["adv", dt] => do
    let d ← dt.toNat?
    some ({ s with m := Lim.step s.m (.adv d), mon := { s.mon with now := s.mon.now + d } }, { obs := ["ok"], branch := "adv" })
  | ["call", ct, kt] => do
    let c ← idx? 'c' ct
    let k ← idx? 'k' kt
    if Lim.tget s.m c ≠ .idle then none else
    -- gc.Trap() at the head of Run
    let trap := decide (s.trapPrev + gcInterval < s.m.now)
    let m0 := if trap then gcAll s.m else s.m
    let collected := m0.index.length < s.m.index.length
    let m1 := Lim.step m0 (.call c k)
    let br := (if (alook m0.index k).isSome then "call.found" else "call.created") ++
      (if collected then ".gc-collected" else if trap then ".gc-ran" else "")
    some ({ s with m := m1, trapPrev := if trap then s.m.now else s.trapPrev,
                   mon := { s.mon with keyOf := (c, k) :: s.mon.keyOf } }, { obs := ["looked-up"], branch := br })
  | ["enter", ct] => do
    let c ← idx? 'c' ct
    match Lim.tget s.m c with
    | .hold k tk =>
      match s.m.heap[tk]? with
      | none => none
      | some task =>
        let out := enterOut s.m task
        let m1 := Lim.step s.m (.enter c)
        -- a retry goes straight back to the lookup
        let m2 := if out = .retry then Lim.step m1 (.lookup c) else m1
        let obs := match out with
          | .retry => "looked-up"
          | .cached (some o) => s!"cached:{o}"
          | .cached none => "cached:nil"
          | .wait => "waiting"
          | .run => "running"
        let pf : List String := match impl with
          | ["running"] =>
            (match s.mon.inflight.find? (fun p => p.2 = k) with
             | some (c', _) => [s!"side=impl key=concurrent-runs caller c{c} started the runner for k{k} while the run started by c{c'} is in flight"]
             | none => []) ++
            (if (s.mon.done.any (fun p => p.1 = k ∧ s.mon.now ≤ p.2.2)) then
              [s!"side=impl key=reran-unexpired caller c{c} ran k{k} although an output is cached and not expired"] else [])
          | [t] => if t.startsWith "cached:" then
              let o := (t.drop 7).toString.toNat?
              if s.mon.done.any (fun p => p.1 = k ∧ some p.2.1 = o ∧ s.mon.now ≤ p.2.2) then []
              else [s!"side=impl key=bad-cached-output caller c{c} got {t} for k{k}: not the unexpired output of a finished run"]
            else []
          | _ => []
        let mon := if impl = ["running"] then { s.mon with inflight := (c, k) :: s.mon.inflight } else s.mon
        let br := match out with
          | .retry => "enter.retry-after-gc"
          | .cached _ => "enter.cached"
          | .wait => "enter.wait"
          | .run => if task.deleted then "enter.run-on-collected-task" else "enter.run"
        some ({ s with m := m2, mon := mon }, { obs := [obs], branch := br, propfails := pf })
    | _ => none
  | ["finish", ct, ot, tt] => do
    let c ← idx? 'c' ct
    let o ← ot.toNat?
    let ttl ← tt.toNat?
    match Lim.tget s.m c with
    | .exec k tk =>
      let ws := waitersOf s.m tk
      let m1 := Lim.step s.m (.finish c o ttl)
      let m2 := ws.foldl (fun m w => Lim.step m (.wake w)) m1
      let rets := (isort (c :: ws)).map (fun t => s!"c{t}={o}")
      let mon := { s.mon with inflight := s.mon.inflight.filter (·.1 ≠ c), done := (k, (o, s.mon.now + ttl)) :: s.mon.done }
      let pf := match impl with
        | [l] => (list? l).filterMap (fun r => match r.splitOn "=" with
            | [who, v] => if v = toString o then none else some s!"side=impl key=wrong-output {who} returned {v}, the run it waited for produced {o}"
            | _ => none)
        | _ => []
      some ({ s with m := m2, mon := mon }, { obs := [listTok rets], branch := if ws.isEmpty then "finish" else "finish.wakes-waiters", propfails := pf })
    | _ => none
  | _ => none

def machine : Machine := { σ := St, name := "lim", init := fun _ => some { m := Lim.init true, trapPrev := 1 }, step := step }
end LM

/-! ### Refresher (lib/blobrefresh): RequestCache keyed by the blob digest -/
namespace BRM
open RC

structure St where
  m : State
  owner : List (Nat × Nat) := []     -- digest ↦ namespace whose request downloads it
  nextT : Nat := 0
  inflight : List Nat := []          -- monitor ghost: digests being downloaded

def step (s : St) (kind : String) (args impl : List String) : Option (St × StepOut) :=
  if kind ≠ "op" then none else
  match args with
  | ["refresh", nst, dt] => do
    let ns ← (if nst.startsWith "ns" then (nst.drop 2).toString.toNat? else none)
    let d ← idx? 'd' dt
    let pf := if impl = ["ok"] ∧ d ∈ s.inflight then
      [s!"side=impl key=concurrent-download refresh of d{d} through ns{ns} started a download while one of d{d} is in flight"] else []
    let s := if impl = ["ok"] then { s with inflight := d :: s.inflight } else s
    let t := s.nextT
    match reserveOut s.m d with
    | .pending => some ({ s with nextT := t + 1 }, { obs := ["pending"], branch := if (alook s.owner d) = some ns then "refresh.pending" else "refresh.pending.other-namespace", propfails := pf })
    | .cached _ => some ({ s with m := RC.step s.m (.reserve t d), nextT := t + 1 }, { obs := ["err"], branch := "refresh.cached-error", propfails := pf })
    | .ok =>
      let m := RC.step (RC.step s.m (.reserve t d)) (.workerOk t)
      some ({ s with m := m, nextT := t + 1, owner := (d, ns) :: s.owner }, { obs := ["ok"], branch := "refresh.ok", propfails := pf })
  | ["dlend", nst, dt, res] => do
    let ns ← (if nst.startsWith "ns" then (nst.drop 2).toString.toNat? else none)
    let d ← idx? 'd' dt
    let s := { s with inflight := s.inflight.erase d }
    if d ∉ s.m.execs ∨ alook s.owner d ≠ some ns then
      some (s, { obs := ["model:no-such-download"], branch := "dlend.bad" })
    else
      let m1 := if res = "ok" then RC.step s.m (.finishOk d) else RC.step s.m (.finishErr d 0 false)
      some ({ s with m := RC.step m1 .releaseWorker, owner := adel s.owner d }, { obs := ["done"], branch := if res = "ok" then "dlend.ok" else "dlend.fail" })
  | _ => none

def machine : Machine := { σ := St, name := "br", init := fun _ => some { m := RC.init ⟨1000000, 1000000, 5, 10000⟩ }, step := step }
end BRM

end C29

def main (args : List String) : IO UInt32 := runMachines [C29.RCM.machine, C29.ITM.machine, C29.LM.machine, C29.BRM.machine] args
