import Driver.CAStoreRepl
import Driver.CAStoreConc
import KrakenModel.Model.OriginBlob
/- Driver for C01: replays `castore` transcripts on Model.CAStoreMem and evaluates the property's
   predicate on what the implementation returned:

   * served-wrong-bytes        bytes read under name d whose SHA-256 (computed by Go) is not d
   * stat-size-mismatch        Stat size under d differs from the length of the bytes read under d
   * metainfo-mismatch         metainfo served under d does not describe the bytes read under d
   * mismatch-write-accepted   a write none of whose streams hashes to d returned success
   * mismatch-write-visible    … or changed what is visible under d

   The monitors use only the implementation's observations and the `tbl` rows (computed by Go with
   crypto/sha256 and hash/crc32 directly, not by the code under test).  They are muted when the
   store is configured with SkipHashVerification (outside the property's precondition). -/
open Driver KrakenModel KrakenModel.CAStoreMem CAStoreRepl

namespace C01

structure St where
  core : Core
  last : Std.HashMap String (List String) := {}       -- name → last probe observation of the implementation
  pending : Option String := none                      -- name of a pure-mismatch write just executed
  held : List (String × String) := []                  -- handle → name it was opened under (implementation said ok)

def init (toks : List String) : Option St := do
  let cfg ← cfg? toks
  pure { core := { m := CAStoreMem.init cfg, rps := ((kv? toks "rps").bind nat?).getD 0 } }

def pfx (p s : String) : Option String := if s.startsWith p then some (s.drop p.length).toString else none

/-- is the write a pure mismatch: no stream it may consume hashes to the name? (`none` = not a write / unknown) -/
def pureMismatch (t : Tables) (args : List String) : Option String :=
  match args with
  | ["commit", _, n, have_] =>
    if have_ = "-" then none else
    match t.sha.get? have_ with
    | some h => if h ≠ n then some n else none
    | none => none
  | ["createCache", n, b] =>
    match t.sha.get? b with
    | some h => if h ≠ n then some n else none
    | none => none
  | ["writeBlob", n, _, _, atts] =>
    let toks := list? atts
    let live := toks.filter (fun a => !a.endsWith "!")
    if live.all (fun a => match t.sha.get? a with | some h => h ≠ n | none => false) then some n else none
  | _ => none

def probeMon (t : Tables) (n : String) (impl : List String) : List String :=
  match impl with
  | [r, s, m, _] =>
    match pfx "r=" r, pfx "s=" s, pfx "m=" m with
    | some r, some s, some m =>
      match bytes? r with
      | some b =>
        (match t.sha.get? r with
          | some h => if h ≠ n then [s!"side=impl key=served-wrong-bytes read under {n} returned {r} whose sha256 is {h}"] else []
          | none => []) ++
        (if s ≠ toString b.length then [s!"side=impl key=stat-size-mismatch stat under {n} says {s}, the bytes read have length {b.length}"] else []) ++
        (match mi? m with
          | some mi =>
            let pieces := chunks mi.pieceLength.toNat b
            if mi.name ≠ n ∨ mi.length ≠ b.length then
              [s!"side=impl key=metainfo-mismatch metainfo under {n} is {m}, the bytes read have length {b.length}"]
            else if mi.pieceLength > 0 ∧ pieces.all t.hasCrc ∧ mi.sums ≠ pieces.map t.crcOf then
              [s!"side=impl key=metainfo-mismatch metainfo under {n} has piece sums {mi.sums}, the bytes read have {pieces.map t.crcOf}"]
            else []
          | none => [])
      | none => []
    | _, _, _ => []
  | _ => []

def step (s : St) (kind : String) (args impl : List String) : Option (St × StepOut) := do
  let (core, obs, branch) ← CAStoreRepl.step s.core kind args
  if kind = "tbl" then return ({ s with core }, { obs, branch })
  let muted := s.core.m.cfg.skipVerify
  let isProbe := args.head? = some "probe"
  let mut pf : List String := []
  let mut last := s.last
  -- `pending`: a write with no matching content was just executed; until the next operation every probe (of
  -- every name of the case) must show what it showed before that write
  let mut pending := if isProbe then s.pending else none
  if isProbe then
    let n := args.getD 1 ""
    if !muted then
      pf := pf ++ probeMon s.core.t n impl
      if s.pending.isSome then
        match s.last.get? n with
        | some before =>
          if before ≠ impl then
            pf := pf ++ [s!"side=impl key=mismatch-write-visible a write under {s.pending.getD ""} with no matching content changed what is visible under {n}: before {sp before} after {sp impl}"]
        | none => pure ()
    last := last.insert n impl
  else
    match pureMismatch s.core.t args with
    | some n =>
      if !muted then
        if impl.head? = some "ok" then
          pf := pf ++ [s!"side=impl key=mismatch-write-accepted {sp args} returned ok although no stream hashes to {n}"]
        pending := some n
    | none => pure ()
  -- readers held open: what they finally deliver must hash to the name they were opened under
  let mut held := s.held
  match args with
  | ["open", n, h] => if impl = ["ok"] then held := (h, n) :: held.filter (·.1 ≠ h)
  | ["readh", h] =>
    match s.held.find? (·.1 = h), impl with
    | some (_, n), [b] =>
      if !muted then
        match s.core.t.sha.get? b with
        | some d => if d ≠ n then pf := pf ++ [s!"side=impl key=served-wrong-bytes the reader {h} opened under {n} and held open delivered {b} whose sha256 is {d}"]
        | none => pure ()
    | _, _ => pure ()
    held := held.filter (·.1 ≠ h)
  | _ => pure ()
  return ({ core, last, pending, held }, { obs, branch, propfails := pf })

def machine : Machine := { σ := St, name := "castore", init := init, step := step }

end C01

/-! ### the HTTP level: origin/blobserver handlers + uploader + blobrefresh + metainfogen over a real CAStore -/
namespace C01Origin
open KrakenModel.OriginBlob C01

structure St where
  m : OriginBlob.State
  t : Tables := {}
  last : Std.HashMap String (List String) := {}
  pending : Option String := none

def init (toks : List String) : Option St := do
  let cfg ← cfg? toks
  let pl ← (kv? toks "pl").bind int?
  pure { m := { cas := CAStoreMem.init cfg, pl := pl } }

def kind? : String → Option Kind
  | "transfer" => some .transfer
  | "cluster" => some .cluster
  | _ => none

def oresTok : ORes → String
  | .ok => "ok" | .conflict => "conflict" | .notFound => "notfound" | .fail => "fail"

def probeObs (s : CAStoreMem.State) (n : Name) : List String :=
  (CAStoreRepl.probeObs s n).take 3 ++ ["mem=-"]

def replay (s : St) (args : List String) : Option (OriginBlob.State × List String × String) :=
  let H := s.t.H
  let crc := s.t.crcOf
  match args with
  | ["start", k, n, u] => do
    let k ← kind? k
    let (m, r) := start crc s.m k n u
    pure (m, [oresTok r], s!"start.{oresTok r}")
  | ["patch", k, n, u, off, b] => do
    let k ← kind? k
    let off ← nat? off
    let b ← bytes? b
    let (m, r) := patch crc s.m k n u off b
    pure (m, [oresTok r], s!"patch.{oresTok r}")
  | ["commit", k, n, u, have_] => do
    let k ← kind? k
    let mine := match KV.get s.m.cas.uploads u with | some b => bytesTok b | none => "-"
    if mine ≠ have_ then pure (s.m, ["upload-content", mine], "commit.content-diff") else
    let (m, r) := commit H crc s.m k n u
    pure (m, [oresTok r], s!"commit.{oresTok r}")
  | ["fetch", n, size, atts] => do
    let size ← if size = "-" then some none else (nat? size).map some
    let atts ← atts? atts
    let (m, r) := fetch H crc s.m n size atts
    let c := s.m.cas
    -- number of backend Download invocations the write-through makes
    let calls : Nat :=
      if (readable c n).isSome ∨ size.isNone ∨ n ∈ s.m.failed then 0
      else
        let sz := size.getD 0
        let viaMem := c.cfg.memEnabled && (MemCache.tryReserve c.mem sz).2
        if viaMem && (addToMem H crc (reserved c sz) n atts.head? sz s.m.pl).isNone then 2 else 1
    let path := if calls = 0 then "nodownload" else if calls = 2 then "mem-fallback" else if inMem m.cas n then "mem" else "disk"
    pure (m, [oresTok r, s!"calls={calls}"], s!"fetch.{path}.{oresTok r}")
  | ["overwritemeta", n, pl] => do
    let pl ← int? pl
    let (m, r) := overwriteMeta crc s.m n pl
    pure (m, [oresTok r], s!"overwritemeta.{oresTok r}")
  | ["probe", n] =>
    let br := (if inMem s.m.cas n then "probe.mem" else if (readable s.m.cas n).isSome then "probe.disk" else "probe.absent") ++
      (if (metainfo s.m.cas n).isSome then "+mi" else "")
    some (s.m, probeObs s.m.cas n, br)
  | _ => none

/-- writes none of whose content hashes to the name (`none`: not such a write) -/
def pureMismatch (s : St) (args : List String) : Option String :=
  match args with
  | ["commit", _, n, _, have_] =>
    if have_ = "-" then none else
    match s.t.sha.get? have_ with
    | some h => if h ≠ n then some n else none
    | none => none
  | ["fetch", n, size, atts] =>
    -- only when nothing was visible under the name before (then `ok` can only come from the refresh)
    let absent : Bool := match s.last.get? n with | some (r :: _) => r == "r=notexist" | _ => false
    let live := (list? atts).filter (fun a => !a.endsWith "!")
    if absent && size != "-" && live.all (fun a => match s.t.sha.get? a with | some h => h ≠ n | none => false) then some n else none
  | _ => none

def step (s : St) (kind : String) (args impl : List String) : Option (St × StepOut) := do
  if kind = "tbl" then
    let (core, obs, branch) ← CAStoreRepl.step { m := s.m.cas, t := s.t } kind args
    return ({ s with t := core.t }, { obs, branch })
  if kind ≠ "op" then none
  let (m, obs, branch) ← replay s args
  let muted := s.m.cas.cfg.skipVerify
  let isProbe := args.head? = some "probe"
  let mut pf : List String := []
  let mut last := s.last
  let mut pending := if isProbe then s.pending else none
  if isProbe then
    let n := args.getD 1 ""
    if !muted then
      pf := pf ++ probeMon s.t n impl
      if s.pending = some n then
        match s.last.get? n with
        | some before =>
          if before ≠ impl then
            pf := pf ++ [s!"side=impl key=mismatch-write-visible a write under {n} with no matching content changed what is visible: before {sp before} after {sp impl}"]
        | none => pure ()
        pending := none
    last := last.insert n impl
  else
    match pureMismatch s args with
    | some n =>
      if !muted then
        if impl.head? = some "ok" then
          pf := pf ++ [s!"side=impl key=mismatch-write-accepted {sp args} returned ok although no content hashes to {n}"]
        pending := some n
    | none => pure ()
  return ({ s with m, last, pending }, { obs, branch, propfails := pf })

def machine : Machine := { σ := St, name := "origin", init := init, step := step }

end C01Origin

def main (args : List String) : IO UInt32 := runMachines [C01.machine, C01Origin.machine, C01Conc.machine] args
