import Driver.Frame
import KrakenModel.Model.PieceRequest
/- Driver for C15: replays piecerequest.Manager transcripts on the model and monitors the
   property's predicates on what the implementation returned.

   cfg policy=default|rarest timeout=<ns> agent=<int> origin=<int>
   op reserve p<k> <origin 0|1> <cands> <counters> <endgame 0|1> => <pieces in returned order | - | err>
   op unsent p<k> <i> => ok      op invalid p<k> <i> => ok
   op clear <i> => ok            op clearpeer p<k> => ok
   op pending p<k> => <sorted pieces>
   op failed => <sorted i:p<k>:<expired|unsent|invalid>>
   op adv <ns> => ok
-/
open Driver KrakenModel.PieceRequest

namespace C15

def peer? (t : String) : Option Nat :=
  match t.toList with
  | 'p' :: ds => if ds.isEmpty then none else (String.ofList ds).toNat?
  | _ => none

def nats? (t : String) : Option (List Nat) := (list? t).mapM nat?
def ints? (t : String) : Option (List Int) := (list? t).mapM int?

def statusTok : Status → String
  | .pending => "pending" | .expired => "expired" | .unsent => "unsent" | .invalid => "invalid"

def statusCode : Status → Nat
  | .pending => 0 | .expired => 1 | .unsent => 2 | .invalid => 3

abbrev Rep := Piece × Peer × Status

def repLe (a b : Rep) : Bool :=
  a.1 < b.1 || (a.1 == b.1 && (a.2.1 < b.2.1 || (a.2.1 == b.2.1 && statusCode a.2.2 ≤ statusCode b.2.2)))

def insertRep (x : Rep) : List Rep → List Rep
  | [] => [x]
  | y :: ys => if repLe x y then x :: y :: ys else y :: insertRep x ys

def sortReps (xs : List Rep) : List Rep := xs.foldr insertRep []

def repTok (x : Rep) : String := s!"{x.1}:p{x.2.1}:{statusTok x.2.2}"

def rep? (t : String) : Option Rep :=
  match t.splitOn ":" with
  | [a, b, c] => do
    let i ← nat? a
    let p ← peer? b
    let st ← (match c with | "expired" => some Status.expired | "unsent" => some .unsent | "invalid" => some .invalid | _ => none)
    pure (i, p, st)
  | _ => none

/-- ghost request: what the API calls and the implementation's answers imply is outstanding -/
structure GReq where
  piece : Nat
  peer : Nat
  sentAt : Int
  status : Status

structure Mon where
  now : Int := 0
  reqs : List GReq := []
  kinds : List (Nat × Bool) := []   -- origin flag first used for a peer
  mixed : List Nat := []            -- peers reserved with both flags (pipeline monitor muted)
  clearedPeers : List Nat := []     -- ClearPeer(p) called and nothing reserved for p since
  clearedPieces : List Nat := []    -- Clear(i) called and i not reserved since

structure St where
  cfg : Config
  m : State := {}
  mon : Mon := {}

def Mon.live (cfg : Config) (g : Mon) (r : GReq) : Bool :=
  r.status == .pending && !(g.now > r.sentAt + cfg.timeout)

def init (toks : List String) : Option St := do
  let pol ← (match kv? toks "policy" with | some "default" => some Policy.default | some "rarest" => some .rarestFirst | _ => none)
  let timeout ← (kv? toks "timeout").bind int?
  let agent ← (kv? toks "agent").bind int?
  let origin ← (kv? toks "origin").bind int?
  pure { cfg := ⟨pol, timeout, agent, origin⟩ }

def monReserve (s : St) (p : Nat) (origin dup : Bool) (implChosen : List Nat) : Mon × List String :=
  let g := s.mon
  let cfg := s.cfg
  let kinds := if (g.kinds.find? (·.1 == p)).isSome then g.kinds else (p, origin) :: g.kinds
  let mixed := match g.kinds.find? (·.1 == p) with
    | some (_, o) => if o != origin ∧ p ∉ g.mixed then p :: g.mixed else g.mixed
    | none => g.mixed
  let pfDup := implChosen.flatMap fun i =>
    (if !dup ∧ g.reqs.any (fun r => r.piece == i && g.live cfg r) then
      [s!"side=impl key=duplicate-request piece {i} reserved for p{p} outside endgame while an unexpired request for it is outstanding"] else []) ++
    (if g.reqs.any (fun r => r.piece == i && r.peer == p && g.live cfg r) then
      [s!"side=impl key=duplicate-same-peer piece {i} reserved again for p{p} while its own request is unexpired"] else [])
  let pfTwice := if implChosen.eraseDups.length ≠ implChosen.length then
      [s!"side=impl key=duplicate-request the same piece was returned twice by one ReservePieces call for p{p}"] else []
  let reqs := g.reqs ++ implChosen.map fun i => ⟨i, p, g.now, .pending⟩
  let g' : Mon := { g with reqs, kinds, mixed,
                           clearedPeers := if implChosen.isEmpty then g.clearedPeers else g.clearedPeers.filter (· != p),
                           clearedPieces := g.clearedPieces.filter (fun i => i ∉ implChosen) }
  let liveN := (reqs.filter fun r => r.peer == p && g'.live cfg r).length
  let lim := (limitOf cfg origin).toNat
  let pfPipe := if !implChosen.isEmpty ∧ p ∉ mixed ∧ liveN > lim then
      [s!"side=impl key=over-pipeline p{p} has {liveN} unexpired pending requests after ReservePieces, pipeline limit {lim}"] else []
  (g', pfPipe ++ pfDup ++ pfTwice)

def Mon.expected (cfg : Config) (g : Mon) : List Rep :=
  sortReps <| g.reqs.filterMap fun r =>
    if r.status == .pending then (if g.now > r.sentAt + cfg.timeout then some (r.piece, r.peer, .expired) else none)
    else some (r.piece, r.peer, r.status)

/-- multiset difference of sorted lists: elements of `a` not matched in `b` -/
def minus (a b : List Rep) : List Rep := b.foldl (fun acc x => acc.erase x) a

def monFailed (s : St) (impl : List String) : List String :=
  let g := s.mon
  match (impl.head?.map list?).getD [] |>.mapM rep? with
  | none => []
  | some reps =>
    let removedPeer := reps.filter fun x => x.2.1 ∈ g.clearedPeers
    let removedPiece := reps.filter fun x => x.2.1 ∉ g.clearedPeers && x.1 ∈ g.clearedPieces
    let exp := g.expected s.cfg
    let missing := minus exp reps
    let extra := (minus reps exp).filter fun x => !(x ∈ removedPeer) && !(x ∈ removedPiece)
    (removedPeer.map fun x => s!"side=impl key=cleared-peer-reported GetFailedRequests lists {repTok x} although every request of p{x.2.1} was removed (ClearPeer) and none made since") ++
    (removedPiece.map fun x => s!"side=impl key=cleared-piece-reported GetFailedRequests lists {repTok x} although piece {x.1} was cleared and not reserved since") ++
    (missing.map fun x => s!"side=impl key=failed-missing GetFailedRequests omits {repTok x}") ++
    (extra.map fun x => s!"side=impl key=failed-spurious GetFailedRequests lists {repTok x} which is neither expired, unsent nor invalid")

def monPending (s : St) (p : Nat) (impl : List String) : List String :=
  let g := s.mon
  match (impl.head?.map list?).getD [] |>.mapM nat? with
  | none => []
  | some ps =>
    ps.flatMap fun i =>
      if p ∈ g.clearedPeers then
        [s!"side=impl key=cleared-peer-reported PendingPieces(p{p}) lists piece {i} although every request of p{p} was removed and none made since"]
      else if i ∈ g.clearedPieces then
        [s!"side=impl key=cleared-piece-reported PendingPieces(p{p}) lists piece {i} although it was cleared and not reserved since"]
      else []

def step (s : St) (kind : String) (args impl : List String) : Option (St × StepOut) :=
  if kind ≠ "op" then none else
  match args with
  | ["reserve", pt, ot, ct, nt, dt] => do
    let p ← peer? pt; let origin ← bool? ot; let cands ← nats? ct; let prio ← ints? nt; let dup ← bool? dt
    let q := quota s.cfg s.m p origin
    if impl = ["err"] then
      pure (s, { obs := ["-"], branch := "reserve.err" })
    else
    let chosen ← nats? ((impl.head?).getD "-")
    let (m', r) := reserve s.cfg s.m p origin cands prio dup chosen
    let (mon, pf) := monReserve s p origin dup chosen
    let obs := match r with | .pieces l => listTok (l.map toString) | .inadmissible => "inadmissible"
    let nvalid := (validCands s.cfg s.m p cands dup).length
    let br := if q ≤ 0 then "reserve.noquota" else if r = .inadmissible then "reserve.inadmissible"
      else if chosen.isEmpty then "reserve.novalid" else if (nvalid : Int) > q then "reserve.choice" else "reserve.all"
    pure ({ s with m := m', mon }, { obs := [obs], branch := br ++ (if dup then ".endgame" else ""), propfails := pf })
  | [mk, pt, it] => do
    let p ← peer? pt; let i ← nat? it
    let st ← (match mk with | "unsent" => some Status.unsent | "invalid" => some .invalid | _ => none)
    let hit := s.m.reqs.any fun r => r.piece == i && r.peer == p
    let mon := { s.mon with reqs := s.mon.reqs.map fun r => if r.piece == i && r.peer == p then { r with status := st } else r }
    pure ({ s with m := markStatus s.m p i st, mon }, { obs := ["ok"], branch := s!"{mk}.{if hit then "hit" else "miss"}" })
  | ["clear", it] => do
    let i ← nat? it
    let mon := { s.mon with reqs := s.mon.reqs.filter (·.piece != i), clearedPieces := i :: s.mon.clearedPieces.filter (· != i) }
    pure ({ s with m := clear s.m i, mon }, { obs := ["ok"], branch := "clear" })
  | ["clearpeer", pt] => do
    let p ← peer? pt
    let n := (s.m.reqs.filter (·.peer == p)).length
    let dupl := s.m.reqs.any fun r => r.peer == p && !r.indexed
    let mon := { s.mon with reqs := s.mon.reqs.filter (·.peer != p), clearedPeers := p :: s.mon.clearedPeers.filter (· != p) }
    pure ({ s with m := clearPeer s.m p, mon },
          { obs := ["ok"], branch := if dupl then "clearpeer.with-duplicate" else s!"clearpeer.{min n 3}" })
  | ["pending", pt] => do
    let p ← peer? pt
    let l := pendingPieces s.m p
    pure (s, { obs := [listTok (l.map toString)], branch := s!"pending.{min l.length 3}", propfails := monPending s p impl })
  | ["failed"] =>
    let l := sortReps (failed s.cfg s.m)
    some (s, { obs := [listTok (l.map repTok)], branch := s!"failed.{min l.length 3}", propfails := monFailed s impl })
  | ["adv", dt] => do
    let d ← nat? dt
    pure ({ s with m := KrakenModel.PieceRequest.step s.cfg s.m (.advance d), mon := { s.mon with now := s.mon.now + d } },
          { obs := ["ok"], branch := "adv" })
  | _ => none

def machine : Machine := { σ := St, name := "pr", init := init, step := step }

/-- Machines `prc` (concurrent goroutines on one Manager) and `prd` (the dispatcher's call sites)
carry no model replay: the harness judges the implementation with the property's own predicates
(`propfail` records: over-pipeline, duplicate-request, cleared-peer-reported) and reports what it
ran as `op <phase> … => <counts>` records, which are accepted as they are. -/
def echoStep (_ : Unit) (kind : String) (args impl : List String) : Option (Unit × StepOut) :=
  if kind ≠ "op" then none else
  some ((), { obs := impl, branch := s!"{args.headD "?"}" })

def concMachine : Machine := { σ := Unit, name := "prc", init := fun _ => some (), step := echoStep }
def dispMachine : Machine := { σ := Unit, name := "prd", init := fun _ => some (), step := echoStep }

end C15

def main (args : List String) : IO UInt32 := runMachines [C15.machine, C15.concMachine, C15.dispMachine] args
