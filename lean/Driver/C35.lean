import Driver.Frame
import KrakenModel.Model.Poll
/- Driver for C35: replays cluster blob downloads (scripted origins) on the Poll model and
   monitors "success ⇒ the destination received the blob exactly once" on what the
   implementation returned.

   cfg  entry=cluster|poll dst=plain|seek pre=<bytes> pos=<n> blob=<bytes> bo=<n> resolve=ok|err
   origin <resp,…>                      script of the next origin (`-` = empty); net | s<code> | c<k> | full | k<k> | fullc | e<k>
                                        (c/full: Content-Length announced; k/fullc: streamed chunked; e: delimited by connection close only)
   op download => <result> dst=<bytes> pos=<n> reqs=<n,…>
-/
open Driver KrakenModel.Poll

namespace C35

structure St where
  cfg : Cfg
  cluster : Bool            -- entry=cluster: the property is monitored
  dst0 : Dst
  resolveOk : Bool
  origins : List (List Resp) := []

def resp? (t : String) : Option Resp :=
  if t = "net" then some .netErr
  else if t = "full" then some (.full false)
  else if t = "fullc" then some (.full true)
  else match t.toList with
    | 's' :: ds => (String.ofList ds).toNat?.bind fun c => if c = 200 then none else some (.status c)
    | 'c' :: ds => (String.ofList ds).toNat?.map (.cut · false)
    | 'k' :: ds => (String.ofList ds).toNat?.map (.cut · true)
    | 'e' :: ds => (String.ofList ds).toNat?.map .eof
    | _ => none

def script? (t : String) : Option (List Resp) := (list? t).mapM resp?

def init (toks : List String) : Option St := do
  let entry ← kv? toks "entry"
  let cluster ← if entry = "cluster" then some true else if entry = "poll" then some false else none
  let kindT ← kv? toks "dst"
  let kind ← if kindT = "plain" then some DstKind.plain else if kindT = "seek" then some DstKind.seek else none
  let pre ← (kv? toks "pre").bind bytes?
  let pos ← (kv? toks "pos").bind nat?
  let blob ← (kv? toks "blob").bind bytes?
  let bo ← (kv? toks "bo").bind nat?
  let res ← kv? toks "resolve"
  let resolveOk ← if res = "ok" then some true else if res = "err" then some false else none
  if kind = .plain ∧ pos ≠ 0 then none
  pure { cfg := { guarded := cluster, bo, blob }, cluster, dst0 := { kind, data := pre, pos }, resolveOk }

def resultTok : Result → String
  | .ok => "ok"
  | .status c => s!"status:{c}"
  | .notFound => "notfound"
  | .unavailable => "unavailable"
  | .resolveErr => "resolveerr"

def reqCounts (n : Nat) (trace : List Nat) : List Nat := (List.range n).map fun i => trace.count i

def natList? (t : String) : Option (List Nat) := (list? t).mapM nat?

/-- responses consumed by the implementation according to its own request counts -/
def consumed (origins : List (List Resp)) (reqs : List Nat) : List Resp :=
  (origins.zip reqs).flatMap fun (o, c) => o.take c

def step (s : St) (kind : String) (args impl : List String) : Option (St × StepOut) :=
  match kind, args with
  | "origin", [t] => do
    let sc ← script? t
    pure ({ s with origins := s.origins ++ [sc] }, { branch := s!"origins.{s.origins.length + 1}" })
  | "op", ["download"] =>
    let (st, r) := download s.cfg s.dst0 (if s.resolveOk then some s.origins else none)
    let obs := [resultTok r, s!"dst={bytesTok st.dst.data}", s!"pos={st.dst.pos}",
      s!"reqs={listTok ((reqCounts s.origins.length st.trace).map toString)}"]
    -- the property's predicate on the implementation's answer
    let pf : List String :=
      if !s.cluster then [] else
      match impl with
      | "ok" :: rest =>
        let want := s.dst0.write s.cfg.blob
        let got := (kv? rest "dst").bind bytes?
        let reqs := ((kv? rest "reqs").bind natList?).getD []
        let used := consumed s.origins reqs
        -- a close-delimited body cut short cannot be told from a complete one by any HTTP client
        let shortEof := used.any fun r => match r with | .eof k => k < s.cfg.blob.length | _ => false
        let key1 := if shortEof then "close-delimited-short-body" else "ok-dst-not-blob-once"
        let key2 := if shortEof then "close-delimited-short-body" else "ok-without-delivery"
        (if got ≠ some want.data then
          [s!"side=impl key={key1} download succeeded but the destination holds {(got.map List.length).getD 0} bytes, exactly-once gives {want.data.length}"] else []) ++
        (if s.resolveOk ∧ !used.any (·.delivers s.cfg.blob.length) then
          [s!"side=impl key={key2} download succeeded although no contacted origin delivered the whole blob"] else [])
      | _ => []
    let kindT := match s.dst0.kind with | .plain => "plain" | .seek => "seek"
    let dirty : Bool := st.trace.length > 0 ∧ st.dst.data ≠ s.dst0.data ∧ r ≠ .ok
    let entryT := if s.cluster then "cluster" else "poll"
    let resT := ((resultTok r).splitOn ":").headD ""
    let dirtyT := if dirty then ".partial-left" else ""
    some (s, { obs, propfails := pf, branch := s!"{entryT}.{kindT}.{resT}{dirtyT}" })
  | _, _ => none

def machine : Machine := { σ := St, name := "poll", init := init, step := step }

end C35

def main (args : List String) : IO UInt32 := runMachines [C35.machine] args
