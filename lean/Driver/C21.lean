import Driver.Frame
import KrakenModel.Model.HashRing
/- Driver for C21: replays lib/hashring.ring transcripts (several ring objects per case = several
   "processes" that discovered the hosts in their own order).

   records (machine `ring`):
     op new <rid> <maxreplica> <members> <healthy> => <hash.Nodes labels | nil>
     op refresh <rid> <members> <healthy>          => <hash.Nodes labels | nil>
     tbl <shard> <addr=score> …                     Go's Score(shard) of the ring's own hrw nodes
     op loc <rid> <shard> => ok <addrs> | panic
     op members <rid> => <sorted addrs>
     op contains <rid> <addr> => 0|1

   The enumeration order of the hosts at a rebuild (Go map iteration) is a nondeterministic choice:
   the transcript carries it, the model checks it is a permutation of the new host list (or the
   unchanged old node list when the membership did not change) and follows it. -/
open Driver KrakenModel.Rendezvous KrakenModel.HashRing

namespace C21

structure Ring where
  r : Int                       -- MaxReplica after applyDefaults
  st : State String := {}

structure St where
  raw : Bool := false                                   -- cfg rawfilter: the scripted filter ignores the Filter contract
  rings : List (String × Ring) := []
  curShard : String := ""
  cur : List (String × Option Int) := []               -- last tbl row (none = NaN)
  ghost : Std.HashMap String (List String) := {}        -- shard|members|healthy|r ↦ implementation's locations

def sortStr (l : List String) : List String := (l.toArray.qsort (· < ·)).toList

def entry? (t : String) : Option (String × Option Int) :=
  match t.splitOn "=" with
  | [a, sc] => if sc = "nan" then some (a, none) else (sc.toInt?).map fun v => (a, some v)
  | _ => none

def isPerm (a b : List String) : Bool := sortStr a == sortStr b

/-- a shard id is four hex digits: decided from the INPUT token -/
def shardIsHex (t : String) : Bool := t.length == 4 && t.toList.all (fun c => (hexDigit? c).isSome)

def getRing (s : St) (rid : String) : Option Ring := (s.rings.find? (·.1 = rid)).map (·.2)

def setRing (s : St) (rid : String) (g : Ring) : St :=
  { s with rings := (rid, g) :: s.rings.filter (·.1 ≠ rid) }

/-- one Refresh on the model, following the implementation's enumeration order when admissible -/
def doRefresh (raw : Bool) (g : Ring) (members scripted : List String) (impl : List String) : Ring × StepOut :=
  let same := setEqual g.st.addrs members
  -- the scripted filter answers `scripted ∩ (its argument)`; Refresh must hand it the hosts just resolved
  let healthy := if raw then scripted else scripted.filter (members.contains ·)
  let implOrder : Option (List String) := match impl with
    | "nil" :: _ => none
    | t :: _ => some (list? t)
    | _ => none
  let implArg : Option (List String) := (kv? impl "filterarg").map list?
  let order := match implOrder with
    | some o => if isPerm o members then o else members
    | none => members
  let st' := refresh g.st members healthy order
  let obs := (if st'.hashSet then [listTok st'.nodes] else ["nil"]) ++ ["filterarg=" ++ listTok (sortStr members)]
  -- impl-side predicate: the ring's node set is exactly the current member set
  let pf := match implOrder with
    | some o => if !isPerm o members && members.eraseDups.length == members.length then
        [s!"side=impl key=ring-membership-mismatch hash nodes {listTok o} after Refresh to members {listTok members}"] else []
    | none => if !members.isEmpty then [s!"side=impl key=ring-membership-mismatch no hash after Refresh to members {listTok members}"] else []
  let pf := pf ++ (match implArg with
    | some a => if sortStr a ≠ sortStr members then
        [s!"side=impl key=filter-arg-not-current Refresh ran the health filter on {listTok (sortStr a)} while the host list resolves to {listTok (sortStr members)}"] else []
    | none => [])
  ({ g with st := st' }, { obs, branch := if same then "refresh.same" else "refresh.rebuild", propfails := pf })

def scoreOf (tbl : List (String × Option Int)) (a : String) : Int :=
  match tbl.find? (·.1 = a) with
  | some (_, some v) => v
  | _ => 0

def step (s : St) (kind : String) (args impl : List String) : Option (St × StepOut) :=
  match kind, args with
  | "op", ["new", rid, rt, ms, hs] => do
    let r ← rt.toInt?
    let (g, out) := doRefresh s.raw { r := effReplica r } (list? ms) (list? hs) impl
    pure (setRing s rid g, { out with branch := "new." ++ out.branch })
  | "op", ["refreshobs", rid, ms, hs] => do
    -- a Refresh observed from inside its health-check round (the harness judges the overlapping Locations calls:
    -- propfail lines); in the model Refresh publishes (addrs, hash, healthy) atomically
    let g ← getRing s rid
    let (g', out) := doRefresh s.raw g (list? ms) (list? hs) impl
    let during := (kv? impl "during").getD "0"
    pure (setRing s rid g', { out with obs := out.obs ++ ["during=" ++ during], branch := "refreshobs." ++ out.branch })
  | "op", ["refresh", rid, ms, hs] => do
    let g ← getRing s rid
    let (g', out) := doRefresh s.raw g (list? ms) (list? hs) impl
    pure (setRing s rid g', out)
  | "tbl", shard :: entries => do
    let es ← entries.mapM entry?
    pure ({ s with curShard := shard, cur := es }, { branch := "tbl" })
  | "op", ["conc", _, _, _] =>
    -- concurrent Locations callers compared with a sequentially used twin ring by the harness (propfail lines);
    -- the interleaved Refresh calls keep the membership, so the model state does not change
    some (s, { obs := ["ok"], branch := "conc" })
  | "op", ["members", rid] => do
    let g ← getRing s rid
    pure (s, { obs := [listTok (sortStr g.st.addrs)], branch := "members" })
  | "op", ["contains", rid, a] => do
    let g ← getRing s rid
    pure (s, { obs := [boolTok (g.st.addrs.contains a)], branch := "contains" })
  | "op", ["loc", rid, shard] => do
    let g ← getRing s rid
    if shard ≠ s.curShard then
      -- the tbl row carries Digest.ShardID() of the digest built from this shard prefix
      let pfs := [s!"side=impl key=shard-id-mismatch ShardID() of a digest starting with {shard} is {s.curShard}"]
      some (s, { obs := ["ok", "?shard"], branch := "loc.shard-mismatch", propfails := pfs }) else
    let members := g.st.addrs
    let healthy := g.st.healthy
    let r := g.r
    if members.any (fun a => (s.cur.find? (·.1 = a)).isNone) then
      some (s, { obs := ["ok", "?no-score-for-a-member"], branch := "loc.membership-differs" }) else
    let hasNaN := members.any (fun a => (s.cur.find? (·.1 = a)).map (·.2) == some none)
    let sc := scoreOf s.cur
    let tie := hasTie sc members
    let modelOut := ringLocations sc g.st r
    -- decided from the inputs only (non-empty duplicate-free member list, healthy ⊆ members, a 4-hex shard)
    let inDom := !members.isEmpty && healthy.all (members.contains ·) && shardIsHex shard
      && members.eraseDups.length == members.length
    let implLocs : Option (List String) := match impl with
      | ["ok", t] => some (list? t)
      | _ => none
    let modelObs := match modelOut with
      | .ok l => ["ok", listTok l]
      | .panic => ["panic"]
    match implLocs with
    | none => pure (s, { obs := modelObs, branch := "loc.nolist" })
    | some o =>
      let someHealthy := members.any (healthy.contains ·)
      let spec := specLocations (ordered sc members) healthy r
      let gk := s!"{shard}|{listTok (sortStr members)}|{listTok (sortStr healthy)}|{r}"
      let pf : List String :=
        if !inDom then [] else
        if hasNaN then [s!"side=impl key=nan-score Score({shard}) is NaN for a member of {listTok members}"] else
        (if tie then [s!"side=impl key=score-tie two members of {listTok members} have the same Score({shard})"] else []) ++
        (if o.isEmpty then [s!"side=impl key=empty-locations Locations({shard}) is empty for members {listTok members} healthy {listTok healthy}"] else []) ++
        (if o.any (!members.contains ·) then [s!"side=impl key=non-member Locations({shard}) = {listTok o}, members {listTok members}"] else []) ++
        (if someHealthy && o.any (!healthy.contains ·) then [s!"side=impl key=unhealthy-location Locations({shard}) = {listTok o}, healthy {listTok healthy}"] else []) ++
        (if o.length > max 1 r.toNat then [s!"side=impl key=too-many-replicas Locations({shard}) = {listTok o}, MaxReplica {r}"] else []) ++
        (if !tie && o ≠ spec then [s!"side=impl key=wrong-replica-set Locations({shard}) = {listTok o}, expected {listTok spec} (members {listTok members} healthy {listTok healthy} MaxReplica {r})"] else []) ++
        (match s.ghost[gk]? with
          | some p => if p ≠ o then [s!"side=impl key=host-order-dependent Locations({shard}) = {listTok o} here, {listTok p} on a ring with the same members/health"] else []
          | none => [])
      let ghost := if inDom && !hasNaN then s.ghost.insert gk o else s.ghost
      let follow := tie || hasNaN
      let br := if hasNaN then "loc.nan" else if tie then "loc.tie" else
        if !someHealthy then "loc.nohealthy" else
        if ((ordered sc members).take r.toNat).any (healthy.contains ·) then "loc.top" else "loc.next"
      let obs := if follow then ["ok", listTok o] else modelObs
      let branch := if inDom then br else br ++ ".outdom"
      pure ({ s with ghost := ghost }, { obs, branch, propfails := pf })
  | _, _ => none

def machine : Machine := { σ := St, name := "ring", init := fun cfg => some { raw := cfg.contains "rawfilter" }, step := step }

end C21

def main (args : List String) : IO UInt32 := runMachines [C21.machine] args
