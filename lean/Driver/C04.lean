import Driver.Frame
import KrakenModel.Model.AgentCrash
/-
  Driver for C04 (machine `ag`).  Records:
    cfg blob=<xhex> pl=<n> wps=<n> name=<hex digest> mi=<xhex> [crash=…]
    begin <op> | <result and state>            the operation whose crash points follow
    plan <call>…                               its recorded syscalls (`_last_access_time` payloads canonical)
    crash k=<n> ord=<files> at=<label> => fs=<tree> <restart: create result, state> | <w<i>=…> | <state>
    planchk =>                                 the plan comparison
    op create | write <i> <xhex> | restart | evict => <result> c=<complete> bits=<…> dl=<hex|-> ca=<hex|-> st=<hex|->
-/
open Driver KrakenModel.FS KrakenModel.AgentCrash

namespace C04

def nameTok : Name → String
  | .data => "data"
  | .lat => "_last_access_time"
  | .tmeta => "_torrentmeta"
  | .status => "_status"

def name? (t : String) : Option Name :=
  if t = "data" then some .data
  else if t = "_last_access_time" then some .lat
  else if t = "_torrentmeta" then some .tmeta
  else if t = "_status" then some .status
  else none

def pathTok (p : Path) : String := "/".intercalate p
def path? (t : String) : Path := (t.splitOn "/").filter (· ≠ "")

def file? (t : String) : Option (Path × Name) :=
  let p := path? t
  match p.getLast? with
  | none => none
  | some l => (name? l).map (p.dropLast, ·)

def fileTok (p : Path) (n : Name) : String := pathTok (p ++ [nameTok n])

def callTok : Call Name → String
  | .mkdir p => s!"mkdir:{pathTok p}"
  | .creat p n => s!"creat:{fileTok p n}"
  | .openCreat p n => s!"opencreat:{fileTok p n}"
  | .openTrunc p n => s!"opentrunc:{fileTok p n}"
  | .truncate p n len => s!"trunc:{fileTok p n}:{len}"
  | .pwrite p n off b => s!"pwrite:{fileTok p n}:{off}:{bytesTok b}"
  | .rename p n q m => s!"rename:{fileTok p n}:{fileTok q m}"
  | .renameDir p q => s!"rename:{pathTok p}:{pathTok q}"
  | .unlink p n => s!"unlink:{fileTok p n}"
  | .rmdir p => s!"rmdir:{pathTok p}"
  | .link p n q m => s!"link:{fileTok p n}:{fileTok q m}"

def sortStr (xs : List String) : List String := xs.mergeSort (fun a b => !decide (b < a))

/-- contents as the transcript shows them: a last access time is `LAT` (current), `OLD` or empty -/
def canonBytes (n : Name) (b : Bytes) : Bytes :=
  if n = .lat ∧ b ≠ [] ∧ b ≠ [76, 65, 84] then [79, 76, 68] else b

def treeToks (fs : FS Name) : List String :=
  sortStr (fs.dirs.flatMap fun (p, d) =>
    (if p = [] then [] else [s!"d:{pathTok p}"]) ++ d.map fun (n, b) => s!"f:{fileTok p n}:{bytesTok (canonBytes n b)}")

/-- an injective stand-in for the piece checksum (the harness only generates wrong payloads whose
CRC-32 differs from the right one) -/
def sumInj (b : Bytes) : Nat := b.foldl (fun acc x => acc * 257 + x + 1) 0

def resTok : Res → String
  | .ok => "ok" | .errMetainfo => "err-metainfo" | .errInit => "err-init" | .noTorrent => "notorrent"
  | .badIndex => "badindex" | .badLen => "badlen" | .complete => "complete" | .badSum => "badsum"
  | .errOther => "err-other"

def fileObs (fs : FS Name) (p : Path) (n : Name) : String :=
  match fs.file? p n with
  | some b => bytesTok b
  | none => "-"

def stateToks (cfg : Cfg) (m : Mem) (fs : FS Name) : List String :=
  (match m.tor with
   | some t => [s!"c={boolTok t.committed}",
       "bits=" ++ (if t.status.isEmpty then "-" else String.ofList (t.status.map fun b => if b then '1' else '0'))]
   | none => ["c=-", "bits=-"]) ++
  [s!"dl={fileObs fs (entryDir cfg false) .data}", s!"ca={fileObs fs (entryDir cfg true) .data}",
   s!"st={fileObs fs (entryDir cfg false) .status}"]

def op? (args : List String) : Option Op :=
  match args with
  | ["create"] => some .create
  | ["write", i, x] => do pure (.write (← i.toNat?) (← bytes? x))
  | ["restart"] => some .restart
  | ["evict"] => some .evict
  | _ => none

/-- removal order and sidecar copy order used by a recorded plan -/
def orderOf (plan : List String) : Order Name :=
  plan.foldl (fun o t =>
    match t.splitOn ":" with
    | ["unlink", p] => (match file? p with
        | some e => { o with files := o.files ++ [e] }
        | none => o)
    | ["rmdir", p] => { o with dirs := o.dirs ++ [path? p] }
    | _ => o) {}

def mdOrderOf (plan : List String) : List Name :=
  (plan.filterMap fun t =>
    match t.splitOn ":" with
    | _ :: p :: _ =>
      (match file? p with
       | some (dir, n) => if dir.head? = some "cache" ∧ n ≠ .data then some n else none
       | none => none)
    | _ => none).eraseDups

structure St where
  cfg : Cfg
  mon : Bool := true
  mem : Mem := {}
  fs : FS Name := initFS
  preMem : Mem := {}
  preFs : FS Name := initFS
  lastOp : Option Op := none
  lastName : String := ""
  realPlan : List String := []
  planBad : Bool := false
  planMsg : List String := []

def init (toks : List String) : Option St := do
  let blob ← bytes? ((kv? toks "blob").getD "x")
  let mi ← bytes? ((kv? toks "mi").getD "x")
  let n (k : String) (d : Nat) := ((kv? toks k).bind (·.toNat?)).getD d
  pure { cfg := { name := (kv? toks "name").getD "", blob, pl := n "pl" 2, wps := n "wps" 0, mi, lat := [76, 65, 84] },
         mon := (kv? toks "mon") ≠ some "0" }

def modelPlan (s : St) (o : Order Name) (mo : List Name) : List (Call Name) :=
  match s.lastOp with
  | some op => plan s.cfg sumInj o mo s.preMem s.preFs op
  | none => []

/-- the model's answer to the harness's recovery: a new process, CreateTorrent, then the missing
pieces with the right bytes -/
def recoverToks (cfg : Cfg) (fs : FS Name) : List String :=
  let fs0 := applyAll fs (restartPlan fs)
  let r := exec cfg sumInj {} [] {} fs0 .create
  let fs1 := applyAll fs0 r.calls
  if r.res ≠ .ok then resTok r.res :: stateToks cfg {} fs1 else
  let missing := match r.mem.tor with
    | some t => (List.range t.status.length).filter (fun i => !(t.status.getD i false))
    | none => []
  let (m2, fs2, wt) := missing.foldl (fun (acc : Mem × FS Name × List String) i =>
    let (m, fs, out) := acc
    let w := exec cfg sumInj {} [] m fs (.write i (pieceOf cfg i))
    (w.mem, applyAll fs w.calls, out ++ [s!"w{i}={resTok w.res}"])) (r.mem, fs1, [])
  resTok r.res :: stateToks cfg r.mem fs1 ++ ["|"] ++ wt ++ ["|"] ++ stateToks cfg m2 fs2

def splitBar (toks : List String) : List (List String) :=
  toks.foldr (fun t acc => if t = "|" then [] :: acc else
    match acc with
    | h :: r => (t :: h) :: r
    | [] => [[t]]) [[]]

/-- the property on what the implementation reported: complete ⇒ the cached bytes are the blob; the
cache never holds other bytes -/
def stateMon (cfg : Cfg) (toks : List String) (pf : String → String → String) : List String :=
  let blobTok := bytesTok cfg.blob
  let c := (kv? toks "c").getD "-"
  let ca := (kv? toks "ca").getD "-"
  let bits := ((kv? toks "bits").getD "-").toList
  let dl := (bytes? ((kv? toks "dl").getD "-")).getD []
  -- a piece the (uncommitted) torrent reports complete is served to other peers: its bytes must be the blob's
  let badPieces := (List.range bits.length).filter fun i =>
    bits.getD i '0' = '1' ∧ (dl.drop (i * cfg.pl)).take cfg.pl ≠ pieceOf cfg i
  (if c = "1" ∧ ca ≠ blobTok then [pf "complete-wrong-bytes" s!"the torrent reports complete but the cache holds {ca}"] else []) ++
  (if ca ≠ "-" ∧ ca ≠ blobTok then [pf "cache-wrong-bytes" s!"the cache directory holds {ca}"] else []) ++
  (if c = "0" ∧ !badPieces.isEmpty then [pf "piece-wrong-bytes" s!"pieces {badPieces} are reported complete, the blob file holds {bytesTok dl}"] else [])

def crashMon (cfg : Cfg) (sections : List (List String)) (at_ : String) : List String :=
  let pf (key detail : String) := s!"side=impl key={key}.{at_} {detail}"
  let blobTok := bytesTok cfg.blob
  let s0 := (sections.getD 0 []).drop 1      -- after fs=
  match s0 with
  | [] => []
  | r :: st =>
    if r.startsWith "planerr" then [] else
    if r ≠ "ok" then [pf "restart-failed" s!"CreateTorrent after the restart: {r}"] else
    stateMon cfg st pf ++
    ((sections.getD 1 []).filter (fun t => !t.endsWith "=ok")).map (fun t => pf "finish-failed" s!"writing the missing pieces: {t}") ++
    (let fin := sections.getD 2 []
     stateMon cfg fin pf ++
     (if (kv? fin "c").getD "-" ≠ "1" then [pf "finish-failed" "all pieces written, the torrent is not complete"] else []))

def addDirs (fs : FS Name) (p : Path) : FS Name :=
  (List.range p.length).foldl (fun fs i =>
    let q := p.take (i + 1)
    if (fs.dir? q).isSome then fs else fs.setDir q []) fs

def tree? (toks : List String) : Option (FS Name) :=
  toks.foldlM (fun fs t =>
    match t.splitOn ":" with
    | ["d", p] => some (addDirs fs (path? p))
    | ["f", p, x] => do
      let (dir, n) ← file? p
      let b ← bytes? x
      let fs := addDirs fs dir
      let d ← fs.dir? dir
      pure (fs.setDir dir (aset d n b))
    | _ => none) ({} : FS Name)

def step (s : St) (kind : String) (args impl : List String) : Option (St × StepOut) :=
  match kind with
  | "fs" => do
    -- the tree the first process starts on (NewCADownloadStore then creates the two state directories)
    let fs ← tree? args
    pure ({ s with mem := {}, fs := applyAll fs (restartPlan fs) }, { branch := "fs" })
  | "begin" => do
    let opToks := args.takeWhile (· ≠ "|")
    let op ← op? opToks
    pure ({ s with preMem := s.mem, preFs := s.fs, lastOp := some op, lastName := opToks.headD "", realPlan := [],
                   planBad := false, planMsg := [] }, { branch := "begin" })
  | "op" => do
    let op ← op? args
    let r := exec s.cfg sumInj {} [] s.mem s.fs op
    let fs' := applyAll s.fs r.calls
    let pf (key detail : String) := s!"side=impl key={key}.{args.headD ""} {detail}"
    pure ({ s with mem := r.mem, fs := fs' },
      { obs := resTok r.res :: stateToks s.cfg r.mem fs', branch := s!"{args.headD ""}.{resTok r.res}",
        propfails := if s.mon then stateMon s.cfg (impl.drop 1) pf else [] })
  | "plan" =>
    let p := modelPlan s (orderOf args) (mdOrderOf args)
    let mine := p.map callTok ++ (if allOk s.preFs p then [] else ["model-call-fails"])
    some ({ s with realPlan := args, planBad := mine ≠ args, planMsg := mine }, { branch := s!"plan.{s.lastName}" })
  | "planchk" =>
    some (s, { obs := if s.planBad then "plan-differs" :: "model:" :: s.planMsg ++ ("recorded:" :: s.realPlan) else [],
               branch := if s.planBad then "plan.differs" else "plan.same" })
  | "crash" => do
    let k ← (kv? args "k").bind (·.toNat?)
    let ordToks := list? ((kv? args "ord").getD "-")
    let real := orderOf s.realPlan
    let o : Order Name := { files := ordToks.filterMap file? ++ real.files, dirs := real.dirs }
    let p := modelPlan s o (mdOrderOf s.realPlan)
    let fsK := applyPrefix k p s.preFs
    let implFs := impl.headD ""
    let implTree := sortStr (list? ((implFs.drop 3).toString))
    let mine := treeToks fsK
    let fsTok := if implFs.startsWith "fs=" ∧ implTree = mine then implFs else s!"fs={listTok mine}"
    let obs := if s.planBad then impl else fsTok :: recoverToks s.cfg fsK
    let at_ := s!"{s.lastName}.{(kv? args "at").getD "?"}"
    pure (s, { obs, branch := s!"crash.{s.lastName}", propfails := if s.mon then crashMon s.cfg (splitBar impl) at_ else [] })
  | _ => none

def machine : Machine := { σ := St, name := "ag", init := init, step := step }

end C04

def main (args : List String) : IO UInt32 := runMachines [C04.machine] args
