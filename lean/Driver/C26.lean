import Driver.Frame
import KrakenModel.Model.Handout
/- Driver for C26: replays announce sequences against the handout model (peer store of C27 +
   getPeerHandout + SortPeers) and monitors the property predicates on the responses.

   cfg limit=<int> policy=<default|completeness> origins=<info,…|->
   op ann h<i> p<j> ip<k> <port> <complete> <origin-flag> <v1|v2> => 200 <ordered peers> | 500 | <status>
   peers are `p<j>:ip<k>:<port>:<origin>:<complete>`; origin peers are named `o<j>` (id 100+j). -/
open Driver KrakenModel.PeerStore KrakenModel.Handout

namespace C26

structure St where
  m : State
  limit : Int
  pol : Policy
  origins : List Info
  anns : List ((Nat × Nat) × Info) := []   -- monitor ghost: latest announcement per torrent and peer

def ipIdx? (t : String) : Option Nat :=
  match t.toList with
  | 'i' :: 'p' :: ds => (String.ofList ds).toNat?
  | _ => none

def peerId? (t : String) : Option Nat :=
  match t.toList with
  | 'p' :: ds => if ds.isEmpty then none else (String.ofList ds).toNat?
  | 'o' :: ds => if ds.isEmpty then none else (String.ofList ds).toNat?.map (· + 100)
  | _ => none

def hashIdx? (t : String) : Option Nat :=
  match t.toList with
  | 'h' :: ds => if ds.isEmpty then none else (String.ofList ds).toNat?
  | _ => none

def idTok (id : Nat) : String := if id ≥ 100 then s!"o{id - 100}" else s!"p{id}"

def infoTok (x : Info) : String :=
  s!"{idTok x.id}:ip{x.ip}:{x.port}:{boolTok x.origin}:{boolTok x.complete}"

def info? (t : String) : Option Info :=
  match t.splitOn ":" with
  | [p, ip, port, o, c] => do
    let id ← peerId? p
    let ipn ← ipIdx? ip
    let pt ← port.toNat?
    let ob ← bool? o
    let cb ← bool? c
    pure ⟨id, ipn, pt, ob, cb⟩
  | _ => none

def infos? (t : String) : Option (List Info) :=
  let xs := (list? t).map info?
  if xs.any (·.isNone) then none else some (xs.filterMap id)

def nodupIds (l : List Info) : Bool := (l.map (·.id)).eraseDups.length = l.length

def sameSet (a b : List Info) : Bool := a.length = b.length ∧ a.all (· ∈ b) ∧ b.all (· ∈ a)

/-- is `out` a possible response body for an incomplete announcer `src`, given the stored peers? -/
def admissible (pol : Policy) (limit : Int) (stored : List Info) (origins : List Info) (src : Info)
    (out : List Info) : Bool :=
  let agents := out.filter (fun x => !x.origin)
  let orig := out.filter (fun x => x.origin)
  let m := takeCount stored.length limit
  let lenOk := if m = stored.length then
      -- everything stored is picked; the announcer is stored (it has just announced) and dropped
      agents.length + (if stored.any (·.id = src.id) then 1 else 0) = stored.length
    else agents.length = m ∨ (m ≥ 1 ∧ agents.length + 1 = m ∧ stored.any (·.id = src.id))
  nodupIds out ∧ sameSet orig (origins.filter (fun o => o.id ≠ src.id)) ∧
  agents.all (fun x => x ∈ stored) ∧ agents.all (fun x => x.id ≠ src.id) ∧ lenOk ∧
  decide (Sorted pol out)

def monitor (s : St) (h : Nat) (src : Info) (out : List Info) : List String :=
  let lim := max (effLimit s.limit) 0
  let agents := out.filter (fun x => !x.origin)
  (if out.any (·.id = src.id) then
    [s!"side=impl key=announcer-in-handout announce of {infoTok src} for h{h} was answered with the announcer itself: {out.map infoTok}"] else []) ++
  (if !nodupIds out then [s!"side=impl key=duplicate-peer handout lists a peer twice: {out.map infoTok}"] else []) ++
  (if (agents.length : Int) > lim ∨ (out.length : Int) > lim + s.origins.length then
    [s!"side=impl key=too-many handout of {out.length} peers ({agents.length} agents), limit {s.limit}, {s.origins.length} origins"] else []) ++
  (if src.complete ∧ !out.isEmpty then [s!"side=impl key=complete-nonempty completed announcer got {out.map infoTok}"] else []) ++
  (if !decide (Sorted s.pol out) then [s!"side=impl key=unsorted handout not ordered by priority: {out.map infoTok}"] else []) ++
  (out.filterMap fun x =>
    if x.origin then
      if x ∈ s.origins then none else some s!"side=impl key=unknown-peer handout lists origin {infoTok x} which the origin store does not have"
    else match alook s.anns (h, x.id) with
      | some a => if a = x then none else some s!"side=impl key=stale-announcement handout lists {infoTok x}, latest announcement is {infoTok a}"
      | none => some s!"side=impl key=unknown-peer handout lists {infoTok x} which never announced for h{h}")

def step (s : St) (kind : String) (args impl : List String) : Option (St × StepOut) :=
  if kind ≠ "op" then none else
  match args with
  | ["ann", ht, pt, ipt, portt, ct, ot, vt] => do
    let h ← hashIdx? ht
    let id ← peerId? pt
    let ip ← ipIdx? ipt
    let port ← portt.toNat?
    let c ← bool? ct
    let _o ← bool? ot
    if vt ≠ "v1" ∧ vt ≠ "v2" then none else
    let src : Info := ⟨id, ip, port, false, c⟩
    let m := (updateSeq 0 h id ⟨ip, port, c⟩).foldl KrakenModel.PeerStore.step s.m
    let s' := { s with m := m, anns := ((h, id), src) :: s.anns }
    let stored := (peersOf m h).map Entry.info
    let lim := effLimit s.limit
    let picked := takeCount stored.length lim
    -- what the implementation answered
    let implOut : Option (List Info) := match impl with
      | ["200", l] => infos? l
      | _ => none
    let pf := match implOut with
      | some out => monitor s' h src out
      | none => []
    if c then
      some (s', { obs := ["200", "-"], branch := "ann.complete", propfails := pf })
    else if picked = 0 ∧ s.origins.isEmpty then
      some (s', { obs := ["500"], branch := "ann.no-peers", propfails := pf })
    else
      let br := if picked < stored.length then "ann.handout.limited" else
        if s.origins.isEmpty then "ann.handout.agents" else "ann.handout.with-origins"
      match implOut with
      | some out =>
        if admissible s.pol lim stored s.origins src out then
          some (s', { obs := impl, branch := br, propfails := pf })
        else
          let want := sortStable s.pol (candidates src stored s.origins)
          some (s', { obs := ["200", "inadmissible;one-admissible-answer:" ++ listTok (want.map infoTok)], branch := br, propfails := pf })
      | none => some (s', { obs := ["200", "<handout>"], branch := br, propfails := pf })
  | _ => none

def init (cfg : List String) : Option St := do
  let limit ← match kv? cfg "limit" with
    | some t => t.toInt?
    | none => some 0
  let pol ← match kv? cfg "policy" with
    | some "completeness" => some Policy.completeness
    | some "default" => some Policy.default
    | none => some Policy.default
    | _ => none
  let origins ← match kv? cfg "origins" with
    | some t => infos? t
    | none => some []
  if origins.any (fun o => !o.origin ∨ o.id < 100) ∨ !nodupIds origins then none else
  pure { m := KrakenModel.PeerStore.init 1000000, limit, pol, origins }

def machine : Machine := { σ := St, name := "ho", init := init, step := step }

end C26

def main (args : List String) : IO UInt32 := runMachines [C26.machine] args
