import Driver.Frame
import KrakenModel.Model.Handout
/- Driver for C26: replays announce sequences against the handout model (peer store of C27 +
   getPeerHandout + SortPeers) and monitors the property predicates on the responses.

   cfg limit=<int> policy=<default|completeness> origins=<info,…|->
   op ann h<i> p<j> ip<k> <port> <complete> <origin-flag> <v1|v2> => 200 <ordered peers> | 500 | <status>
   op sann h<i> p<j> ip<k> <port> <complete> <origin-flag> <v1|v2> <peers> => …   the same request against a stub
        peer store whose GetPeers answers with the scripted <peers> (any ids, endpoints, duplicates)
   peers are `p<j>:ip<k>:<port>:<origin>:<complete>`; origin peers are named `o<j>` (id 100+j).
   machine `pp` (peerhandoutpolicy, in-package):
   one prio <policy> <origin> <complete> => <priority>
   one sort <policy> <src> <peers> => <ordered result of SortPeers> -/
open Driver KrakenModel.PeerStore KrakenModel.Handout

namespace C26

structure St where
  m : State
  limit : Int
  pol : Policy
  origins : List Info
  anns : List ((Nat × Nat) × Info) := []   -- monitor ghost: latest announcement per torrent and peer

def ipIdx? (t : String) : Option Nat :=
  match t.toList with
  | 'i' :: 'p' :: ds => (String.ofList ds).toNat?
  | _ => none

def peerId? (t : String) : Option Nat :=
  match t.toList with
  | 'p' :: ds => if ds.isEmpty then none else (String.ofList ds).toNat?
  | 'o' :: ds => if ds.isEmpty then none else (String.ofList ds).toNat?.map (· + 100)
  | _ => none

def hashIdx? (t : String) : Option Nat :=
  match t.toList with
  | 'h' :: ds => if ds.isEmpty then none else (String.ofList ds).toNat?
  | _ => none

def idTok (id : Nat) : String := if id ≥ 100 then s!"o{id - 100}" else s!"p{id}"

def infoTok (x : Info) : String :=
  s!"{idTok x.id}:ip{x.ip}:{x.port}:{boolTok x.origin}:{boolTok x.complete}"

def info? (t : String) : Option Info :=
  match t.splitOn ":" with
  | [p, ip, port, o, c] => do
    let id ← peerId? p
    let ipn ← ipIdx? ip
    let pt ← port.toNat?
    let ob ← bool? o
    let cb ← bool? c
    pure ⟨id, ipn, pt, ob, cb⟩
  | _ => none

def infos? (t : String) : Option (List Info) :=
  let xs := (list? t).map info?
  if xs.any (·.isNone) then none else some (xs.filterMap id)

def nodupIds (l : List Info) : Bool := (l.map (·.id)).eraseDups.length = l.length

def sameSet (a b : List Info) : Bool := a.length = b.length ∧ a.all (· ∈ b) ∧ b.all (· ∈ a)

def permOf (a b : List Info) : Bool := a.length = b.length ∧ a.all (fun x => a.count x = b.count x)

/-- is `out` a possible result of `SortPeers(src, peers ++ origins)`? -/
def admissibleFor (pol : Policy) (src : Info) (peers origins out : List Info) : Bool :=
  permOf out (candidates src peers origins) ∧ decide (Sorted pol out)

/-- is `out` a possible response body for an incomplete announcer `src`, given the stored peers and
the limit? When the limit cuts the store's answer the pick is random: necessary conditions only. -/
def admissible (pol : Policy) (limit : Int) (stored : List Info) (origins : List Info) (src : Info)
    (out : List Info) : Bool :=
  let m := takeCount stored.length limit
  if m = stored.length then admissibleFor pol src stored origins out
  else
    let originIds := origins.map (·.id)
    let nonOrigin := out.filter (fun x => x.id ∉ originIds)
    let overlap := (stored.filter (fun x => x.id ∈ originIds)).length
    nodupIds out ∧ decide (Sorted pol out) ∧ out.all (fun x => x ∈ stored ∨ x ∈ origins) ∧
    out.all (fun x => x.id ≠ src.id) ∧
    (originIds.all (fun i => i = src.id ∨ out.any (·.id = i))) ∧
    nonOrigin.length ≤ m ∧ m ≤ nonOrigin.length + 1 + overlap

/-- predicates of the property on a response; `known` = what the stores hold (none: scripted store) -/
def monitor (s : St) (h : Nat) (src : Info) (out : List Info) (scripted : Option (List Info)) : List String :=
  let lim := max (effLimit s.limit) 0
  let originIds := s.origins.map (·.id)
  let agents := out.filter (fun x => x.id ∉ originIds)
  (if out.any (·.id = src.id) then
    [s!"side=impl key=announcer-in-handout announce of {infoTok src} for h{h} was answered with the announcer itself: {out.map infoTok}"] else []) ++
  (if !nodupIds out then [s!"side=impl key=duplicate-peer handout lists a peer id twice: {out.map infoTok}"] else []) ++
  (if scripted.isNone ∧ ((agents.length : Int) > lim ∨ (out.length : Int) > lim + s.origins.length) then
    [s!"side=impl key=too-many handout of {out.length} peers ({agents.length} agents), limit {s.limit}, {s.origins.length} origins"] else []) ++
  (if src.complete ∧ !out.isEmpty then [s!"side=impl key=complete-nonempty completed announcer got {out.map infoTok}"] else []) ++
  (if !decide (Sorted s.pol out) then [s!"side=impl key=unsorted handout not ordered by priority: {out.map infoTok}"] else []) ++
  (out.filterMap fun x =>
    if x ∈ s.origins then none
    else match scripted with
      | some l => if x ∈ l then none else some s!"side=impl key=unknown-peer handout lists {infoTok x} which neither store returned"
      | none => match alook s.anns (h, x.id) with
        | some a => if a = x then none else some s!"side=impl key=stale-announcement handout lists {infoTok x}, latest announcement is {infoTok a}"
        | none => some s!"side=impl key=unknown-peer handout lists {infoTok x} which never announced for h{h}")

def step (s : St) (kind : String) (args impl : List String) : Option (St × StepOut) :=
  if kind ≠ "op" then none else
  match args with
  | ["ann", ht, pt, ipt, portt, ct, ot, vt] => do
    let h ← hashIdx? ht
    let id ← peerId? pt
    let ip ← ipIdx? ipt
    let port ← portt.toNat?
    let c ← bool? ct
    let _o ← bool? ot
    if vt ≠ "v1" ∧ vt ≠ "v2" then none else
    let src : Info := ⟨id, ip, port, false, c⟩
    let m := (updateSeq 0 h id ⟨ip, port, c⟩).foldl KrakenModel.PeerStore.step s.m
    let s' := { s with m := m, anns := ((h, id), src) :: s.anns }
    let stored := (peersOf m h).map Entry.info
    let lim := effLimit s.limit
    let picked := takeCount stored.length lim
    -- what the implementation answered
    let implOut : Option (List Info) := match impl with
      | ["200", l] => infos? l
      | _ => none
    let pf := match implOut with
      | some out => monitor s' h src out none
      | none => []
    if c then
      some (s', { obs := ["200", "-"], branch := "ann.complete", propfails := pf })
    else if picked = 0 ∧ s.origins.isEmpty then
      some (s', { obs := ["500"], branch := "ann.no-peers", propfails := pf })
    else
      let br := (if picked < stored.length then "ann.handout.limited" else
        if s.origins.isEmpty then "ann.handout.agents" else "ann.handout.with-origins") ++
        (if picked + s.origins.length ≥ 14 then ".13plus" else "")
      match implOut with
      | some out =>
        if admissible s.pol lim stored s.origins src out then
          some (s', { obs := impl, branch := br, propfails := pf })
        else
          let want := sortStable s.pol (candidates src stored s.origins)
          some (s', { obs := ["200", "inadmissible;one-admissible-answer:" ++ listTok (want.map infoTok)], branch := br, propfails := pf })
      | none => some (s', { obs := ["200", "<handout>"], branch := br, propfails := pf })
  | ["sann", ht, pt, ipt, portt, ct, ot, vt, lt] => do
    let h ← hashIdx? ht
    let id ← peerId? pt
    let ip ← ipIdx? ipt
    let port ← portt.toNat?
    let c ← bool? ct
    let _o ← bool? ot
    if vt ≠ "v1" ∧ vt ≠ "v2" then none else
    let peers ← infos? lt
    let src : Info := ⟨id, ip, port, false, c⟩
    let implOut : Option (List Info) := match impl with
      | ["200", l] => infos? l
      | _ => none
    let pf := match implOut with
      | some out => monitor s h src out (some peers)
      | none => []
    let dupIn := !nodupIds (peers ++ s.origins)
    let selfIn := (peers ++ s.origins).any (·.id = id)
    let br := "sann" ++ (if c then ".complete" else "") ++ (if selfIn then ".announcer-listed" else "") ++ (if dupIn then ".duplicate-ids" else "") ++
      (if (candidates src peers s.origins).length ≥ 13 then ".13plus" else "")
    match respond src peers s.origins (sortStable s.pol (candidates src peers s.origins)) with
    | .noPeers => some (s, { obs := ["500"], branch := "sann.no-peers", propfails := pf })
    | .handout want =>
      if c then some (s, { obs := ["200", "-"], branch := br, propfails := pf }) else
      match implOut with
      | some out =>
        if admissibleFor s.pol src peers s.origins out then some (s, { obs := impl, branch := br, propfails := pf })
        else some (s, { obs := ["200", "inadmissible;one-admissible-answer:" ++ listTok (want.map infoTok)], branch := br, propfails := pf })
      | none => some (s, { obs := ["200", listTok (want.map infoTok)], branch := br, propfails := pf })
  | _ => none

def init (cfg : List String) : Option St := do
  let limit ← match kv? cfg "limit" with
    | some t => t.toInt?
    | none => some 0
  let pol ← match kv? cfg "policy" with
    | some "completeness" => some Policy.completeness
    | some "default" => some Policy.default
    | none => some Policy.default
    | _ => none
  let origins ← match kv? cfg "origins" with
    | some t => infos? t
    | none => some []
  if origins.any (fun o => !o.origin) then none else
  pure { m := KrakenModel.PeerStore.init 1000000, limit, pol, origins }

def machine : Machine := { σ := St, name := "ho", init := init, step := step }

/-! ### peerhandoutpolicy in isolation -/

def pol? (t : String) : Option Policy :=
  if t = "completeness" then some .completeness else if t = "default" then some .default else none

def ppStep (_ : Unit) (kind : String) (args impl : List String) : Option (Unit × StepOut) :=
  if kind ≠ "one" then none else
  match args with
  | ["prio", pt, ot, ct] => do
    let pol ← pol? pt
    let o ← bool? ot
    let c ← bool? ct
    let want := prio pol ⟨0, 0, 0, o, c⟩
    let pf := if impl ≠ [toString want] then
      [s!"side=impl key=wrong-priority assignPriority({pt}, origin={ot}, complete={ct}) = {impl}, the configured order needs {want}"] else []
    some ((), { obs := [toString want], branch := s!"prio.{pt}", propfails := pf })
  | ["sort", pt, st, lt] => do
    let pol ← pol? pt
    let src ← info? st
    let peers ← infos? lt
    let out? := match impl with | [l] => infos? l | _ => none
    let ms : St := { m := KrakenModel.PeerStore.init 1, limit := 0, pol := pol, origins := [] }
    let pf := match out? with
      | some out => monitor ms 0 { src with complete := false } out (some peers)  -- SortPeers itself does not short-circuit
      | none => []
    let want := sortStable pol (candidates src peers [])
    let br := "sort" ++ (if want.length ≥ 13 then ".13plus" else "") ++ (if !nodupIds peers then ".duplicate-ids" else "") ++
      (if peers.any (·.id = src.id) then ".announcer-listed" else "")
    match out? with
    | some out =>
      if admissibleFor pol src peers [] out then some ((), { obs := impl, branch := br, propfails := pf })
      else some ((), { obs := ["inadmissible;one-admissible-answer:" ++ listTok (want.map infoTok)], branch := br, propfails := pf })
    | none => some ((), { obs := [listTok (want.map infoTok)], branch := br, propfails := pf })
  | _ => none

def ppMachine : Machine := { σ := Unit, name := "pp", init := fun _ => some (), step := ppStep }

end C26

def main (args : List String) : IO UInt32 := runMachines [C26.machine, C26.ppMachine] args
