import Driver.Frame
import KrakenModel.Model.ClusterSample
/- Driver for C25.  Three machines, all with self-contained `one` records:

     sample  one sample <n> <set> => <result sorted> recv=<len(receiver) afterwards>
     bloc    one locations <hosts> <host=o|e …as one list token> => <ok|err|empty> <contacted in order>
     tagcc   one <do|once> <method> <hosts> <host=o|n|e list> => <ok|neterr|err|nohosts> <contacted in order> <failed sorted>

   Which hosts a map iteration yields first is the implementation's nondeterministic choice: the
   driver validates that the observed choice is one the model allows (some enumeration of the host
   set) and follows it; the property predicates (bounded, distinct, current members) are evaluated
   on the implementation's observation directly. -/
open Driver KrakenModel.ClusterSample

namespace C25

def sortStr (l : List String) : List String := (l.toArray.qsort (· < ·)).toList

def outcomes? (t : String) : Option (List (String × Outcome)) :=
  (list? t).mapM fun e =>
    match e.splitOn "=" with
    | [h, "o"] => some (h, Outcome.ok)
    | [h, "n"] => some (h, Outcome.netErr)
    | [h, "e"] => some (h, Outcome.otherErr)
    | _ => none

def outcomeOf (tbl : List (String × Outcome)) (h : String) : Outcome :=
  match tbl.find? (·.1 = h) with
  | some (_, o) => o
  | none => .otherErr

/-- predicates of the property on one observed request -/
def boundMonitors (what : String) (hosts contacted : List String) (bound : Nat) : List String :=
  (if contacted.length > bound then [s!"side=impl key=too-many-hosts {what} contacted {contacted.length} hosts ({listTok contacted}), bound {bound}"] else []) ++
  (if contacted.any (!hosts.contains ·) then [s!"side=impl key=contacted-non-member {what} contacted {listTok contacted}, current hosts {listTok hosts}"] else []) ++
  (if contacted.eraseDups.length ≠ contacted.length then [s!"side=impl key=contacted-twice {what} contacted {listTok contacted}"] else [])

/-! #### sample -/
def stepSample (_ : Unit) (kind : String) (args impl : List String) : Option (Unit × StepOut) :=
  match kind, args with
  | "one", ["sample", nt, st] => do
    let n ← nt.toInt?
    let hosts := list? st
    let want := if n < 0 then hosts.length else min n.toNat hosts.length
    let canon := sample n (sortStr hosts)
    let implRes : Option (List String) := match impl with
      | [rt, _] => some (list? rt)
      | _ => none
    let recvTok := s!"recv={hosts.length}"
    match implRes with
    | none => pure ((), { obs := [listTok canon, recvTok], branch := "sample.noobs" })
    | some res =>
      let okMembers := res.all (hosts.contains ·) && res.eraseDups.length == res.length
      let pf :=
        (if res.length ≠ want then [s!"side=impl key=sample-size Sample({n}) of {hosts.length} hosts returned {res.length} elements, want {want}"] else []) ++
        (if !okMembers then [s!"side=impl key=sample-not-member Sample({n}) returned {listTok res} from {listTok hosts}"] else [])
      let obs := if pf.isEmpty then [listTok (sortStr res), recvTok] else [listTok canon, recvTok]
      let br := if n < 0 then "sample.negative" else if n.toNat ≥ hosts.length then "sample.whole" else if n = 0 then "sample.zero" else "sample.strict"
      pure ((), { obs, branch := br, propfails := if n < 0 then [] else pf })
  | _, _ => none

def sampleMachine : Machine := { σ := Unit, name := "sample", init := fun _ => some (), step := stepSample }

/-! #### blobclient.Locations -/
def stepBloc (_ : Unit) (kind : String) (args impl : List String) : Option (Unit × StepOut) :=
  match kind, args with
  | "one", ["locations", ht, ot] => do
    let hosts := list? ht
    let tbl ← outcomes? ot
    let oc := fun (_ : Nat) (h : String) => outcomeOf tbl h
    match impl with
    | [res, ct] =>
      let contacted := list? ct
      -- follow the implementation's enumeration when it is one the model allows:
      -- distinct current hosts, at most min(3, n) of them
      let admissible := contacted.all (hosts.contains ·) && contacted.eraseDups.length == contacted.length
        && contacted.length ≤ min 3 hosts.length
      let rest := hosts.filter (!contacted.contains ·)
      let enum1 := if admissible then contacted ++ rest else sortStr hosts
      let run := locations oc enum1 id
      -- the implementation may have sampled hosts it never reached (stopped at a success): the model
      -- run over `contacted ++ rest` contacts exactly `contacted` iff the stopping rule agrees
      let resTok := match run.result with
        | none => "empty"
        | some .ok => "ok"
        | some _ => "err"
      let pf := boundMonitors "blobclient.Locations" hosts contacted 3
      let br := match run.result with
        | none => "locations.empty"
        | some .ok => s!"locations.ok.after{run.contacted.length}"
        | some _ => s!"locations.gaveup.after{run.contacted.length}"
      let _ := res
      pure ((), { obs := [resTok, listTok run.contacted], branch := br, propfails := pf })
    | _ => none
  | _, _ => none

def blocMachine : Machine := { σ := Unit, name := "bloc", init := fun _ => some (), step := stepBloc }

/-! #### tagclient cluster client -/
def stepTag (_ : Unit) (kind : String) (args impl : List String) : Option (Unit × StepOut) :=
  match kind, args with
  | "one", [mode, method, ht, ot] => do
    if mode ≠ "do" ∧ mode ≠ "once" then none else
    let hosts := list? ht
    let tbl ← outcomes? ot
    let oc := fun (_ : Nat) (h : String) => outcomeOf tbl h
    match impl with
    | [_, ct, _] =>
      let contacted := list? ct
      let bound := if mode = "once" then 1 else 3
      let admissible := contacted.all (hosts.contains ·) && contacted.eraseDups.length == contacted.length
        && contacted.length ≤ min bound hosts.length
      let rest := hosts.filter (!contacted.contains ·)
      let enum1 := if admissible then contacted ++ rest else sortStr hosts
      let run := if mode = "once" then (if method = "CheckReadiness" then checkReadiness oc enum1 id else clusterDoOnce oc enum1 id) else clusterDo oc enum1 id
      let resTok := match run.result with
        | none => "nohosts"
        | some .ok => "ok"
        | some .netErr => "neterr"
        | some .otherErr => "err"
      let pf := boundMonitors s!"tagclient.{method}" hosts contacted bound ++
        (if mode = "once" ∧ !hosts.isEmpty ∧ contacted.length ≠ 1 then
          [s!"side=impl key=once-not-one tagclient.{method} (single attempt) contacted {listTok contacted}"] else [])
      let br := s!"{mode}.{resTok}.after{run.contacted.length}"
      pure ((), { obs := [resTok, listTok run.contacted, listTok (sortStr run.failed)], branch := br, propfails := pf })
    | _ => none
  | _, _ => none

def tagMachine : Machine := { σ := Unit, name := "tagcc", init := fun _ => some (), step := stepTag }

end C25

def main (args : List String) : IO UInt32 := runMachines [C25.sampleMachine, C25.blocMachine, C25.tagMachine] args
