import Driver.Frame
import KrakenModel.Model.ClusterSample
/- Driver for C25.  Three machines, all with self-contained `one` records:

     sample  one sample <n> <set> => <result sorted> recv=<len(receiver) afterwards>
     bloc    one locations <hosts> <host=o|e …as one list token> => <ok|err|empty> <contacted in order>
     tagcc   one <do|once> <method> <hosts> <host=o|n|e list> => <ok|neterr|err|nohosts> <contacted in order> <failed sorted>

   Which hosts a map iteration yields first is the implementation's nondeterministic choice: the
   driver validates that the observed choice is one the model allows (some enumeration of the host
   set) and follows it; the property predicates (bounded, distinct, current members) are evaluated
   on the implementation's observation directly. -/
open Driver KrakenModel.ClusterSample

namespace C25

def sortStr (l : List String) : List String := (l.toArray.qsort (· < ·)).toList

def outcomes? (t : String) : Option (List (String × Outcome)) :=
  (list? t).mapM fun e =>
    match e.splitOn "=" with
    | [h, "o"] => some (h, Outcome.ok)
    | [h, "n"] => some (h, Outcome.netErr)
    | [h, "e"] => some (h, Outcome.otherErr)
    | [h, "r"] => some (h, Outcome.otherErr)     -- a retryable HTTP status (429 / 502 / 503 / 504): still one failed attempt
    | [h, "f"] => some (h, Outcome.otherErr)     -- a non-retryable HTTP status (404 / 500)
    | _ => none

def outcomeOf (tbl : List (String × Outcome)) (h : String) : Outcome :=
  match tbl.find? (·.1 = h) with
  | some (_, o) => o
  | none => .otherErr

/-- requests counted by the servers → hosts tried: consecutive requests to one host (a retry, the pages of
    a paginated List) are one attempt on that host -/
def collapse : List String → List String
  | a :: b :: t => if a = b then collapse (b :: t) else a :: collapse (b :: t)
  | l => l

/-- predicates of the property on one observed request (`contacted0` = requests as the servers saw them) -/
def boundMonitors (what : String) (hosts contacted0 : List String) (bound : Nat) : List String :=
  let contacted := collapse contacted0
  (if contacted.length > bound then [s!"side=impl key=too-many-hosts {what} contacted {contacted.length} hosts ({listTok contacted}), bound {bound}"] else []) ++
  (if contacted.any (!hosts.contains ·) then [s!"side=impl key=contacted-non-member {what} contacted {listTok contacted}, current hosts {listTok hosts}"] else []) ++
  (if contacted.eraseDups.length ≠ contacted.length then [s!"side=impl key=contacted-twice {what} contacted {listTok contacted}"] else [])

/-! #### sample -/
def stepSample (_ : Unit) (kind : String) (args impl : List String) : Option (Unit × StepOut) :=
  match kind, args with
  | "one", ["sample", nt, st] => do
    let n ← nt.toInt?
    let hosts := list? st
    let want := if n < 0 then hosts.length else min n.toNat hosts.length
    let canon := sample n (sortStr hosts)
    let implRes : Option (List String) := match impl with
      | [rt, _] => some (list? rt)
      | _ => none
    let recvTok := s!"recv={hosts.length}"
    match implRes with
    | none => pure ((), { obs := [listTok canon, recvTok], branch := "sample.noobs" })
    | some res =>
      let okMembers := res.all (hosts.contains ·) && res.eraseDups.length == res.length
      let pf :=
        (if res.length ≠ want then [s!"side=impl key=sample-size Sample({n}) of {hosts.length} hosts returned {res.length} elements, want {want}"] else []) ++
        (if !okMembers then [s!"side=impl key=sample-not-member Sample({n}) returned {listTok res} from {listTok hosts}"] else [])
      let obs := if pf.isEmpty then [listTok (sortStr res), recvTok] else [listTok canon, recvTok]
      let br := if n < 0 then "sample.negative" else if n.toNat ≥ hosts.length then "sample.whole" else if n = 0 then "sample.zero" else "sample.strict"
      pure ((), { obs, branch := br, propfails := if n < 0 then [] else pf })
  | _, _ => none

def sampleMachine : Machine := { σ := Unit, name := "sample", init := fun _ => some (), step := stepSample }

/-! #### blobclient.Locations -/
def stepBloc (_ : Unit) (kind : String) (args impl : List String) : Option (Unit × StepOut) :=
  match kind, args with
  | "one", ["locations", ht, ot] => do
    let hosts := list? ht
    let tbl ← outcomes? ot
    let oc := fun (_ : Nat) (h : String) => outcomeOf tbl h
    match impl with
    | [res, ct] =>
      let contacted := list? ct
      -- follow the implementation's enumeration when it is one the model allows:
      -- distinct current hosts, at most min(3, n) of them
      let admissible := contacted.all (hosts.contains ·) && contacted.eraseDups.length == contacted.length
        && contacted.length ≤ min 3 hosts.length
      let rest := hosts.filter (!contacted.contains ·)
      let enum1 := if admissible then contacted ++ rest else sortStr hosts
      let run := locations oc enum1 id
      -- the implementation may have sampled hosts it never reached (stopped at a success): the model
      -- run over `contacted ++ rest` contacts exactly `contacted` iff the stopping rule agrees
      let resTok := match run.result with
        | none => "empty"
        | some .ok => "ok"
        | some _ => "err"
      let pf := boundMonitors "blobclient.Locations" hosts contacted 3
      let retry := (list? ot).any (fun e => e.endsWith "=r" ∧ run.contacted.any (fun h => e == h ++ "=r"))
      let br := (match run.result with
        | none => "locations.empty"
        | some .ok => s!"locations.ok.after{run.contacted.length}"
        | some _ => s!"locations.gaveup.after{run.contacted.length}") ++ (if retry then ".retryable-status" else "")
      let _ := res
      pure ((), { obs := [resTok, listTok run.contacted], branch := br, propfails := pf })
    | _ => none
  | _, _ => none

def walk? (m : String) : Option Walk :=
  if m = "Stat" ∨ m = "GetMetaInfo" ∨ m = "PrefetchBlob" then some .untilOk
  else if m = "OverwriteMetaInfo" then some .all
  else if m = "CheckReadiness" then some .one
  else none

/-- `one request <method> <hosts> <host=o|e…> <replicas named by the lookup> <replica=o|e…>
      => <ok|err|empty> <cluster hosts asked for locations, in order> <replicas contacted, in order>` -/
def stepRequest (args impl : List String) : Option (Unit × StepOut) :=
  match args, impl with
  | ["request", m, ht, ot, rt, rot], [_, lt, rct] => do
    let w ← walk? m
    let hosts := list? ht
    let ltbl ← outcomes? ot
    let replicas := list? rt
    let rtbl ← outcomes? rot
    let lo := fun (_ : Nat) (h : String) => outcomeOf ltbl h
    let ro := fun (_ : Nat) (h : String) => outcomeOf rtbl h
    let looked := list? lt
    let rcont := list? rct
    let admL := looked.all (hosts.contains ·) && looked.eraseDups.length == looked.length && looked.length ≤ min 3 hosts.length
    let enum1 := if admL then looked ++ hosts.filter (!looked.contains ·) else sortStr hosts
    -- the visiting order of the replicas (Stat shuffles, CheckReadiness picks one) is the implementation's choice
    let admR := rcont.all (replicas.contains ·) && rcont.eraseDups.length == rcont.length
    let order := if admR then rcont ++ replicas.filter (!rcont.contains ·) else replicas
    let (l, r) := clusterRequest w lo ro enum1 id replicas (fun _ => order)
    let resTok :=
      if l.result.isNone then "empty"
      else if l.result ≠ some .ok then "err"
      else match w with
        | .all => if r.contacted.all (fun a => outcomeOf rtbl a == .ok) then "ok" else "err"
        | _ => if r.result = some .ok then "ok" else "err"
    let pf := boundMonitors s!"blobclient.clusterClient.{m} (location lookup)" hosts looked 3 ++
      (if rcont.any (!replicas.contains ·) then [s!"side=impl key=replica-not-named {m} contacted {listTok rcont}, the lookup named {listTok replicas}"] else []) ++
      (if (collapse rcont).eraseDups.length ≠ (collapse rcont).length then [s!"side=impl key=replica-contacted-twice {m} contacted {listTok rcont}"] else []) ++
      (if !rcont.isEmpty ∧ l.result ≠ some .ok then [s!"side=impl key=replicas-without-lookup {m} contacted {listTok rcont} although no location lookup succeeded"] else []) ++
      (if (looked ++ rcont).eraseDups.length > 3 ∨ rcont.any (!hosts.contains ·) then
        [s!"side=impl key=blobclient-request-visits-replicas {m} asked {listTok looked} for locations and then contacted the replicas {listTok rcont}: {(looked ++ rcont).eraseDups.length} hosts, replicas are not taken from the client's host list"] else [])
    let br := s!"request.{m}"
    pure ((), { obs := [resTok, listTok l.contacted, listTok r.contacted], branch := br, propfails := pf })
  | _, _ => none

def stepBloc2 (u : Unit) (kind : String) (args impl : List String) : Option (Unit × StepOut) :=
  match kind, args with
  | "one", "request" :: _ => stepRequest args impl
  | _, _ => stepBloc u kind args impl

def blocMachine : Machine := { σ := Unit, name := "bloc", init := fun _ => some (), step := stepBloc2 }

/-! #### tagclient cluster client -/
def stepTag (_ : Unit) (kind : String) (args impl : List String) : Option (Unit × StepOut) :=
  -- `op` records are requests sent one after the other through ONE cluster client object (the host list and
  -- the hosts' behaviour may change between them); the client keeps no state, so each request is judged
  -- against the host list current at that moment, exactly like a `one` record
  let kind := if kind = "op" then "one" else kind
  match kind, args with
  | "one", [mode, method, ht, ot] => do
    if mode ≠ "do" ∧ mode ≠ "once" then none else
    let hosts := list? ht
    let tbl ← outcomes? ot
    let oc := fun (_ : Nat) (h : String) => outcomeOf tbl h
    match impl with
    | [_, ct, _] =>
      let contactedRaw := list? ct
      let contacted := collapse contactedRaw
      let bound := if mode = "once" then 1 else 3
      let admissible := contacted.all (hosts.contains ·) && contacted.eraseDups.length == contacted.length
        && contacted.length ≤ min bound hosts.length
      let rest := hosts.filter (!contacted.contains ·)
      let enum1 := if admissible then contacted ++ rest else sortStr hosts
      let run := if mode = "once" then (if method = "CheckReadiness" then checkReadiness oc enum1 id else clusterDoOnce oc enum1 id) else clusterDo oc enum1 id
      let resTok := match run.result with
        | none => "nohosts"
        | some .ok => "ok"
        | some .netErr => "neterr"
        | some .otherErr => "err"
      let pf := boundMonitors s!"tagclient.{method}" hosts contactedRaw bound ++
        (if mode = "once" ∧ !hosts.isEmpty ∧ contacted.length ≠ 1 then
          [s!"side=impl key=once-not-one tagclient.{method} (single attempt) contacted {listTok contacted}"] else [])
      let br := s!"{mode}.{resTok}.after{run.contacted.length}"
      -- repeated requests to the host just tried are followed as they are
      let ctTok := if run.contacted = contacted then ct else listTok run.contacted
      pure ((), { obs := [resTok, ctTok, listTok (sortStr run.failed)], branch := br, propfails := pf })
    | _ => none
  | _, _ => none

def tagMachine : Machine := { σ := Unit, name := "tagcc", init := fun _ => some (), step := stepTag }

end C25

def main (args : List String) : IO UInt32 := runMachines [C25.sampleMachine, C25.blocMachine, C25.tagMachine] args
