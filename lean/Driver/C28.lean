import Driver.Frame
import KrakenModel.Model.RedisPeerStore
/- Driver for C28.
   machine `pc` (package tracker/peerstore, in-package): the member codec
     one ser pid=<xbytes> ip=<str> port=<int> c=0|1 => <str> back=ok|parts|peerid|port bpid=<xbytes> bip=<str> bport=<int> bc=0|1
     one de <str> => ok pid=<xbytes> ip=<str> port=<int> c=0|1 | err parts|peerid|port
   machine `rs`: RedisStore against an in-process Redis with a mock clock
     cfg size=<seconds> max=<windows> t0=<unix seconds>
     op tick <d>
     op update h=<xbytes> pid=<xbytes> ip=<str> port=<int> c=0|1 => ok
     op get h=<xbytes> n=<int> => <pidhex|ip|port|c , …>     (sorted; `-` when empty)
-/
open Driver KrakenModel.RedisPeerStore KrakenModel.IdCodec KrakenModel.Codec

namespace C28

def S (cs : List Char) : String := String.ofList cs

def deErrTok : DeErr → String
  | .parts => "parts" | .peerID => "peerid" | .port => "port"

def peer? (toks : List String) : Option Peer := do
  let pid ← (kv? toks "pid").bind bytes?
  let ip ← (kv? toks "ip").bind str?
  let port ← (kv? toks "port").bind String.toInt?
  let c ← (kv? toks "c").bind bool?
  pure { pid := pid, ip := ip.toList, port := port, complete := c }

def stepPc (_ : Unit) (kind : String) (args impl : List String) : Option (Unit × StepOut) :=
  if kind ≠ "one" then none else
  match args with
  | "ser" :: rest => do
    let p ← peer? rest
    let good := p.pid.length = 20 ∧ -(2^63 : Int) ≤ p.port ∧ p.port < 2^63
    let ser := serializePeer p
    let (back, rest') := match deserializePeer ser with
      | .ok (id, c) => ("ok", [s!"bpid={bytesTok id.pid}", s!"bip={strTok (S id.ip)}", s!"bport={id.port}", s!"bc={boolTok c}"])
      | .error e => (deErrTok e, [])
    -- monitor: what the implementation decodes from its own encoding is the announced peer
    let pf : List String := if !good then [] else
      match impl with
      | _ :: b :: more =>
        if b ≠ "back=ok" then [s!"side=impl key=member-roundtrip announced ip {kv? rest "ip"} is not decodable: {b}"]
        else if kv? more "bpid" ≠ kv? rest "pid" ∨ kv? more "bip" ≠ kv? rest "ip" ∨ kv? more "bport" ≠ kv? rest "port" ∨ kv? more "bc" ≠ kv? rest "c" then
          [s!"side=impl key=member-roundtrip announced {rest} decoded as {more}"] else []
      | _ => []
    let br := if p.ip.contains ':' then "ser.colon" else "ser.plain"
    pure ((), { obs := strTok (S ser) :: ("back=" ++ back) :: rest', branch := br, propfails := pf })
  | ["de", t] => do
    let s ← str? t
    -- monitor: a member is accepted exactly when it has the shape pid:ip:port:bit (40 hex, any ip, a decimal int64)
    let parts := s.splitOn ":"
    let n := parts.length
    let pidOk := (parts.headD "").length = 40 ∧ (parts.headD "").toList.all isHex
    let portOk := (atoi ((parts.getD (n - 2) "").toList)).isSome
    let wellFormed := n ≥ 4 ∧ pidOk ∧ portOk
    let pf := match impl with
      | "ok" :: _ => if !wellFormed then [s!"side=impl key=member-accepts-malformed {t} was accepted"] else []
      | "err" :: _ => if wellFormed then [s!"side=impl key=member-rejects-wellformed {t} was rejected"] else []
      | _ => []
    match deserializePeer s.toList with
    | .ok (id, c) =>
      pure ((), { obs := ["ok", s!"pid={bytesTok id.pid}", s!"ip={strTok (S id.ip)}", s!"port={id.port}", s!"c={boolTok c}"], branch := "de.ok", propfails := pf })
    | .error e => pure ((), { obs := ["err", deErrTok e], branch := "de.err." ++ deErrTok e, propfails := pf })
  | _ => none

def machinePc : Machine := { σ := Unit, name := "pc", init := fun _ => some (), step := stepPc }

/-! ### store -/

structure Ann where
  h : Bytes
  p : Peer
  t : Nat

structure St where
  c : Cfg
  s : State
  anns : List Ann := []     -- ghost: every announcement with its time (API level)

def identTok (id : Ident) (c : Bool) : String :=
  s!"{hexOf id.pid}|{strTok (S id.ip)}|{id.port}|{boolTok c}"

def initRs (toks : List String) : Option St := do
  let size ← (kv? toks "size").bind String.toNat?
  let mx ← (kv? toks "max").bind String.toNat?
  let t0 ← (kv? toks "t0").bind String.toNat?
  if size = 0 ∨ mx = 0 then none else
  pure { c := { size := size, maxWindows := mx }, s := { now := t0 } }

def sortToks (l : List String) : List String := l.mergeSort (fun a b => decide (a ≤ b))

def stepRs (st : St) (kind : String) (args impl : List String) : Option (St × StepOut) :=
  if kind ≠ "op" then none else
  match args with
  | ["tick", d] => do
    let d ← d.toNat?
    pure ({ st with s := step st.c st.s (.tick d) }, { obs := [], branch := "tick" })
  | "update" :: rest => do
    let h ← (kv? rest "h").bind bytes?
    let p ← peer? rest
    pure ({ st with s := step st.c st.s (.update h p), anns := { h := h, p := p, t := st.s.now } :: st.anns },
          { obs := ["ok"], branch :=
              if st.anns.any (fun a => a.p.pid = p.pid ∧ (a.p.ip ≠ p.ip ∨ a.p.port ≠ p.port)) then "re-announce-same-id-different-port"
              else if p.ip.contains ':' then "update.colon" else "update.plain" })
  | "get" :: rest => do
    let h ← (kv? rest "h").bind bytes?
    let n ← (kv? rest "n").bind String.toInt?
    let all := getAll st.c st.s h
    let members := (st.s.entries.filter fun e => e.hash = h ∧ queried st.c st.s.now e.window).length
    let implToks := match impl with | [l] => list? l | _ => []
    let implIds : List (String × String) := implToks.map fun t => ("|".intercalate ((t.splitOn "|").take 3), (t.splitOn "|").getD 3 "")
    -- API-level monitors: live announcements of this torrent
    let live := st.anns.filter fun a => a.h = h ∧ decide (st.s.now < expireAt st.c (curWindow st.c a.t)) ∧
      a.p.pid.length = 20 ∧ -(2^63 : Int) ≤ a.p.port ∧ a.p.port < 2^63
    let idKey (p : Peer) : String := s!"{hexOf p.pid}|{strTok (S p.ip)}|{p.port}"
    -- every UpdatePeer adds at most one member, so n ≥ #live announcements means every set is returned whole
    let liveAll := (st.anns.filter fun a => a.h = h ∧ decide (st.s.now < expireAt st.c (curWindow st.c a.t))).length
    let full := n ≥ (liveAll : Int) ∧ n ≥ (members : Int) ∧ n > 0
    let dropped := if full then live.filterMap fun a =>
        match implIds.find? (·.1 = idKey a.p) with
        | none =>
          -- the same peer id came back, but with another (earlier) address/port: a stale identity, not a lost peer
          match implIds.find? (fun x => x.1.startsWith (hexOf a.p.pid ++ "|")) with
          | some (k, _) => some s!"side=impl key=roundtrip-stale-identity announced {idKey a.p} is missing from GetPeers, which returned {k} for that peer id"
          | none => some s!"side=impl key=peer-dropped announced {idKey a.p} is missing from GetPeers"
        | some (_, c) => if a.p.complete ∧ c ≠ "1" then some s!"side=impl key=complete-lost {idKey a.p} announced complete, returned incomplete" else none
      else []
    let phantom := implIds.filterMap fun (k, c) =>
      let srcs := st.anns.filter fun a => a.h = h ∧ idKey a.p = k ∧ decide (st.s.now < expireAt st.c (curWindow st.c a.t))
      if srcs.isEmpty then some s!"side=impl key=phantom-peer {k} was returned but has no live announcement"
      else if c = "1" ∧ srcs.all (fun a => !a.p.complete) then some s!"side=impl key=phantom-complete {k} returned complete, never announced complete"
      else none
    let keys : List String := implIds.map (·.1)
    let dup := if keys.eraseDups.length ≠ keys.length then ["side=impl key=duplicate-identity an identity is returned twice"] else []
    let over := if n ≥ 0 ∧ (implIds.length : Int) > n then [s!"side=impl key=limit-exceeded {implIds.length} peers for n={n}"] else []
    -- sampling lower bounds (any n): the first non-empty window visited is asked for n members
    let liveAnns := st.anns.filter fun a => a.h = h ∧ decide (st.s.now < expireAt st.c (curWindow st.c a.t))
    let wins := (liveAnns.map fun a => curWindow st.c a.t).eraseDups
    let lbOf (w : Nat) : Nat :=
      let inW := liveAnns.filter fun a => curWindow st.c a.t = w
      let mems := (inW.map fun a => (idKey a.p, a.p.complete)).eraseDups     -- the members of that Redis set
      let ids := (mems.map (·.1)).eraseDups
      let both := mems.length - ids.length                                  -- identities stored under both flags
      let p := min n.toNat mems.length
      p - min both (p / 2)
    let lb := match wins.map lbOf with
      | [] => 0
      | x :: xs => xs.foldl min x
    let few := if n ≥ 1 ∧ !liveAnns.isEmpty ∧ implIds.isEmpty then
        [s!"side=impl key=sample-empty GetPeers n={n} returned nothing although {liveAnns.length} announcements are live"]
      else if n ≥ 1 ∧ implIds.length < lb then
        [s!"side=impl key=sample-too-few GetPeers n={n} returned {implIds.length} peers, every visiting order yields at least {lb}"]
      else []
    -- the completion flag: returned complete while the latest live announcement of the identity is
    -- incomplete (an earlier live one was complete: the bits of all windows are or-ed)
    let stale := implIds.filterMap fun (k, c) =>
      let srcs := liveAnns.filter fun a => idKey a.p = k
      match srcs.foldl (fun (best : Option Ann) a => match best with
          | none => some a
          | some b => if a.t > b.t then some a else some b) none with
      | some latest =>
        let sameTime := srcs.filter fun a => a.t = latest.t
        if c = "1" ∧ sameTime.all (fun a => !a.p.complete) ∧ srcs.any (fun a => a.p.complete) then
          some s!"side=impl key=stale-complete {k} returned complete, its latest announcement (t={latest.t}) is incomplete"
        else none
      | none => none
    let pf := (dropped.take 3) ++ (phantom.take 3) ++ dup ++ over ++ few ++ (stale.take 2)
    let modelToks := sortToks (all.map fun (id, c) => identTok id c)
    if n ≤ 0 then
      pure (st, { obs := ["-"], branch := "get.nonpositive", propfails := pf })
    else if full then
      pure (st, { obs := [listTok modelToks], branch := if all.isEmpty then "get.empty" else "get.all", propfails := pf })
    else
      -- random sampling: the implementation's choice is accepted when admissible (checked by the monitors)
      let hard := pf.filter (fun m => (m.splitOn "key=stale-complete").length = 1)
      pure (st, { obs := if hard.isEmpty then impl else [listTok modelToks],
                  branch := if lb ≥ 1 ∧ (lb : Int) = n then "get.sampled.exactly-n-forced" else if lb ≥ 1 then "get.sampled.lower-bounded" else "get.sampled", propfails := pf })
  | _ => none

def machineRs : Machine := { σ := St, name := "rs", init := initRs, step := stepRs }

end C28

def main (args : List String) : IO UInt32 := runMachines [C28.machinePc, C28.machineRs] args
