import Driver.Frame
/- Local helper (not shared infrastructure): run the machines with the driver's diagnostic output
   capped.  The orchestrator reads the driver's stdout only after the Go harness has exited; when a
   mutation makes (almost) every case fail, the uncapped CASE/PROPFAIL/CASELINE stream fills the
   stdout pipe, the driver stops draining the transcript fifo and the harness blocks until its
   timeout.  SUMMARY and BRANCH lines always pass; other lines pass until the byte budget is used
   (the first failures, which are the ones reported, always fit). -/
namespace Driver

def runMachinesCapped (ms : List Machine) (args : List String) (budget : Nat := 44000) : IO UInt32 := do
  let out ← IO.getStdout
  let used ← IO.mkRef 0
  let capped : IO.FS.Stream := { out with
    putStr := fun s => do
      if s.startsWith "SUMMARY" || s.startsWith "BRANCH" then out.putStr s
      else
        let n ← used.get
        if n + s.utf8ByteSize ≤ budget then
          used.set (n + s.utf8ByteSize)
          out.putStr s
        else
          used.set (budget + 1) }   -- once a line is dropped, drop all later ones too
  IO.withStdout capped (runMachines ms args)

end Driver
