import Driver.CAStoreRepl
import Driver.CAStoreConc
import KrakenModel.Model.LRUCache
/- Driver for C13.  Three machines:

   memcache  utils/cache.BlobMemoryCache through its public API (reserve / release / add / remove / …)
   castore   the write-through caller in lib/store (same transcripts as C01's `castore` machine)
   lru       utils/cache.LRUCache with measured times

   Monitors (implementation observations + API-level ghost state only):
   * over-budget            a reservation was admitted although stored bytes + outstanding reservations
                            + the new size exceed MaxSize
   * accounting-imbalance   TotalBytes ≠ bytes of the stored entries + outstanding reservations, or
                            NumEntries ≠ number of stored entries (histories that respect the API's
                            discipline: release what you reserved, add what you reserved)
   * mem-accounting-leak    (castore) after a write-through call, TotalBytes/NumEntries differ from the
                            entries actually present in the memory cache (no reservation is outstanding
                            between calls)
   * over-size / expired-reported / phantom-key / evicted-out-of-order   (lru) -/
open Driver KrakenModel KrakenModel.CAStoreMem CAStoreRepl

namespace C13Mem
open KrakenModel.MemCache

structure Ghost where
  stored : List (String × Nat) := []     -- entries present according to the API calls' results
  outstanding : List Nat := []           -- reservations admitted and neither released nor consumed
  wf : Bool := true                      -- the history so far respects the caller discipline

structure St where
  m : MemCache.State
  g : Ghost := {}
  lastTotal : Nat := 0          -- TotalBytes as last reported by the implementation (0 for a new cache)

def init (toks : List String) : Option St := do
  let max ← (kv? toks "max").bind nat?
  if max ≥ two64 then none else
  pure { m := MemCache.init max }

def sumStored (g : Ghost) : Nat := (g.stored.map (·.2)).sum

def mkEntry (len created : Nat) : Entry :=
  { data := List.replicate len 0, mi := { name := "", length := 0, pieceLength := 0, sums := [] }, createdAt := created }

def step (s : St) (kind : String) (args impl : List String) : Option (St × StepOut) :=
  if kind ≠ "op" then none else
  match args with
  | ["reserve", size] => do
    let size ← nat? size
    if size ≥ two64 then none else
    let (m, ok) := tryReserve s.m size
    let pf := (if s.g.wf ∧ impl = ["1"] ∧ sumStored s.g + s.g.outstanding.sum + size > s.m.maxSize then
        [s!"side=impl key=over-budget reserve {size} admitted with {sumStored s.g} stored + {s.g.outstanding.sum} reserved of {s.m.maxSize}"] else []) ++
      -- no caller discipline needed: an admitted reservation fits next to what the cache itself reports as accounted
      (if impl = ["1"] ∧ s.lastTotal + size > s.m.maxSize then
        [s!"side=impl key=admitted-over-max reserve {size} admitted although TotalBytes was {s.lastTotal} of {s.m.maxSize}"] else [])
    let g := if impl = ["1"] then { s.g with outstanding := size :: s.g.outstanding } else s.g
    let wrap := s.m.total + size ≥ two64
    pure ({ m, g }, { obs := [boolTok ok], branch := s!"reserve.{if ok then "ok" else "refused"}{if wrap then ".wrap" else ""}", propfails := pf })
  | ["release", size] => do
    let size ← nat? size
    if size ≥ two64 then none else
    let known := size ∈ s.g.outstanding
    let g := if known then { s.g with outstanding := s.g.outstanding.erase size } else { s.g with wf := false }
    pure ({ m := release s.m size, g }, { obs := ["ok"], branch := if known then "release.reserved" else "release.unknown" })
  | ["add", n, len, created, res] => do
    let len ← nat? len
    let created ← nat? created
    let (m, ok) := add s.m n (mkEntry len created)
    -- discipline: the entry consumes an outstanding reservation of exactly its size
    let resv := (kv? [res] "res").bind nat?
    let g := if impl = ["1"] then
        match resv with
        | some r => if r ∈ s.g.outstanding ∧ r = len then
                      { s.g with stored := (n, len) :: s.g.stored, outstanding := s.g.outstanding.erase r }
                    else { s.g with stored := (n, len) :: s.g.stored, wf := false }
        | none => { s.g with stored := (n, len) :: s.g.stored, wf := false }
      else s.g
    pure ({ m, g }, { obs := [boolTok ok], branch := s!"add.{if ok then "new" else "dup"}" })
  | ["remove", n] =>
    let present := (MemCache.get s.m n).isSome
    let g := { s.g with stored := s.g.stored.filter (·.1 ≠ n) }
    some ({ m := remove s.m n, g }, { obs := ["ok"], branch := if present then "remove.present" else "remove.absent" })
  | ["removeBatch", ns] =>
    let names := list? ns
    let g := { s.g with stored := s.g.stored.filter (fun p => p.1 ∉ names) }
    some ({ m := removeBatch s.m names, g }, { obs := ["ok"], branch := "removeBatch" })
  | ["expired", now, ttl] => do
    let now ← nat? now
    let ttl ← nat? ttl
    let ex := sortDedup (expired s.m now ttl)
    pure (s, { obs := [listTok ex], branch := if ex.isEmpty then "expired.none" else "expired.some" })
  | ["get", n] =>
    some (s, { obs := [match MemCache.get s.m n with | some e => toString e.size | none => "none"], branch := "get" })
  | ["list"] => some (s, { obs := [listTok (sortDedup (names s.m))], branch := "list" })
  | ["total"] =>
    let pf := match impl with
      | [t, n] =>
        if s.g.wf ∧ (t ≠ toString (sumStored s.g + s.g.outstanding.sum) ∨ n ≠ toString s.g.stored.length) then
          [s!"side=impl key=accounting-imbalance TotalBytes={t} NumEntries={n} but {s.g.stored.length} entries of {sumStored s.g} bytes are stored and {s.g.outstanding.sum} bytes reserved"]
        else []
      | _ => []
    -- unconditionally (theorem total_within_budget needs no discipline)
    let pf2 := match impl with
      | [t, _] => match t.toNat? with
        | some t => if t > s.m.maxSize then [s!"side=impl key=total-over-max TotalBytes={t} exceeds MaxSize={s.m.maxSize}"] else []
        | none => []
      | _ => []
    let lt := match impl with | [t, _] => t.toNat?.getD s.lastTotal | _ => s.lastTotal
    some ({ s with lastTotal := lt }, { obs := [toString s.m.total, toString (numEntries s.m)], branch := if s.g.wf then "total.wf" else "total.undisciplined", propfails := pf ++ pf2 })
  | _ => none

def machine : Machine := { σ := St, name := "memcache", init := init, step := step }

end C13Mem

namespace C13Store

structure St where
  core : Core
  last : Std.HashMap String (List String) := {}   -- name → last probe observation (implementation)

def init (toks : List String) : Option St := do
  let cfg ← cfg? toks
  pure { core := { m := CAStoreMem.init cfg } }

def pfx (p s : String) : Option String := if s.startsWith p then some (s.drop p.length).toString else none

def step (s : St) (kind : String) (args impl : List String) : Option (St × StepOut) := do
  let (core, obs, branch) ← CAStoreRepl.step s.core kind args
  if kind = "tbl" then return ({ s with core }, { obs, branch })
  -- the accounting observed by the harness right after the call: reported TotalBytes/NumEntries against the
  -- entries actually present (no reservation is outstanding between calls)
  let pf : List String := match impl.findSome? (pfx "acct=") with
    | some a => match a.splitOn "/" with
      | [t, n, sum, cnt] =>
        if (t.toNat?.getD 0) > s.core.m.cfg.maxSize then
          [s!"side=impl key=total-over-max after {sp args}: TotalBytes={t} exceeds MaxSize={s.core.m.cfg.maxSize}"]
        else if t ≠ sum ∨ n ≠ cnt then
          [s!"side=impl key=mem-accounting-leak after {sp args}: TotalBytes={t} NumEntries={n} but the memory cache holds {cnt} entries of {sum} bytes and no reservation is outstanding"]
        else []
      | _ => []
    | none => []
  return ({ s with core }, { obs, branch, propfails := pf })

def machine : Machine := { σ := St, name := "castore", init := init, step := step }

end C13Store

namespace C13LRU
open KrakenModel.LRUCache

structure Ghost where
  touch : List (String × Int) := []    -- live keys by the API calls: key → time of the last Add, oldest first
  dead : List String := []             -- keys that must be gone: an older-or-equal key was seen evicted

structure St where
  m : LRUCache.State
  now : Int := 0
  g : Ghost := {}
  delMid : Bool := false      -- a key that was not the newest was deleted (and no Clear since)

def init (toks : List String) : Option St := do
  let size ← (kv? toks "size").bind nat?
  let ttl ← (kv? toks "ttl").bind int?
  pure { m := LRUCache.init (Cfg.ofRaw size ttl) }

/-- the harness drops every case in which a call took longer than this or ran this close to an expiry
boundary, so measured times (taken just before each call) decide expiry unambiguously -/
def slack : Int := 1000000

def step (s : St) (kind : String) (args impl : List String) : Option (St × StepOut) :=
  match kind, args with
  | "now", [t] => do
    let t ← int? t
    pure ({ s with now := t }, { branch := "" })
  | "op", ["add", k] =>
    let existed := (find s.m.entries k).isSome
    match some (add s.m s.now k) with
    | none => none
    | some m =>
      let g : Ghost := if impl = ["ok"] then
          { touch := s.g.touch.filter (·.1 ≠ k) ++ [(k, s.now)], dead := s.g.dead.filter (· ≠ k) } else s.g
      let evicted := s.m.entries.length + 1 - m.entries.length
      some ({ s with m, g }, { obs := ["ok"], branch := if existed then "add.refresh" else if evicted = 0 then "add.new"
        else if s.delMid then "add.new.evict.after-delete" else "add.new.evict" })
  | "op", ["has", k] =>
    let r := has s.m s.now k
    let ttl := s.m.cfg.ttl
    let pf : List String := match impl with
      | ["1"] =>
        (match s.g.touch.find? (·.1 = k) with
          | none => [s!"side=impl key=phantom-key Has({k}) is true but the key was never added, or deleted/cleared since"]
          | some (_, t) => if s.now > t + ttl + slack then [s!"side=impl key=expired-reported Has({k}) is true at {s.now}, last added at {t}, ttl {ttl}"] else []) ++
        (if k ∈ s.g.dead then [s!"side=impl key=evicted-out-of-order Has({k}) is true although a key added or refreshed later was evicted for size"] else []) ++
        -- keys added or refreshed after k, not deleted and certainly unexpired: if k is still there none of them
        -- can have been evicted (oldest first), so together with k they must fit the size limit
        (let newer := ((s.g.touch.dropWhile (·.1 ≠ k)).drop 1).filter (fun p => s.now + slack ≤ p.2 + ttl)
         if (s.g.touch.find? (·.1 = k)).isSome ∧ newer.length ≥ s.m.cfg.size then
           [s!"side=impl key=evicted-out-of-order Has({k}) is true although {newer.length} keys were added or refreshed after it ({newer.map (·.1)}) and the limit is {s.m.cfg.size}"]
         else [])
      | _ => []
    -- a live key found absent was evicted for size: everything older must be gone too
    let g : Ghost := match impl, s.g.touch.find? (·.1 = k) with
      | ["0"], some (_, t) =>
        if s.now > t + ttl then s.g else
          let older := (s.g.touch.takeWhile (·.1 ≠ k)).map (·.1)
          { touch := s.g.touch.filter (fun p => p.1 ≠ k), dead := s.g.dead ++ older }
      | _, _ => s.g
    some ({ s with g }, { obs := [boolTok r], branch := if r then "has.yes" else if (find s.m.entries k).isSome then "has.expired" else "has.absent", propfails := pf })
  | "op", ["delete", k] =>
    let g : Ghost := { touch := s.g.touch.filter (·.1 ≠ k), dead := s.g.dead.filter (· ≠ k) }
    let mid := (find s.m.entries k).isSome ∧ (s.m.entries.getLast?.map (·.1)) ≠ some k ∧ s.m.entries.length ≥ 3
    some ({ s with m := delete s.m k, g, delMid := s.delMid || mid }, { obs := ["ok"], branch := if mid then "delete.mid" else "delete" })
  | "op", ["clear"] => some ({ s with m := clear s.m, g := {}, delMid := false }, { obs := ["ok"], branch := "clear" })
  | "op", ["size"] =>
    let pf := match impl with
      | [n] => match n.toNat? with
        | some n => if n > s.m.cfg.size then [s!"side=impl key=over-size Size() = {n} with a limit of {s.m.cfg.size}"] else []
        | none => []
      | _ => []
    some (s, { obs := [toString (size s.m)], branch := "size", propfails := pf })
  | "op", ["sleep", _] => some (s, { obs := ["ok"], branch := "sleep" })
  | _, _ => none

def machine : Machine := { σ := St, name := "lru", init := init, step := step }

end C13LRU

/-! ### concurrent callers (no model state: the expected outcome is what the theorems say for every
interleaving of whole method calls) -/
namespace C13Conc

def step (_ : Unit) (kind : String) (args impl : List String) : Option (Unit × StepOut) :=
  if kind ≠ "one" then none else
  match args with
  | "concmem" :: rest =>
    let over := ((kv? impl "over").bind nat?).getD 0
    let fin := (kv? impl "final").getD ""
    let pf := (if over > 0 then [s!"side=impl key=admitted-over-max-concurrent {sp rest}: {over} times the reservations held by the callers (or TotalBytes) exceeded MaxSize"] else []) ++
      (if fin ≠ "0/0" then [s!"side=impl key=accounting-imbalance-concurrent {sp rest}: after every reservation was released and every entry removed TotalBytes/NumEntries = {fin}"] else [])
    some ((), { obs := ["over=0", "final=0/0"], branch := "concmem", propfails := pf })
  | "conclru" :: rest =>
    let over := ((kv? impl "oversize").bind nat?).getD 0
    let pf := if over > 0 ∨ (kv? impl "final") = some "0" then [s!"side=impl key=over-size-concurrent {sp rest}: Size() exceeded the limit {over} times"] else []
    some ((), { obs := ["oversize=0", "final=1"], branch := "conclru", propfails := pf })
  | _ => none

def machine : Machine := { σ := Unit, name := "cacheconc", init := fun _ => some (), step := step }

end C13Conc

def main (args : List String) : IO UInt32 :=
  runMachines [C13Mem.machine, C13Store.machine, C13LRU.machine, C13Conc.machine, C01Conc.machine] args
