import Driver.Frame
/- Machine `castoreconc` (shared by Driver/C01 and Driver/C13): concurrent observers of the CAStore's
   write-through path, harness/lib/store/zz_verif_c01conc_test.go. -/
open Driver

/-! ### concurrent observers (no model state: the expected outcome is what the theorems say) -/
namespace C01Conc

/-- `one concwrite path=… size=… => fail seen=0`   (mismatch_invisible + served_inside_write: nothing is ever
    visible under the claimed name while or after a write with no matching content)
    `one concok path=… size=… => ok bad=0`         (whatever a concurrent reader gets hashes to the name)
    `one concdup size=… max=… => ok readable=1 acct=T/N/sum/cnt` (accounting balanced after concurrent duplicates) -/
def step (_ : Unit) (kind : String) (args impl : List String) : Option (Unit × StepOut) :=
  if kind ≠ "one" then none else
  match args with
  | "concwrite" :: rest =>
    let seen := ((kv? impl "seen").bind nat?).getD 0
    let pf := (if seen > 0 then [s!"side=impl key=visible-during-mismatch-write {sp rest}: readers saw something under the claimed name {seen} times while a write with no matching content was running"] else []) ++
      (if impl.head? = some "ok" then [s!"side=impl key=mismatch-write-accepted {sp rest} returned ok although no content hashes to the name"] else [])
    some ((), { obs := ["fail", "seen=0"], branch := s!"concwrite.{(kv? rest "path").getD ""}", propfails := pf })
  | "concok" :: rest =>
    let bad := ((kv? impl "bad").bind nat?).getD 0
    let pf := if bad > 0 then [s!"side=impl key=served-wrong-bytes-during-write {sp rest}: {bad} concurrent reads returned content that does not hash to the name (or metainfo of another digest)"] else []
    some ((), { obs := ["ok", "bad=0"], branch := s!"concok.{(kv? rest "path").getD ""}", propfails := pf })
  | "concdup" :: rest => do
    let size ← (kv? rest "size").bind nat?
    let max ← (kv? rest "max").bind nat?
    let pf : List String := match (kv? impl "acct").map (·.splitOn "/") with
      | some [t, n, sum, cnt] =>
        if (t.toNat?.getD 0) > max then [s!"side=impl key=total-over-max after concurrent duplicate writes: TotalBytes={t} MaxSize={max}"]
        else if t ≠ sum ∨ n ≠ cnt then [s!"side=impl key=mem-accounting-leak after concurrent duplicate writes: TotalBytes={t} NumEntries={n} but {cnt} entries of {sum} bytes are present"]
        else []
      | _ => []
    -- in memory iff one reservation fits; whether the second reservation also fitted only changes the path of the loser
    let acct := if size ≤ max then s!"acct={size}/1/{size}/1" else "acct=0/0/0/0"
    pure ((), { obs := ["ok", "readable=1", acct], branch := if size ≤ max then "concdup.mem" else "concdup.disk", propfails := pf })
  | _ => none

def machine : Machine := { σ := Unit, name := "castoreconc", init := fun _ => some (), step := step }

end C01Conc

