import Driver.Frame
import KrakenModel.Model.Swarm
/- Driver for C19 (machine `sw`): validates the merged trace of an in-process swarm of real
   schedulers (network events + every WritePiece call of every peer, globally sequenced) against
   the swarm model: accepted deliveries are replayed as model actions (request / deliver / the
   C03 thread steps / resolve) and must be accepted by the model too; initial bitfields and final
   states (Complete, bitfield, cached bytes) are compared; monitors evaluate the property's
   predicates on the implementation's observations only. -/
open Driver KrakenModel.AgentTorrent KrakenModel.Swarm

namespace C19

def crcByte (c b : Nat) : Nat :=
  (List.range 8).foldl (fun x _ => if x % 2 = 1 then (x >>> 1) ^^^ 0xEDB88320 else x >>> 1) (c ^^^ b)

def crc32 (bs : List Nat) : Nat := (bs.foldl crcByte 0xFFFFFFFF) ^^^ 0xFFFFFFFF

def resTok : Res → String
  | .ok => "ok" | .errIndex => "errIndex" | .errLength => "errLength" | .errComplete => "errComplete"
  | .errConflict => "errConflict" | .errSum => "errSum" | .errStore => "errStore" | .panic => "panic"

def bitsTok (bs : List Bool) : String :=
  if bs.isEmpty then "-" else String.ofList (bs.map fun b => if b then '1' else '0')

/-- one WritePiece call observed at a peer -/
structure CW where
  id : String
  pi : Int
  payload : Bytes
  inv : Nat
  resp : Nat
  res : String

/-- implementation-side ghost state of one peer -/
structure PM where
  role : String             -- s: honest seeder, c: corrupting seeder, a: agent
  hist : List CW := []
  received : List Nat := []   -- pieces with a receive_piece event
  initial : List Nat := []    -- pieces complete in the add_torrent bitfield
  left : Bool := false
  completeEv : Bool := false

structure St where
  sw : Swarm
  pl : Nat
  blob : Bytes
  pms : List PM
  desync : Option String := none

def npieces (s : St) : Nat := numPiecesOf s.pl s.blob.length

def peer? (tok : String) : Option Nat :=
  match tok.toList with
  | 'p' :: ds => (String.ofList ds).toNat?
  | _ => none

def init (cfg : List String) : Option St := do
  let pl ← (kv? cfg "pl").bind nat?
  let blob ← (kv? cfg "blob").bind bytes?
  let roles := list? ((kv? cfg "roles").getD "-")
  let maxc ← (kv? cfg "maxconn").bind nat?
  let pipe ← (kv? cfg "pipeline").bind nat?
  -- roles: s honest seeder (agent storage), o origin (origin storage), c seeder corrupting every piece it serves,
  -- i seeder corrupting every other piece it serves, a agent, k agent that corrupts every piece it serves
  if pl = 0 ∨ roles.any (fun r => !["s", "o", "c", "i", "a", "k"].contains r) then none else
  let mi := MetaInfo.ofBlob crc32 pl blob
  let peers : List Peer := roles.map fun r =>
    if r = "a" ∨ r = "k" then { tor := KrakenModel.AgentTorrent.init mi, corrupt := r = "k" }
    else { tor := seedState mi blob, corrupt := r = "c" ∨ r = "i" }
  some { sw := { cfg := { maxConns := maxc, pipeline := pipe }, peers := peers }, pl := pl, blob := blob,
         pms := roles.map fun r => { role := r } }

def isPiece (s : St) (pi : Int) (p : Bytes) : Bool :=
  0 ≤ pi && pi.toNat < npieces s && p == pieceOf s.pl s.blob pi.toNat

def collides (s : St) (pi : Int) (p : Bytes) : Bool :=
  0 ≤ pi && pi.toNat < npieces s && p != pieceOf s.pl s.blob pi.toNat &&
    p.length == (pieceOf s.pl s.blob pi.toNat).length && crc32 p == crc32 (pieceOf s.pl s.blob pi.toNat)

def setPM (s : St) (a : Nat) (f : PM → PM) : St :=
  { s with pms := s.pms.mapIdx fun i m => if i = a then f m else m }

/-- run WritePiece call `tid` of peer `a` to its end through swarm `tstep` actions -/
def runCall (sw : Swarm) (a tid : Nat) (k : Nat) : Nat → Swarm
  | 0 => sw
  | f + 1 =>
    match (sw.peers[a]?).bind (·.tor.threads[tid]?) with
    | some t => if t.pc == .done then sw else runCall (KrakenModel.Swarm.step crc32 sw (.tstep a tid k)) a tid k f
    | none => sw

/-- history monitors of one peer's WritePiece calls (same predicates as C03's free-running machine) -/
def histMon (s : St) (a : Nat) (m : PM) : List String :=
  m.hist.flatMap fun w =>
    let overl := m.hist.filter fun o => o.id ≠ w.id && o.pi == w.pi && o.inv < w.resp && w.inv < o.resp &&
      (o.res == "ok" || o.res == "errSum" || o.res == "errStore")
    let okBefore := m.hist.filter fun o => o.id ≠ w.id && o.pi == w.pi && o.res == "ok" && o.inv < w.resp
    let initially := 0 ≤ w.pi && m.initial.contains w.pi.toNat
    (if w.res == "ok" && !isPiece s w.pi w.payload && !collides s w.pi w.payload then
      [s!"side=impl key=accepted-corrupt peer p{a} accepted a payload for piece {w.pi} that is not the blob's piece"] else []) ++
    (if w.res == "errConflict" && overl.isEmpty then
      [s!"side=impl key=conflict-without-writer peer p{a}: piece {w.pi} reported as being written, no overlapping writer"] else []) ++
    (if w.res == "errComplete" && okBefore.isEmpty && !initially then
      [s!"side=impl key=complete-unverified peer p{a}: piece {w.pi} reported complete, no accepted write precedes"] else []) ++
    (if w.res == "errSum" && isPiece s w.pi w.payload then
      [s!"side=impl key=rejected-correct peer p{a}: the blob's piece {w.pi} was rejected with a checksum error"] else [])

def stepCore (s : St) (kind : String) (args impl : List String) : Option (St × StepOut) :=
  if kind ≠ "op" then none else
  match args with
  | ["add_torrent", aT] => do
    let a ← peer? aT
    let p ← s.sw.peers[a]?
    let bits := (impl.headD "-")
    let initial := if bits == "-" then [] else
      (List.range bits.length).filter fun i => bits.toList.getD i '0' == '1'
    pure (setPM s a (fun m => { m with initial := initial }), { obs := [bitsTok (bitfield p.tor)], branch := "add_torrent" })
  | ["conn", aT, bT] => do
    let a ← peer? aT
    let b ← peer? bT
    let pa ← s.sw.peers[a]?
    let sw' := KrakenModel.Swarm.step crc32 s.sw (.connect a b)
    let br := if pa.conns.contains b then "conn.known" else if sw' == s.sw then "conn.unexplained" else "conn.new"
    pure ({ s with sw := sw' }, { obs := impl, branch := br })
  | ["drop", aT, bT] => do
    let a ← peer? aT
    let b ← peer? bT
    pure ({ s with sw := KrakenModel.Swarm.step crc32 s.sw (.disconnect a b) }, { obs := impl, branch := "drop" })
  | ["leave", aT] => do
    let a ← peer? aT
    pure (setPM { s with sw := KrakenModel.Swarm.step crc32 s.sw (.leave a) } a (fun m => { m with left := true }),
          { obs := impl, branch := "leave" })
  | ["request", aT, bT, iT] => do
    let a ← peer? aT
    let b ← peer? bT
    let i ← nat? iT
    let sw' := KrakenModel.Swarm.step crc32 s.sw (.request a b i)
    pure ({ s with sw := sw' }, { obs := impl, branch := if sw' == s.sw then "request.unexplained" else "request.enabled" })
  | ["w", aT, id, piT, pT, invT, respT] => do
    let a ← peer? aT
    let pi ← int? piT
    let p ← bytes? pT
    let inv ← nat? invT
    let resp ← nat? respT
    let res := impl.headD "?"
    let pf := (if res == "panic" then [s!"side=impl key=panic peer p{a} panicked writing piece {pi}"] else [])
    pure (setPM s a (fun m => { m with hist := m.hist ++ [{ id := id, pi := pi, payload := p, inv := inv, resp := resp, res := res }] }),
          { obs := impl, branch := s!"w.{res}", propfails := pf })
  | ["corrupt_served", _, _] => some (s, { obs := impl, branch := "corrupt_served" })
  | ["receive", aT, bT, iT] => do
    -- receive_piece event: peer a accepted piece i sent by b
    let a ← peer? aT
    let b ← peer? bT
    let i ← nat? iT
    let pa ← s.sw.peers[a]?
    let pb ← s.sw.peers[b]?
    let ma ← s.pms[a]?
    let mb ← s.pms[b]?
    let pf :=
      (if ma.received.contains i || ma.initial.contains i then
        [s!"side=impl key=double-receive peer p{a} accepted piece {i} twice"] else []) ++
      (if mb.role == "c" || mb.role == "k" then
        [s!"side=impl key=accepted-from-corrupt peer p{a} accepted piece {i} from the corrupting peer p{b}"] else [])
    -- the bytes the implementation accepted (the latest accepted WritePiece of this piece at this peer)
    let accepted : Bytes := match (ma.hist.filter fun w => w.res == "ok" && w.pi == (i : Int)).getLast? with
      | some w => w.payload
      | none => pieceOf s.pl s.blob i      -- the `w` record always precedes its receive_piece event
    -- model: (request,) deliver, the WritePiece steps, resolve
    let sw1 := if pa.reqs.contains (b, i) then s.sw else KrakenModel.Swarm.step crc32 s.sw (.request a b i)
    let wire := wirePayload pb i accepted      -- honest sender: its own bytes; corrupting sender: the accepted bytes
    let viaSwarm := match sw1.peers[a]? with
      | some pa1 => pa1.present && pb.present && wire == some accepted
      | none => false
    let tid := pa.tor.threads.length
    let sw2 :=
      if viaSwarm then KrakenModel.Swarm.step crc32 sw1 (.deliver a b i accepted)
      else
        -- the event order does not let the model's sender follow (it is ahead of its own event, or gone):
        -- apply the accepted bytes to the receiver's torrent directly
        setPeer s.sw a { pa with tor := KrakenModel.AgentTorrent.step crc32 pa.tor (.spawn (i : Int) accepted) }
    let sw3 := runCall sw2 a tid (max 1 s.pl) 64
    let r := ((sw3.peers[a]?).bind (·.tor.threads[tid]?)).bind (·.result)
    let sw4 := if viaSwarm then KrakenModel.Swarm.step crc32 sw3 (.resolve a tid) else sw3
    let obs := match r with | some x => [resTok x] | none => ["stuck"]
    pure (setPM { s with sw := sw4 } a (fun m => { m with received := i :: m.received }),
          { obs := obs, branch := (if viaSwarm then "receive.swarm" else "receive.direct") ++ s!".from_{mb.role}", propfails := pf })
  | ["complete", aT] => do
    let a ← peer? aT
    pure (setPM s a (fun m => { m with completeEv := true }), { obs := impl, branch := "complete_event" })
  | ["final", aT] => do
    let a ← peer? aT
    let p ← s.sw.peers[a]?
    let m ← s.pms[a]?
    let dl := (kv? impl "dl").getD "?"
    let cm := (kv? impl "complete").getD "?"
    let cacheTok := (kv? impl "cache").getD "?"
    let obs := [s!"dl={dl}", s!"complete={boolTok (complete p.tor)}", s!"bf={bitsTok (bitfield p.tor)}",
                s!"cache={if p.tor.inCache then bytesTok p.tor.file else "-"}"]
    let n := npieces s
    let seeder := m.role == "s" || m.role == "o" || m.role == "c" || m.role == "i"
    let have_ := (List.range n).filter fun i => seeder || m.initial.contains i || m.received.contains i
    let pf :=
      histMon s a m ++
      (if (m.role == "a" || m.role == "k") && !m.left && dl == "timeout" then
        [s!"side=impl key=no-convergence agent p{a} did not finish its download (after a retry of the whole swarm)"] else []) ++
      (if (m.role == "a" || m.role == "k") && !m.left && dl == "timeout1" && cm == "1" then
        [s!"side=impl key=download-hang agent p{a}: the blob is complete in its cache but Download has not returned"] else []) ++
      (if (m.role == "a" || m.role == "k") && !m.left && dl != "ok" && dl != "timeout" && dl != "timeout1" then
        [s!"side=impl key=download-error agent p{a}: Download returned {dl}"] else []) ++
      (if dl == "ok" && cm != "1" then [s!"side=impl key=download-ok-incomplete agent p{a}: Download returned nil but the torrent is not complete"] else []) ++
      (if cm == "1" && bytes? cacheTok ≠ some s.blob then
        [s!"side=impl key=cache-differs peer p{a} reports complete but its cached file differs from the blob"] else []) ++
      (if cm == "1" && have_.length ≠ n then
        [s!"side=impl key=complete-early peer p{a} reports complete with {have_.length} of {n} pieces accepted"] else []) ++
      (if cacheTok != "-" && cacheTok != "?" && bytes? cacheTok ≠ some s.blob then
        [s!"side=impl key=cache-differs peer p{a}: cached file differs from the blob"] else [])
    pure (s, { obs := obs, branch := s!"final.{m.role}.{dl}", propfails := pf.eraseDups })
  | _ => none

/-- disagreements are remembered and reported by the closing `done` record, so that the monitors
    see the whole trace (the frame drops the rest of a case after a DIFF) -/
def step (s : St) (kind : String) (args impl : List String) : Option (St × StepOut) :=
  if kind = "op" ∧ args = ["done"] then
    some (s, { obs := match s.desync with | none => ["ok"] | some d => ["desync", d], branch := "done" })
  else match stepCore s kind args impl with
    | none => none
    | some (s', out) =>
      if !impl.isEmpty && out.obs != impl then
        let d := (s!"{sp args}:model={sp out.obs}:impl={sp impl}").replace " " "_"
        some ({ s' with desync := s'.desync <|> some d }, { out with obs := impl, branch := out.branch ++ "!desync" })
      else some (s', out)

def machine : Machine := { σ := St, name := "sw", init := init, step := step }


/-! ### machine `dsp`: one real Dispatcher with fake peers and a frozen clock -/

structure DSt where
  sw : Swarm
  pl : Nat
  blob : Bytes
  names : List String := []            -- fake peer K is `names[K-1]`
  out : List (Nat × Nat) := []          -- implementation side: requests sent and not yet answered / cleared
  desync : Option String := none
  bits : List (List Bool) := []         -- implementation side: what fake peer K announced to have (index K-1)
  origin : List Bool := []              -- implementation side: fake peer K was added as an origin
  prevFailed : List (Nat × Nat) := []   -- (peer, piece) of the failed requests listed after the previous op
  pipe : Nat := 1
  opipe : Nat := 2

def dinit (cfg : List String) : Option DSt := do
  let pl ← (kv? cfg "pl").bind nat?
  let blob ← (kv? cfg "blob").bind bytes?
  let pipe ← (kv? cfg "pipeline").bind nat?
  if pl = 0 then none else
  let mi := MetaInfo.ofBlob crc32 pl blob
  -- origin peers get pipeline + 1 slots: the model's single limit is the larger one (it only has to admit
  -- what the implementation does)
  let opipe := ((kv? cfg "opipeline").bind nat?).getD (pipe + 1)
  some { sw := { cfg := { maxConns := 1000, pipeline := max pipe opipe }, peers := [{ tor := KrakenModel.AgentTorrent.init mi }] },
         pl := pl, blob := blob, pipe := pipe, opipe := opipe }

def dpeer? (s : DSt) (tok : String) : Option Nat := (s.names.idxOf? tok).map (· + 1)

def pairTok (s : DSt) (q : Nat × Nat) : String := s!"{s.names.getD (q.1 - 1) "p?"}:{q.2}"

/-- `pK:i` / `pK:i:status` tokens -/
def parsePairs (s : DSt) (tok : String) : List (Nat × Nat × String) :=
  (list? tok).filterMap fun t =>
    match t.splitOn ":" with
    | [n, i] => do let k ← dpeer? s n; let j ← i.toNat?; pure (k, j, "")
    | [n, i, st] => do let k ← dpeer? s n; let j ← i.toNat?; pure (k, j, st)
    | _ => none

def modelFailed (s : DSt) : List String :=
  match s.sw.peers[0]? with
  | some pa =>
    let xs := (pa.invalid.map fun q => s!"{pairTok s q}:invalid") ++ (pa.expired.map fun q => s!"{pairTok s q}:expired")
    xs.toArray.qsort (· < ·) |>.toList
  | none => []

/-- follow the requests the implementation sent with this op -/
def followSent (s : DSt) (isResend : Bool) (sent : List (Nat × Nat × String)) : DSt × List String :=
  sent.foldl (fun (acc : DSt × List String) (q : Nat × Nat × String) =>
    let (st, bad) := acc
    let (b, i, _) := q
    let sw' :=
      if !isResend then KrakenModel.Swarm.step crc32 st.sw (.request 0 b i)
      else
        -- resendFailedPieceRequests: justified by a failed request of ANOTHER peer for the same piece
        match st.sw.peers[0]? with
        | some pa =>
          match ((pa.invalid ++ pa.expired).filter fun f => f.2 == i && f.1 != b).head? with
          | some f => KrakenModel.Swarm.step crc32 st.sw (.resend 0 f.1 b i)
          | none => st.sw
        | none => st.sw
    if sw' == st.sw then ({ st with out := (b, i) :: st.out }, bad ++ [pairTok st (b, i)])
    else ({ st with sw := sw', out := (b, i) :: st.out }, bad)) (s, [])

def dstepCore (s : DSt) (kind : String) (args impl : List String) : Option (DSt × StepOut) :=
  if kind ≠ "op" then none else
  let implHas := (kv? impl "has").getD "?"
  let implSent := parsePairs s ((kv? impl "sent").getD "-")
  let implFailed := parsePairs s ((kv? impl "failed").getD "-")
  -- 1. the op's own model action
  let pre : Option (DSt × String × List String) :=
    match args with
    | ["addpeer", name, bits, orig] =>
      if s.names.contains name then none else
      let k := s.names.length + 1
      let mi := MetaInfo.ofBlob crc32 s.pl s.blob
      let pieces := bits.toList.map fun c => if c == '1' then PStatus.complete else PStatus.empty
      let pk : Peer := { tor := { seedState mi s.blob with pieces := pieces }, corrupt := true, conns := [0] }
      let sw := match s.sw.peers[0]? with
        | some pa => { s.sw with peers := (s.sw.peers.set 0 { pa with conns := k :: pa.conns }) ++ [pk] }
        | none => s.sw
      some ({ s with sw := sw, names := s.names ++ [name], bits := s.bits ++ [bits.toList.map (· == '1')],
                     origin := s.origin ++ [orig == "1"] }, "addpeer", [])
    | ["more", _] => some (s, "more", [])
    | ["state"] => some (s, "state", [])
    | ["tick", _] => some (s, "tick", [])
    | ["resend"] => some (s, "resend", [])
    | ["announce", name, iT] => do
      let k ← dpeer? s name
      let i ← nat? iT
      let pk ← s.sw.peers[k]?
      let pk' := { pk with tor := { pk.tor with pieces := pk.tor.pieces.set i .complete } }
      some ({ s with sw := setPeer s.sw k pk', bits := s.bits.modify (k - 1) (·.set i true) }, "announce", [])
    | ["error", name, iT] => do
      let k ← dpeer? s name
      let i ← nat? iT
      let wasOut := s.out.contains (k, i)
      let pf := if wasOut && !(implFailed.any fun f => f.1 == k && f.2.1 == i && f.2.2 == "invalid") then
        [s!"side=impl key=invalid-not-marked PIECE_REQUEST_FAILED of {name} for piece {i}: the request is not marked invalid"] else []
      some ({ s with sw := KrakenModel.Swarm.step crc32 s.sw (.reqfail 0 k i) }, "error", pf)
    | ["payload", name, iT, pT] => do
      let k ← dpeer? s name
      let i ← nat? iT
      let p ← bytes? pT
      let pa ← s.sw.peers[0]?
      let tid := pa.tor.threads.length
      let sw1 := KrakenModel.Swarm.step crc32 s.sw (.deliver 0 k i p)
      let sw2 := runCall sw1 0 tid (max 1 s.pl) 64
      let r := ((sw2.peers[0]?).bind (·.tor.threads[tid]?)).bind (·.result)
      let sw3 := KrakenModel.Swarm.step crc32 sw2 (.resolve 0 tid)
      let good := p == pieceOf s.pl s.blob i
      let had := hasPieceB pa i
      let implHasI := (implHas.toList.getD i '0') == '1'
      let wasOut := s.out.contains (k, i)
      let pf :=
        (if implHasI && !had && !good then [s!"side=impl key=accepted-corrupt piece {i} of {name} accepted although it is not the blob's piece"] else []) ++
        (if !good && !had && wasOut && !(implFailed.any fun f => f.1 == k && f.2.1 == i && f.2.2 == "invalid") then
          [s!"side=impl key=invalid-not-marked rejected payload of {name} for piece {i}: the request is not marked invalid"] else []) ++
        (if good && !had && !implHasI then [s!"side=impl key=rejected-correct the blob's piece {i} from {name} was not accepted"] else [])
      some ({ s with sw := sw3 }, s!"payload.{match r with | some x => resTok x | none => "stuck"}", pf)
    | _ => none
  match pre with
  | none => none
  | some (s1, br, pf0) =>
    -- 2. requests that timed out (the clock moved): the implementation's failed list carries which
    let s2 := implFailed.foldl (fun (st : DSt) f =>
      if f.2.2 == "expired" then
        match st.sw.peers[0]? with
        | some pa =>
          let want := (implFailed.filter fun g => g.2.2 == "expired" && g.1 == f.1 && g.2.1 == f.2.1).length
          if pa.expired.count (f.1, f.2.1) ≥ want then st
          else { st with sw := KrakenModel.Swarm.step crc32 st.sw (.expire 0 f.1 f.2.1) }
        | none => st
      else st) s1
    -- implementation-side ghost of the pending requests: a received piece clears all its requests, a request
    -- that newly shows up in the failed list (invalid, expired) is no longer pending
    let curFailed := implFailed.map fun f => (f.1, f.2.1)
    let acceptedPiece : Option Nat := match args with
      | ["payload", _, iT, _] => (nat? iT).bind fun i => if (implHas.toList.getD i '0') == '1' then some i else none
      | _ => none
    let outA := match acceptedPiece with | some i => s2.out.filter (·.2 != i) | none => s2.out
    let outB := curFailed.eraseDups.foldl (fun (o : List (Nat × Nat)) q =>
      let n := curFailed.count q - s2.prevFailed.count q
      (List.range n).foldl (fun o' _ => o'.erase q) o) outA
    -- `pipeline-stalled`: maybeRequestMorePieces(pK) ran (more / announce / an accepted payload) and sent nothing
    -- although pK has a piece the agent misses that is not pending anywhere and pK's pipeline has room
    let asked : Option Nat := match args with
      | ["more", name] => dpeer? s2 name
      | ["announce", name, _] => dpeer? s2 name
      | ["payload", name, iT, _] =>
        (match acceptedPiece, (nat? iT).bind (fun i => s.sw.peers[0]?.map (fun pa => hasPieceB pa i)) with
         | some _, some false => dpeer? s2 name
         | _, _ => none)
      | _ => none
    let pfStall := match asked with
      | none => []
      | some k =>
        let limit := if s2.origin.getD (k - 1) false then s2.opipe else s2.pipe
        let pend := (outB.filter (·.1 == k)).length
        let kbits := s2.bits.getD (k - 1) []
        let cands := (List.range kbits.length).filter fun i =>
          kbits.getD i false && (implHas.toList.getD i '1') == '0' && !(outB.any (·.2 == i))
        if pend < limit && !cands.isEmpty && !(implSent.any (·.1 == k)) then
          [s!"side=impl key=pipeline-stalled {s2.names.getD (k - 1) "p?"} has pieces {cands} the agent misses and {limit - pend} free pipeline slots but got no request"]
        else []
    let s2 := { s2 with out := outB, prevFailed := curFailed }
    -- 3. the requests sent by this op
    let isResend := args == ["resend"]
    let (s3, unexplained) := followSent s2 isResend implSent
    -- monitors on the implementation's resend: never to the peer whose request for the piece failed,
    -- unless another peer's request for that piece failed too
    let pfResend := if !isResend then [] else
      implSent.filterMap fun q =>
        let fails := implFailed.filter fun f => f.2.1 == q.2.1 && (f.2.2 == "invalid" || f.2.2 == "expired")
        if !fails.isEmpty && fails.all (fun f => f.1 == q.1) then
          some s!"side=impl key=resent-to-failed-peer piece {q.2.1} re-sent to {pairTok s2 (q.1, q.2.1)} whose request for it failed"
        else if fails.isEmpty then
          some s!"side=impl key=resent-without-failure piece {q.2.1} re-sent to {pairTok s2 (q.1, q.2.1)} although no request for it failed"
        else none
    let has := match s3.sw.peers[0]? with | some pa => bitsTok (bitfield pa.tor) | none => "?"
    let sentTok := if unexplained.isEmpty then (kv? impl "sent").getD "-" else "unexplained:" ++ listTok unexplained
    let obs := [s!"has={has}", s!"sent={sentTok}", s!"failed={listTok (modelFailed s3)}"]
    some (s3, { obs := obs, branch := s!"d.{br}{if isResend && !implSent.isEmpty then ".sent" else ""}{if asked.isSome && implSent.any (fun q => some q.1 == asked) then ".next" else ""}", propfails := pf0 ++ pfResend ++ pfStall })

def dstep (s : DSt) (kind : String) (args impl : List String) : Option (DSt × StepOut) :=
  if kind = "op" ∧ args = ["done"] then
    some (s, { obs := match s.desync with | none => ["ok"] | some d => ["desync", d], branch := "done" })
  else match dstepCore s kind args impl with
    | none => none
    | some (s', out) =>
      if !impl.isEmpty && out.obs != impl then
        let d := (s!"{sp args}:model={sp out.obs}:impl={sp impl}").replace " " "_"
        some ({ s' with desync := s'.desync <|> some d }, { out with obs := impl, branch := out.branch ++ "!desync" })
      else some (s', out)

def dmachine : Machine := { σ := DSt, name := "dsp", init := dinit, step := dstep }

/-! ### machine `cslot`: one real scheduler with a hand-driven event loop (connection slot accounting) -/

structure CSt where
  sw : Swarm
  n : Nat                       -- remote peers p1..pn are model peers 1..n, the agent is peer 0
  live : List Nat := []         -- implementation side: peers whose connection was established and has not ended
  desync : Option String := none

def cinit (cfg : List String) : Option CSt := do
  let maxc ← (kv? cfg "maxconn").bind nat?
  let n ← (kv? cfg "peers").bind nat?
  let mi := MetaInfo.ofBlob crc32 4 [1, 2, 3, 4, 5]
  let agent : Peer := { tor := KrakenModel.AgentTorrent.init mi }
  let peers := agent :: List.replicate n { tor := seedState mi [1, 2, 3, 4, 5] }
  some { sw := { cfg := { maxConns := maxc, pipeline := 3 }, peers := peers }, n := n }

def cname (k : Nat) : String := s!"p{k}"

def cnames (ks : List Nat) : String := listTok ((ks.eraseDups.toArray.qsort (· < ·)).toList.map cname)

def cstepCore (s : CSt) (kind : String) (args impl : List String) : Option (CSt × StepOut) :=
  if kind ≠ "op" then none else
  let implRes := (kv? impl "res").getD "?"
  let implActive := (list? ((kv? impl "active").getD "-")).filterMap peer?
  let implBl := (list? ((kv? impl "bl").getD "-")).filterMap peer?
  let implFree := (kv? impl "free").getD "?"
  let pa? := s.sw.peers[0]?
  match pa? with
  | none => none
  | some pa =>
    let maxc := s.sw.cfg.maxConns
    let pre : Option (CSt × String × List String) :=
      match args with
      | ["dialfail", kT] => do
        let k ← peer? kT
        if k = 0 ∨ k > s.n then none else
        if pa.conns.contains k || pa.conns.length ≥ maxc then some (s, "nopending", [])
        else some ({ s with sw := KrakenModel.Swarm.step crc32 s.sw (.dialfail 0 k) }, "ok", [])
      | ["incoming", kT] => do
        let k ← peer? kT
        if k = 0 ∨ k > s.n then none else
        -- the remote peer dials the agent (its own blacklist is not part of this harness)
        let sw0 := KrakenModel.Swarm.step crc32 s.sw (.unblacklist k 0)
        let sw' := KrakenModel.Swarm.step crc32 sw0 (.connect k 0)
        let ok := sw' != sw0
        let live' := if implRes == "active" then k :: s.live else s.live
        if ok && implRes == "connrejected" then
          -- the connection was established and at once closed again by the scheduler itself (the dispatcher
          -- refused the peer); the harness has applied its connClosedEvent: connect followed by disconnect
          some ({ s with sw := KrakenModel.Swarm.step crc32 sw' (.disconnect 0 k), live := s.live.filter (· != k) }, "connrejected", [])
        else
        some ({ s with sw := sw', live := live' }, if ok then "active" else "rejected", [])
      | ["close", kT] => do
        let k ← peer? kT
        if k = 0 ∨ k > s.n then none else
        let pf := if implActive.contains k then
          [s!"side=impl key=closed-conn-keeps-slot the connection to {cname k} ended but still occupies a connection slot"] else []
        some ({ s with sw := KrakenModel.Swarm.step crc32 s.sw (.disconnect 0 k), live := s.live.filter (· != k) }, "closed", pf)
      | ["tick", _] => some (s, "ok", [])
      | ["state"] => some (s, "ok", [])
      | ["aresult", offerT] =>
        -- announceResultEvent with a handout: the agent dials the offered peers it is not connected to and has
        -- not blacklisted, while it has free slots; every dial is refused (dialfail: blacklisted)
        let offer := (list? offerT).filterMap peer?
        let (sw', _, dialled) := offer.foldl (fun (acc : Swarm × Nat × List Nat) k =>
          let (sw, pending, ds) := acc
          match sw.peers[0]? with
          | some p0 =>
            if p0.conns.length + pending ≥ maxc then acc
            else if p0.conns.contains k || p0.blacklist.contains k || ds.contains k then acc
            else (sw, pending + 1, ds ++ [k])
          | none => acc) (s.sw, 0, [])
        let sw'' := dialled.foldl (fun sw k => KrakenModel.Swarm.step crc32 sw (.dialfail 0 k)) sw'
        let pf := if (kv? impl "ready").getD "?" == "0" then
          ["side=impl key=announce-starved after the announce response the torrent is not ready to announce again: it will never look for peers again"] else []
        some ({ s with sw := sw'' }, s!"ok ready=1 dialled={listTok (dialled.map cname)}", pf)
      | _ => none
    match pre with
    | none => none
    | some (s1, res, pf0) =>
      -- blacklist entries that expired (the clock moved): the implementation's list tells which
      let s2 := match s1.sw.peers[0]? with
        | some p1 => (p1.blacklist.eraseDups.filter fun k => !implBl.contains k).foldl
            (fun (st : CSt) k => { st with sw := KrakenModel.Swarm.step crc32 st.sw (.unblacklist 0 k) }) s1
        | none => s1
      let (conns, bl) := match s2.sw.peers[0]? with | some p2 => (p2.conns, p2.blacklist) | none => ([], [])
      let obs := (s!"res={res}".splitOn " ") ++ [s!"active={cnames conns}", s!"sat={boolTok (conns.length == maxc)}",
                  s!"free={boolTok (conns.length < maxc)}", s!"bl={cnames bl}"]
      let pf :=
        (implActive.filter fun k => !s2.live.contains k).map (fun k =>
          s!"side=impl key=dead-conn-holds-slot {cname k} is listed as an active connection although its connection ended or never existed") ++
        (if implFree == "0" && s2.live.length < maxc then
          [s!"side=impl key=slot-unavailable-below-limit no new connection is admitted with {s2.live.length} of {maxc} live connections"] else [])
      let offered := match args with | ["aresult", o] => (list? o).length | _ => 0
      let slots := maxc - pa.conns.length
      let tag := if args.headD "" == "aresult" then (if offered > slots then "aresult.over" else "aresult.fits") else s!"{args.headD "?"}.{res}"
      some (s2, { obs := obs, branch := s!"c.{tag}", propfails := (pf0 ++ pf).eraseDups })

def cslotStep (s : CSt) (kind : String) (args impl : List String) : Option (CSt × StepOut) :=
  if kind = "op" ∧ args = ["done"] then
    some (s, { obs := match s.desync with | none => ["ok"] | some d => ["desync", d], branch := "done" })
  else match cstepCore s kind args impl with
    | none => none
    | some (s', out) =>
      if !impl.isEmpty && out.obs != impl then
        let d := (s!"{sp args}:model={sp out.obs}:impl={sp impl}").replace " " "_"
        some ({ s' with desync := s'.desync <|> some d }, { out with obs := impl, branch := out.branch ++ "!desync" })
      else some (s', out)

def cslotMachine : Machine := { σ := CSt, name := "cslot", init := cinit, step := cslotStep }

end C19

def main (args : List String) : IO UInt32 := runMachines [C19.machine, C19.dmachine, C19.cslotMachine] args
