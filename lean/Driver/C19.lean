import Driver.Frame
import KrakenModel.Model.Swarm
/- Driver for C19 (machine `sw`): validates the merged trace of an in-process swarm of real
   schedulers (network events + every WritePiece call of every peer, globally sequenced) against
   the swarm model: accepted deliveries are replayed as model actions (request / deliver / the
   C03 thread steps / resolve) and must be accepted by the model too; initial bitfields and final
   states (Complete, bitfield, cached bytes) are compared; monitors evaluate the property's
   predicates on the implementation's observations only. -/
open Driver KrakenModel.AgentTorrent KrakenModel.Swarm

namespace C19

def crcByte (c b : Nat) : Nat :=
  (List.range 8).foldl (fun x _ => if x % 2 = 1 then (x >>> 1) ^^^ 0xEDB88320 else x >>> 1) (c ^^^ b)

def crc32 (bs : List Nat) : Nat := (bs.foldl crcByte 0xFFFFFFFF) ^^^ 0xFFFFFFFF

def resTok : Res → String
  | .ok => "ok" | .errIndex => "errIndex" | .errLength => "errLength" | .errComplete => "errComplete"
  | .errConflict => "errConflict" | .errSum => "errSum" | .errStore => "errStore" | .panic => "panic"

def bitsTok (bs : List Bool) : String :=
  if bs.isEmpty then "-" else String.ofList (bs.map fun b => if b then '1' else '0')

/-- one WritePiece call observed at a peer -/
structure CW where
  id : String
  pi : Int
  payload : Bytes
  inv : Nat
  resp : Nat
  res : String

/-- implementation-side ghost state of one peer -/
structure PM where
  role : String             -- s: honest seeder, c: corrupting seeder, a: agent
  hist : List CW := []
  received : List Nat := []   -- pieces with a receive_piece event
  initial : List Nat := []    -- pieces complete in the add_torrent bitfield
  left : Bool := false
  completeEv : Bool := false

structure St where
  sw : Swarm
  pl : Nat
  blob : Bytes
  pms : List PM
  desync : Option String := none

def npieces (s : St) : Nat := numPiecesOf s.pl s.blob.length

def peer? (tok : String) : Option Nat :=
  match tok.toList with
  | 'p' :: ds => (String.ofList ds).toNat?
  | _ => none

def init (cfg : List String) : Option St := do
  let pl ← (kv? cfg "pl").bind nat?
  let blob ← (kv? cfg "blob").bind bytes?
  let roles := list? ((kv? cfg "roles").getD "-")
  let maxc ← (kv? cfg "maxconn").bind nat?
  let pipe ← (kv? cfg "pipeline").bind nat?
  if pl = 0 ∨ roles.any (fun r => r ≠ "s" ∧ r ≠ "c" ∧ r ≠ "a") then none else
  let mi := MetaInfo.ofBlob crc32 pl blob
  let peers : List Peer := roles.map fun r =>
    if r = "a" then { tor := KrakenModel.AgentTorrent.init mi } else { tor := seedState mi blob, corrupt := r = "c" }
  some { sw := { cfg := { maxConns := maxc, pipeline := pipe }, peers := peers }, pl := pl, blob := blob,
         pms := roles.map fun r => { role := r } }

def isPiece (s : St) (pi : Int) (p : Bytes) : Bool :=
  0 ≤ pi && pi.toNat < npieces s && p == pieceOf s.pl s.blob pi.toNat

def collides (s : St) (pi : Int) (p : Bytes) : Bool :=
  0 ≤ pi && pi.toNat < npieces s && p != pieceOf s.pl s.blob pi.toNat &&
    p.length == (pieceOf s.pl s.blob pi.toNat).length && crc32 p == crc32 (pieceOf s.pl s.blob pi.toNat)

def setPM (s : St) (a : Nat) (f : PM → PM) : St :=
  { s with pms := s.pms.mapIdx fun i m => if i = a then f m else m }

/-- run WritePiece call `tid` of peer `a` to its end through swarm `tstep` actions -/
def runCall (sw : Swarm) (a tid : Nat) (k : Nat) : Nat → Swarm
  | 0 => sw
  | f + 1 =>
    match (sw.peers[a]?).bind (·.tor.threads[tid]?) with
    | some t => if t.pc == .done then sw else runCall (KrakenModel.Swarm.step crc32 sw (.tstep a tid k)) a tid k f
    | none => sw

/-- history monitors of one peer's WritePiece calls (same predicates as C03's free-running machine) -/
def histMon (s : St) (a : Nat) (m : PM) : List String :=
  m.hist.flatMap fun w =>
    let overl := m.hist.filter fun o => o.id ≠ w.id && o.pi == w.pi && o.inv < w.resp && w.inv < o.resp &&
      (o.res == "ok" || o.res == "errSum" || o.res == "errStore")
    let okBefore := m.hist.filter fun o => o.id ≠ w.id && o.pi == w.pi && o.res == "ok" && o.inv < w.resp
    let initially := 0 ≤ w.pi && m.initial.contains w.pi.toNat
    (if w.res == "ok" && !isPiece s w.pi w.payload && !collides s w.pi w.payload then
      [s!"side=impl key=accepted-corrupt peer p{a} accepted a payload for piece {w.pi} that is not the blob's piece"] else []) ++
    (if w.res == "errConflict" && overl.isEmpty then
      [s!"side=impl key=conflict-without-writer peer p{a}: piece {w.pi} reported as being written, no overlapping writer"] else []) ++
    (if w.res == "errComplete" && okBefore.isEmpty && !initially then
      [s!"side=impl key=complete-unverified peer p{a}: piece {w.pi} reported complete, no accepted write precedes"] else []) ++
    (if w.res == "errSum" && isPiece s w.pi w.payload then
      [s!"side=impl key=rejected-correct peer p{a}: the blob's piece {w.pi} was rejected with a checksum error"] else [])

def stepCore (s : St) (kind : String) (args impl : List String) : Option (St × StepOut) :=
  if kind ≠ "op" then none else
  match args with
  | ["add_torrent", aT] => do
    let a ← peer? aT
    let p ← s.sw.peers[a]?
    let bits := (impl.headD "-")
    let initial := if bits == "-" then [] else
      (List.range bits.length).filter fun i => bits.toList.getD i '0' == '1'
    pure (setPM s a (fun m => { m with initial := initial }), { obs := [bitsTok (bitfield p.tor)], branch := "add_torrent" })
  | ["conn", aT, bT] => do
    let a ← peer? aT
    let b ← peer? bT
    let pa ← s.sw.peers[a]?
    let sw' := KrakenModel.Swarm.step crc32 s.sw (.connect a b)
    let br := if pa.conns.contains b then "conn.known" else if sw' == s.sw then "conn.unexplained" else "conn.new"
    pure ({ s with sw := sw' }, { obs := impl, branch := br })
  | ["drop", aT, bT] => do
    let a ← peer? aT
    let b ← peer? bT
    pure ({ s with sw := KrakenModel.Swarm.step crc32 s.sw (.disconnect a b) }, { obs := impl, branch := "drop" })
  | ["leave", aT] => do
    let a ← peer? aT
    pure (setPM { s with sw := KrakenModel.Swarm.step crc32 s.sw (.leave a) } a (fun m => { m with left := true }),
          { obs := impl, branch := "leave" })
  | ["request", aT, bT, iT] => do
    let a ← peer? aT
    let b ← peer? bT
    let i ← nat? iT
    let sw' := KrakenModel.Swarm.step crc32 s.sw (.request a b i)
    pure ({ s with sw := sw' }, { obs := impl, branch := if sw' == s.sw then "request.unexplained" else "request.enabled" })
  | ["w", aT, id, piT, pT, invT, respT] => do
    let a ← peer? aT
    let pi ← int? piT
    let p ← bytes? pT
    let inv ← nat? invT
    let resp ← nat? respT
    let res := impl.headD "?"
    let pf := (if res == "panic" then [s!"side=impl key=panic peer p{a} panicked writing piece {pi}"] else [])
    pure (setPM s a (fun m => { m with hist := m.hist ++ [{ id := id, pi := pi, payload := p, inv := inv, resp := resp, res := res }] }),
          { obs := impl, branch := s!"w.{res}", propfails := pf })
  | ["corrupt_served", _, _] => some (s, { obs := impl, branch := "corrupt_served" })
  | ["receive", aT, bT, iT] => do
    -- receive_piece event: peer a accepted piece i sent by b
    let a ← peer? aT
    let b ← peer? bT
    let i ← nat? iT
    let pa ← s.sw.peers[a]?
    let pb ← s.sw.peers[b]?
    let ma ← s.pms[a]?
    let mb ← s.pms[b]?
    let pf :=
      (if ma.received.contains i || ma.initial.contains i then
        [s!"side=impl key=double-receive peer p{a} accepted piece {i} twice"] else []) ++
      (if mb.role == "c" then [s!"side=impl key=accepted-from-corrupt peer p{a} accepted piece {i} from the corrupting peer p{b}"] else [])
    -- model: (request,) deliver, the WritePiece steps, resolve
    let sw1 := if pa.reqs.contains (b, i) then s.sw else KrakenModel.Swarm.step crc32 s.sw (.request a b i)
    let viaSwarm := match sw1.peers[a]? with
      | some pa1 => pa1.reqs.contains (b, i) && pa1.present && pb.present && !pb.corrupt && hasPieceB pb i
      | none => false
    let tid := pa.tor.threads.length
    let sw2 :=
      if viaSwarm then KrakenModel.Swarm.step crc32 sw1 (.deliver a b i [])
      else
        -- the event order does not let the bookkeeping follow (request logged late, sender ahead of its own
        -- event, connection already dropped): apply the delivery to the receiver's torrent directly
        setPeer s.sw a { pa with tor := KrakenModel.AgentTorrent.step crc32 pa.tor (.spawn (i : Int) (pieceOf s.pl s.blob i)) }
    let sw3 := runCall sw2 a tid (max 1 s.pl) 64
    let r := ((sw3.peers[a]?).bind (·.tor.threads[tid]?)).bind (·.result)
    let sw4 := if viaSwarm then KrakenModel.Swarm.step crc32 sw3 (.resolve a tid) else sw3
    let obs := match r with | some x => [resTok x] | none => ["stuck"]
    pure (setPM { s with sw := sw4 } a (fun m => { m with received := i :: m.received }),
          { obs := obs, branch := if viaSwarm then "receive.swarm" else "receive.direct", propfails := pf })
  | ["complete", aT] => do
    let a ← peer? aT
    pure (setPM s a (fun m => { m with completeEv := true }), { obs := impl, branch := "complete_event" })
  | ["final", aT] => do
    let a ← peer? aT
    let p ← s.sw.peers[a]?
    let m ← s.pms[a]?
    let dl := (kv? impl "dl").getD "?"
    let cm := (kv? impl "complete").getD "?"
    let cacheTok := (kv? impl "cache").getD "?"
    let obs := [s!"dl={dl}", s!"complete={boolTok (complete p.tor)}", s!"bf={bitsTok (bitfield p.tor)}",
                s!"cache={if p.tor.inCache then bytesTok p.tor.file else "-"}"]
    let n := npieces s
    let have_ := (List.range n).filter fun i => m.initial.contains i || m.received.contains i
    let pf :=
      histMon s a m ++
      (if m.role == "a" && !m.left && dl == "timeout" then
        [s!"side=impl key=no-convergence agent p{a} did not finish its download (after a retry of the whole swarm)"] else []) ++
      (if m.role == "a" && !m.left && dl != "ok" && dl != "timeout" then
        [s!"side=impl key=download-error agent p{a}: Download returned {dl}"] else []) ++
      (if dl == "ok" && cm != "1" then [s!"side=impl key=download-ok-incomplete agent p{a}: Download returned nil but the torrent is not complete"] else []) ++
      (if cm == "1" && bytes? cacheTok ≠ some s.blob then
        [s!"side=impl key=cache-differs peer p{a} reports complete but its cached file differs from the blob"] else []) ++
      (if cm == "1" && have_.length ≠ n then
        [s!"side=impl key=complete-early peer p{a} reports complete with {have_.length} of {n} pieces accepted"] else []) ++
      (if cacheTok != "-" && cacheTok != "?" && bytes? cacheTok ≠ some s.blob then
        [s!"side=impl key=cache-differs peer p{a}: cached file differs from the blob"] else [])
    pure (s, { obs := obs, branch := s!"final.{m.role}.{dl}", propfails := pf.eraseDups })
  | _ => none

/-- disagreements are remembered and reported by the closing `done` record, so that the monitors
    see the whole trace (the frame drops the rest of a case after a DIFF) -/
def step (s : St) (kind : String) (args impl : List String) : Option (St × StepOut) :=
  if kind = "op" ∧ args = ["done"] then
    some (s, { obs := match s.desync with | none => ["ok"] | some d => ["desync", d], branch := "done" })
  else match stepCore s kind args impl with
    | none => none
    | some (s', out) =>
      if !impl.isEmpty && out.obs != impl then
        let d := (s!"{sp args}:model={sp out.obs}:impl={sp impl}").replace " " "_"
        some ({ s' with desync := s'.desync <|> some d }, { out with obs := impl, branch := out.branch ++ "!desync" })
      else some (s', out)

def machine : Machine := { σ := St, name := "sw", init := init, step := step }

end C19

def main (args : List String) : IO UInt32 := runMachines [C19.machine] args
