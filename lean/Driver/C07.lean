import Driver.BlobStoreM
/- Driver for C07: the disk blob store against `Model.BlobStore` (machine `ds`). -/
def main (args : List String) : IO UInt32 := Driver.runMachines [BlobStoreM.disk] args
