import Driver.Frame
import KrakenModel.Model.Health
/- Driver for C23: replays healthcheck.Filter transcripts on the model and monitors the documented
   per-host hysteresis on what the implementation returned.

   cfg fails=<int> passes=<int>                         raw FilterConfig (before applyDefaults)
   op run <a0:1,a1:0,…|-> => <healthy sorted> <checked sorted>
-/
open Driver KrakenModel.Health

namespace C23

def host? (t : String) : Option Nat :=
  match t.toList with
  | 'a' :: ds => if ds.isEmpty then none else (String.ofList ds).toNat?
  | _ => none

def hostTok (h : Nat) : String := s!"a{h}"

def entry? (t : String) : Option (Nat × Bool) :=
  match t.splitOn ":" with
  | [a, b] => do pure ((← host? a), (← bool? b))
  | _ => none

def insertSorted (x : Nat) : List Nat → List Nat
  | [] => [x]
  | y :: ys => if x ≤ y then x :: y :: ys else y :: insertSorted x ys

def sortNat (xs : List Nat) : List Nat := xs.foldr insertSorted []

structure St where
  cfg : Config
  m : State := []
  sp : List (Nat × Sp) := []     -- the documented automaton per host seen so far
  seen : List Nat := []          -- hosts listed at least once

def init (toks : List String) : Option St := do
  let f ← (kv? toks "fails").bind int?
  let p ← (kv? toks "passes").bind int?
  pure { cfg := (Config.mk f p).applyDefaults }

def spOf (s : St) (h : Nat) : Sp := ((s.sp.find? (·.1 == h)).map (·.2)).getD none

def step (s : St) (kind : String) (args impl : List String) : Option (St × StepOut) :=
  if kind ≠ "op" then none else
  match args with
  | ["run", lt] => do
    let entries ← (list? lt).mapM entry?
    let addrs := entries.map (·.1)
    let oks := (entries.filter (·.2)).map (·.1)
    let r : Round := ⟨addrs, oks⟩
    let (m', out, checked) := run s.cfg s.m addrs (oks.contains ·)
    let obs := [listTok ((sortNat out).map hostTok), listTok ((sortNat checked).map hostTok)]
    -- monitors: the documented automaton, from the listed hosts and check outcomes only
    let F := s.cfg.fails.toNat
    let P := s.cfg.passes.toNat
    let hosts := (dedup addrs ++ s.seen).eraseDups
    let sp' := hosts.map fun h => (h, spStep F P (spOf s h) (evOf h r))
    let implHealthy := (impl.head?.map list?).getD [] |>.filterMap host?
    let active := s.cfg.fails ≥ 1 ∧ s.cfg.passes ≥ 1 ∧ impl.length = 2
    let pf : List String := if !active then [] else
      (hosts.flatMap fun h =>
        let e := evOf h r
        let σ' := spStep F P (spOf s h) e
        let want := spReported σ' e
        let got := implHealthy.contains h
        if want = got then []
        else if want then
          (match e, spOf s h with
           | .single, _ => [s!"side=impl key=single-host-not-reported Run(\{{hostTok h}}) does not report the only listed host"]
           | _, none =>
             if h ∈ s.seen then [s!"side=impl key=rejoin-not-healthy {hostTok h} left the list and rejoined but is not reported healthy"]
             else [s!"side=impl key=new-host-not-healthy {hostTok h} is listed for the first time but is not reported healthy"]
           | _, some (true, k) => [s!"side=impl key=unhealthy-too-early {hostTok h} reported unhealthy after {k}+ consecutive failed checks, Fails={F}"]
           | _, some (false, k) => [s!"side=impl key=healthy-too-late {hostTok h} still unhealthy after {k + 1} consecutive passed checks, Passes={P}"])
        else
          (match e, spOf s h with
           | .absent, _ => [s!"side=impl key=reported-unlisted {hostTok h} is reported healthy but is not listed"]
           | _, some (true, k) => [s!"side=impl key=unhealthy-too-late {hostTok h} still reported healthy after {k + 1} consecutive failed checks, Fails={F}"]
           | _, some (false, k) => [s!"side=impl key=healthy-too-early {hostTok h} reported healthy again after {k}+ consecutive passed checks, Passes={P}"]
           | _, none => [s!"side=impl key=unhealthy-too-late {hostTok h} reported healthy after its first check failed, Fails={F}"])) ++
      (implHealthy.filter (fun h => h ∉ hosts)).map fun h => s!"side=impl key=reported-unlisted {hostTok h} is reported healthy but was never listed"
    let n := (dedup addrs).length
    let br := if n = 1 then "run.single" else if n = 0 then "run.empty" else
      s!"run.{min n 3}.{if (dedup addrs).any (fun h => h ∈ s.seen ∧ (find s.m h).isNone) then "rejoin" else "plain"}.h{min out.length 3}"
    pure ({ s with m := m', sp := sp', seen := hosts }, { obs, branch := br, propfails := pf })
  | _ => none

def machine : Machine := { σ := St, name := "hc", init := init, step := step }

end C23

def main (args : List String) : IO UInt32 := runMachines [C23.machine] args
