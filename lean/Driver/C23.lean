import Driver.Frame
import KrakenModel.Model.Health
/- Driver for C23: replays healthcheck.Filter transcripts on the model and monitors the documented
   per-host hysteresis on what the implementation returned.

   cfg fails=<int> passes=<int> [timeout=<ms>]          raw FilterConfig (before applyDefaults)
   op run <a0:1,a1:0,a2:t,…|-> => <healthy sorted> <checked sorted>     (t: the check blocks until
                                                        the per-Run timeout — a failed check)
   machine `hcm` (healthcheck.Monitor around the real filter, its loop gated by the harness):
   op hosts <a0:1,…|->  => ok                  the host list's content and the check outcomes from now on
   op tick              => <filter input sorted> <Monitor.Resolve() afterwards, sorted>   one loop iteration
   op resolve           => <sorted>            Monitor.Resolve()
-/
open Driver KrakenModel.Health

namespace C23

def host? (t : String) : Option Nat :=
  match t.toList with
  | 'a' :: ds => if ds.isEmpty then none else (String.ofList ds).toNat?
  | _ => none

def hostTok (h : Nat) : String := s!"a{h}"

def entry? (t : String) : Option (Nat × Bool) :=
  match t.splitOn ":" with
  | [a, b] => do pure ((← host? a), (← (if b = "t" then some false else bool? b)))
  | _ => none

def insertSorted (x : Nat) : List Nat → List Nat
  | [] => [x]
  | y :: ys => if x ≤ y then x :: y :: ys else y :: insertSorted x ys

def sortNat (xs : List Nat) : List Nat := xs.foldr insertSorted []

structure St where
  cfg : Config
  m : State := []
  sp : List (Nat × Sp) := []     -- the documented automaton per host seen so far
  seen : List Nat := []          -- hosts listed at least once

def init (toks : List String) : Option St := do
  let f ← (kv? toks "fails").bind int?
  let p ← (kv? toks "passes").bind int?
  pure { cfg := (Config.mk f p).applyDefaults }

def spOf (s : St) (h : Nat) : Sp := ((s.sp.find? (·.1 == h)).map (·.2)).getD none

/-- the documented automaton advanced by one `Run` over `r`, judged against the hosts the
implementation reported healthy: (new automaton states, hosts seen, predicate failures) -/
def judge (s : St) (r : Round) (implHealthy : List Nat) (active : Bool) : List (Nat × Sp) × List Nat × List String :=
  let F := s.cfg.fails.toNat
  let P := s.cfg.passes.toNat
  let hosts := (dedup r.addrs ++ s.seen).eraseDups
  let sp' := hosts.map fun h => (h, spStep F P (spOf s h) (evOf h r))
  let pf : List String := if !active then [] else
    (hosts.flatMap fun h =>
      let e := evOf h r
      let σ' := spStep F P (spOf s h) e
      let want := spReported σ' e
      let got := implHealthy.contains h
      if want = got then []
      else if want then
        (match e, spOf s h with
         | .single, _ => [s!"side=impl key=single-host-not-reported Run(\{{hostTok h}}) does not report the only listed host"]
         | _, none =>
           if h ∈ s.seen then [s!"side=impl key=rejoin-not-healthy {hostTok h} left the list and rejoined but is not reported healthy"]
           else [s!"side=impl key=new-host-not-healthy {hostTok h} is listed for the first time but is not reported healthy"]
         | _, some (true, k) => [s!"side=impl key=unhealthy-too-early {hostTok h} reported unhealthy after {k}+ consecutive failed checks, Fails={F}"]
         | _, some (false, k) => [s!"side=impl key=healthy-too-late {hostTok h} still unhealthy after {k + 1} consecutive passed checks, Passes={P}"])
      else
        (match e, spOf s h with
         | .absent, _ => [s!"side=impl key=reported-unlisted {hostTok h} is reported healthy but is not listed"]
         | _, some (true, k) => [s!"side=impl key=unhealthy-too-late {hostTok h} still reported healthy after {k + 1} consecutive failed checks, Fails={F}"]
         | _, some (false, k) => [s!"side=impl key=healthy-too-early {hostTok h} reported healthy again after {k}+ consecutive passed checks, Passes={P}"]
         | _, none => [s!"side=impl key=unhealthy-too-late {hostTok h} reported healthy after its first check failed, Fails={F}"])) ++
    (implHealthy.filter (fun h => h ∉ hosts)).map fun h => s!"side=impl key=reported-unlisted {hostTok h} is reported healthy but was never listed"
  (sp', hosts, pf)

def roundBranch (s : St) (addrs : List Nat) (out : List Nat) (timedOut : Bool) : String :=
  let n := (dedup addrs).length
  if n = 1 then "run.single" else if n = 0 then "run.empty" else
    s!"run.{min n 3}.{if (dedup addrs).any (fun h => h ∈ s.seen ∧ (find s.m h).isNone) then "rejoin" else "plain"}.h{min out.length 3}{if timedOut then ".timeout" else ""}"

def step (s : St) (kind : String) (args impl : List String) : Option (St × StepOut) :=
  if kind ≠ "op" then none else
  match args with
  | ["run", lt] => do
    let entries ← (list? lt).mapM entry?
    let addrs := entries.map (·.1)
    let oks := (entries.filter (·.2)).map (·.1)
    let r : Round := ⟨addrs, oks⟩
    let (m', out, checked) := run s.cfg s.m addrs (oks.contains ·)
    let obs := [listTok ((sortNat out).map hostTok), listTok ((sortNat checked).map hostTok)]
    let implHealthy := (impl.head?.map list?).getD [] |>.filterMap host?
    let active := s.cfg.fails ≥ 1 ∧ s.cfg.passes ≥ 1 ∧ impl.length = 2
    let (sp', hosts, pf) := judge s r implHealthy active
    let timedOut := (list? lt).any (·.endsWith ":t") ∧ (dedup addrs).length ≠ 1
    pure ({ s with m := m', sp := sp', seen := hosts }, { obs, branch := roundBranch s addrs out timedOut, propfails := pf })
  | _ => none

def machine : Machine := { σ := St, name := "hc", init := init, step := step }

/-! ### healthcheck.Monitor -/

structure MSt where
  base : St
  addrs : List Nat := []
  oks : List Nat := []
  resolved : List Nat := []   -- what Monitor.Resolve() returns: the list at construction, then the last Run
  started : Bool := false     -- NewMonitor has been called (the harness does so at the first tick/resolve)

def mstep (ms : MSt) (kind : String) (args impl : List String) : Option (MSt × StepOut) :=
  if kind ≠ "op" then none else
  let s := ms.base
  match args with
  | ["hosts", lt] => do
    let entries ← (list? lt).mapM entry?
    let addrs := dedup (entries.map (·.1))
    let oks := (entries.filter (·.2)).map (·.1)
    pure ({ ms with addrs, oks }, { obs := ["ok"], branch := "hosts" })
  | ["tick"] =>
    let r : Round := ⟨ms.addrs, ms.oks⟩
    let (m', out, _) := run s.cfg s.m ms.addrs (ms.oks.contains ·)
    let implResolved := (impl.drop 1).head?.map list? |>.getD [] |>.filterMap host?
    let active := s.cfg.fails ≥ 1 ∧ s.cfg.passes ≥ 1 ∧ impl.length = 2
    let (sp', hosts, pf) := judge s r implResolved active
    some ({ ms with base := { s with m := m', sp := sp', seen := hosts }, resolved := out, started := true },
          { obs := [listTok ((sortNat ms.addrs).map hostTok), listTok ((sortNat out).map hostTok)],
            branch := "tick." ++ roundBranch s ms.addrs out false, propfails := pf })
  | ["resolve"] =>
    -- until the first loop iteration the monitor reports the host list it was constructed with
    let ms := if ms.started then ms else { ms with resolved := ms.addrs, started := true }
    some (ms, { obs := [listTok ((sortNat ms.resolved).map hostTok)], branch := "resolve" })
  | _ => none

def monitorMachine : Machine :=
  { σ := MSt, name := "hcm", init := fun toks => (init toks).map fun s => { base := s }, step := mstep }

end C23

def main (args : List String) : IO UInt32 := runMachines [C23.machine, C23.monitorMachine] args
