import Driver.Frame
import KrakenModel.Model.Rendezvous
/- Driver for C22: replays lib/hrw.RendezvousHash transcripts.

   records (machine `hrw`):
     cfg hash=murmur|sha256
     op add <label> <weight> => ok
     op remove <label> => ok
     op nodes => <label*weight,…>               rh.Nodes in slice order
     tbl <key> <label*weight=score> …            Go's Score(key) of every current node (order-preserving
                                                 integer image of the float64, `nan` for NaN)
     op get <key> <n> => ok <label*weight,…> | panic

   The sort algorithm is not modelled: the implementation's list is validated to be (a prefix of) a
   descending-sorted permutation; with pairwise distinct scores Spec/C22 shows that list is unique and
   it is compared token-for-token with `ordered`.  Score ties are reported. -/
open Driver KrakenModel.Rendezvous

namespace C22

abbrev Score := Option Int      -- none = NaN

structure St where
  m : State := {}
  curKey : String := ""
  cur : List (Node × Score) := []                      -- the last `tbl` row
  seenScore : Std.HashMap String Score := {}            -- key|node ↦ score  (score must be a function)
  ghost : Std.HashMap String (List (List Node)) := {}   -- key ↦ full in-domain outputs of the implementation

def node? (t : String) : Option Node :=
  match t.splitOn "*" with
  | [l, w] => do let wi ← w.toInt?; pure ⟨l, wi⟩
  | _ => none

def nodeTok (n : Node) : String := s!"{n.label}*{n.weight}"

def nodes? (t : String) : Option (List Node) := (list? t).mapM node?

def nodesTok (ns : List Node) : String := listTok (ns.map nodeTok)

def entry? (t : String) : Option (Node × Score) :=
  match t.splitOn "=" with
  | [e, sc] => do
    let n ← node? e
    if sc = "nan" then pure (n, none) else do let v ← sc.toInt?; pure (n, some v)
  | _ => none

def lookup (tbl : List (Node × Score)) (n : Node) : Option Score :=
  (tbl.find? (fun e => e.1 = n)).map (·.2)

/-- total score used for sorting; NaN (absent) never reaches it when `clean` -/
def scoreOf (tbl : List (Node × Score)) (n : Node) : Int :=
  match lookup tbl n with
  | some (some v) => v
  | _ => 0

/-- the key is a hex string (`hex.DecodeString` succeeds): decided from the INPUT token, never from scores -/
def keyIsHex (keyTok : String) : Bool :=
  match str? keyTok with
  | some k => k.length % 2 == 0 && k.toList.all (fun c => (hexDigit? c).isSome)
  | none => false

def isPermNodes (a b : List Node) : Bool := a.length == b.length && a.all (fun x => a.count x == b.count x)

def subMultiset (out nodes : List Node) : Bool := out.all fun a => out.count a ≤ nodes.count a

def step (s : St) (kind : String) (args impl : List String) : Option (St × StepOut) :=
  match kind, args with
  | "op", ["add", l, w] => do
    let wi ← w.toInt?
    let dup := s.m.nodes.any (·.label == l)
    pure ({ s with m := addNode s.m l wi }, { obs := ["ok"], branch := if dup then "add.duplabel" else if wi ≤ 0 then "add.nonposweight" else "add.fresh" })
  | "op", ["remove", l] =>
    let has := s.m.nodes.any (·.label == l)
    some ({ s with m := removeNode s.m l }, { obs := ["ok"], branch := if has then "remove.present" else "remove.absent" })
  | "op", ["conc", _, _] =>
    -- concurrent read-only queries compared with a sequentially used twin by the harness (propfail lines)
    some (s, { obs := ["ok"], branch := "conc" })
  | "op", ["nodes"] =>
    -- the slice order of rh.Nodes is internal: any arrangement of the same multiset is accepted and followed
    match impl with
    | [t] => match nodes? t with
      | some o => if isPermNodes o s.m.nodes then some ({ s with m := { nodes := o } }, { obs := [t], branch := "nodes" })
                  else some (s, { obs := [nodesTok s.m.nodes], branch := "nodes" })
      | none => some (s, { obs := [nodesTok s.m.nodes], branch := "nodes" })
    | _ => some (s, { obs := [nodesTok s.m.nodes], branch := "nodes" })
  | "one", ["unitfloat", _] =>
    -- hrw.UInt64ToFloat64(bytes, max, murmur3) on inputs whose low 53 bits are zero: the score function
    -- needs a value strictly inside (0,1) (log(0) = -Inf); the rehash-on-zero branch provides it
    let pf := match impl with
      | ["in01"] => []
      | other => [s!"side=impl key=unit-float-out-of-range UInt64ToFloat64 returned {sp other} for a hash whose low 53 bits are zero"]
    some (s, { obs := ["in01"], branch := "unitfloat", propfails := pf })
  | "tbl", key :: entries => do
    let es ← entries.mapM entry?
    let mut seen := s.seenScore
    let mut pf : List String := []
    for (n, sc) in es do
      let k := key ++ "|" ++ nodeTok n
      match seen[k]? with
      | some old => if old ≠ sc then pf := s!"side=impl key=score-unstable Score({key}) of {nodeTok n} changed" :: pf
      | none => seen := seen.insert k sc
    -- membership implied by the API history is unambiguous when labels are distinct: then the
    -- implementation's node set must be exactly it (a removal removes only that node, an addition only adds)
    let labelsDistinct := (s.m.nodes.map (·.label)).eraseDups.length == s.m.nodes.length
    if labelsDistinct && !(subMultiset (es.map (·.1)) s.m.nodes && es.length == s.m.nodes.length) then
      pf := s!"side=impl key=membership-mismatch rh.Nodes is {nodesTok (es.map (·.1))}, the AddNode/RemoveNode history implies {nodesTok s.m.nodes}" :: pf
    pure ({ s with curKey := key, cur := es, seenScore := seen }, { branch := "tbl", propfails := pf })
  | "op", ["get", key, nt] => do
    let n ← nt.toInt?
    if key ≠ s.curKey then none else
    let nodes := s.m.nodes
    let len := nodes.length
    -- the implementation's own listing of its nodes (the tbl row) is the reference for the monitors
    let inodes := s.cur.map (·.1)
    -- a model node without a score row: model and implementation disagree on the membership
    if nodes.any (fun x => (lookup s.cur x).isNone) then
      some (s, { obs := ["ok", "?model-nodes=" ++ nodesTok nodes], branch := "get.membership-differs" }) else
    let hasNaN := nodes.any (fun x => lookup s.cur x == some none)
    let sc := scoreOf s.cur
    let tie := !hasNaN && hasTie sc nodes
    -- the domain is decided from the INPUT only: a hex key, positive weights, distinct labels
    let inDom := keyIsHex key && nodes.all (fun x => x.weight > 0) && (nodes.map (·.label)).eraseDups.length == len
    let pfNaN := if inDom && hasNaN then [s!"side=impl key=nan-score Score({key}) is NaN for a node of {nodesTok nodes} although {key} is a hex key"] else []
    let modelOut := getOrderedNodes (fun (_ : Unit) => sc) s.m () n
    match modelOut with
    | .panic => pure (s, { obs := ["panic"], branch := "get.panic" })
    | .ok mo =>
      let k := if n ≥ (len : Int) then len else n.toNat
      let full := k == len
      let implOut : Option (List Node) := match impl with
        | ["ok", t] => nodes? t
        | _ => none
      let (obs, branch, pf, s') := match implOut with
        | none => (["ok", nodesTok mo], "get.noimpl", ([] : List String), s)
        | some o =>
          let ki := if n ≥ (inodes.length : Int) then inodes.length else n.toNat
          let isPermPrefix := o.length == ki && subMultiset o inodes
          let pfPerm := if !isPermPrefix then [s!"side=impl key=not-permutation GetOrderedNodes({key},{n}) returned {nodesTok o} for nodes {nodesTok inodes}"] else []
          let sorted := hasNaN || decide (SortedDesc sc o)
          let pfSorted := if !sorted then [s!"side=impl key=not-sorted GetOrderedNodes({key},{n}) returned {nodesTok o}, not descending by Score"] else []
          let adm := hasNaN || admissible sc inodes ki o
          let pfTop := if isPermPrefix && sorted && !adm then [s!"side=impl key=not-top GetOrderedNodes({key},{n}) returned {nodesTok o}, a higher scoring node was left out"] else []
          let pfTie := if inDom && tie then [s!"side=impl key=score-tie two of {nodesTok nodes} have the same Score({key}): order depends on insertion order"] else []
          -- relative order against earlier outputs of the implementation for the same key
          let prev := (s.ghost[key]?).getD []
          let pfRel : List String :=
            if !(inDom && !tie && !hasNaN && isPermPrefix) then [] else
            prev.foldl (fun acc p =>
              if !acc.isEmpty then acc
              else if full then
                if o.filter (p.contains ·) ≠ p.filter (o.contains ·) then
                  if p.length == o.length && p.all (o.contains ·) then
                    [s!"side=impl key=insertion-order-dependent same membership, key {key}: earlier {nodesTok p}, now {nodesTok o}"]
                  else
                    [s!"side=impl key=relative-order-changed key {key}: earlier {nodesTok p}, now {nodesTok o}"]
                else []
              else if p.length == len && nodes.all (p.contains ·) && p.take k ≠ o then
                [s!"side=impl key=prefix-mismatch key {key} n={n}: full list {nodesTok p}, now {nodesTok o}"]
              else []) []
          let ghost := if inDom && !tie && !hasNaN && full && isPermPrefix then s.ghost.insert key ((o :: prev).take 6) else s.ghost
          let follow := (tie || hasNaN) && isPermPrefix && adm
          let obs := if follow then ["ok", nodesTok o] else ["ok", nodesTok mo]
          let br := if hasNaN then (if inDom then "get.nan" else "get.nan.outdom")
            else if tie then (if inDom then "get.tie" else "get.tie.outdom")
            else (if full then "get.full" else "get.prefix") ++ (if inDom then "" else ".outdom")
          (obs, br, pfNaN ++ pfPerm ++ pfSorted ++ pfTop ++ pfTie ++ pfRel, { s with ghost := ghost })
      pure (s', { obs, branch, propfails := pf })
  | _, _ => none

def machine : Machine := { σ := St, name := "hrw", init := fun _ => some {}, step := step }

/-! #### `casvol`: the call site lib/store.initCASVolumes (shard directory → volume, GetOrderedNodes(subdir, 1))

     op init <A|B|…> <volume*weight,… in configuration order> => ok | err
     tbl <subdir> <volume*weight=score> …      scores of an hrw instance configured as initCASVolumes does
     op vol <A|B|…> <subdir> => <volume> | none       where the symlink of that shard directory points -/

structure VolSt where
  sets : List (String × List Node) := []
  curKey : String := ""
  cur : List (Node × Score) := []
  chosen : List (String × String × String) := []      -- (tag, subdir, volume) as observed on the implementation

def stepVol (s : VolSt) (kind : String) (args impl : List String) : Option (VolSt × StepOut) :=
  match kind, args with
  | "op", ["init", tag, vt] => do
    let vs ← nodes? vt
    pure ({ s with sets := (tag, vs) :: s.sets.filter (·.1 ≠ tag) }, { obs := ["ok"], branch := "init" })
  | "tbl", key :: entries => do
    let es ← entries.mapM entry?
    pure ({ s with curKey := key, cur := es }, { branch := "tbl" })
  | "op", ["vol", tag, key] => do
    let vs ← (s.sets.find? (·.1 = tag)).map (·.2)
    if key ≠ s.curKey then none else
    if vs.any (fun x => (lookup s.cur x).isNone) then none else
    let hasNaN := vs.any (fun x => lookup s.cur x == some none)
    let sc := scoreOf s.cur
    let top := (ordered sc vs).head?
    let positive := vs.all (·.weight > 0)
    let inDom := keyIsHex key && positive && (vs.map (·.label)).eraseDups.length == vs.length
    match impl with
    | [v] =>
      let best := vs.foldl (fun m x => max m (sc x)) (vs.head?.map sc |>.getD 0)
      let isTop := vs.any (fun x => x.label == v && sc x == best)
      let tie := hasTie sc vs
      let pfNaN := if keyIsHex key && hasNaN then [s!"side=impl key=nan-score Score({key}) is NaN for a volume"] else []
      let pfTop := if !hasNaN && !isTop && !vs.isEmpty then [s!"side=impl key=volume-not-top-score shard {key} is placed on {v}, not the highest scoring volume of {nodesTok vs}"] else []
      -- the same volume set configured in another order must give the same placement
      let others := s.chosen.filter fun (t, k, _) => t != tag && k == key &&
        (match s.sets.find? (·.1 = t) with
        | some (_, ws) => isPermNodes ws vs
        | none => false)
      let pfOrd := match others.find? (fun (_, _, w) => w != v) with
        | some (t, _, w) =>
          if inDom then [s!"side=impl key=volume-order-dependent shard {key}: volume {v} with configuration order {tag}, {w} with order {t}"]
          else if !positive then [s!"side=impl key=order-dependent-nonpositive-weight shard {key}: volume {v} with configuration order {tag}, {w} with order {t} (volumes {nodesTok vs})"]
          else []
        | none => []
      let pfTie := if inDom && tie && !hasNaN then [s!"side=impl key=score-tie two volumes of {nodesTok vs} have the same Score({key})"] else []
      let follow := hasNaN || (tie && isTop)
      let obs := if follow then [v] else [match top with | some n => n.label | none => "none"]
      let br := if hasNaN then "vol.nan" else if tie then (if inDom then "vol.tie" else "vol.tie.outdom") else (if inDom then "vol.top" else "vol.top.outdom")
      pure ({ s with chosen := (tag, key, v) :: s.chosen }, { obs, branch := br, propfails := pfNaN ++ pfTop ++ pfOrd ++ pfTie })
    | _ => none
  | _, _ => none

def volMachine : Machine := { σ := VolSt, name := "casvol", init := fun _ => some {}, step := stepVol }

end C22

def main (args : List String) : IO UInt32 := runMachines [C22.machine, C22.volMachine] args
