import Driver.Frame
import KrakenModel.Model.Rendezvous
/- Driver for C22: replays lib/hrw.RendezvousHash transcripts.

   records (machine `hrw`):
     cfg hash=murmur|sha256
     op add <label> <weight> => ok
     op remove <label> => ok
     op nodes => <label*weight,…>               rh.Nodes in slice order
     tbl <key> <label*weight=score> …            Go's Score(key) of every current node (order-preserving
                                                 integer image of the float64, `nan` for NaN)
     op get <key> <n> => ok <label*weight,…> | panic

   The sort algorithm is not modelled: the implementation's list is validated to be (a prefix of) a
   descending-sorted permutation; with pairwise distinct scores Spec/C22 shows that list is unique and
   it is compared token-for-token with `ordered`.  Score ties are reported. -/
open Driver KrakenModel.Rendezvous

namespace C22

abbrev Score := Option Int      -- none = NaN

structure St where
  m : State := {}
  curKey : String := ""
  cur : List (Node × Score) := []                      -- the last `tbl` row
  seenScore : Std.HashMap String Score := {}            -- key|node ↦ score  (score must be a function)
  ghost : Std.HashMap String (List (List Node)) := {}   -- key ↦ full in-domain outputs of the implementation

def node? (t : String) : Option Node :=
  match t.splitOn "*" with
  | [l, w] => do let wi ← w.toInt?; pure ⟨l, wi⟩
  | _ => none

def nodeTok (n : Node) : String := s!"{n.label}*{n.weight}"

def nodes? (t : String) : Option (List Node) := (list? t).mapM node?

def nodesTok (ns : List Node) : String := listTok (ns.map nodeTok)

def entry? (t : String) : Option (Node × Score) :=
  match t.splitOn "=" with
  | [e, sc] => do
    let n ← node? e
    if sc = "nan" then pure (n, none) else do let v ← sc.toInt?; pure (n, some v)
  | _ => none

def lookup (tbl : List (Node × Score)) (n : Node) : Option Score :=
  (tbl.find? (fun e => e.1 = n)).map (·.2)

/-- total score used for sorting; NaN (absent) never reaches it when `clean` -/
def scoreOf (tbl : List (Node × Score)) (n : Node) : Int :=
  match lookup tbl n with
  | some (some v) => v
  | _ => 0

def subMultiset (out nodes : List Node) : Bool := out.all fun a => out.count a ≤ nodes.count a

def step (s : St) (kind : String) (args impl : List String) : Option (St × StepOut) :=
  match kind, args with
  | "op", ["add", l, w] => do
    let wi ← w.toInt?
    let dup := s.m.nodes.any (·.label == l)
    pure ({ s with m := addNode s.m l wi }, { obs := ["ok"], branch := if dup then "add.duplabel" else if wi ≤ 0 then "add.nonposweight" else "add.fresh" })
  | "op", ["remove", l] =>
    let has := s.m.nodes.any (·.label == l)
    some ({ s with m := removeNode s.m l }, { obs := ["ok"], branch := if has then "remove.present" else "remove.absent" })
  | "op", ["nodes"] =>
    some (s, { obs := [nodesTok s.m.nodes], branch := "nodes" })
  | "tbl", key :: entries => do
    let es ← entries.mapM entry?
    let mut seen := s.seenScore
    let mut pf : List String := []
    for (n, sc) in es do
      let k := key ++ "|" ++ nodeTok n
      match seen[k]? with
      | some old => if old ≠ sc then pf := s!"side=impl key=score-unstable Score({key}) of {nodeTok n} changed" :: pf
      | none => seen := seen.insert k sc
    -- membership implied by the API history is unambiguous when labels are distinct: then the
    -- implementation's node set must be exactly it (a removal removes only that node, an addition only adds)
    let labelsDistinct := (s.m.nodes.map (·.label)).eraseDups.length == s.m.nodes.length
    if labelsDistinct && !(subMultiset (es.map (·.1)) s.m.nodes && es.length == s.m.nodes.length) then
      pf := s!"side=impl key=membership-mismatch rh.Nodes is {nodesTok (es.map (·.1))}, the AddNode/RemoveNode history implies {nodesTok s.m.nodes}" :: pf
    pure ({ s with curKey := key, cur := es, seenScore := seen }, { branch := "tbl", propfails := pf })
  | "op", ["get", key, nt] => do
    let n ← nt.toInt?
    if key ≠ s.curKey then none else
    let nodes := s.m.nodes
    let len := nodes.length
    -- the implementation's own listing of its nodes (the tbl row) is the reference for the monitors
    let inodes := s.cur.map (·.1)
    -- a model node without a score row: model and implementation disagree on the membership
    if nodes.any (fun x => (lookup s.cur x).isNone) then
      some (s, { obs := ["ok", "?model-nodes=" ++ nodesTok nodes], branch := "get.membership-differs" }) else
    let hasNaN := nodes.any (fun x => lookup s.cur x == some none)
    let sc := scoreOf s.cur
    let tie := !hasNaN && hasTie sc nodes
    let inDom := !hasNaN && nodes.all (fun x => x.weight > 0) && (nodes.map (·.label)).eraseDups.length == len
    let modelOut := getOrderedNodes (fun (_ : Unit) => sc) s.m () n
    match modelOut with
    | .panic => pure (s, { obs := ["panic"], branch := "get.panic" })
    | .ok mo =>
      let k := if n ≥ (len : Int) then len else n.toNat
      let full := k == len
      let implOut : Option (List Node) := match impl with
        | ["ok", t] => nodes? t
        | _ => none
      let (obs, branch, pf, s') := match implOut with
        | none => (["ok", nodesTok mo], "get.noimpl", ([] : List String), s)
        | some o =>
          let ki := if n ≥ (inodes.length : Int) then inodes.length else n.toNat
          let isPermPrefix := o.length == ki && subMultiset o inodes
          let pfPerm := if !isPermPrefix then [s!"side=impl key=not-permutation GetOrderedNodes({key},{n}) returned {nodesTok o} for nodes {nodesTok inodes}"] else []
          let sorted := hasNaN || decide (SortedDesc sc o)
          let pfSorted := if !sorted then [s!"side=impl key=not-sorted GetOrderedNodes({key},{n}) returned {nodesTok o}, not descending by Score"] else []
          let adm := hasNaN || admissible sc inodes ki o
          let pfTop := if isPermPrefix && sorted && !adm then [s!"side=impl key=not-top GetOrderedNodes({key},{n}) returned {nodesTok o}, a higher scoring node was left out"] else []
          let pfTie := if inDom && tie then [s!"side=impl key=score-tie two of {nodesTok nodes} have the same Score({key}): order depends on insertion order"] else []
          -- relative order against earlier outputs of the implementation for the same key
          let prev := (s.ghost[key]?).getD []
          let pfRel : List String :=
            if !(inDom && !tie && isPermPrefix) then [] else
            prev.foldl (fun acc p =>
              if !acc.isEmpty then acc
              else if full then
                if o.filter (p.contains ·) ≠ p.filter (o.contains ·) then
                  if p.length == o.length && p.all (o.contains ·) then
                    [s!"side=impl key=insertion-order-dependent same membership, key {key}: earlier {nodesTok p}, now {nodesTok o}"]
                  else
                    [s!"side=impl key=relative-order-changed key {key}: earlier {nodesTok p}, now {nodesTok o}"]
                else []
              else if p.length == len && nodes.all (p.contains ·) && p.take k ≠ o then
                [s!"side=impl key=prefix-mismatch key {key} n={n}: full list {nodesTok p}, now {nodesTok o}"]
              else []) []
          let ghost := if inDom && !tie && full && isPermPrefix then s.ghost.insert key ((o :: prev).take 6) else s.ghost
          let follow := (tie || hasNaN) && isPermPrefix && adm
          let obs := if follow then ["ok", nodesTok o] else ["ok", nodesTok mo]
          let br := if hasNaN then "get.nan" else if tie then (if inDom then "get.tie" else "get.tie.outdom")
            else if full then "get.full" else "get.prefix"
          (obs, br, pfPerm ++ pfSorted ++ pfTop ++ pfTie ++ pfRel, { s with ghost := ghost })
      pure (s', { obs, branch, propfails := pf })
  | _, _ => none

def machine : Machine := { σ := St, name := "hrw", init := fun _ => some {}, step := step }

end C22

def main (args : List String) : IO UInt32 := runMachines [C22.machine] args
