import Driver.Frame
import KrakenModel.Model.TagStore
/- Driver for C32: replays build-index tag PUT/GET/write-back transcripts on `Model.TagStore` and
   evaluates the property's predicates on the implementation's own answers and dumps. -/
open Driver KrakenModel KrakenModel.TagStore

namespace C32

def idx? (p : Char) (t : String) : Option Nat :=
  match t.toList with
  | c :: ds => if c = p then (String.ofList ds).toNat? else none
  | _ => none

def dep? : String → Option DepRes
  | "ok" => some .ok | "nf" => some .notFound | "err" => some .error | _ => none

def ssort (xs : List String) : List String := (xs.toArray.qsort (· < ·)).toList

/-- impl-side ghost -/
structure Mon where
  putFor : List (String × String) := []     -- (tag, digest) of every PUT request made
  okPut : List String := []                 -- tags with an acknowledged PUT
  first : List (String × String) := []      -- the first digest seen for a tag on the node (disk or GET)
  evicted : List String := []               -- tags whose file was evicted from the node's disk at least once

structure St where
  m : State := {}
  fail : Nat := 0           -- executor attempts the backend still fails
  mon : Mon := {}

def parseCfg (toks : List String) : Option St :=
  some { m := init { capIn := 16, capRe := 16, nIn := 8, nRe := 8, retryInterval := 0 } ((kv? toks "wt") == some "1") }

def eagerTakes : Nat → State → State
  | 0, s => s
  | fuel + 1, s =>
    match Retry.stepO s.r (.take .inc) with
    | (_, .taken _) => eagerTakes fuel (step s (.retry (.take .inc)))
    | _ =>
      match Retry.stepO s.r (.take .ret) with
      | (_, .taken _) => eagerTakes fuel (step s (.retry (.take .ret)))
      | _ => s

def settle (s : State) : State := eagerTakes (s.r.own.length + 1) s

def pollLoop : Nat → State → State
  | 0, s => s
  | fuel + 1, s =>
    if Retry.withTag s.r.own .retrying ≠ [] then pollLoop fuel (settle (step s (.retry .pollEnq)))
    else if s.r.todo ≠ [] then pollLoop fuel (step s (.retry .pollMark))
    else s

def dumpToks (s : State) : List String :=
  let disk := s.disk.map fun e => s!"t{e.1}:d{e.2}"
  let inb := s.backend.map fun e => s!"t{e.1}:d{e.2}"
  let tbl := s.r.rows.map fun r => s!"t{r.key}:{match r.status with | .pending => "p" | .failed => "f"}:{r.failures}"
  let run := (s.r.own.filter fun e => match e.2 with | .running _ => true | _ => false).map fun e => s!"t{e.1}"
  ["disk=" ++ listTok (ssort disk), "b=" ++ listTok (ssort inb), "t=" ++ listTok tbl, "x=" ++ listTok (ssort run)]

def pairs (tok : String) : List (String × String) :=
  (list? tok).filterMap fun e => match e.splitOn ":" with | [a, b] => some (a, b) | _ => none

/-- the property's predicates on what the implementation answered and dumped.  A violation on a tag
that was evicted from the node and put with more than one digest is the known finding
(the executor's Stat short-cut keeps the old digest in the backend); everything else keeps its key. -/
def monitor (wt : Bool) (backendUp : Bool) (mon : Mon) (args impl : List String) (final : Bool) : List String × Mon :=
  let disk := pairs ((kv? impl "disk").getD "-")
  let inb := pairs ((kv? impl "b").getD "-")
  let tbl := (list? ((kv? impl "t").getD "-")).map fun r => (r.splitOn ":").headD ""
  let res := impl.headD ""
  let mon := match args with
    | ["evict", t] => if res = "ok" then { mon with evicted := t :: mon.evicted } else mon
    | ["put", t, d, _] | ["put", t, d, _, _] | ["dupput", t, d, _] => { mon with putFor := (t, d) :: mon.putFor }
    | _ => mon
  let reput (t : String) : Bool := t ∈ mon.evicted ∧ ((mon.putFor.filter (·.1 = t)).map (·.2)).eraseDups.length > 1
  let key (t : String) (k : String) : String := if reput t then "evicted-tag-reput-keeps-old-backend-digest" else k
  -- bookkeeping of this op
  -- PUT ?replicate=true: the replication tasks the server handed to the replication manager
  let pfRep : List String := match args with
    | ["put", t, d, deps, "rep=1"] =>
      let n := (list? ((kv? [deps] "deps").getD "-")).length
      let chk := list? ((kv? impl "chk").getD "-")
      let tasks := (list? ((kv? impl "rt").getD "-")).map (·.splitOn ":")
      let dests := if t = "t1" then ["ra", "rb"] else ["ra"]
      if res ≠ "ok" then
        (if tasks ≠ [] then [s!"side=impl key=replication-task-without-acknowledged-put PUT {t} was refused and replication tasks were created: {tasks}"] else [])
      else
        (if chk.length ≠ n then [s!"side=impl key=put-without-dependency PUT {t} was acknowledged; the origin cluster was asked about {chk} of {n} dependencies"] else []) ++
        (dests.filterMap fun r => if tasks.any (fun x => x.getD 3 "" = r) then none else
          some s!"side=impl key=replication-task-missing PUT {t} with replicate=true was acknowledged and no task for remote {r} was created: {tasks}") ++
        (tasks.filterMap fun x =>
          let deps := if x.getD 2 "" = "none" then [] else (x.getD 2 "").splitOn "."
          if x.getD 0 "" ≠ t ∨ x.getD 1 "" ≠ d then some s!"side=impl key=replication-task-for-another-tag PUT {t} {d} created the replication task {x}"
          else if deps ≠ chk then some s!"side=impl key=replication-task-deps-differ-from-checked PUT {t}: the origin cluster confirmed {chk}, the replication task for {x.getD 3 ""} carries {deps}"
          else none)
    | _ => []
  let (mon, pf0) := match args with
    | "put" :: t :: _ :: deps :: _ =>
      let answers := list? ((kv? [deps] "deps").getD "-")
      if res = "ok" then
        ({ mon with okPut := if t ∈ mon.okPut then mon.okPut else t :: mon.okPut },
         (if answers.any (· ≠ "ok") then
            [s!"side=impl key=put-without-dependency PUT {t} was acknowledged although the origin cluster answered {answers} to the dependency checks"] else []) ++
         (if disk.lookup t = none then
            [s!"side=impl key=acked-tag-not-resolvable PUT {t} was acknowledged and the node does not hold the tag"] else []) ++
         (if wt ∧ inb.lookup t ≠ disk.lookup t then
            [s!"side=impl key={key t "write-through-not-synchronous"} PUT {t} was acknowledged in write-through mode: backend {inb.lookup t} node {disk.lookup t}"] else []))
      else (mon, [])
    | ["dupput", t, _, _] =>
      if res = "ok" then
        ({ mon with okPut := if t ∈ mon.okPut then mon.okPut else t :: mon.okPut },
         (if disk.lookup t = none then
            [s!"side=impl key=acked-tag-not-resolvable duplicate PUT {t} was acknowledged and the node does not hold the tag"] else []) ++
         (if wt ∧ inb.lookup t ≠ disk.lookup t then
            [s!"side=impl key={key t "write-through-not-synchronous"} duplicate PUT {t} was acknowledged in write-through mode: backend {inb.lookup t} node {disk.lookup t}"] else []))
      else (mon, [])
    | ["get", t] =>
      if res = "notfound" ∨ res = "err" then
        (mon, if t ∈ mon.okPut ∧ (backendUp ∨ disk.lookup t ≠ none) then
          [s!"side=impl key=acked-tag-not-resolvable GET {t} = {res} after an acknowledged PUT"] else [])
      else
        (mon, (if (t, res) ∉ mon.putFor then [s!"side=impl key=tag-resolves-unput-digest GET {t} = {res}, never put for it"] else []) ++
              (match mon.first.lookup t with
               | some d0 => if d0 ≠ res then [s!"side=impl key={key t "tag-changed"} GET {t} = {res}, the node answered / held {d0} before"] else []
               | none => []))
    | ["evict", t] =>
      (mon, if res = "ok" ∧ inb.lookup t = none then
        [s!"side=impl key=evicted-before-write-back the tag file {t} was evicted while the backend does not hold the tag"] else [])
    | _ => (mon, [])
  -- the node never changes a tag; the backend never holds another digest than the node
  let pf1 := disk.filterMap fun (t, d) =>
    match mon.first.lookup t with
    | some d0 => if d0 ≠ d then some s!"side=impl key={key t "tag-changed"} the node holds {t} = {d}, it held {d0} before" else none
    | none => none
  let mon := { mon with first := mon.first ++ disk.filter fun (t, _) => mon.first.lookup t = none }
  let mon := match args with
    | ["get", t] => if res ≠ "notfound" ∧ res ≠ "err" ∧ mon.first.lookup t = none then { mon with first := mon.first ++ [(t, res)] } else mon
    | _ => mon
  let pf2 := inb.filterMap fun (t, d) =>
    match disk.lookup t with
    | some d' => if d' ≠ d then some s!"side=impl key={key t "backend-differs-from-node"} backend holds {t} = {d}, the node holds {d'}" else none
    | none => none
  let pf3 := mon.okPut.filterMap fun t =>
    let written := inb.lookup t ≠ none
    if written ∨ (!final ∧ !wt ∧ disk.lookup t ≠ none ∧ t ∈ tbl) then none
    else some (s!"side=impl key=acked-tag-not-written-back {t} has an acknowledged PUT; backend {inb.lookup t} node {disk.lookup t} " ++
      (if final then "after all write-back tasks ran" else s!"and no write-back task is stored {tbl}"))
  (pfRep ++ pf0 ++ pf1 ++ pf2 ++ pf3, mon)

def step' (s : St) (kind : String) (args impl : List String) : Option (St × StepOut) :=
  if kind ≠ "op" then none else
  let fin (s' : St) (obs : List String) (br : String) (final := false) : Option (St × StepOut) :=
    let (pfs, mon) := monitor s.m.writeThrough (s.fail == 0) s.mon args impl final
    some ({ s' with mon }, { obs := obs ++ dumpToks s'.m, branch := br, propfails := pfs })
  let putOp (tt dt depst : String) (rep : Bool) : Option (St × StepOut) := do
    let t ← idx? 't' tt
    let d ← idx? 'd' dt
    let deps ← (list? ((kv? [depst] "deps").getD "-")).mapM dep?
    let asked := (deps.takeWhile (· == .ok)).length + (if deps.all (· == .ok) then 0 else 1)
    -- write-through: the backend fails the next `fail` attempts
    let ups := (List.replicate s.fail false ++ [true, true, true]).take 3
    let (m1, o) := stepO s.m (.put t d deps ups)
    let usedFail := if s.m.writeThrough ∧ checkDeps deps = .ok then min s.fail 3 else 0
    -- a storage error (write-through with the backend down) is answered before replicateTag
    let rts := replicationTasks o t d (List.range deps.length) (if t = 1 then [0, 1] else [0])
    let rtToks := rts.map fun (t', d', ds, r) =>
      s!"t{t'}:d{d'}:{if ds = [] then "none" else ".".intercalate (ds.map fun i => s!"x{i}")}:{if r = 0 then "ra" else "rb"}:0"
    let repObs := if rep then [s!"chk={listTok ((List.range asked).map fun i => s!"x{i}")}", s!"rt={listTok (ssort rtToks)}"] else []
    fin { s with m := settle m1, fail := s.fail - usedFail } ([if o = .ok then "ok" else "err", s!"asked={asked}"] ++ repObs)
      ((match o with
       | .ok => if lookup s.m.disk t = none then "put.ok.new" else "put.ok.existing"
       | .missingDep => "put.missing" | .checkErr => "put.checkerr" | _ => "put.storage") ++ (if rep then ".rep" else ""))
  match args with
  | ["put", tt, dt, depst] => putOp tt dt depst false
  | ["put", tt, dt, depst, "rep=1"] => putOp tt dt depst true
  | ["dupput", tt, dt, dlt] => do
    let t ← idx? 't' tt
    let d ← idx? 'd' dt
    let h ← (kv? [dlt] "delay").bind nat?
    let ups := (List.replicate s.fail false ++ [true, true, true]).take 3
    let (m1, o) := stepO s.m (.dupPut t d (h * 1000) ups)
    let usedFail := if s.m.writeThrough then min s.fail 3 else 0
    fin { s with m := settle m1, fail := s.fail - usedFail } [if o = .ok then "ok" else "err"]
      (match o with
       | .ok => if s.m.writeThrough then "dupput.ok.write-through"
                else if Retry.hasKey s.m.r.rows t then "dupput.ok.task-exists"
                else if h = 0 then "dupput.ok.pending" else "dupput.ok.delayed"
       | _ => "dupput.storage")
  | ["adv"] => fin { s with m := TagStore.step s.m (.retry (.advance 3000)) } ["ok"] "adv"
  | ["get", tt] => do
    let t ← idx? 't' tt
    match out s.m (.get t (s.fail == 0)) with
    | .digest d => fin s [s!"d{d}"] (if lookup s.m.disk t = none then "get.backend" else "get.disk")
    | _ => fin s ["notfound"] "get.notfound"
  | ["fail", nt] => do
    let n ← nat? nt
    fin { s with fail := n } ["ok"] "fail"
  | ["poll"] =>
    let m1 := TagStore.step (TagStore.step s.m (.retry (.advance 1))) (.retry .pollFetch)
    fin { s with m := settle (pollLoop (2 * m1.r.todo.length + 2) m1) } ["ok"] "poll"
  | ["exec", tt] => do
    let t ← idx? 't' tt
    match Retry.placeOf s.m.r.own t with
    | some (.running _) =>
      let up := s.fail == 0
      let (m1, o) := stepO s.m (.exec t up)
      fin { s with m := settle m1, fail := s.fail - 1 } [if o = .ok then "ok" else "err"]
        (if o = .ok then (if (lookup s.m.backend t).isSome then "exec.present" else "exec.uploaded") else "exec.failed")
    | _ => fin s ["none"] "exec.none"
  | ["restart"] => fin { s with m := TagStore.step s.m .restart } ["ok"] "restart"
  | ["evict", tt] => do
    let t ← idx? 't' tt
    let (m1, o) := stepO s.m (.evict t)
    fin { s with m := m1 } [match o with | .ok => "ok" | .refused => "refused" | _ => "absent"]
      (match o with | .ok => "evict.ok" | .refused => "evict.refused" | _ => "evict.absent")
  | ["final"] => fin s [] "final" (final := true)
  | _ => none

def machine : Machine := { σ := St, name := "tagstore", init := parseCfg, step := step' }

end C32

def main (args : List String) : IO UInt32 := runMachines [C32.machine] args
