import Driver.Frame
import KrakenModel.Model.OriginWB
/- Driver for C31: replays origin upload / write-back / cleanup transcripts on `Model.OriginWB`
   (keys k = 2·blob + namespace, `dig k = k / 2`) and evaluates the property's invariant on the
   implementation's own dumps (cache files + persist flags, backend contents, task table). -/
open Driver KrakenModel KrakenModel.OriginWB

namespace C31

def dig (k : Nat) : Nat := k / 2

def key? (t : String) : Option Nat :=
  match t.toList with
  | 'k' :: ds => (String.ofList ds).toNat?
  | _ => none

def blob? (t : String) : Option Nat :=
  match t.toList with
  | 'b' :: ds => (String.ofList ds).toNat?
  | _ => none

def ns? (t : String) : Option Nat :=
  match t.toList with
  | 'n' :: 's' :: ds => (String.ofList ds).toNat?
  | _ => none

def sortNat (xs : List Nat) : List Nat := (xs.toArray.qsort (· < ·)).toList

/-- impl-side ghost for the monitors -/
structure Mon where
  acked : List Nat := []
  nsSeen : List (Nat × Nat) := []        -- (blob, namespace) pairs an upload was attempted for
  pausedUp : List Nat := []              -- blobs with an upload parked before Manager.Add
  pausedFc : Option Nat := none          -- blob whose forced cleanup is parked after Manager.Find
  tainted : List Nat := []               -- blobs for which a forced cleanup overlapped a write-back call
  lost : List (Nat × String) := []       -- acknowledged keys seen unprotected, with the class decided then
  pausedKeys : List Nat := []            -- keys whose upload is parked before Manager.Add (flag already set)
  flagLost : List Nat := []              -- parked keys whose blob's flag was cleared by another namespace's task meanwhile
  tblKeys : List String := []            -- impl: keys of the task table after the previous op

structure St where
  m : State := {}
  downs : List Nat := []                 -- namespaces whose backend is unreachable
  order : List Nat := []                 -- the order forceCleanup visits the blobs in (directory order)
  fcRest : List Nat := []                -- blobs the parked forced cleanup still has to visit
  fcDel : List Nat := []                 -- what it deleted so far
  fcErr : Nat := 0
  manual : List (Nat × Bool) := []       -- uploads made request by request: (key, patched?)
  mon : Mon := {}

def parseCfg (toks : List String) : Option St := do
  let order ← ((kv? toks "order").map list?).getD [] |>.mapM blob?
  pure { m := init { capIn := 16, capRe := 16, nIn := 8, nRe := 8, retryInterval := 0 }, order := order }

def downKeys (s : St) : List Nat := (List.range 16).filter fun k => k % 2 ∈ s.downs

def eagerTakes : Nat → State → State
  | 0, s => s
  | fuel + 1, s =>
    match Retry.stepO s.r (.take .inc) with
    | (_, .taken _) => eagerTakes fuel (step dig s (.retry (.take .inc)))
    | _ =>
      match Retry.stepO s.r (.take .ret) with
      | (_, .taken _) => eagerTakes fuel (step dig s (.retry (.take .ret)))
      | _ => s

def settle (s : State) : State := eagerTakes (s.r.own.length + 1) s

def hasThread (s : State) (k : Nat) : Bool := s.wb.any (·.key == k)

/-- run k's writeBack call to its end; true = it acknowledged -/
def runThread : Nat → State → Nat → State × Bool
  | 0, s, _ => (s, false)
  | fuel + 1, s, k =>
    match s.wb.find? (fun t => t.key = k) with
    | none => (s, false)
    | some t =>
      let s' := step dig s (.wbStep k)
      if t.pc = .ack then (s', true) else
      if hasThread s' k then runThread fuel s' k else (s', false)

def pollLoop : Nat → State → State
  | 0, s => s
  | fuel + 1, s =>
    if Retry.withTag s.r.own .retrying ≠ [] then pollLoop fuel (settle (step dig s (.retry .pollEnq)))
    else if s.r.todo ≠ [] then pollLoop fuel (step dig s (.retry .pollMark))
    else s

/-- one blob of a forced cleanup pass, unsplit: (state, deleted?, error?) -/
def fcOne (s : State) (downs : List Nat) (d : Nat) : State × Bool × Bool :=
  -- a file that was listed and has vanished since: GetCacheFileStat fails, counted as an error
  if d ∉ s.cache then (s, false, true) else
  if d ∈ s.cache then
    let p := fcSnapshot dig s d
    let err := p.persisted && !(syncAll dig s.cache downs p.tasks s.backend s.persist).1
    let s' := step dig s (.fcAtomic d downs)
    (s', decide (d ∉ s'.cache), err)
  else (s, false, false)

def fcMany (downs : List Nat) : List Nat → State → List Nat → Nat → State × List Nat × Nat
  | [], s, del, err => (s, del, err)
  | d :: ds, s, del, err =>
    let (s', gone, e) := fcOne s downs d
    fcMany downs ds s' (if gone then del ++ [d] else del) (if e then err + 1 else err)

def dumpToks (s : State) : List String :=
  let files := sortNat s.cache |>.map fun d => s!"b{d}:{if d ∈ s.persist then "1" else "0"}"
  let inb := sortNat s.backend |>.map fun k => s!"k{k}"
  let tbl := s.r.rows.map fun r =>
    s!"k{r.key}:{match r.status with | .pending => "p" | .failed => "f"}:{r.failures}"
  let run := sortNat ((s.r.own.filter fun e => match e.2 with | .running _ => true | _ => false).map (·.1))
    |>.map fun k => s!"k{k}"
  -- the harness sorts token lists as strings
  let ssort (xs : List String) : List String := (xs.toArray.qsort (· < ·)).toList
  ["c=" ++ listTok (ssort files), "b=" ++ listTok (ssort inb), "t=" ++ listTok tbl, "x=" ++ listTok (ssort run)]

def doneToks (del : List Nat) (err : Nat) : List String :=
  let ssort (xs : List String) : List String := (xs.toArray.qsort (· < ·)).toList
  ["done", "deleted=" ++ listTok (ssort (del.map fun d => s!"b{d}")), s!"errors={err}"]

/-- the property on the implementation's dump: every acknowledged upload is in its backend, or its
file is cached with the persist flag and its task is stored.  A violation is classified once, at the
op where the protection was lost (or was never there):
  * lost by a forced-cleanup step that overlapped a write-back call of the blob, or missing at the
    acknowledgement after such an overlap                  → forced-cleanup-during-commit (known)
  * lost when another namespace's task of the same blob finished (executor run or the SyncExec of a
    forced cleanup) and cleared the shared flag           → persist-flag-shared-across-namespaces (known)
  * anything else                                          → acked-blob-unprotected -/
def violations (mon : Mon) (args impl : List String) (final : Bool) : List String × Mon :=
  let files := list? ((kv? impl "c").getD "-")
  let inb := list? ((kv? impl "b").getD "-")
  let tbl := (list? ((kv? impl "t").getD "-")).map fun r => (r.splitOn ":").headD ""
  let res := impl.headD ""
  let shared (b : Nat) : Bool := (mon.nsSeen.filter (·.1 = b)).length > 1
  let classify (k : Nat) : String :=
    let b := dig k
    let ackedNow : Bool := match args with
      | [op, kt] => (op == "upload" || op == "uploade" || op == "ubegin" || op == "upatch" || op == "ucommit" || op == "dcommit") && kt == s!"k{k}"
      | _ => false
    if ackedNow then
      (if b ∈ mon.tainted then "forced-cleanup-during-commit"
       else if k ∈ mon.flagLost then "persist-flag-shared-across-namespaces" else "acked-blob-unprotected")
    else match args with
      | ["exec", kt] =>
        (match key? kt with
         | some k' => if k' ≠ k ∧ dig k' = b ∧ res = "ok" then "persist-flag-shared-across-namespaces" else "acked-blob-unprotected"
         | none => "acked-blob-unprotected")
      | "fc" :: _ | "fcf" :: _ | "fcb" :: _ =>
        if b ∈ mon.tainted then "forced-cleanup-during-commit"
        else if shared b then "persist-flag-shared-across-namespaces" else "acked-blob-unprotected"
      | _ => "acked-blob-unprotected"
  -- a task row leaves the table only through a successful execution of that very task (namespace, blob)
  let gone := mon.tblKeys.filter (· ∉ tbl)
  let pfGone := gone.filterMap fun kt =>
    match args with
    | ["exec", kt'] =>
      if kt' = kt ∧ res = "ok" then none
      else match key? kt, key? kt' with
        | some k, some k' =>
          if k ≠ k' ∧ dig k = dig k' then
            some s!"side=impl key=task-removed-by-other-namespace the write-back task {kt} left the table when the task {kt'} of the same blob under another namespace was executed ({res}); backend {inb}"
          else some s!"side=impl key=task-removed-without-execution the write-back task {kt} left the table in op {args}"
        | _, _ => some s!"side=impl key=task-removed-without-execution the write-back task {kt} left the table in op {args}"
    | _ => some s!"side=impl key=task-removed-without-execution the write-back task {kt} left the table in op {args}"
  let mon := { mon with tblKeys := tbl }
  let (pfs, mon) := mon.acked.foldl (fun (acc : List String × Mon) k =>
    let (pfs, mon) := acc
    let kt := s!"k{k}"
    let b := dig k
    let ok := kt ∈ inb ∨ (!final ∧ s!"b{b}:1" ∈ files ∧ kt ∈ tbl)
    if ok then (pfs, mon) else
      let (key, mon) := match mon.lost.find? (·.1 = k) with
        | some (_, key) => (key, mon)
        | none => let key := classify k; (key, { mon with lost := (k, key) :: mon.lost })
      (pfs ++ [s!"side=impl key={key} upload {kt} was acknowledged and is " ++
        (if final then "not in its backend after all write-back tasks ran"
         else "neither in its backend nor protected (file, persist flag and task)") ++
        s!": files {files} backend {inb} tasks {tbl}"], mon)) ([], mon)
  (pfGone ++ pfs, mon)

def step (s : St) (kind : String) (args impl : List String) : Option (St × StepOut) :=
  if kind ≠ "op" then none else
  let res := impl.headD ""
  let fin (s' : St) (mon : Mon) (obs : List String) (br : String) (final := false) : Option (St × StepOut) :=
    let (pfs, mon) := violations mon args impl final
    some ({ s' with mon }, { obs := obs ++ dumpToks s'.m, branch := br, propfails := pfs })
  let taintIf (mon : Mon) (b : Nat) (c : Bool) : Mon := if c then { mon with tainted := b :: mon.tainted } else mon
  match args with
  | [op, kt] =>
    if op = "upload" ∨ op = "uploadb" then do
      let k ← key? kt
      let b := dig k
      if hasThread s.m k then fin s s.mon ["busy"] (op ++ ".busy") else
      let mon := { s.mon with nsSeen := if (b, k % 2) ∈ s.mon.nsSeen then s.mon.nsSeen else (b, k % 2) :: s.mon.nsSeen }
      -- a write-back call of b starts while a forced cleanup of b is parked
      let mon := taintIf mon b (s.mon.pausedFc == some b)
      let m1 := OriginWB.step dig s.m (.upload k 0)
      if op = "uploadb" then
        let m2 := OriginWB.step dig m1 (.wbStep k)
        if hasThread m2 k then
          fin { s with m := m2 } { mon with pausedUp := b :: mon.pausedUp, pausedKeys := k :: mon.pausedKeys } ["paused"] "uploadb.paused"
        else fin { s with m := m2 } mon ["err"] "uploadb.err"
      else
        let (m2, ack) := runThread 8 m1 k
        let mon := if res = "ack" then { mon with acked := if k ∈ mon.acked then mon.acked else k :: mon.acked } else mon
        fin { s with m := settle m2 } mon [if ack then "ack" else "err"]
          (op ++ (if ack then ".ack" else ".err") ++ (if b ∈ s.m.cache then ".conflict" else ""))
    else if op = "uploade" then do
      let k ← key? kt
      let b := dig k
      if !hasThread s.m k then fin s s.mon ["none"] "uploade.none" else
      let (m2, ack) := runThread 8 s.m k
      let mon := { s.mon with pausedUp := s.mon.pausedUp.erase b, pausedKeys := s.mon.pausedKeys.erase k }
      let mon := taintIf mon b (s.mon.pausedFc == some b)
      let mon := if res = "ack" then { mon with acked := if k ∈ mon.acked then mon.acked else k :: mon.acked } else mon
      fin { s with m := settle m2 } mon [if ack then "ack" else "err"] (if ack then "uploade.ack" else "uploade.err")
    else if op = "fcb" then do
      let b ← blob? kt
      if s.m.fc ≠ [] then fin s s.mon ["busy"] "fcb.busy" else
      -- forceCleanup lists the cache files once, at the start of the request
      let listed := s.order.filter (· ∈ s.m.cache)
      let before := listed.takeWhile (· ≠ b)
      let after := (listed.dropWhile (· ≠ b)).drop 1
      let (m1, del, err) := fcMany (downKeys s) before s.m [] 0
      -- every blob with a parked upload that this pass looks at is tainted
      let mon := s.mon.pausedUp.foldl (fun mon pb => taintIf mon pb (pb ∈ before ∨ pb = b)) s.mon
      if b ∈ listed ∧ b ∈ m1.cache ∧ b ∈ m1.persist then
        let m2 := OriginWB.step dig m1 (.fcBegin b)
        fin { s with m := m2, fcRest := after, fcDel := del, fcErr := err } { mon with pausedFc := some b } ["paused"] "fcb.paused"
      else
        let (m2, del, err) := fcMany (downKeys s) (listed.dropWhile (· ≠ b)) m1 del err
        let mon := s.mon.pausedUp.foldl (fun mon pb => taintIf mon pb true) mon
        fin { s with m := m2 } mon (doneToks del err) "fcb.done"
    else if op = "ubegin" ∨ op = "upatch" ∨ op = "ucommit" ∨ op = "dcommit" then do
      let k ← key? kt
      let b := dig k
      let cached := b ∈ s.m.cache
      let entry := s.manual.find? (·.1 = k)
      let mon := { s.mon with nsSeen := if (b, k % 2) ∈ s.mon.nsSeen then s.mon.nsSeen else (b, k % 2) :: s.mon.nsSeen }
      let mon := taintIf mon b (s.mon.pausedFc == some b)
      let ackIf (mon : Mon) (c : Bool) : Mon :=
        if c then { mon with acked := if k ∈ mon.acked then mon.acked else k :: mon.acked } else mon
      -- a write-back call for k made now (commit or conflict path), run to its end
      let wb (delay : Nat) : State × Bool := runThread 8 (OriginWB.step dig s.m (.upload k delay)) k
      if op = "ubegin" then
        if entry.isSome ∨ hasThread s.m k then fin s s.mon ["busy"] "ubegin.busy"
        else if cached then
          let (m2, ack) := wb 0
          fin { s with m := settle m2 } (ackIf mon (res = "conflict")) [if ack then "conflict" else "err"] "ubegin.conflict"
        else fin { s with manual := (k, false) :: s.manual } mon ["started"] "ubegin.started"
      else match entry with
        | none => fin s s.mon ["none"] (op ++ ".none")
        | some (_, patched) =>
          let rest := s.manual.filter (·.1 ≠ k)
          if op = "upatch" then
            if cached then
              let (m2, ack) := wb 0
              fin { s with m := settle m2, manual := rest } (ackIf mon (res = "conflict")) [if ack then "conflict" else "err"] "upatch.conflict"
            else fin { s with manual := (k, true) :: rest } mon ["patched"] "upatch.patched"
          else if !patched then fin s s.mon ["none"] (op ++ ".unpatched")
          else if op = "ucommit" then
            let (m2, ack) := wb 0
            fin { s with m := settle m2, manual := rest } (ackIf mon (res = "ok" ∨ res = "conflict"))
              [if ack then (if cached then "conflict" else "ok") else "err"] (if cached then "ucommit.conflict" else "ucommit.ok")
          else -- dcommit: the duplicate-commit handler does not go through the conflict path
            if cached then fin { s with manual := rest } mon ["conflict"] "dcommit.conflict"
            else
              let (m2, ack) := wb 1
              fin { s with m := settle m2, manual := rest } (ackIf mon (res = "ok")) [if ack then "ok" else "err"] "dcommit.ok"
    else if op = "fetch" then do
      let b ← blob? kt
      fin { s with m := OriginWB.step dig s.m (.fetch b) } s.mon ["ok"] (if b ∈ s.m.cache then "fetch.present" else "fetch.new")
    else if op = "del" then do
      let b ← blob? kt
      let ok := b ∈ s.m.cache ∧ b ∉ s.m.persist
      fin { s with m := OriginWB.step dig s.m (.delete b) } s.mon [if ok then "ok" else "err"]
        (if ok then "del.ok" else if b ∈ s.m.cache then "del.persisted" else "del.absent")
    else if op = "exec" then do
      let k ← key? kt
      match Retry.placeOf s.m.r.own k with
      | some (.running _) =>
        let up := decide (k % 2 ∉ s.downs)
        let ok := (runExecutor dig s.m.cache s.m.persist s.m.backend k up).1
        let br := if up ∧ k ∈ s.m.backend then "exec.present" else if dig k ∉ s.m.cache then "exec.dropped"
          else if up then "exec.uploaded" else "exec.failed"
        let mon := if res = "ok" then
            { s.mon with flagLost := s.mon.flagLost ++ s.mon.pausedKeys.filter fun pk => pk ≠ k ∧ dig pk = dig k }
          else s.mon
        fin { s with m := settle (OriginWB.step dig s.m (.exec k up)) } mon [if ok then "ok" else "err"] br
      | _ => fin s s.mon ["none"] "exec.none"
    else if op = "down" ∨ op = "upb" then do
      let n ← ns? kt
      let downs := if op = "down" then (if n ∈ s.downs then s.downs else n :: s.downs) else s.downs.filter (· ≠ n)
      fin { s with downs } s.mon ["ok"] op
    else none
  | ["fc"] =>
    if s.m.fc ≠ [] then fin s s.mon ["busy"] "fc.busy" else
    let (m1, del, err) := fcMany (downKeys s) (s.order.filter (· ∈ s.m.cache)) s.m [] 0
    let mon := s.mon.pausedUp.foldl (fun mon pb => taintIf mon pb true) s.mon
    fin { s with m := m1 } mon (doneToks del err) (if del ≠ [] then "fc.deleted" else if err > 0 then "fc.error" else "fc.nothing")
  | ["fcf"] =>
    match s.mon.pausedFc, s.m.fc with
    | some b, p :: _ =>
      -- the file may have been deleted while the cleanup was parked: clearing its flag then fails
      let err := (p.persisted && !(syncAll dig s.m.cache (downKeys s) p.tasks s.m.backend s.m.persist).1) || decide (b ∉ s.m.cache)
      let m1 := OriginWB.step dig s.m (.fcFinish b (downKeys s))
      let del := if b ∈ s.m.cache ∧ b ∉ m1.cache then s.fcDel ++ [b] else s.fcDel
      let (m2, del, err) := fcMany (downKeys s) s.fcRest m1 del (if err then s.fcErr + 1 else s.fcErr)
      let mon := s.mon.pausedUp.foldl (fun mon pb => taintIf mon pb (pb = b ∨ pb ∈ s.fcRest)) { s.mon with pausedFc := none }
      fin { s with m := m2, fcRest := [], fcDel := [], fcErr := 0 } mon (doneToks del err) "fcf.done"
    | _, _ => fin s s.mon ["none"] "fcf.none"
  | ["poll"] =>
    let m1 := OriginWB.step dig (OriginWB.step dig s.m (.retry (.advance 1))) (.retry .pollFetch)
    fin { s with m := settle (pollLoop (2 * m1.r.todo.length + 2) m1) } s.mon ["ok"] "poll"
  | ["restart"] =>
    if s.m.fc ≠ [] then fin s s.mon ["busy"] "restart.busy" else
    fin { s with m := OriginWB.step dig s.m .restart, fcRest := [], fcDel := [], fcErr := 0, manual := [] }
      { s.mon with pausedUp := [], pausedFc := none, pausedKeys := [] } ["ok"] "restart"
  | ["final"] => fin s s.mon [] "final" (final := true)
  | _ => none

def machine : Machine := { σ := St, name := "originwb", init := parseCfg, step := step }

end C31

def main (args : List String) : IO UInt32 := runMachines [C31.machine] args
