import Driver.Frame
import KrakenModel.Model.NamePath
/- Driver for C36, machine `np` (package lib/backend/namepath, public API):
     one rt scheme=tag|shard|ident root=<str> name=<str> => blob=ok:<str>|err:<class> back=ok:<str>|err|panic|-
     one name scheme=… root=<str> bp=<str> => ok:<str> | err | panic
     one join <str> <str> … => <str>            (path.Join, ties the model's path.Clean)
-/
open Driver KrakenModel.NamePath KrakenModel.Codec

namespace C36

def S (cs : List Char) : String := String.ofList cs

def scheme? (t : String) : Option Scheme :=
  if t = "tag" then some .tag else if t = "shard" then some .shard else if t = "ident" then some .ident else none

def blobErrTok : BlobErr → String
  | .format => "format" | .emptyRepo => "emptyrepo" | .emptyTag => "emptytag" | .short => "short"

/-- the property's precondition on names, per scheme -/
def validName (s : Scheme) (name : List Char) : Bool :=
  match s with
  | .tag => match splitOn ':' name with
    | [r, t] => validRepo r && validTag t
    | _ => false
  | .shard => validShardNameBytes name
  | .ident => validIdentName name

def nameTok (r : NameResult) (impl : String) : String :=
  match r with
  | .ok n => "ok:" ++ strTok (S n)
  | .err => "err"
  | .panic => "panic"
  | .unsupported => impl

def step (_ : Unit) (kind : String) (args impl : List String) : Option (Unit × StepOut) :=
  if kind ≠ "one" then none else
  match args with
  | "rt" :: rest => do
    let sc ← (kv? rest "scheme").bind scheme?
    let root ← (kv? rest "root").bind str?
    let name ← (kv? rest "name").bind str?
    let implBack := (kv? impl "back").getD "-"
    -- precondition of the regexp-based schemes: the base path is valid UTF-8 (else MustCompile panics)
    let rootOk := sc = .ident ∨ validUTF8 (basePath sc root.toList)
    let valid := validName sc name.toList ∧ rootOk
    let pf : List String :=
      if valid ∧ sc = .shard ∧ twoByteHead name.toList then
        -- known finding: name[:2] is a single rune, the inverse's `..` needs two
        (if implBack ≠ "ok:" ++ strTok name then
          [s!"side=impl key=shard-nonascii-name root={kv? rest "root"} name={kv? rest "name"} came back as {implBack}"] else [])
      else if valid then
        (if (kv? impl "blob").map (·.startsWith "ok:") ≠ some true then
          [s!"side=impl key=valid-name-rejected {kv? rest "scheme"} root={kv? rest "root"} name={kv? rest "name"}: {kv? impl "blob"}"]
        else if implBack = "panic" then
          [s!"side=impl key=name-from-path-panic {kv? rest "scheme"} root={kv? rest "root"} name={kv? rest "name"}"]
        else if implBack ≠ "ok:" ++ strTok name then
          [s!"side=impl key=name-roundtrip {kv? rest "scheme"} root={kv? rest "root"} name={kv? rest "name"} came back as {implBack}"]
        else [])
      else if implBack = "panic" ∧ rootOk then
        [s!"side=impl key=name-from-path-panic {kv? rest "scheme"} root={kv? rest "root"} name={kv? rest "name"}"]
      else []
    match blobPath sc root.toList name.toList with
    | .error e => pure ((), { obs := ["blob=err:" ++ blobErrTok e, "back=-"], branch := "rt.blob-err", propfails := pf })
    | .ok bp =>
      let back := nameFromBlobPath sc root.toList bp
      pure ((), { obs := ["blob=ok:" ++ strTok (S bp), "back=" ++ nameTok back implBack],
                  branch := (if valid then "rt.valid." else "rt.other.") ++ (kv? rest "scheme").getD "", propfails := pf })
  | "name" :: rest => do
    let sc ← (kv? rest "scheme").bind scheme?
    let root ← (kv? rest "root").bind str?
    let bp ← (kv? rest "bp").bind str?
    let r := nameFromBlobPath sc root.toList bp.toList
    let i := impl.headD ""
    let m := nameTok r i
    let rootOk := sc = .ident ∨ validUTF8 (basePath sc root.toList)
    let pf := if impl = ["panic"] ∧ rootOk then [s!"side=impl key=name-from-path-panic {kv? rest "scheme"} root={kv? rest "root"} bp={kv? rest "bp"}"]
      else if m = i then []
      else if i.startsWith "ok:" ∧ m = "err" then [s!"side=impl key=path-accepts-malformed {kv? rest "scheme"} root={kv? rest "root"} bp={kv? rest "bp"} gave {i}"]
      else if i = "err" then [s!"side=impl key=path-rejects-wellformed {kv? rest "scheme"} root={kv? rest "root"} bp={kv? rest "bp"}: expected {m}"]
      else [s!"side=impl key=path-wrong-name {kv? rest "scheme"} root={kv? rest "root"} bp={kv? rest "bp"} gave {i}, expected {m}"]
    let br := match r with | .ok _ => "name.ok" | .err => "name.err" | .unsupported => "name.unsupported" | .panic => "name.badutf8"
    pure ((), { obs := [nameTok r (impl.headD "")], branch := br, propfails := pf })
  | "join" :: elems => do
    let es ← elems.mapM str?
    pure ((), { obs := [strTok (S (pathJoin (es.map String.toList)))], branch := "join" })
  | _ => none

def machine : Machine := { σ := Unit, name := "np", init := fun _ => some (), step := step }

end C36

def main (args : List String) : IO UInt32 := runMachines [C36.machine] args
