import Driver.Frame
import KrakenModel.Model.CAStoreMem
/-
  Shared replay code for the `castore` transcripts (used by Driver/C01 and Driver/C13):
  parsing of the records written by harness/lib/store/zz_verif_c01_test.go, the oracle tables for
  the uninterpreted functions (`tbl sha`, `tbl crc` rows computed by Go's crypto/sha256 and
  hash/crc32), and the replay of one record on `Model.CAStoreMem`.
-/
open Driver KrakenModel KrakenModel.CAStoreMem

namespace CAStoreRepl

structure Tables where
  sha : Std.HashMap String String := {}    -- byte token → lowercase hex digest
  crc : Std.HashMap String Nat := {}       -- byte token → crc32

def Tables.H (t : Tables) (b : Bytes) : String := (t.sha.get? (bytesTok b)).getD ("!nosha:" ++ hexOf b)
/-- 2^32 is not a CRC-32 value: a missing row can never make the model agree by accident -/
def Tables.crcOf (t : Tables) (b : Bytes) : Nat := (t.crc.get? (bytesTok b)).getD 4294967296
def Tables.hasSha (t : Tables) (b : Bytes) : Bool := (t.sha.get? (bytesTok b)).isSome
def Tables.hasCrc (t : Tables) (b : Bytes) : Bool := (t.crc.get? (bytesTok b)).isSome

def resTok : Res → String
  | .ok => "ok"
  | .notExist => "notexist"
  | .exist => "exist"
  | .write => "write"
  | .verify => "fail"
  | .badMeta => "fail"
  | .other => "fail"

def att? (tok : String) : Option Attempt :=
  if tok.endsWith "!" then (bytes? (tok.dropEnd 1).toString).map fun b => { data := b, fail := true }
  else (bytes? tok).map fun b => { data := b, fail := false }

def atts? (tok : String) : Option (List Attempt) := (list? tok).mapM att?

def miTok (mi : MemCache.MetaInfo) : String :=
  s!"{mi.name}:{mi.length}:{mi.pieceLength}:" ++
    (if mi.sums.isEmpty then "-" else ".".intercalate (mi.sums.map toString))

def mi? (tok : String) : Option MemCache.MetaInfo :=
  match tok.splitOn ":" with
  | [n, l, p, ss] => do
    let l ← l.toNat?
    let p ← p.toInt?
    let sums ← if ss = "-" then some [] else (ss.splitOn ".").mapM (·.toNat?)
    pure { name := n, length := l, pieceLength := p, sums := sums }
  | _ => none

/-- configuration tokens as given to `newCAStore`; `applyDefaults` is replayed here -/
def cfg? (toks : List String) : Option Cfg := do
  let mem ← (kv? toks "mem").bind bool?
  let max ← (kv? toks "max").bind nat?
  let retries ← (kv? toks "retries").bind nat?
  let ttl ← (kv? toks "ttl").bind nat?
  let skip ← (kv? toks "skip").bind bool?
  if max ≥ MemCache.two64 then none else
  pure { memEnabled := mem, maxSize := max, drainMaxRetries := if retries = 0 then 3 else retries,
         ttl := if ttl = 0 then 300000000000 else ttl, skipVerify := skip }

def probeObs (s : State) (n : Name) : List String :=
  [ "r=" ++ (match readable s n with | some b => bytesTok b | none => "notexist"),
    "s=" ++ (match statSize s n with | some k => toString k | none => "notexist"),
    "m=" ++ (match metainfo s n with | some mi => miTok mi | none => "notexist"),
    "mem=" ++ boolTok (inMem s n) ]

/-- insertion sort on strings (for `ListCacheFiles` as a sorted, duplicate-free list) -/
def insSorted (x : String) : List String → List String
  | [] => [x]
  | y :: ys => if x < y then x :: y :: ys else if x = y then y :: ys else y :: insSorted x ys

def sortDedup (xs : List String) : List String := xs.foldr insSorted []

structure Core where
  m : State
  t : Tables := {}
  handles : List (String × Reader) := []     -- readers held open by the harness
  rps : Nat := 0                             -- ReadPartSize of the store (only labels branches: contents do not depend on it)

/-- the accounting token the harness appends to every mutating operation when the memory cache is on:
TotalBytes/NumEntries as reported, bytes/number of the entries present -/
def acctTok (s : State) : List String :=
  if s.cfg.memEnabled then
    [s!"acct={s.mem.total}/{MemCache.numEntries s.mem}/{MemCache.stored s.mem}/{MemCache.numEntries s.mem}"]
  else []

/-- branch suffix: a refused stream of at least 128 KB that does not end on a 128 KB boundary, read through
part-limited file reads (ReadPartSize ≠ 0) -/
def tail128k (c : Core) (len : Nat) : String :=
  if c.rps ≠ 0 ∧ len ≥ 131072 ∧ len % 131072 ≠ 0 then ".rps.tail128k" else ""

def mutating : List String :=
  ["createUpload", "writeUpload", "commit", "createCache", "writeBlob", "genMeta", "drain", "ttl", "delete", "block", "unblock"]

/-- replay of one record; result: new core, the model's observation, branch id -/
def step1 (c : Core) (kind : String) (args : List String) : Option (Core × List String × String) :=
  let H := c.t.H
  let crc := c.t.crcOf
  match kind, args with
  | "tbl", ["sha", b, h] => do
    let _ ← bytes? b
    pure ({ c with t := { c.t with sha := c.t.sha.insert b h } }, [], "")
  | "tbl", ["crc", b, v] => do
    let _ ← bytes? b
    let v ← nat? v
    pure ({ c with t := { c.t with crc := c.t.crc.insert b v } }, [], "")
  | "op", ["createUpload", u] =>
    let (m, r) := createUpload c.m u
    some ({ c with m }, [resTok r], s!"createUpload.{resTok r}")
  | "op", ["writeUpload", u, off, b] => do
    let off ← nat? off
    let b ← bytes? b
    let (m, r) := writeUpload c.m u off b
    pure ({ c with m }, [resTok r], s!"writeUpload.{resTok r}")
  | "op", ["commit", u, n, have_] =>
    -- `have_` is the content of the upload file as read back by the harness just before the call
    let mine := match KV.get c.m.uploads u with | some b => bytesTok b | none => "-"
    if mine ≠ have_ then some (c, ["upload-content", mine], "commit.content-diff") else
    let (m, r) := commitUpload H c.m u n
    let br := match r with | .verify => "commit.verify" ++ tail128k c (have_.length / 2) | r => s!"commit.{resTok r}"
    some ({ c with m }, [resTok r], br)
  | "op", ["createCache", n, b] => do
    let b ← bytes? b
    let (m, r) := createCache H crc c.m n b
    let br := match r with | .verify => "createCache.verify" ++ tail128k c b.length | r => s!"createCache.{resTok r}"
    pure ({ c with m }, [resTok r], br)
  | "op", ["writeBlob", n, size, pl, atts] => do
    let size ← nat? size
    let pl ← int? pl
    let atts ← atts? atts
    if size ≥ MemCache.two64 then none else
    let viaMem := c.m.cfg.memEnabled && (MemCache.tryReserve c.m.mem size).2
    let (m, r) := writeBlob H crc c.m n size atts pl
    let path := if !viaMem then "disk" else if inMem m n ∧ ¬ inMem c.m n then "mem" else "mem-fallback"
    let rs := match r with | .verify => "verify" | .badMeta => "badmeta" | r => resTok r
    pure ({ c with m }, [resTok r], s!"writeBlob.{path}.{rs}")
  | "op", ["genMeta", n, pl] => do
    let pl ← int? pl
    let (m, r) := genMetaFromFile crc c.m n pl
    pure ({ c with m }, [resTok r], s!"genMeta.{resTok r}")
  | "op", ["drain"] =>
    let br := match c.m.queue with
      | [] => "drain.empty"
      | it :: _ =>
        let (_, r) := writeDrainItem H crc { c.m with queue := c.m.queue.drop 1 } it
        if r = .ok then "drain.ok" else if it.retries < c.m.cfg.drainMaxRetries then "drain.retry" else "drain.giveup"
    some ({ c with m := drainNext H crc c.m }, ["ok"], br)
  | "op", ["ttl"] =>
    let n := (MemCache.expired c.m.mem c.m.now c.m.cfg.ttl).length
    some ({ c with m := ttlSweep c.m }, ["ok"], if n = 0 then "ttl.none" else "ttl.expired")
  | "op", ["tick", dt] => do
    let dt ← nat? dt
    pure ({ c with m := { c.m with now := c.m.now + dt } }, ["ok"], "tick")
  | "op", ["delete", n] =>
    let (m, r) := deleteCache c.m n
    some ({ c with m }, [resTok r], s!"delete.{resTok r}")
  | "op", ["block", p] =>
    let (m, r) := block c.m p
    some ({ c with m }, [resTok r], s!"block.{resTok r}")
  | "op", ["unblock", p] =>
    let (m, r) := unblock c.m p
    some ({ c with m }, [resTok r], s!"unblock.{resTok r}")
  | "op", ["open", n, h] =>
    match openReader c.m n with
    | some r => some ({ c with handles := (h, r) :: c.handles.filter (·.1 ≠ h) }, ["ok"], if inMem c.m n then "open.mem" else "open.disk")
    | none => some (c, ["notexist"], "open.notexist")
  | "op", ["readh", h] =>
    match c.handles.find? (·.1 = h) with
    | some (_, r) =>
      let stale := readable c.m r.name ≠ some r.bytes
      some ({ c with handles := c.handles.filter (·.1 ≠ h) }, [bytesTok (r.readAll c.m)], if stale then "readh.after-change" else "readh.current")
    | none => some (c, ["nohandle"], "readh.nohandle")
  | "op", ["probe", n] =>
    let o := probeObs c.m n
    let br := (if inMem c.m n then "probe.mem" else if (readable c.m n).isSome then "probe.disk" else "probe.absent") ++
      (if (metainfo c.m n).isSome then "+mi" else "")
    some (c, o, br)
  | "op", ["list"] => some (c, [listTok (sortDedup (listed c.m))], "list")
  | _, _ => none

def step (c : Core) (kind : String) (args : List String) : Option (Core × List String × String) := do
  let (c', obs, br) ← step1 c kind args
  if kind = "op" ∧ (args.headD "") ∈ mutating ∧ obs.head? ≠ some "upload-content" then
    pure (c', obs ++ acctTok c'.m, br)
  else pure (c', obs, br)

end CAStoreRepl
