import Driver.Frame
import KrakenModel.Model.AgentTorrent
/- Driver for C03.
   machine `at`  : replays sequential and gate-scheduled WritePiece histories on the small-step model
                   (the harness pauses the real goroutines at the model's program points) and
                   monitors the property's predicates on what the implementation reported;
   machine `atc` : free-running concurrent writers; only monitors (history + final state). -/
open Driver KrakenModel.AgentTorrent

namespace C03

/-! CRC-32 (IEEE), the instantiation of the model's `crc` parameter in the driver -/
def crcByte (c b : Nat) : Nat :=
  (List.range 8).foldl (fun x _ => if x % 2 = 1 then (x >>> 1) ^^^ 0xEDB88320 else x >>> 1) (c ^^^ b)

def crc32 (bs : List Nat) : Nat := (bs.foldl crcByte 0xFFFFFFFF) ^^^ 0xFFFFFFFF

def resTok : Res → String
  | .ok => "ok" | .errIndex => "errIndex" | .errLength => "errLength" | .errComplete => "errComplete"
  | .errConflict => "errConflict" | .errSum => "errSum" | .errStore => "errStore" | .panic => "panic"

def bitsTok (bs : List Bool) : String :=
  if bs.isEmpty then "-" else String.ofList (bs.map fun b => if b then '1' else '0')

def natsTok (xs : List Nat) : String := listTok (xs.map toString)

/-- the gate (harness name) in front of each program point -/
def gateTok : PC → Option String
  | .fastComplete => some "fc" | .fastDirty => some "fd" | .tryDirty => some "td"
  | .openFile => some "g1" | .writing => some "g2" | .setMeta => some "g3"
  | .markComplete => some "mc" | .incNum => some "in" | .loadNum => some "ld"
  | .move => some "g4" | .setCommitted => some "sc" | .markEmpty => some "me"
  | _ => none

/-- a thread stops at the gates that are active in this case -/
def atStop (gates : List String) (pc : PC) : Bool :=
  pc == .done || (match gateTok pc with | some g => gates.contains g | none => false)

/-- run thread `tid` until it is paused at an active gate or done -/
def runToGate (gates : List String) (k : Nat) : Nat → State → Nat → State
  | 0, s, _ => s
  | f + 1, s, tid =>
    -- without the g2 gate the payload reader is not throttled: every Read returns all that is left
    let s' := stepThread crc32 s tid (if gates.contains "g2" then k else 1073741824)
    match s'.threads[tid]? with
    | some t => if atStop gates t.pc then s' else runToGate gates k f s' tid
    | none => s'

/-- impl-side view of a worker (from the transcript only) -/
structure W where
  name : String
  tid : Nat
  pi : Int
  payload : Bytes
  pos : String := "new"     -- new | g1 | g2 | g3 | g4 | done
  deriving Inhabited

structure St where
  m : State
  pl : Nat
  blob : Bytes
  ws : List W := []
  verified : List Nat := []   -- pieces for which the implementation accepted the blob's bytes
  desync : Option String := none   -- first disagreement between model and implementation (reported at `done`)
  gates : List String := ["g1", "g2", "g3", "g4"]
  deleted : Bool := false      -- the download entry was deleted under the torrent (harness op `delfile`)

def npieces (s : St) : Nat := numPiecesOf s.pl s.blob.length

/-- the payload is exactly the blob's piece `pi` -/
def isPiece (s : St) (pi : Int) (p : Bytes) : Bool :=
  0 ≤ pi && pi.toNat < npieces s && p == pieceOf s.pl s.blob pi.toNat

/-- checksum separation fails for this payload (a CRC collision): monitors are muted -/
def collides (s : St) (pi : Int) (p : Bytes) : Bool :=
  0 ≤ pi && pi.toNat < npieces s && p != pieceOf s.pl s.blob pi.toNat &&
    p.length == (pieceOf s.pl s.blob pi.toNat).length && crc32 p == crc32 (pieceOf s.pl s.blob pi.toNat)

/-- gate positions at which a parked writer owns its piece (dirty) -/
def holdingPos (p : String) : Bool := p == "g1" || p == "g2" || p == "g3" || p == "mc" || p == "me"

/-- gate positions reached only after the checksum matched -/
def acceptedPos (p : String) : Bool := p == "g3" || p == "mc" || p == "in" || p == "ld" || p == "g4" || p == "sc" || p == "ok"

/-- gate positions reached only after the piece was marked complete -/
def completedPos (p : String) : Bool := p == "in" || p == "ld" || p == "g4" || p == "sc" || p == "ok"

def init (cfg : List String) : Option St := do
  let pl ← (kv? cfg "pl").bind nat?
  let blob ← (kv? cfg "blob").bind bytes?
  if pl = 0 then none else
  let gates := match kv? cfg "gates" with | some g => list? g | none => ["g1", "g2", "g3", "g4"]
  some { m := KrakenModel.AgentTorrent.init (MetaInfo.ofBlob crc32 pl blob), pl := pl, blob := blob, gates := gates }

def allDone (s : St) : Bool := s.ws.all (·.pos == "done")

/-- monitors on an accepted / rejected write, from the implementation's answer only -/
def resultMon (s : St) (me : Option String) (pi : Int) (p : Bytes) (impl : String) (selfCompleted : Bool := false) : List String :=
  let others := s.ws.filter fun w => some w.name ≠ me && holdingPos w.pos && w.pi == pi
  (if acceptedPos impl && !isPiece s pi p && !collides s pi p then
    [s!"side=impl key=accepted-corrupt payload for index {pi} accepted ({impl}) although it is not the blob's piece"] else []) ++
  (if impl == "panic" then [s!"side=impl key=panic WritePiece panicked for index {pi}"] else []) ++
  (if completedPos impl && !selfCompleted && 0 ≤ pi && s.verified.contains pi.toNat then
    [s!"side=impl key=double-accept a second writer completed piece {pi}"] else []) ++
  (if impl == "errConflict" && others.isEmpty then
    [s!"side=impl key=conflict-without-writer index {pi} reported as being written while no writer holds it"] else []) ++
  (if impl == "errComplete" && !(0 ≤ pi && s.verified.contains pi.toNat) then
    [s!"side=impl key=complete-unverified index {pi} reported complete although no correct payload was accepted"] else []) ++
  (if (impl == "errSum") && isPiece s pi p then
    [s!"side=impl key=rejected-correct the blob's piece {pi} was rejected with a checksum error"] else []) ++
  (if holdingPos impl && !others.isEmpty then
    [s!"side=impl key=double-writer two writers hold piece {pi} at the same time"] else [])

def markVerified (s : St) (pi : Int) (p : Bytes) (impl : String) : St :=
  if completedPos impl && isPiece s pi p && !s.verified.contains pi.toNat then
    { s with verified := pi.toNat :: s.verified } else s

def obsMon (s : St) (impl : List String) : List String :=
  match kv? impl "bf", (kv? impl "bd").bind nat?, kv? impl "complete", kv? impl "file", kv? impl "cache" with
  | some bf, some bd, some cm, some fileTok, some cacheTok =>
    let bits := if bf == "-" then [] else bf.toList.map (· == '1')
    let n := npieces s
    let setBits := (List.range bits.length).filter fun i => bits.getD i false
    let allV := (List.range n).all fun i => s.verified.contains i
    (if bits.length ≠ n then [s!"side=impl key=bitfield-size bitfield has {bits.length} bits for {n} pieces"] else []) ++
    (setBits.filter (fun i => !s.verified.contains i)).map (fun i =>
      s!"side=impl key=bitfield-unverified piece {i} reported complete although no correct payload was accepted") ++
    ((List.range n).filter (fun i => s.verified.contains i && !(bits.getD i false))).map (fun i =>
      s!"side=impl key=bitfield-lost piece {i} was verified but is not reported complete") ++
    (if cm == "1" && !allV then ["side=impl key=complete-early Complete() is true before every piece was verified"] else []) ++
    (if cm == "1" && setBits.length ≠ n then [s!"side=impl key=complete-with-hole Complete() is true while the bitfield shows {setBits.length} of {n} pieces"] else []) ++
    (if cm == "0" && allV && allDone s then ["side=impl key=complete-missed every piece is verified, no call in flight, Complete() is false"] else []) ++
    (if bd ≠ min (setBits.length * s.pl) s.blob.length && !(s.ws.any (·.pos == "in")) then
      [s!"side=impl key=progress-mismatch BytesDownloaded={bd} with {setBits.length} complete pieces"] else []) ++
    (match bytes? fileTok with
     | some f =>
       (if f.length ≠ s.blob.length then [s!"side=impl key=file-length data file has {f.length} bytes, blob {s.blob.length}"] else []) ++
       (s.verified.filter fun i => (f.drop (s.pl * i)).take s.pl != pieceOf s.pl s.blob i).map (fun i =>
         s!"side=impl key=verified-piece-changed bytes of verified piece {i} in the data file differ from the blob")
     | none => []) ++
    (if cm == "1" && cacheTok == "-" then
      ["side=impl key=complete-without-cache-file Complete() is true but the blob is not in the cache"] else []) ++
    (if cacheTok == "-" then [] else
      (if !allV then ["side=impl key=cache-early file is in the cache before every piece was verified"] else []) ++
      (if bytes? cacheTok ≠ some s.blob then ["side=impl key=cache-differs cached file differs from the blob"] else []))
  | _, _, _, _, _ => []

def findW (s : St) (name : String) : Option W := s.ws.find? (·.name == name)

def setW (s : St) (w : W) : St := { s with ws := s.ws.map fun x => if x.name == w.name then w else x }

def stepCore (s : St) (kind : String) (args impl : List String) : Option (St × StepOut) :=
  if kind ≠ "op" then none else
  match args with
  | ["metainfo"] =>
    let mi := s.m.mi
    some (s, { obs := [toString mi.length, toString mi.numPieces, natsTok mi.sums], branch := "metainfo" })
  | ["plen", piT] => do
    let pi ← int? piT
    pure (s, { obs := [toString (s.m.mi.pieceLength pi)], branch := "plen" })
  | ["write", piT, pT] => do
    let pi ← int? piT
    let p ← bytes? pT
    let tid := s.m.threads.length
    let m1 := KrakenModel.AgentTorrent.step crc32 s.m (.spawn pi p)
    let m2 := runThread crc32 (max 1 p.length) 64 m1 tid
    let r ← (m2.threads[tid]?).bind (·.result)
    let implR := impl.headD ""
    let pf := resultMon s none pi p implR
    let s' := markVerified { s with m := m2 } pi p implR
    pure (s', { obs := [resTok r], branch := s!"write.{resTok r}", propfails := pf })
  | ["spawn", name, piT, pT] => do
    let pi ← int? piT
    let p ← bytes? pT
    if (findW s name).isSome then none else
    let tid := s.m.threads.length
    let m1 := KrakenModel.AgentTorrent.step crc32 s.m (.spawn pi p)
    pure ({ s with m := m1, ws := s.ws ++ [{ name := name, tid := tid, pi := pi, payload := p }] },
          { obs := ["ok"], branch := "spawn" })
  | ["run", name, kT] => do
    let k ← nat? kT
    let w ← findW s name
    -- model part (skipped when the model's call already ended: model and implementation disagreed before)
    let t0? := s.m.threads[w.tid]?
    let live := match t0? with | some t0 => t0.pc != .done | none => false
    let m1 := if live then runToGate s.gates k 64 s.m w.tid else s.m
    let obs := if !live then ["model-call-ended"] else
      match m1.threads[w.tid]? with
      | some t => (match gateTok t.pc, t.result with
        | some g, _ => ["at", g]
        | none, some r => ["done", resTok r]
        | none, none => ["stuck"])
      | none => ["stuck"]
    -- implementation part
    let implPos := match impl with
      | ["at", g] => g
      | ["done", r] => r
      | _ => "?"
    let pf := resultMon s (some name) w.pi w.payload implPos (completedPos w.pos)
    let s1 := markVerified { s with m := m1 } w.pi w.payload implPos
    let newPos := match impl with
      | ["at", g] => g
      | _ => "done"
    let s2 := setW s1 { w with pos := newPos }
    let pc0 := match t0? with | some t0 => ((toString (repr t0.pc)).splitOn ".").getLastD "-" | none => "-"
    pure (s2, { obs := obs, branch := s!"run.{pc0}.{"_".intercalate obs}", propfails := pf })
  | ["burst", namesT, kT] => do
    -- several parked writers are released at the same instant; the implementation's answer tells who got
    -- ahead: the model follows that order (writers that end up owning / having completed their piece first)
    let k ← nat? kT
    let names := list? namesT
    let implOf (n : String) : String :=
      match impl.find? (fun t => t.startsWith (n ++ "=")) with
      | some t => (t.drop (n.length + 1)).toString
      | none => "?"
    let rankOf (n : String) : Nat :=
      let r := implOf n
      if r.startsWith "at." then 0 else if r == "done.ok" || r == "done.errSum" then 1 else 2
    let ordered := (names.filter (rankOf · == 0)) ++ (names.filter (rankOf · == 1)) ++ (names.filter (rankOf · == 2))
    let step1 := fun (acc : St × List (String × String) × List String) (n : String) =>
      let (st, outs, pfs) := acc
      match findW st n with
      | none => acc
      | some w =>
        let live := match st.m.threads[w.tid]? with | some t0 => t0.pc != .done | none => false
        let m1 := if live then runToGate st.gates k 64 st.m w.tid else st.m
        let o := if !live then "model-call-ended" else
          match m1.threads[w.tid]? with
          | some t => (match gateTok t.pc, t.result with
            | some g, _ => s!"at.{g}"
            | none, some r => s!"done.{resTok r}"
            | none, none => "stuck")
          | none => "stuck"
        let r := implOf n
        let implPos := if r.startsWith "at." then (r.drop 3).toString else if r.startsWith "done." then (r.drop 5).toString else "?"
        let pf := resultMon st (some n) w.pi w.payload implPos (completedPos w.pos)
        let st1 := markVerified { st with m := m1 } w.pi w.payload implPos
        let st2 := setW st1 { w with pos := if r.startsWith "at." then implPos else "done" }
        (st2, outs ++ [(n, o)], pfs ++ pf)
    let (s', outs, pfs) := ordered.foldl step1 (s, [], [])
    let obs := names.map fun n => match outs.find? (·.1 == n) with | some (_, o) => s!"{n}={o}" | none => s!"{n}=?"
    let winners := (names.filter (rankOf · == 0)).length
    pure (s', { obs := obs, branch := s!"burst.w{winners}", propfails := pfs })
  | ["obs"] =>
    let m := s.m
    let obs := [s!"bf={bitsTok (bitfield m)}", s!"bd={bytesDownloaded m}", s!"complete={boolTok (complete m)}",
                s!"missing={natsTok (missing m)}", s!"file={bytesTok m.file}",
                s!"cache={if m.inCache then bytesTok m.file else "-"}"]
    some (s, { obs := obs, branch := s!"obs.c{boolTok (complete m)}", propfails := obsMon s impl })
  | ["read", piT] => do
    let pi ← int? piT
    let r := readPiece s.m pi
    let obs := match r with
      | .bytes b => ["bytes", bytesTok b]
      | .errIndex => ["errIndex"]
      | .errNotComplete => ["errNotComplete"]
      | .panic => ["panic"]
    let pf := match impl with
      | ["bytes", bT] =>
        (if !(0 ≤ pi && s.verified.contains pi.toNat) then [s!"side=impl key=read-unverified piece {pi} served although it was never verified"] else []) ++
        (if 0 ≤ pi && pi.toNat < npieces s && bytes? bT ≠ some (pieceOf s.pl s.blob pi.toNat) then
          [s!"side=impl key=read-wrong piece {pi} served with bytes that differ from the blob"] else [])
      | ["panic"] => [s!"side=impl key=panic GetPieceReader panicked for index {pi}"]
      | _ => []
    pure (s, { obs := obs, branch := s!"read.{obs.headD ""}", propfails := pf })
  | ["has", piT] => do
    let pi ← int? piT
    let obs := match hasPiece s.m pi with
      | some b => [boolTok b]
      | none => ["panic"]
    let pf := match impl with
      | ["1"] => if !(0 ≤ pi && s.verified.contains pi.toNat) then [s!"side=impl key=bitfield-unverified HasPiece({pi}) although never verified"] else []
      | ["panic"] => [s!"side=impl key=panic HasPiece panicked for index {pi}"]
      | _ => []
    pure (s, { obs := obs, branch := s!"has.{obs.headD ""}", propfails := pf })
  | ["delfile"] =>
    -- the download entry is deleted while the torrent instance lives on. Not part of the Lean model (its
    -- theorems are about a torrent that is not deleted under in-flight calls): from here to the next `recreate`
    -- the model is not compared, only the monitors that stay meaningful judge the implementation.
    let ok := impl == ["ok"]
    let atMove := s.ws.any (·.pos == "g4")
    some ({ s with deleted := s.deleted || ok },
          { obs := impl, branch := if !ok then "delfile.refused" else if atMove then "delfile.download-deleted-before-commit" else "delfile.ok" })
  | ["closefail"] =>
    -- the next Close of the download file handle reports an error; WritePiece ignores it (the bytes were
    -- written and verified before): no effect in the model
    some (s, { obs := ["ok"], branch := "closefail" })
  | ["tornreopen", nT] => do
    let n ← nat? nT
    if !quiescent s.m || s.m.inCache then none else
    let same := n == s.m.status.length
    -- a status vector of the wrong length is discarded: every piece is empty again, the old calls are gone
    pure ({ s with m := KrakenModel.AgentTorrent.step crc32 s.m (.tornReopen n),
                   verified := if same then s.verified else [], ws := if same then s.ws else [] },
          { obs := ["ok"], branch := if same then "tornreopen.same" else if n < s.m.status.length then "tornreopen.short" else "tornreopen.long" })
  | ["recreate"] =>
    if !quiescent s.m then none else
    some ({ s with m := KrakenModel.AgentTorrent.step crc32 s.m .recreate, verified := [], ws := [], deleted := false },
          { obs := ["ok"], branch := "recreate" })
  | ["reopen"] =>
    if !quiescent s.m then none else
    some ({ s with m := KrakenModel.AgentTorrent.step crc32 s.m .reopen }, { obs := ["ok"], branch := "reopen" })
  | _ => none

/-- A disagreement between model and implementation must not stop the monitors (the frame drops the
    rest of a case after a DIFF): it is remembered and reported by the closing `done` record. -/
def step (s : St) (kind : String) (args impl : List String) : Option (St × StepOut) :=
  if kind = "op" ∧ args = ["done"] then
    some (s, { obs := match s.desync with | none => ["ok"] | some d => ["desync", d], branch := "done" })
  else match stepCore s kind args impl with
    | none => if s.deleted then some (s, { obs := impl, branch := "after-delete.skipped" }) else none
    | some (s', out) =>
      if s.deleted && args != ["recreate"] then
        let keep := ["key=complete-without-cache-file", "key=cache-differs", "key=cache-early", "key=accepted-corrupt", "key=panic"]
        let pf := out.propfails.filter fun p => keep.any fun k => (p.splitOn k).length > 1
        -- a write that returns ok although the entry is gone and nothing is in the cache
        some ({ s' with desync := s'.desync }, { obs := impl, branch := "after-delete." ++ (args.headD "?"), propfails := pf })
      else if !impl.isEmpty && out.obs != impl then
        let d := (s!"{sp args}:model={sp out.obs}:impl={sp impl}").replace " " "_"
        some ({ s' with desync := s'.desync <|> some d }, { out with obs := impl, branch := out.branch ++ "!desync" })
      else some (s', out)

def machine : Machine := { σ := St, name := "at", init := init, step := step }

/-! ### free-running concurrent writers: history monitors -/

structure CW where
  id : String
  pi : Int
  payload : Bytes
  inv : Nat
  resp : Nat
  res : String

structure CSt where
  base : St
  hist : List CW := []

def cinit (cfg : List String) : Option CSt := (init cfg).map fun b => { base := b }

def cstep (s : CSt) (kind : String) (args impl : List String) : Option (CSt × StepOut) :=
  if kind ≠ "op" then none else
  match args with
  | ["w", id, piT, pT, invT, respT] => do
    let pi ← int? piT
    let p ← bytes? pT
    let inv ← nat? invT
    let resp ← nat? respT
    let res := impl.headD "?"
    pure ({ s with hist := s.hist ++ [{ id := id, pi := pi, payload := p, inv := inv, resp := resp, res := res }] },
          { obs := impl, branch := s!"w.{res}" })
  | ["obs"] =>
    let b := s.base
    -- verified: pieces with an accepted correct payload
    let verified := (s.hist.filter fun w => w.res == "ok" && isPiece b w.pi w.payload).map (·.pi.toNat)
    let b' := { b with verified := verified.eraseDups, ws := [] }
    let perWrite := s.hist.flatMap fun w =>
      let overl := s.hist.filter fun o => o.id ≠ w.id && o.pi == w.pi && o.inv < w.resp && w.inv < o.resp &&
        (o.res == "ok" || o.res == "errSum" || o.res == "errStore")
      let okBefore := s.hist.filter fun o => o.id ≠ w.id && o.pi == w.pi && o.res == "ok" && o.inv < w.resp
      (if w.res == "ok" && !isPiece b w.pi w.payload && !collides b w.pi w.payload then
        [s!"side=impl key=accepted-corrupt payload of writer {w.id} for index {w.pi} accepted although it is not the blob's piece"] else []) ++
      (if w.res == "panic" then [s!"side=impl key=panic writer {w.id} panicked for index {w.pi}"] else []) ++
      (if w.res == "ok" && s.hist.any (fun o => o.id ≠ w.id && o.pi == w.pi && o.res == "ok" && o.id < w.id) then
        [s!"side=impl key=double-accept two writers were accepted for index {w.pi} ({w.id} and another)"] else []) ++
      (if w.res == "errConflict" && overl.isEmpty then
        [s!"side=impl key=conflict-without-writer writer {w.id}: index {w.pi} reported as being written, no overlapping writer got past tryMarkDirty"] else []) ++
      (if w.res == "errComplete" && okBefore.isEmpty then
        [s!"side=impl key=complete-unverified writer {w.id}: index {w.pi} reported complete, no accepted write precedes"] else []) ++
      (if w.res == "errSum" && isPiece b w.pi w.payload then
        [s!"side=impl key=rejected-correct writer {w.id}: the blob's piece {w.pi} was rejected with a checksum error"] else [])
    some ({ s with hist := [] }, { obs := impl, branch := "cobs", propfails := perWrite ++ obsMon b' impl })
  | _ => none

def cmachine : Machine := { σ := CSt, name := "atc", init := cinit, step := cstep }

end C03

def main (args : List String) : IO UInt32 := runMachines [C03.machine, C03.cmachine] args
